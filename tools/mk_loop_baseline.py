#!/usr/bin/env python3
"""Developer tool: records, for the tree in /repo (run it on the pinned, unchanged tree only), which immutable outer locals every
annotated isolated loop already reads without its invariant mentioning them -> contracts/LOOP_LOCALS.json.  vrun uses it to tell a
hoisted expression (a NEW such local) from a contract failure."""
import json, os, sys
sys.path.insert(0, os.path.dirname(__file__))
import vx, registry
out = {}
for u in registry.VERUS_UNITS:
    _, meta = vx.process_template(u)
    ll = {k: v for k, v in meta.get('loop_locals', {}).items() if v}
    if ll:
        out[u] = ll
with open(os.path.join(vx.CONTRACTS, 'LOOP_LOCALS.json'), 'w') as f:
    json.dump(out, f, indent=1, sort_keys=True)
print('recorded', sum(len(v) for v in out.values()), 'loops in', len(out), 'units')
