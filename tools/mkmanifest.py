#!/usr/bin/env python3
"""Regenerate MANIFEST.json from tools/registry.py (run by hand after changing the registry)."""
import json
import os
import sys

ROOT = os.path.dirname(os.path.dirname(os.path.abspath(__file__)))
sys.path.insert(0, os.path.join(ROOT, 'tools'))
import registry  # noqa

BASELINE_OFF = "cd /repo && cargo test --workspace --no-fail-fast --offline"

LEVEL_TEXT = {
    'proof': ('Contract-based deductive verification: the functions named in the chain are extracted verbatim from /repo on every run, '
              'annotated with requires/ensures/invariants/decreases kept in /verif/contracts, and Verus discharges every obligation '
              'function by function for all inputs and all iterations. Parts of the chain that no installed verifier can reach are ASSUMED '
              'contracts, each checked by the bounded stand-in (exhaustive inside a stated bound, labelled bounded, not counted as proved).'),
    'exploration': ('No deductive unit decides this property yet: bounded stand-in only (exhaustive enumeration inside a stated bound of the '
                    'executable form of the property statement on the real code). Labelled bounded; not a proof.'),
}

checks = []
for pid in sorted(registry.PROPS):
    P = registry.PROPS[pid]
    proof = bool(P['verus'] or P['kani'])
    checks.append({
        'property_id': pid,
        'quick_cmd': './check %s --tier quick' % pid,
        'thorough_cmd': './check %s --tier thorough' % pid,
        'evidence_file': '/verif/evidence/%s.json' % pid,
        'replay_cmd_template': './check %s --replay {path}' % pid,
        'engine': 'verus+kani+bounded' if proof else 'bounded',
        'level_claimed': {
            'category': 'proof' if proof else 'exploration',
            'text': LEVEL_TEXT['proof' if proof else 'exploration'] + ' Chain: ' + P['chain'],
            'design_ref': 'DESIGN.md §6, §7 (%s)' % pid,
        },
        'level_note': 'Assumed/trusted: ' + ' | '.join(P['assumed'] + ['prelude std specs and Enumerate/AsRef models listed in contracts/TRUSTED.json',
                                                                      'rewrite rules R1-R15 (DESIGN.md §3.2)', 'rustc, Verus, Z3, CBMC']),
        'technique': ('contract-based deductive verification (Verus on extracted real functions' + (', Kani loop-free full-domain harnesses' if P['kani'] else '')
                      + '); assumed contracts bounded-checked') if proof else 'bounded exhaustive stand-in (no contract within reach yet)',
    })

manifest = {
    'version': 1,
    'setup_cmd': 'python3 tools/setup.py',
    'hooks': {
        'guard': 'daachorse_verif',
        'enable': 'RUSTFLAGS="--cfg daachorse_verif" on a scratch copy of /repo/src into which bounded/verif_hooks*.rs are injected at run time; no hook is committed to /repo',
        'baseline_off_cmd': BASELINE_OFF,
        'source_commits': [],
        'add_only': True,
    },
    'engines': [
        {'name': 'verus-units', 'path': 'tools/vx.py + tools/vrun.py + contracts/', 'serves_properties': sorted(p for p in registry.PROPS if registry.PROPS[p]['verus']),
         'kind_free_text': 'extract real functions, splice contracts, verify with Verus 0.2026.09.13'},
        {'name': 'bounded-standin', 'path': 'bounded/ + tools/bounded.py', 'serves_properties': sorted(registry.PROPS),
         'kind_free_text': 'exhaustive-in-bound evaluation of assumed contracts and property statements on the real code; falsifier for failed obligations'},
    ],
    'checks': checks,
    'notes': 'Repository fix commits: see known_findings.json (C10 LeftmostFirst duplicate acceptance, fixed). exit 2 = undecided (tooling), never an accusation.',
    'not_applicable': [
        {'property_id': 'C14', 'reason': 'relational (two-run, permutation) and all-schedules property: no single-call contract can state it without a full functional spec of the slot layout chosen by find_base and of the order in which the label-ordered passes number states and outputs (a second implementation, not a contract), and neither Verus (no permission types in this code) nor Kani (no threads) reasons about concurrent searches'},
        {'property_id': 'C16', 'reason': 'process-level CLI behaviour through clap-derive, termcolor and std I/O macros; none has a Verus/Kani specification and replacing them would verify a look-alike, not daacfind'},
    ],
}
with open(os.path.join(ROOT, 'MANIFEST.json'), 'w') as f:
    json.dump(manifest, f, indent=1)
print('MANIFEST.json written with', len(checks), 'checks')
