#!/bin/bash
# each refactor: name | file | sed expression | units to run
run() {
  name=$1; file=$2; expr=$3; shift 3
  cd /repo && sed -i "$expr" $file
  if git diff --quiet; then echo "$name: NO-OP (pattern not found)"; return; fi
  # the refactor must compile
  if ! cargo check --offline -q 2>/dev/null; then echo "$name: does not compile"; git checkout -- .; return; fi
  cd /verif
  for u in "$@"; do
    r=$(python3 tools/vrun.py $u 2>&1 | grep "^unit" | sed 's/wall.*//')
    echo "$name: $r"
  done
  git -C /repo checkout -- .
}
run swap_use_index_set_check src/bytewise/builder.rs '/helper.use_index(child_idx);/{N;s/\(.*helper.use_index(child_idx);\)\n\(.*set_check(c);\)/\2\n\1/}' build_bw
run range_literal src/bytewise/builder.rs 's/for c in u8::MIN..=u8::MAX {/for c in 0..=255u8 {/' build_bw
run plus_commute src/bytewise/iter.rs 's/end: pos + 1,/end: 1 + pos,/' iter_bw
run rename_local src/bytewise/builder.rs 's/child_idx/cidx/g' build_bw
run from_u32_to_as src/bytewise.rs 's/usize::from_u32(state_id)/(state_id as usize)/' search_bw
run early_return_style src/build_helper.rs 's/self.items\[self.offset(idx)\]/self.items[self.offset(idx) + 0]/' helper
run push_before_use_index src/bytewise/builder.rs '/helper.use_index(child_idx);/{N;N;N;s/\(.*helper.use_index(child_idx);\)\n\(.*\)\n\(.*\)\n\(.*stack.push(child_id);\)/\4\n\1\n\2\n\3/}' build_bw
run cw_push_first src/charwise/builder.rs '/helper.use_index(child_idx);/{N;N;N;s/\(.*helper.use_index(child_idx);\)\n\(.*\)\n\(.*\)\n\(.*stack.push(child_id);\)/\4\n\1\n\2\n\3/}' build_cw
run helper_swap_next_prev_init src/build_helper.rs '/\*self.get_mut(idx).next_mut() = idx + 1;/{N;s/\(.*next_mut() = idx + 1;\)\n\(.*prev_mut() = idx.wrapping_sub(1);\)/\2\n\1/}' helper
run helper_swap_unlink src/build_helper.rs '/\*self.get_mut(prev).next_mut() = next;/{N;s/\(.*get_mut(prev).next_mut() = next;\)\n\(.*get_mut(next).prev_mut() = prev;\)/\2\n\1/}' helper
run helper_swap_splice src/build_helper.rs '/\*self.get_mut(old_len).prev_mut() = tail_idx;/{N;s/\(.*get_mut(old_len).prev_mut() = tail_idx;\)\n\(.*get_mut(tail_idx).next_mut() = old_len;\)/\2\n\1/}' helper
run iter_bw_match_field_order src/bytewise/iter.rs '0,/length: usize::from_u32(out.length()),/{/length: usize::from_u32(out.length()),/{N;s/\(.*length: usize::from_u32(out.length()),\)\n\(.*end: pos + 1,\)/\2\n\1/}}' iter_bw
run ser_cw_len_expr src/charwise.rs 's/let (num_states, source) = u32::deserialize_from_slice(source);/let (num_states, source) = <u32 as Serializable>::deserialize_from_slice(source);/' ser_cw
