#!/usr/bin/env python3
"""Run once after a fresh restore (offline): check tools, warm the build cache of the bounded driver."""
import os
import subprocess
import sys

ROOT = os.path.dirname(os.path.dirname(os.path.abspath(__file__)))
sys.path.insert(0, os.path.join(ROOT, 'tools'))
os.environ.setdefault('CARGO_NET_OFFLINE', 'true')
ok = True
for cmd in (['verus', '--version'], ['cargo', '--version'], ['cargo', 'kani', '--version']):
    try:
        out = subprocess.run(cmd, stdout=subprocess.PIPE, stderr=subprocess.STDOUT, universal_newlines=True, timeout=120).stdout
        print(' '.join(cmd), '->', out.strip().split('\n')[0][:100])
    except Exception as e:  # noqa
        print('MISSING', cmd, e)
        ok = False
os.makedirs(os.path.join(ROOT, '.work'), exist_ok=True)
os.makedirs(os.path.join(ROOT, 'evidence'), exist_ok=True)
import bounded  # noqa: E402
binp, log = bounded.build(os.path.join(ROOT, '.work', 'setup'))
print('bounded driver:', 'built' if binp else 'BUILD FAILED\n' + log)
sys.exit(0 if ok and binp else 1)
