"""Which units decide which property.  Status letters follow DESIGN.md §6:
P = Verus proved (unbounded), K = Kani complete (loop-free, full domain), B = bounded stand-in, A = assumed.
"""

VERUS_UNITS = {
    'helper': 'build_helper.rs: every BuildHelper fn, VacantIter::next, ListItem accessors; sorted circular vacant list invariant; no assert/unwrap/index/overflow can fail',
    'build_bw': 'bytewise/builder.rs init_array, find_base, check_valid_base, extend_array, remove_invalid_checks, build_double_array + State setters + intpack: stages A+B: no assert/debug_assert/unwrap/index/arithmetic can fail for any num_free_blocks >= 1 and any tree-shaped NFA; result satisfies da_safe (len % 256 == 0, base < len, fail < len); and exists idmap. bw_encodes: every NFA edge is an array edge, the array has NO other edge out of a state slot (distinct BASE values + CHECK of every free slot sanitised by remove_invalid_checks against an unused BASE of its block, or the block is full and then has no free slot by counting), fail/output_pos are copied through idmap',
    'wrap_bw': 'bytewise/builder.rs build_sparse_nfa + build_with_values (plus everything they call: NfaBuilder::new/add, build_double_array and the helper, re-verified in the same unit; build_fails/build_fails_leftmost/build_outputs are external_body stubs carrying the ASSUMED NFA-stage contract): Ok(pma) => the collection is valid (non-empty, no empty pattern, no two equal patterns) and pma satisfies the precondition of every search entry point (bw_wf + outs_ok) and num_states + 1 == number of trie states, each of which is a non-empty prefix of a registered pattern, and the array has at least that many elements; Err(InvalidArgument) => empty collection / empty or over-long pattern; Err(DuplicatePattern) => two equal patterns; the caller-supplied collection is a finite deterministic stream (into_lawful) of fewer than usize::MAX items',
    'wrap_cw': 'charwise/builder.rs build_original_nfa_and_mapper + build_with_values and charwise/mapper.rs CodeMapper::new (plus everything they call, re-verified in the same unit; the NFA fail/output passes are external_body stubs carrying the ASSUMED NFA-stage contract): the char-wise counterpart of wrap_bw; additionally the mapper built from the character frequencies covers every label of the trie with a distinct code below alphabet_size (the precondition of the char-wise build_double_array), frequency counters do not overflow given fewer than 2^32 characters in the collection',
    'mapper_cw': 'charwise/mapper.rs CodeMapper::new alone: characters with non-zero frequency get pairwise distinct codes below alphabet_size, all others INVALID_CODE; no unwrap/index can fail for tables of at most 0x110000 entries',
    'link_bw': 'pure lemma unit over the real byte-wise State/NfaBuilder types: bw_encodes (postcondition of bytewise build_double_array) + nfa_tree + nfa_links + da_safe  ==>  bw_wf (precondition of every byte-wise transition function and iterator); the ranking witness is the NFA depth carried through idmap',
    'build_cw': 'charwise/builder.rs init_array, find_base, verify_base, extend_array, build_double_array + charwise State (Default, setters), CodeMapper::get: stages A+B: no panic for any num_free_blocks >= 1 and any tree-shaped NFA whose labels the mapper covers; len % block_len == 0, block_len a power of two >= alphabet size, base < len, fail < len; and exists idmap. cw_encodes: every NFA edge is an array edge, the array has NO other edge out of a state slot, fail/output_pos are copied through idmap',
    'link_cw': 'pure lemma unit over the real char-wise State/NfaBuilder types: cw_encodes (postcondition of charwise build_double_array) + nfa_tree + nfa_links (fail strictly shallower, or dead under leftmost) + the array-shape facts build_cw proves  ==>  cw_wf (precondition of every char-wise transition function and iterator); the ranking witness is the NFA depth carried through idmap',
    'nfa_add': 'nfa_builder.rs NfaBuilder::{add, skip_shadowed, child_id}, NfaBuilderState::default, MatchKind::is_leftmost_first, EdgeLabel trait contract: Err(InvalidArgument) iff empty/too long, Err(DuplicatePattern) only for a pattern seen before, Ok only for a new pattern and then seen\' = seen + {pattern}; trie invariant; recorded length == byte length; shadowed patterns are recorded but add no state',
    'ser': 'serializer.rs trait contracts, Option<NonZeroU32>, Vec<S>; U24nU8, State, Output<V>, MatchKind (+From<u8>/u8::from); bytewise serialize/deserialize_unchecked; C09 client',
    'ser_cw': 'serializer.rs trait contracts, Option<NonZeroU32>, Vec<S>, MatchKind, Output<V> (shared parts, re-verified) + charwise State (16 bytes), CodeMapper (SerializableVec), charwise serialize/deserialize_unchecked; executable C09 client for the char-wise automaton',
    'search_cw': 'charwise.rs child_index_unchecked / next_state_id_unchecked / next_state_id_leftmost_unchecked, CodeMapper::get, State accessors',
    'utf8': 'charwise/iter.rs CharWithEndOffsetIterator::next against the UTF-8 table: offsets, scalar values, unwrap_unchecked/from_u32_unchecked preconditions',
    'iter_cw': 'charwise/iter.rs next() of FindIterator, FindOverlappingIterator, FindOverlappingNoSuffixIterator against spec streams over the char-wise double array; laziness',
    'lm_cw': 'charwise/iter.rs LestmostFindIterator::next (str-based) and charwise.rs leftmost_find_iter: refinement of the char-level leftmost spec stream cwl_stream over the double array; the str::get_unchecked(pos..) safety condition (pos is a char boundary) is a proved precondition of the R24 wrapper at every call; every reported end offset is a char boundary inside the haystack; pos moves forward; index safety of states/outputs; termination; documented match-kind panic. Trusted: three axioms about UTF-8 boundaries of a str (ghost_str.rs)',
    'ctor_bw': 'bytewise.rs all seven find_*/leftmost constructors, U8SliceIterator::{new,next} (next checked against vstd prophetic iterator laws with remaining() == unread slice bytes), MatchKind::{is_standard,is_leftmost}: documented match-kind panics, iterator invariants established from the automaton invariant, slice entry == iterator entry',
    'ctor_cw': 'charwise.rs find_*_iter_from_iter constructors and the three str entry points (find_iter, find_overlapping_iter, find_overlapping_no_suffix_iter) + CharWithEndOffsetIterator::new + StrIterator::{new,next} (next checked against vstd prophetic iterator laws with remaining() == unread bytes of the str): documented match-kind panics, the iterator invariants are established from the automaton invariant, the unsafe decoder constructor is only given well-formed UTF-8 (trusted: a str is valid UTF-8), str entry == iterator entry',
    'search_bw': 'bytewise.rs child_index_unchecked / next_state_id_unchecked / next_state_id_leftmost_unchecked, State accessors, intpack getters',
    'iter_bw': 'bytewise/iter.rs next() of the four iterators against spec streams over the double array; laziness; index safety',
}

# composite units: canary only on the functions the unit adds (the rest is canaried in the units it is composed of)
CANARY_ONLY = {'wrap_bw': ['build_sparse_nfa', 'build_with_values'], 'wrap_cw': ['build_original_nfa_and_mapper', 'build_with_values']}

KANI_SER = ['ser_u8', 'ser_u16', 'ser_u32', 'ser_u64', 'ser_u128', 'ser_usize', 'ser_i8', 'ser_i16', 'ser_i32', 'ser_i64', 'ser_i128', 'ser_isize', 'ser_empty']
KANI_HARNESSES = {h: 'little-endian primitive Serializable impl: bytes, size, exact inverse with symbolic tail (full domain)' for h in KANI_SER}
KANI_HARNESSES.update({'num_bytes_labels': 'EdgeLabel::num_bytes: 1 for u8, the UTF-8 length for every char',
                       'from_u32': 'usize::from_u32 is lossless, unwrap_unchecked only on Ok (all u32)',
                       'intpack_u24nu8': 'U24nU8 a/b/set_a/set_b and U24::try_from (all raw values)',
                       'utf8_decoder_two_chars': 'CharWithEndOffsetIterator::next on every ordered pair of chars: end offsets, scalar values, unwrap_unchecked on Some'})

NFA_ASSUMED = ('NFA stage (nfa_builder.rs: add, build_fails, build_fails_leftmost, build_outputs): its contract '
               '(nfa_tree, nfa_links, nfa_is_ac) is ASSUMED by the deductive chain and checked exhaustively inside the '
               'stated bound by the stand-in')
DA_ASSUMED = ('DA stage: both build_double_array functions are proved to encode the NFA with no spurious edge (P: build_bw '
              'bw_encodes, build_cw cw_encodes) and encodes => well-formed-for-search is proved (P: link_bw, link_cw), given '
              'the NFA-stage contract; not proved: termination of the placement loop (find_base always returns, the loop '
              'body is panic-free, but no variant is given); the stand-in additionally evaluates encodes/da_safe/da_ranked '
              'on every automaton it builds')
AC_ASSUMED = ('spec stream over the double array == property-level semantics over the patterns (Aho-Corasick correctness '
              'AC-1/AC-2): not proved deductively; the stand-in compares the real iterators with the transcribed statement')

PROPS = {
    'C01': dict(verus=['search_bw', 'iter_bw', 'build_bw', 'link_bw', 'wrap_bw', 'search_cw', 'utf8', 'iter_cw', 'build_cw', 'link_cw', 'wrap_cw'], kani=[], bounded=True,
                chain='FindOverlappingIterator::next refines ovl_stream (P) <- next_state_id_unchecked == delta (P) <- bw_wf/cw_wf (P: link_bw, link_cw) <- encodes, no spurious edge (P: build_bw, build_cw) <- NFA-stage contract nfa_tree/nfa_links (B); ovl_stream == sem_overlapping (B)',
                assumed=[NFA_ASSUMED, DA_ASSUMED, AC_ASSUMED]),
    'C02': dict(verus=['search_bw', 'iter_bw', 'build_bw', 'link_bw', 'wrap_bw', 'search_cw', 'utf8', 'iter_cw', 'build_cw', 'link_cw', 'wrap_cw'], kani=[], bounded=True,
                chain='FindIterator::next refines find_stream incl. restart at root (P); rest as C01',
                assumed=[NFA_ASSUMED, DA_ASSUMED, AC_ASSUMED]),
    'C03': dict(verus=['search_bw', 'iter_bw', 'build_bw', 'link_bw', 'wrap_bw', 'search_cw', 'build_cw', 'link_cw', 'wrap_cw', 'lm_cw'], kani=[], bounded=True,
                chain='LestmostFindIterator::next refines lm_stream (P, byte-wise) over an array proved to encode the NFA (P: build_bw, link_bw; char-wise build_cw, link_cw); char-wise str-based LestmostFindIterator::next refines cwl_stream (P: lm_cw); dead-fail construction in build_fails_leftmost: B',
                assumed=[NFA_ASSUMED, DA_ASSUMED, AC_ASSUMED]),
    'C04': dict(verus=['search_bw', 'iter_bw', 'build_bw', 'link_bw', 'wrap_bw', 'search_cw', 'build_cw', 'link_cw', 'wrap_cw', 'lm_cw'], kani=[], bounded=True,
                chain='as C03; shadowing at insertion (B)',
                assumed=[NFA_ASSUMED, DA_ASSUMED, AC_ASSUMED]),
    'C05': dict(verus=['search_bw', 'iter_bw', 'build_bw', 'link_bw', 'wrap_bw', 'search_cw', 'utf8', 'iter_cw', 'build_cw', 'link_cw', 'wrap_cw'], kani=[], bounded=True,
                chain='FindOverlappingNoSuffixIterator::next refines nosuf_stream with persistent state (P); rest as C01',
                assumed=[NFA_ASSUMED, DA_ASSUMED, AC_ASSUMED]),
    'C06': dict(verus=['search_bw', 'iter_bw', 'build_bw', 'link_bw', 'wrap_bw', 'search_cw', 'utf8', 'iter_cw', 'build_cw', 'link_cw', 'wrap_cw', 'ser', 'nfa_add', 'lm_cw'], kani=['num_bytes_labels'], bounded=True,
                chain='every returned Match is mk_match(outputs[opos-1], end) (P); outputs[j] == (value_i, |p_i|) (B)',
                assumed=[NFA_ASSUMED, DA_ASSUMED]),
    'C07': dict(verus=['search_bw', 'iter_bw', 'build_bw', 'link_bw', 'wrap_bw', 'helper', 'build_cw', 'link_cw', 'wrap_cw', 'search_cw', 'utf8', 'iter_cw', 'ctor_bw', 'ctor_cw', 'lm_cw'], kani=['from_u32', 'utf8_decoder_two_chars'], bounded=True,
                chain='every get_unchecked / unwrap_unchecked / from_u32_unchecked in search code and iterators is an index or value obligation under bw_wf / cw_wf (P); the build functions establish da_safe and encodes (P: build_bw, build_cw) and encodes => wf (P: link_bw, link_cw); NFA-stage contract (B)',
                assumed=[NFA_ASSUMED, DA_ASSUMED]),
    'C08': dict(verus=['search_cw', 'utf8', 'iter_cw', 'build_cw', 'link_cw', 'wrap_cw', 'lm_cw'], kani=['num_bytes_labels', 'utf8_decoder_two_chars'], bounded=True, chain='char-wise iterators refine streams over their array with decoder end offsets (P: iter_cw, utf8; offsets fall on character boundaries; unmapped characters go to the root: search_cw); label byte lengths and decoder (K); char-wise leftmost iterator (str-based): end offsets are char boundaries, refinement of its spec stream (P: lm_cw); equality of the byte-wise and char-wise streams rests on AC correctness (B)', assumed=[AC_ASSUMED]),
    'C09': dict(verus=['ser', 'ser_cw'], kani=KANI_SER + ['intpack_u24nu8'], bounded=True,
                chain='byte-wise: deserialize_unchecked(serialize(a) ++ t) == (a, t) and re-serialisation reproduces the bytes (P: ser, for every V satisfying the trait contract) <- primitive LE impls (K, 13 harnesses); char-wise automaton incl. CodeMapper and the 16-byte State: the same statement (P: ser_cw)',
                assumed=['user-defined V: satisfies the Serializable trait contract (ser/deser inverse, fixed width < 256 MiB)', 'derived PartialEq is structural']),
    'C10': dict(verus=['nfa_add', 'helper', 'build_bw', 'wrap_bw', 'build_cw', 'mapper_cw', 'wrap_cw'], kani=['num_bytes_labels'], bounded=True,
                chain='accept/reject: NfaBuilder::add rejects exactly the empty pattern and every pattern seen before, for every match kind incl. leftmost-first shadowing (P: nfa_add, for both label types); build_with_values of both variants: Ok => the collection is non-empty, has no empty pattern and no two equal patterns; Err(InvalidArgument) => empty collection / empty or over-long pattern; Err(DuplicatePattern) => two equal patterns; Err(AutomatonScale) only beyond the size limits (P: wrap_bw, wrap_cw). never panics: every assert!/debug_assert!/unwrap/index/arithmetic in build_helper.rs, both double-array constructions, CodeMapper::new, add and the wrappers is a discharged obligation for every num_free_blocks >= 1 (P: helper, build_bw, build_cw, mapper_cw, nfa_add, wrap_bw, wrap_cw); the fail/output passes (RefCell borrows, index arithmetic) and `build` (index conversion through iterator adapters): B',
                assumed=[NFA_ASSUMED, DA_ASSUMED, 'caller-supplied collections are finite deterministic streams of fewer than usize::MAX items; char-wise: fewer than 2^32 characters in total (u32 frequency counters)']),
    'C11': dict(verus=['search_bw', 'iter_bw', 'build_bw', 'link_bw', 'wrap_bw', 'helper', 'build_cw', 'link_cw', 'wrap_cw'], kani=[], bounded=True,
                chain='the search contracts depend on the array only through encodes/wf, and build_double_array establishes encodes for EVERY num_free_blocks >= 1 (P: build_bw, build_cw incl. the block-dropping path of extend_array and the helper ring, P: helper); equality of results across values then rests on AC correctness (B)',
                assumed=[NFA_ASSUMED, DA_ASSUMED]),
    'C12': dict(verus=['iter_bw', 'ctor_bw', 'utf8', 'iter_cw', 'ctor_cw'], kani=['utf8_decoder_two_chars'], bounded=True,
                chain='laziness postconditions of the three standard iterators, both variants (P): m.end == bytes pulled, source drained on None, pulls only via Enumerate::next; decoder pulls exactly the bytes of one character (P+K)', assumed=['byte-wise: find_iter(h) is find_iter_from_iter over U8SliceIterator, whose remaining() == h (P: ctor_bw); char-wise: the str entry points build the same iterators over StrIterator, whose remaining() == the bytes of the str (P: ctor_cw)', 'caller-supplied iterators obey vstd prophetic iterator laws (finite, deterministic)']),
    'C13': dict(verus=['search_bw', 'iter_bw', 'build_bw', 'link_bw', 'wrap_bw', 'search_cw', 'utf8', 'iter_cw', 'build_cw', 'link_cw', 'wrap_cw', 'ctor_bw', 'ctor_cw', 'lm_cw'], kani=[], bounded=True,
                chain='decreases rank in the transition loops, decreases |rest| in scanning loops (P); the ranking exists: NFA depth through idmap (P: link_bw, link_cw) given fail links point to shallower states (nfa_links, B); 2n bound: each call of next_state_id_unchecked makes exactly bw_fsteps / cw_fsteps fail moves (P: ghost counter asserted at every return, search_bw / search_cw), and fail moves + goto moves over a scan of n symbols from the root are at most 2n (P: lemma_moves_from_root, lemma_cw_moves_from_root; potential = state depth); the iterators call it once per symbol (their refinement contracts); the stand-in counts transitions independently',
                assumed=[NFA_ASSUMED, DA_ASSUMED]),
    'C15': dict(verus=['nfa_add', 'wrap_bw', 'wrap_cw'], kani=[], bounded=True,
                chain='every trie state >= 2 is walk(prefix) of a non-empty prefix of a registered pattern (P: nfa_add reach_ok), distinct label sequences reach distinct states and every prefix of a registered pattern has a state (P: lemma_walk_inj, lemma_prefix_has_state), shadowed patterns add no state (P: nfa_add); byte-wise build_with_values sets num_states = trie states - 1 and the array has at least as many elements as the trie has states (P: wrap_bw, wrap_cw, injective placement); heap_bytes arithmetic and the numeric count: B',
                assumed=[NFA_ASSUMED]),
}
