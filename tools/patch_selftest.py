#!/usr/bin/env python3
"""Developer tool: for every patch file given, apply it to /repo, run every Verus unit (and optionally the stand-in for all
properties), restore /repo, and print per patch which units are ok / undecided / fail(hint-only) / fail(CONTRACT).
A behaviour-preserving patch must never produce fail(CONTRACT) nor a stand-in failure.
usage: patch_selftest.py [--bounded] patch1.diff patch2.diff ..."""
import os, subprocess, sys, json
from concurrent.futures import ThreadPoolExecutor
sys.path.insert(0, os.path.dirname(__file__))
import vrun, registry, bounded
REPO = '/repo'
args = sys.argv[1:]
with_b = '--bounded' in args
patches = [a for a in args if not a.startswith('--')]
for pf in patches:
    if subprocess.call(['git', '-C', REPO, 'apply', pf]) != 0:
        print('%s: does not apply' % pf); continue
    try:
        if subprocess.call(['cargo', 'check', '--offline', '-q'], cwd=REPO, stdout=subprocess.DEVNULL, stderr=subprocess.DEVNULL) != 0:
            print('%s: does not compile' % pf); continue
        units = list(registry.VERUS_UNITS)
        with ThreadPoolExecutor(max_workers=8) as ex:
            rs = list(ex.map(lambda u: vrun.run_unit(u, '/tmp/vx/ps_' + u), units))
        out = {}
        for u, r in zip(units, rs):
            st = r['status']
            if st == 'fail':
                st = 'fail(hint-only)' if r.get('hint_only') else 'fail(CONTRACT:%s)' % ','.join(sorted(set('%s' % (f.get('function')) for f in r['failed'] if f.get('level') == 'contract')))
            out.setdefault(st, []).append(u)
        line = '%s: ' % os.path.basename(pf) + '; '.join('%s=%s' % (k, ','.join(v) if k != 'ok' else len(v)) for k, v in sorted(out.items()))
        if with_b:
            r = bounded.run(os.path.join(bounded.ROOT, '.work', 'bounded_ps'), list(registry.PROPS), 'quick', 1)
            line += ' | stand-in failures=%d' % len(r.get('failures', []))
            for f in r.get('failures', [])[:3]:
                line += ' [%s %s]' % (f.get('property'), f.get('clause', '')[:60])
        print(line, flush=True)
    finally:
        subprocess.call(['git', '-C', REPO, 'checkout', '--', '.'])
subprocess.call(['git', '-C', REPO, 'status', '--short'])
