#!/usr/bin/env python3
"""vx: extract real items from /repo, apply the closed list of rewrite rules, splice contract
text from a unit template, and emit one Verus file.

Template directives (lines whose first non-blank characters are `//@`):

  //@include <path relative to contracts/>
  //@item <src file> <kind> <name>          kind in struct|enum|const|type|fn|trait|macro_rules
  //@impl <src file> <substring of impl header>   ... //@endimpl
  //@fn <name>                              (inside //@impl; or after //@item .. fn)
  //@assoc <kind> <name>                    (inside //@impl: associated const/type)
  //@header <text>                          (inside //@impl: replace the emitted impl header; must be
                                             the source header after the R-rules, checked)
  per-fn sub-directives:
    //@ret <ident>                          name the return value  (-> T   becomes  -> (ident: T))
    //@head{ ... //@}                       clauses between signature and body
    //@start{ ... //@}                      ghost text at the start of the body
    //@loop <n>{ ... //@}                   clauses between the n-th loop header and its body
    //@forbid <ident>                       syntactic frame: the function text must not mention <ident> (else: undecided)
    //@loopbody <n>{ ... //@}               ghost text at the start of the body of the n-th loop
    //@loopend <n>{ ... //@}                ghost text at the end of the body of the n-th loop (order-insensitive placement)
    //@before <k> <anchor>{ ... //@}        ghost text before the statement containing the k-th
    //@after <k> <anchor>{ ... //@}         occurrence of <anchor> (resp. after it)
    //@closure <k> <orig header> => <typed header>{ ... //@}   typed closure header + clauses
    //@rules <R..> <R..>                    opt-in rewrite rules for this fn (R3all, R6, R7, R9, R11, R13, R14)
  //@end                                    ends an //@item fn block

Everything else in the template is copied verbatim (ghost code, prelude).
Exit status of the CLI: 0 ok, 2 extraction problem (never an accusation).
"""
import hashlib
import json
import os
import re
import sys

sys.path.insert(0, os.path.dirname(os.path.abspath(__file__)))
import rustlex as L  # noqa: E402

REPO = os.environ.get('VERIF_REPO', '/repo')
ROOT = os.path.dirname(os.path.dirname(os.path.abspath(__file__)))
CONTRACTS = os.path.join(ROOT, 'contracts')


class ExtractError(Exception):
    pass


# ----------------------------------------------------------------------------------------------
# rewrite rules
# ----------------------------------------------------------------------------------------------

class Ctx:
    def __init__(self, unit):
        self.unit = unit
        self.applied = []  # (rule, file, item, before, after)
        self.items = []    # (file, kind, name, sha256 of verbatim text, first line)
        self.cur = ('', '')
        self.lost_anchors = []
        self.loop_locals = {}   # 'fn#loop' -> immutable locals bound before an annotated loop, used in its body, absent from its invariant

    def note(self, rule, before, after):
        self.applied.append({'rule': rule, 'file': self.cur[0], 'item': self.cur[1],
                             'before': ' '.join(before.split())[:160], 'after': ' '.join(after.split())[:160]})


def strip_attrs_and_docs(text, ctx, keep_derive=('Clone', 'Copy')):
    """R12: remove attributes and doc comments; keep derive(Clone, Copy) subset."""
    toks = L.lex(text)
    out = []
    pos = 0
    i = 0
    code = toks
    while i < len(code):
        t = code[i]
        if t.kind == 'comment' and (t.text.startswith('///') or t.text.startswith('//!')):
            out.append(text[pos:t.s])
            pos = t.e
            i += 1
            continue
        if t.kind == 'punct' and t.text == '#' and i + 1 < len(code) and code[i + 1].text == '[':
            # find closing
            depth = 0
            j = i + 1
            while True:
                if code[j].text == '[':
                    depth += 1
                elif code[j].text == ']':
                    depth -= 1
                    if depth == 0:
                        break
                j += 1
            attr = text[t.s:code[j].e]
            repl = ''
            m = re.match(r'#\[derive\((.*)\)\]', attr, re.S)
            if m:
                kept = [d.strip() for d in m.group(1).split(',') if d.strip() in keep_derive]
                if kept:
                    repl = '#[derive(%s)]' % ', '.join(kept)
            out.append(text[pos:t.s])
            out.append(repl)
            if repl != attr:
                ctx.note('R12', attr, repl)
            pos = code[j].e
            i = j + 1
            continue
        i += 1
    out.append(text[pos:])
    return ''.join(out)


def strip_pub(text, ctx):
    """R1: remove `pub` / `pub(crate)`; `const fn` -> `fn` is NOT done (Verus accepts const fn)."""
    toks = L.code_toks(text)
    out = []
    pos = 0
    i = 0
    while i < len(toks):
        t = toks[i]
        if t.kind == 'ident' and t.text == 'pub':
            e = t.e
            if i + 1 < len(toks) and toks[i + 1].text == '(' and toks[i + 1].s == t.e:
                j = L.match_close(toks, i + 1)
                e = toks[j].e
                i = j
            out.append(text[pos:t.s])
            # swallow following whitespace
            while e < len(text) and text[e] == ' ':
                e += 1
            pos = e
            ctx.note('R1', text[t.s:e], '')
        i += 1
    out.append(text[pos:])
    return ''.join(out)


def rule_get_unchecked(text, ctx):
    """R2: <ident chain>.get_unchecked(ARG) -> (&<ident chain>[ARG])"""
    while True:
        toks = L.code_toks(text)
        hit = None
        for i, t in enumerate(toks):
            if t.kind == 'ident' and t.text == 'get_unchecked' and i >= 2 and toks[i - 1].text == '.' and toks[i + 1].text == '(':
                # receiver chain
                j = i - 2
                if toks[j].kind != 'ident':
                    continue
                while j >= 2 and toks[j - 1].text == '.' and toks[j - 2].kind == 'ident':
                    j -= 2
                close = L.match_close(toks, i + 1)
                hit = (j, i, close)
                break
        if not hit:
            return text
        j, i, close = hit
        recv = ''.join(text[toks[k].s:toks[k].e] for k in range(j, i - 1))
        arg = text[toks[i + 1].e:toks[close].s]
        before = text[toks[j].s:toks[close].e]
        after = '(&%s[%s])' % (recv, arg.strip())
        ctx.note('R2', before, after)
        text = text[:toks[j].s] + after + text[toks[close].e:]


def rule_debug_assert(text, ctx):
    """R8"""
    def ne(m):
        inner = m.group(1)
        # split top-level comma
        toks = L.code_toks(inner)
        depth = 0
        cut = None
        for t in toks:
            if t.text in L.OPEN:
                depth += 1
            elif t.text in L.CLOSE:
                depth -= 1
            elif t.text == ',' and depth == 0:
                cut = t.s
                break
        a, b = inner[:cut], inner[cut + 1:]
        r = 'assert!(%s != %s)' % (a.strip(), b.strip())
        ctx.note('R8', m.group(0), r)
        return r
    text = re.sub(r'(?:debug_)?assert_ne!\(((?:[^()]|\([^()]*\))*)\)', ne, text)

    def pl(m):
        ctx.note('R8', m.group(0), 'assert!(')
        return 'assert!('
    text = re.sub(r'debug_assert!\(', pl, text)
    return text


def rule_assert_msg(text, ctx):
    """R8b: assert!(cond, "literal message") -> assert!(cond)   (message text is dropped)."""
    toks = L.code_toks(text)
    for i, t in enumerate(toks):
        if t.kind == 'ident' and t.text in ('assert',) and toks[i + 1].text == '!' and toks[i + 2].text == '(':
            close = L.match_close(toks, i + 2)
            depth = 0
            for k in range(i + 3, close):
                tk = toks[k]
                if tk.text in L.OPEN:
                    depth += 1
                elif tk.text in L.CLOSE:
                    depth -= 1
                elif tk.text == ',' and depth == 0:
                    rest = toks[k + 1:close]
                    if all(r.kind == 'string' or r.text == ',' for r in rest):
                        before = text[t.s:toks[close].e]
                        new = text[:tk.s] + text[toks[close].s:]
                        ctx.note('R8b', before, ' '.join(text[t.s:tk.s].split()) + ')')
                        return rule_assert_msg(new, ctx)
                    break
    return text


def rule_assert_doc_panic(text, ctx):
    """R8c: `assert!(COND, "literal");` -> `if !(COND) { verif_documented_panic(); }`"""
    toks = L.code_toks(text)
    for i, t in enumerate(toks):
        if t.kind == 'ident' and t.text == 'assert' and toks[i + 1].text == '!' and toks[i + 2].text == '(':
            close = L.match_close(toks, i + 2)
            depth = 0
            for k in range(i + 3, close):
                tk = toks[k]
                if tk.text in L.OPEN:
                    depth += 1
                elif tk.text in L.CLOSE:
                    depth -= 1
                elif tk.text == ',' and depth == 0:
                    rest = toks[k + 1:close]
                    if all(r.kind == 'string' or r.text == ',' for r in rest) and toks[close + 1].text == ';':
                        cond = ' '.join(text[toks[i + 2].e:tk.s].split())
                        new = 'if !(%s) { verif_documented_panic(); }' % cond
                        ctx.note('R8c', text[t.s:toks[close + 1].e], new)
                        return rule_assert_doc_panic(text[:t.s] + new + text[toks[close + 1].e:], ctx)
                    break
    return text


def rule_enumerate_call(text, ctx):
    """R17: `RECV.enumerate()` -> `verif_enumerate(RECV)` where RECV is an identifier or a call `A::b(args)`."""
    while True:
        toks = L.code_toks(text)
        hit = None
        for i, t in enumerate(toks):
            if t.kind == 'ident' and t.text == 'enumerate' and toks[i - 1].text == '.' and toks[i + 1].text == '(' and toks[i + 2].text == ')':
                j = i - 2
                if toks[j].text == ')':
                    # find matching open paren, then the path before it
                    depth = 0
                    k = j
                    while k >= 0:
                        if toks[k].text == ')':
                            depth += 1
                        elif toks[k].text == '(':
                            depth -= 1
                            if depth == 0:
                                break
                        k -= 1
                    k -= 1
                    while k >= 2 and toks[k - 1].text == ':' and toks[k - 2].text == ':':
                        k -= 3
                    start = k
                elif toks[j].kind == 'ident':
                    start = j
                else:
                    continue
                hit = (start, i)
                break
        if not hit:
            return text
        start, i = hit
        recv = text[toks[start].s:toks[i - 1].s]
        new = 'verif_enumerate(%s)' % recv.strip()
        ctx.note('R17', text[toks[start].s:toks[i + 2].e], new)
        text = text[:toks[start].s] + new + text[toks[i + 2].e:]


def rule_for_to_loop(text, ctx, all_for=False, own=False, only_prefix=None):
    """R3: `for PAT in EXPR.by_ref() {B}` -> `loop { match EXPR.next() { Some(PAT) => {B} None => {break;} } }`.
    With all_for, `for PAT in EXPR {B}` over a generic IntoIterator is rewritten with an explicit
    `let mut it = EXPR.into_iter();`."""
    n_gen = 0
    while True:
        toks = L.code_toks(text)
        hit = None
        for i, t in enumerate(toks):
            if t.kind == 'ident' and t.text == 'for' and toks[i + 1].text != '<':
                # find `in` at depth 0
                k = i + 1
                depth = 0
                while not (toks[k].kind == 'ident' and toks[k].text == 'in' and depth == 0):
                    if toks[k].text in L.OPEN:
                        depth += 1
                    elif toks[k].text in L.CLOSE:
                        depth -= 1
                    k += 1
                in_k = k
                k += 1
                while toks[k].text != '{':
                    if toks[k].text in ('(', '['):
                        k = L.match_close(toks, k) + 1
                    else:
                        k += 1
                brace = k
                expr = text[toks[in_k].e:toks[brace].s].strip()
                by_ref = expr.endswith('.by_ref()')
                if by_ref or (all_for and not re.match(r'^[\w.()]*\.\.', expr) and '..' not in expr and (only_prefix is None or expr.startswith(only_prefix))):
                    hit = (i, in_k, brace, expr, by_ref)
                    break
        if not hit:
            return text
        i, in_k, brace, expr, by_ref = hit
        close = L.match_close(toks, brace)
        pat = text[toks[i].e:toks[in_k].s].strip()
        body = text[toks[brace].e:toks[close].s]
        before = text[toks[i].s:toks[brace].e]
        if by_ref:
            it = expr[:-len('.by_ref()')]
            new = 'loop { match %s.next() { Some(%s) => {%s} None => { break; } } }' % (it, pat, body)
        else:
            n_gen += 1
            it = 'verif_it%d' % n_gen
            new = '{ let mut %s = (%s)%s; loop { match %s.next() { Some(%s) => {%s} None => { break; } } } }' % (it, expr, '' if own else '.into_iter()', it, pat, body)
        ctx.note('R3', before, new.split('{')[0] + '{ match %s.next() { Some(%s) => .. None => break }' % (it, pat))
        text = text[:toks[i].s] + new + text[toks[close].e:]


def rule_ref_patterns(text, ctx):
    """R5 (for/match binder part): `for &c in E {` -> `for c_ref in E { let c = *c_ref;`;
    `for (&a, &b) in E {` -> `for ab_ref in E { let a = *ab_ref.0; let b = *ab_ref.1;`
    `for &(a, b) in E {` -> `for ab_ref in E { let (a, b) = *ab_ref;`"""
    cnt = 0
    while True:
        toks = L.code_toks(text)
        hit = None
        for i, t in enumerate(toks):
            if t.kind == 'ident' and t.text == 'for' and toks[i + 1].text != '<':
                k = i + 1
                depth = 0
                while not (toks[k].kind == 'ident' and toks[k].text == 'in' and depth == 0):
                    if toks[k].text in L.OPEN:
                        depth += 1
                    elif toks[k].text in L.CLOSE:
                        depth -= 1
                    k += 1
                pat = text[toks[i].e:toks[k].s].strip()
                if '&' in pat:
                    kk = k + 1
                    while toks[kk].text != '{':
                        if toks[kk].text in ('(', '['):
                            kk = L.match_close(toks, kk) + 1
                        else:
                            kk += 1
                    hit = (i, k, kk, pat)
                    break
        if not hit:
            return text
        i, k, brace, pat = hit
        cnt += 1
        m1 = re.match(r'^&(\w+)$', pat)
        m2 = re.match(r'^\(&(\w+),\s*&(\w+)\)$', pat)
        m3 = re.match(r'^&\((\w+),\s*(\w+)\)$', pat)
        if m1:
            v = 'verif_ref%d' % cnt
            lets = 'let %s = *%s;' % (m1.group(1), v)
        elif m2:
            v = 'verif_ref%d' % cnt
            lets = 'let %s = *%s.0; let %s = *%s.1;' % (m2.group(1), v, m2.group(2), v)
        elif m3:
            v = 'verif_ref%d' % cnt
            lets = 'let (%s, %s) = *%s;' % (m3.group(1), m3.group(2), v)
        else:
            raise ExtractError('R5: unsupported reference pattern %r' % pat)
        before = text[toks[i].s:toks[brace].e]
        new = 'for %s in%s{ %s' % (v, text[toks[k].e:toks[brace].s], lets)
        ctx.note('R5', before, new)
        text = text[:toks[i].s] + new + text[toks[brace].e:]


def _balanced(text, open_pos):
    """index of the bracket closing the one at open_pos (plain scan; the extracted functions have no brackets in strings)"""
    pairs = {'(': ')', '[': ']', '{': '}'}
    o = text[open_pos]
    c = pairs[o]
    depth = 0
    k = open_pos
    while k < len(text):
        if text[k] == o:
            depth += 1
        elif text[k] == c:
            depth -= 1
            if depth == 0:
                return k
        k += 1
    raise ExtractError('unbalanced bracket')


def rule_refcell_scoped(text, ctx):
    """R28: RefCell erasure for a function that holds a named guard `let G = [&[mut]] self.states[I].borrow[_mut]();` while it borrows
    other cells of the same vector.
      * `&self` -> `&mut self` when the function contains a `borrow_mut()` (the erased code mutates through the receiver);
      * the guard binding is dropped and every `G.field` in its scope becomes the place `self.states[I].field` it derefs to;
      * `for PAT in &G.edges {` iterates over a snapshot: `let verif_snap = verif_edges_snapshot(&self.states[I].edges); for PAT in &verif_snap {`
        (the map of a borrowed cell cannot change while the guard lives: every mutation goes through `borrow_mut()` of that cell, which panics);
      * the dynamic borrow check the erasure drops is made explicit: before every statement in the scope that borrows cell J in a way that
        conflicts with the guard (any `borrow_mut()`; any borrow, incl. the one inside `self.child_id(J, ..)`, when the guard is `borrow_mut()`)
        an `assert!(J != I);` is inserted: exactly the condition under which the original panics with BorrowError/BorrowMutError.
    The remaining `.borrow()` / `.borrow_mut()` calls are temporaries that die at the end of their statement; R9 erases them afterwards."""
    if '.borrow_mut()' in text:
        t2 = re.sub(r'\(&self\b', '(&mut self', text, count=1)
        if t2 != text:
            ctx.note('R28', '&self (function contains borrow_mut())', '&mut self')
            text = t2
    n_snap = 0
    while True:
        m = None
        for cand in re.finditer(r'let (\w+) = &?(mut )?self\.states\[', text):
            close = _balanced(text, cand.end() - 1)
            m2 = re.match(r'\s*\.borrow(_mut)?\(\);', text[close + 1:])
            if m2:          # a guard bound to a name (a field read `.borrow().f;` is a statement-local temporary)
                m = cand
                break
        if not m:
            return text
        g = m.group(1)
        idx = text[m.end():close].strip()
        excl = bool(m2.group(1))
        cell = 'self.states[%s]' % idx
        let_end = close + 1 + m2.end()
        # scope: to the close of the enclosing block
        depth = 0
        k = let_end
        while True:
            if text[k] == '{':
                depth += 1
            elif text[k] == '}':
                if depth == 0:
                    break
                depth -= 1
            k += 1
        scope = text[let_end:k]
        before_scope = scope

        def snap(mm):
            nonlocal n_snap
            n_snap += 1
            return 'let verif_snap%d = verif_edges_snapshot(&%s.edges); for %s in &verif_snap%d {' % (n_snap, cell, mm.group(1), n_snap)
        scope = re.sub(r'for ([^{;]*?) in &%s\.edges \{' % g, snap, scope)
        scope = re.sub(r'(?<![\w.])%s\.' % g, cell + '.', scope)
        # conflicting borrow sites
        sites = []
        for mm in re.finditer(r'self\.states\[', scope):
            c2 = _balanced(scope, mm.end() - 1)
            m3 = re.match(r'\s*\.borrow(_mut)?\(\)', scope[c2 + 1:])
            if not m3:
                continue          # a place produced by the inlining above: access through the guard itself
            if excl or m3.group(1):
                sites.append((mm.start(), scope[mm.end():c2].strip()))
        if excl:
            for mm in re.finditer(r'self\.child_id\((\w+),', scope):
                sites.append((mm.start(), 'usize::from_u32(%s)' % mm.group(1)))
        ins = []
        for pos, j in sites:
            q = pos - 1
            while q >= 0 and scope[q] not in ';{}':
                q -= 1
            ins.append((q + 1, j))
        for at, j in sorted(set(ins), reverse=True):
            scope = scope[:at] + ' assert!(%s != %s);' % (j, idx) + scope[at:]
        ctx.note('R28', text[m.start():let_end] + ' .. (guard scope)',
                 'guard dropped; %s.field -> %s.field; snapshot iteration; %d explicit borrow checks assert!(J != %s)' % (g, cell, len(set(ins)), idx))
        text = text[:m.start()] + scope + text[k:]


def rule_break_value(text, ctx):
    """R29: `let X = loop { .. break E; .. };` -> `let X; loop { .. { X = E; break; } .. }` and
    `let X = if C { E1 } else { loop { .. break E; .. } };` -> `let X; if C { X = E1; } else { loop { .. { X = E; break; } .. } }`
    (Verus: "complex break expressions" are unsupported; a `break E` of a loop without nested loops)."""
    while True:
        m = re.search(r'let (\w+) = (loop|if)\b', text)
        if not m:
            return text
        x = m.group(1)
        if m.group(2) == 'loop':
            ob = text.index('{', m.end())
            cb = _balanced(text, ob)
            body = text[ob:cb + 1]
            m_end = re.match(r'\s*;', text[cb + 1:])
            if not m_end:
                raise ExtractError('R29: loop expression not followed by `;`')
            if re.search(r'\b(loop|while|for)\b', body[1:]):
                raise ExtractError('R29: nested loop inside a loop with break values')
            body2 = re.sub(r'\bbreak ([^;]+);', lambda mm: '{ %s = %s; break; }' % (x, mm.group(1)), body)
            new = 'let %s; loop %s' % (x, body2)
            ctx.note('R29', 'let %s = loop { .. break E; .. };' % x, 'let %s; loop { .. { %s = E; break; } .. }' % (x, x))
            text = text[:m.start()] + new + text[cb + 1 + m_end.end():]
        else:
            ob = text.index('{', m.end())
            cb = _balanced(text, ob)
            cond = text[m.end():ob].strip()
            e1 = text[ob + 1:cb].strip()
            m_else = re.match(r'\s*else\s*\{', text[cb + 1:])
            if not m_else or ';' in e1:
                raise ExtractError('R29: unsupported `let X = if` shape')
            ob2 = cb + 1 + m_else.end() - 1
            cb2 = _balanced(text, ob2)
            inner = text[ob2 + 1:cb2].strip()
            m_end = re.match(r'\s*;', text[cb2 + 1:])
            if not inner.startswith('loop') or not m_end:
                raise ExtractError('R29: else branch is not a single loop expression')
            lob = inner.index('{')
            lcb = _balanced(inner, lob)
            if inner[lcb + 1:].strip() != '':
                raise ExtractError('R29: else branch is not a single loop expression')
            body = inner[lob:lcb + 1]
            if re.search(r'\b(loop|while|for)\b', body[1:]):
                raise ExtractError('R29: nested loop inside a loop with break values')
            body2 = re.sub(r'\bbreak ([^;]+);', lambda mm: '{ %s = %s; break; }' % (x, mm.group(1)), body)
            new = 'let %s; if %s { %s = %s; } else { loop %s }' % (x, cond, x, e1, body2)
            ctx.note('R29', 'let %s = if C { E1 } else { loop { .. break E; .. } };' % x, 'let %s; if C { %s = E1; } else { loop { .. { %s = E; break; } .. } }' % (x, x, x))
            text = text[:m.start()] + new + text[cb2 + 1 + m_end.end():]


def rule_refcell(text, ctx):
    """R9: RefCell erasure."""
    before = text
    text = re.sub(r'RefCell::new\(', '(', text)
    text = re.sub(r'RefCell<', 'VerifErased<', text)
    text = re.sub(r'\s*\.borrow(_mut)?\(\)', '', text)
    if text != before:
        ctx.note('R9', 'RefCell<T> / RefCell::new(e) / .borrow() / .borrow_mut()', 'VerifErased<T> (= T) / (e) / (removed)')
    return text


def rule_btree_iter(text, ctx, bind=False):
    """R13: `for PAT in &E {B}` where E is an ident chain ending in `.edges` -> `for PAT in E.iter() {B}`
    (R13b: the iterator is bound first: `{ let verif_iter2 = E.iter(); for PAT in verif_iter2 {B} }`)."""
    if not bind:
        def f(m):
            ctx.note('R13', m.group(0), 'in %s.iter() {' % m.group(1))
            return 'in %s.iter() {' % m.group(1)
        return re.sub(r'in &([\w.]*\.edges|verif_snap\d+) \{', f, text)
    while True:
        m = re.search(r'for ([^{;]*?) in &([\w.]*\.edges|verif_snap\d+) \{', text)
        if not m:
            return text
        toks = L.code_toks(text)
        brace = None
        for i, t in enumerate(toks):
            if t.s == m.end() - 1:
                brace = i
                break
        close = L.match_close(toks, brace)
        body = text[toks[brace].e:toks[close].s]
        new = '{ let verif_iter2 = %s.iter(); for %s in verif_iter2 {%s} }' % (m.group(2), m.group(1), body)
        ctx.note('R13b', m.group(0), '{ let verif_iter2 = %s.iter(); for %s in verif_iter2 {' % (m.group(2), m.group(1)))
        text = text[:m.start()] + new + text[toks[close].e:]


def rule_foreach(text, ctx, bind=False):
    """R6: `RECV.for_each(|PAT| EXPR);` -> `for PAT in RECV { EXPR; }` (statement level only)."""
    while True:
        toks = L.code_toks(text)
        hit = None
        for i, t in enumerate(toks):
            if t.kind == 'ident' and t.text == 'for_each' and toks[i - 1].text == '.' and toks[i + 1].text == '(':
                close = L.match_close(toks, i + 1)
                if toks[close + 1].text != ';':
                    continue
                if toks[i + 2].text != '|':
                    continue
                k = i + 3
                while toks[k].text != '|':
                    k += 1
                pat = text[toks[i + 2].e:toks[k].s].strip()
                body = text[toks[k].e:toks[close].s].strip()
                s, e = L.stmt_bounds(text, t.s)
                recv = text[s:toks[i - 1].s].strip()
                hit = (s, toks[close + 1].e, recv, pat, body)
                break
        if not hit:
            if bind and 'verif_iter' not in text:
                # the same loop written as a `for` statement over `RECV.keys()`: bind its iterator in the same way
                m = re.search(r'for ([^{;]*?) in ([\w.]+\.keys\(\)) \{', text)
                if m:
                    ob = m.end() - 1
                    cb = _balanced(text, ob)
                    new = '{ let verif_iter = %s; for %s in verif_iter %s }' % (m.group(2), m.group(1), text[ob:cb + 1])
                    ctx.note('R6', m.group(0), '{ let verif_iter = %s; for %s in verif_iter {' % (m.group(2), m.group(1)))
                    text = text[:m.start()] + new + text[cb + 1:]
            return text
        s, e, recv, pat, body = hit
        if bind:
            new = '{ let verif_iter = %s; for %s in verif_iter { %s; } }' % (recv, pat, body)
        else:
            new = 'for %s in %s { %s; }' % (pat, recv, body)
        ctx.note('R6', text[s:e], new)
        text = text[:s] + new + text[e:]


def rule_enumerate(text, ctx):
    """R7: `for (i, x) in V.iter().enumerate() {` -> `for i in 0..V.len() { let x = &V[i];`
           `for (pos, &c) in S.iter().enumerate().skip(K) {` -> `for pos in K..S.len() { let c = S[pos];`"""
    def f1(m):
        i, x, v = m.group(1), m.group(2), m.group(3)
        new = 'for %s in 0..%s.len() { let %s = &%s[%s];' % (i, v, x, v, i)
        ctx.note('R7', m.group(0), new)
        return new
    text = re.sub(r'for \((\w+), (\w+)\) in ([\w.]+)\.iter\(\)\.enumerate\(\) \{', f1, text)

    def f2(m):
        i, x, v, k = m.group(1), m.group(2), m.group(3), m.group(4)
        new = 'for %s in %s..%s.len() { let %s = %s[%s];' % (i, k, v, x, v, i)
        ctx.note('R7', m.group(0), new)
        return new
    text = re.sub(r'for \((\w+), &(\w+)\) in ([\w.]+)\.iter\(\)\.enumerate\(\)\.skip\(([\w.]+)\) \{', f2, text)
    return text


def rule_filter_enumerate(text, ctx):
    """R25: `for (C, &F) in V.iter().enumerate().filter(|(_, &F)| COND) { BODY }` -> `for C in 0..V.len() { let F = V[C]; if COND { BODY } }`
            `for (I, &(C, _)) in V.iter().enumerate() {` -> `for I in 0..V.len() { let C = V[I].0;`"""
    m = re.search(r'for \((\w+), &(\w+)\) in ([\w.]+)\.iter\(\)\.enumerate\(\)\.filter\(\|\(_, &(\w+)\)\| ([^)]*)\) \{', text)
    if m and m.group(2) == m.group(4):
        c, f, v, cond = m.group(1), m.group(2), m.group(3), m.group(5)
        open_pos = m.end() - 1
        toks = L.code_toks(text)
        oi = [i for i, t in enumerate(toks) if t.s == open_pos][0]
        close_pos = toks[L.match_close(toks, oi)].s
        new = 'for %s in 0..%s.len() { let %s = %s[%s]; if %s {' % (c, v, f, v, c, cond)
        ctx.note('R25', m.group(0), new + ' ... } }')
        text = text[:m.start()] + new + text[m.end():close_pos] + '} }' + text[close_pos + 1:]

    def f4(mm):
        i, c, v = mm.group(1), mm.group(2), mm.group(3)
        new = 'for %s in 0..%s.len() { let %s = %s[%s].0;' % (i, v, c, v, i)
        ctx.note('R25', mm.group(0), new)
        return new
    text = re.sub(r'for \((\w+), &\((\w+), _\)\) in ([\w.]+)\.iter\(\)\.enumerate\(\) \{', f4, text)
    return text


def rule_sort_freq(text, ctx):
    """R26: `sorted.sort_unstable_by(|(c1, f1), (c2, f2)| f2.cmp(f1).then_with(|| c1.cmp(c2)));` -> `verif_sort_freq(&mut sorted);`
    (external_body wrapper, body = original call; contract: the result is a permutation of the input)"""
    def f(m):
        ctx.note('R26', m.group(0), 'verif_sort_freq(&mut sorted);')
        return 'verif_sort_freq(&mut sorted);'
    return re.sub(r'sorted\.sort_unstable_by\(\|\(c1, f1\), \(c2, f2\)\| f2\.cmp\(f1\)\.then_with\(\|\| c1\.cmp\(c2\)\)\);', f, text)


def rule_guarded_continue(text, ctx):
    """R18: inside a `for` body, `if COND { continue; } REST` -> `if !(COND) { REST }` (Verus for-loops have no continue)."""
    while True:
        toks = L.code_toks(text)
        hit = None
        for i, t in enumerate(toks):
            if t.kind == 'ident' and t.text == 'continue' and toks[i + 1].text == ';' and toks[i - 1].text == '{' and toks[i + 2].text == '}':
                # find the `if` that owns this block
                k = i - 2
                depth = 0
                while k >= 0 and not (toks[k].kind == 'ident' and toks[k].text == 'if' and depth == 0):
                    if toks[k].text in L.CLOSE:
                        depth += 1
                    elif toks[k].text in L.OPEN:
                        depth -= 1
                    k -= 1
                if k < 0:
                    continue
                # enclosing loop must be a `for`
                encl = None
                for j in range(k - 1, -1, -1):
                    if toks[j].text == '{' and L.match_close(toks, j) > i:
                        encl = j
                        break
                if encl is None:
                    continue
                # find loop keyword for encl brace
                m = encl - 1
                while m >= 0 and not (toks[m].kind == 'ident' and toks[m].text in ('for', 'while', 'loop')):
                    if toks[m].text in (';', '}', '{'):
                        break
                    m -= 1
                if m < 0 or toks[m].text != 'for':
                    continue
                close = L.match_close(toks, encl)
                cond = text[toks[k].e:toks[i - 1].s].strip()
                rest_s = toks[i + 2].e
                rest_e = toks[close].s
                hit = (toks[k].s, rest_s, rest_e, cond)
                break
        if not hit:
            return text
        ifs, rest_s, rest_e, cond = hit
        new = 'if !(%s) {%s}' % (cond, text[rest_s:rest_e])
        ctx.note('R18', 'if %s { continue; } REST' % cond, 'if !(%s) { REST }' % cond)
        text = text[:ifs] + new + text[rest_e:]


def rule_sort_pairs(text, ctx):
    """R19: `V.sort_by(|(c1, _), (c2, _)| c1.cmp(c2));` -> `verif_sort_pairs(&mut V);` (external_body wrapper, body = original call)"""
    def f(m):
        new = 'verif_sort_pairs(&mut %s);' % m.group(1)
        ctx.note('R19', m.group(0), new)
        return new
    return re.sub(r'(\w+)\.sort_by\(\|\(c1, _\), \(c2, _\)\| c1\.cmp\(c2\)\);', f, text)


def rule_vec_ref_iter(text, ctx):
    """R20: `for PAT in &V {` (V a local Vec identifier) -> `for PAT in V.iter() {`  (IntoIterator for &Vec is iter())"""
    def f(m):
        ctx.note('R20', m.group(0), 'in %s.iter() {' % m.group(1))
        return 'in %s.iter() {' % m.group(1)
    return re.sub(r'in &(mapped|chars) \{', f, text)


def rule_mut_self(text, ctx):
    """R23: `fn f(mut self, ..) { BODY }` (unsupported receiver) -> `fn f(verif_self: Self, ..) { let mut verif_me = verif_self; BODY[self := verif_me] }`"""
    m = re.search(r'\(\s*mut self\s*,', text)
    if not m:
        return text
    brace = L.fn_body_brace(text)
    head = text[:brace].replace(m.group(0), '(verif_self: Self,', 1)
    body = re.sub(r'\bself\b', 'verif_me', text[brace + 1:])
    ctx.note('R23', 'mut self', 'verif_self: Self; let mut verif_me = verif_self; self := verif_me')
    return head + '{ let mut verif_me = verif_self;' + body


def rule_str_tail(text, ctx):
    """R24: `unsafe { H.get_unchecked(P..) }.chars()` -> `verif_str_tail_chars(H, P)` (external_body wrapper, body = original expression;
    its precondition is the safety condition of str::get_unchecked)"""
    def f(m):
        ctx.note('R24', m.group(0), 'verif_str_tail_chars(%s, %s)' % (m.group(1), m.group(2)))
        return 'verif_str_tail_chars(%s, %s)' % (m.group(1), m.group(2))
    return re.sub(r'unsafe \{ ([\w\.\(\)]+?)\.get_unchecked\(([\w\.]+)\.\.\) \}\.chars\(\)', f, text)


def rule_collect_results(text, ctx):
    """R27: `let patvals: Vec<_> = patterns.into_iter().enumerate().map(|(i, p)| V::try_from(i).map(|i| (p, i)))
            .collect::<Result<_, _>>().map_err(|_| E)?;`
       -> an explicit loop: `let mut patvals = Vec::new(); let mut verif_i: usize = 0;
            for p in patterns { match V::try_from(verif_i) { Ok(v) => { patvals.push((p, v)); } Err(_) => { return Err(E); } } verif_i += 1; }`
       (definitions of enumerate / map / collect::<Result<_,_>> / map_err / `?`: stop at the first failing conversion)"""
    m = re.search(r'let patvals: Vec<_> = patterns\s*\.into_iter\(\)\s*\.enumerate\(\)\s*\.map\(\|\(i, p\)\| V::try_from\(([^()]*)\)\.map\(\|i\| \(p, i\)\)\)\s*'
                  r'\.collect::<Result<_, _>>\(\)\s*\.map_err\(\|_\| (DaachorseError::\w+\([^()]*\))\)\?;', text)
    if not m:
        return text
    arg = re.sub(r'\bi\b', 'verif_i', m.group(1))   # the argument of the conversion, over the position
    new = ('let mut patvals = Vec::new(); let mut verif_i: usize = 0; '
           'for p in patterns { match V::try_from(%s) { Ok(v) => { patvals.push((p, v)); } Err(_) => { return Err(%s); } } verif_i += 1; }' % (arg, m.group(2)))
    ctx.note('R27', m.group(0), new)
    return text[:m.start()] + new + text[m.end():]


def rule_into_iter(text, ctx):
    """R22: `for PAT in patvals {` (a by-value generic `I: IntoIterator` parameter) -> `for PAT in verif_into_iter(patvals) {`
    (external_body wrapper, body = `patvals.into_iter()`, which is what the `for` desugaring calls)"""
    def f(m):
        ctx.note('R22', m.group(0), 'for %s in verif_into_iter(%s) {' % (m.group(1), m.group(2)))
        return 'for %s in verif_into_iter(%s) {' % (m.group(1), m.group(2))
    return re.sub(r'for (\([^)]*\)|\w+) in (patvals|patterns) \{', f, text)


def rule_skipped_insert(text, ctx):
    """R21: `self.skipped.insert(pattern.to_vec())` -> `verif_skipped_insert(&mut self.skipped, pattern)` (external_body wrapper, body = original)"""
    def f(m):
        ctx.note('R21', m.group(0), 'verif_skipped_insert(&mut self.skipped, pattern)')
        return 'verif_skipped_insert(&mut self.skipped, pattern)'
    text = re.sub(r'self\.skipped\.insert\(pattern\.to_vec\(\)\)', f, text)
    def g(m):
        ctx.note('R21', m.group(0), 'verif_skipped_new()')
        return 'verif_skipped_new()'
    return re.sub(r'SkippedSet::<L>::new\(\)', g, text)


def rule_fold(text, ctx):
    """R14: `S\n.iter()\n.fold(INIT, |acc, c| BODY)` -> block with a for loop."""
    m = re.search(r'(\w+)\s*\.iter\(\)\s*\.fold\((\w+), \|(\w+), (\w+)\| ([^)]*\))\)', text)
    if m:
        s, init, acc, c, body = m.groups()
        new = '{ let mut %s: usize = %s; for %s in %s.iter() { %s = %s; } %s }' % (acc, init, c, s, acc, body, acc)
        ctx.note('R14', m.group(0), new)
        text = text[:m.start()] + new + text[m.end():]
    return text


def rule_range_find(text, ctx):
    """R16: `(A..B).find(|&x| PRED)` -> explicit first-match loop (definition of Iterator::find on a Range)."""
    m = re.search(r'\(([^()]+?)\.\.([^()]+?)\)\.find\(\|&(\w+)\| ([^;]*?)\)\n', text)
    if m:
        a, b, x, pred = m.groups()
        # both bounds are evaluated once, in this order, as for the Range value; the loop then only names verif_a / verif_b
        new = ('{ let verif_a = %s; let verif_b = %s; let mut verif_i = verif_a; let mut verif_r = None; while verif_i < verif_b { let %s = verif_i; '
               'if %s { verif_r = Some(%s); break; } verif_i += 1; } verif_r }\n' % (a.strip(), b.strip(), x, pred, x))
        ctx.note('R16', m.group(0), new)
        text = text[:m.start()] + new + text[m.end():]
    return text


def rule_format(text, ctx):
    """R11: format!(..) -> verif_opaque_string()"""
    def f(m):
        ctx.note('R11', m.group(0), 'verif_opaque_string()')
        return 'verif_opaque_string()'
    return re.sub(r'format!\("[^"]*"\)', f, text)


def detrait_header(header, ctx):
    """R4: `impl<G> Trait<..> for Type<..> where ..` -> `impl<G> Type<..> where ..`"""
    m = re.match(r'^(impl(?:<[^{]*?>)?)\s+([\w:]+(?:<.*?>)?)\s+for\s+(.*)$', header, re.S)
    if not m:
        return header, None
    # find ' for ' at generic depth 0
    toks = L.code_toks(header)
    depth = 0
    for i, t in enumerate(toks):
        if t.text == '<':
            depth += 1
        elif t.text == '>' and not (toks[i - 1].text == '-' and toks[i - 1].e == t.s):
            depth -= 1
        elif t.kind == 'ident' and t.text == 'for' and depth == 0:
            # generics end
            g_end = 1
            if toks[1].text == '<':
                g_end = L.skip_generics(toks, 1)
            head = header[:toks[g_end - 1].e] if g_end > 1 else 'impl'
            trait = header[toks[g_end].s:t.s].strip()
            new = head + ' ' + header[t.e:].strip()
            ctx.note('R4', header, new)
            return new, trait
    return header, None


# ----------------------------------------------------------------------------------------------
# template processing
# ----------------------------------------------------------------------------------------------

class FnSpec:
    def __init__(self, name):
        self.name = name
        self.ret = None
        self.head = []
        self.start = []
        self.loops = {}
        self.loopiters = {}
        self.loopbodies = {}
        self.forbid = []
        self.loopattrs = {}
        self.loopends = {}
        self.anchors = []   # (where, k, anchor, text)
        self.closures = []  # (k, orig, new, text)
        self.rules = set()
        self.pre = []


def read_src(path):
    with open(os.path.join(REPO, path), encoding='utf-8') as f:
        return f.read()


# proof hints (ghost statements spliced into bodies) are bracketed by these comment lines in the generated file; contracts
# (requires/ensures/invariants/decreases) are not.  vrun uses the brackets to tell a failed hint from a failed contract.
HINT_BEGIN = '//@@hint-begin'
HINT_END = '//@@hint-end'


def nth_find(text, needle, k):
    """k-th occurrence of needle in the CODE of text: comments are blanked first (an anchor never matches inside a comment)."""
    masked = list(text)
    try:
        for t in L.lex(text):
            if t.kind == 'comment':
                for i in range(t.s, t.e):
                    if masked[i] != '\n':
                        masked[i] = ' '
    except L.LexError:
        pass
    masked = ''.join(masked)
    pos = -1
    for _ in range(k):
        pos = masked.find(needle, pos + 1)
        if pos < 0:
            return -1
    return pos


def apply_fn(text, spec, ctx, assoc_types=None, canary=False):
    """text: verbatim fn item. Returns rewritten+spliced text."""
    text = strip_attrs_and_docs(text, ctx)
    text = strip_pub(text, ctx)
    for tok in spec.forbid:
        if any(t.kind == 'ident' and t.text == tok for t in L.code_toks(text)):
            raise ExtractError('frame: fn %s mentions `%s`, which its contract says it does not depend on' % (spec.name, tok))
    if assoc_types:
        for k, v in assoc_types.items():
            if ('Self::' + k) in text:
                ctx.note('R4', 'Self::' + k, v)
                text = text.replace('Self::' + k, v)
    if 'R28' in spec.rules:
        text = rule_refcell_scoped(text, ctx)
    if 'R29' in spec.rules:
        text = rule_break_value(text, ctx)
    if 'R9' in spec.rules:
        text = rule_refcell(text, ctx)
    if 'R11' in spec.rules:
        text = rule_format(text, ctx)
    if 'R14' in spec.rules:
        text = rule_fold(text, ctx)
    if 'R16' in spec.rules:
        text = rule_range_find(text, ctx)
    if 'R12x' in spec.rules:
        def _d(m):
            ctx.note('R12x', m.group(0), m.group(1) + '::verif_default()')
            return m.group(1) + '::verif_default()'
        text = re.sub(r'\b(ListItem|State)::default\(\)', _d, text)
    if 'R6' in spec.rules:
        text = rule_foreach(text, ctx)
    if 'R6b' in spec.rules:
        text = rule_foreach(text, ctx, bind=True)
    if 'R13' in spec.rules:
        text = rule_btree_iter(text, ctx)
    if 'R13b' in spec.rules:
        text = rule_btree_iter(text, ctx, bind=True)
    if 'R7' in spec.rules:
        text = rule_enumerate(text, ctx)
    if 'R18' in spec.rules:
        text = rule_guarded_continue(text, ctx)
    if 'R21' in spec.rules:
        text = rule_skipped_insert(text, ctx)
    if 'R19' in spec.rules:
        text = rule_sort_pairs(text, ctx)
    if 'R20' in spec.rules:
        text = rule_vec_ref_iter(text, ctx)
    if 'R27' in spec.rules:
        text = rule_collect_results(text, ctx)
    if 'R22' in spec.rules:
        text = rule_into_iter(text, ctx)
    if 'R23' in spec.rules:
        text = rule_mut_self(text, ctx)
    if 'R23b' in spec.rules:
        # callers of a function rewritten by R23 (it is an associated function now)
        if 'self.build_with_values(' in text:
            ctx.note('R23b', 'self.build_with_values(patvals)', 'Self::build_with_values(self, patvals)')
            text = text.replace('self.build_with_values(', 'Self::build_with_values(self, ')
    if 'R24' in spec.rules:
        text = rule_str_tail(text, ctx)
    if 'R25' in spec.rules:
        text = rule_filter_enumerate(text, ctx)
    if 'R26' in spec.rules:
        text = rule_sort_freq(text, ctx)
    text = rule_get_unchecked(text, ctx)
    text = rule_debug_assert(text, ctx)
    if 'R8c' in spec.rules:
        text = rule_assert_doc_panic(text, ctx)
    if 'R17' in spec.rules:
        text = rule_enumerate_call(text, ctx)
    text = rule_assert_msg(text, ctx)
    if 'R5' in spec.rules:
        text = rule_ref_patterns(text, ctx)
    text = rule_for_to_loop(text, ctx, all_for=('R3all' in spec.rules or 'R3own' in spec.rules or 'R3into' in spec.rules), own=('R3own' in spec.rules),
                            only_prefix=('verif_into_iter(' if 'R3into' in spec.rules else None))

    # closures first (they do not change loop count)
    for (k, orig, new, clause) in spec.closures:
        pos = nth_find(text, orig, k)
        if pos < 0:
            # soft, like the statement anchors: the closure is gone (e.g. `cond.then(|| x)` became an `if`); the typed header is not needed
            # then, and if the unit fails anyway the outcome is "undecided"
            ctx.lost_anchors.append('fn %s: closure header %r (occurrence %d)' % (spec.name, orig, k))
            continue
        after = pos + len(orig)
        # find body: block or expression up to the closing paren of the enclosing call
        j = after
        while text[j].isspace():
            j += 1
        lets = ''
        for m in re.finditer(r'&(\w+)', orig):
            lets += ' let %s = *%s_;' % (m.group(1), m.group(1))
        if text[j] == '{':
            body_s = j
            if lets:
                text = text[:pos] + new + ' ' + clause + text[after:body_s + 1] + lets + text[body_s + 1:]
            else:
                text = text[:pos] + new + ' ' + clause + text[after:]
        else:
            # expression closure: ends at the ')' closing the call whose '(' precedes orig
            toks = L.code_toks(text)
            open_i = None
            for i, t in enumerate(toks):
                if t.s >= pos:
                    break
                if t.text == '(':
                    ci = L.match_close(toks, i)
                    if toks[ci].s > pos:
                        open_i = i
            if open_i is None:
                raise ExtractError('closure %r: enclosing call not found' % orig)
            close = toks[L.match_close(toks, open_i)].s
            expr = text[after:close].strip()
            if expr.endswith(','):
                expr = expr[:-1]
            text = text[:pos] + new + ' ' + clause + ' {' + lets + ' ' + expr + ' }' + text[close:]
        ctx.note('R15', orig, new)

    # statement anchors (processed back-to-front so offsets stay valid)
    ins = []
    for (where, k, anchor, gtext) in spec.anchors:
        pos = nth_find(text, anchor, k)
        if pos < 0:
            # soft anchor: the ghost block is dropped; if verification then fails the outcome is "undecided", not an alarm
            ctx.lost_anchors.append('fn %s: anchor %r (occurrence %d)' % (spec.name, anchor, k))
            continue
        s, e = L.stmt_bounds(text, pos)
        ins.append((s if where == 'before' else e, HINT_BEGIN + '\n' + gtext + '\n' + HINT_END))
    # loops
    loops = L.find_loops(text)
    # bookkeeping for isolated loops: an immutable local that is bound before the loop, read inside it and not mentioned by its
    # invariant is invisible to the loop's proof (Verus verifies loop bodies from the invariant alone).  vrun compares this set with
    # the one recorded for the pinned tree (contracts/LOOP_LOCALS.json): a NEW such local (a hoisted expression) makes a failure of
    # that function "undecided" instead of a violation.
    if spec.loops and 'loop_isolation(false)' not in ''.join(spec.pre):
        ltoks = L.code_toks(text)
        for n, gtext in spec.loops.items():
            if n < 1 or n > len(loops):
                continue
            kw, br = loops[n - 1]
            oi = [i for i, t in enumerate(ltoks) if t.s == br]
            if not oi:
                continue
            ci = L.match_close(ltoks, oi[0])
            body_ids = {t.text for t in ltoks[oi[0]:ci] if t.kind == 'ident'}
            hdr_ids = {t.text for t in ltoks if t.kind == 'ident' and kw <= t.s < br}
            inv_ids = set(re.findall(r'[A-Za-z_]\w*', gtext))
            outer = set(re.findall(r'\blet\s+(?!mut\b)([a-z_]\w*)\s*(?::[^=;]*)?=', text[:kw]))
            free = sorted((outer & (body_ids | hdr_ids)) - inv_ids)
            ctx.loop_locals['%s#%d' % (spec.name, n)] = free
    for n, nm in spec.loopiters.items():
        if n < 1 or n > len(loops):
            raise ExtractError('fn %s: loopiter %d: function has %d loops' % (spec.name, n, len(loops)))
        kw = loops[n - 1][0]
        m = re.compile(r'for\s+(.*?)\s+in\s+', re.S).match(text, kw)
        if not m:
            raise ExtractError('fn %s: loopiter %d is not a for loop' % (spec.name, n))
        pat = m.group(1)
        if pat == '_':
            pat = 'verif_unused'
        repl = 'for %s in %s: ' % (pat, nm)
        ins_text = text[:kw] + repl + text[m.end():]
        delta = len(ins_text) - len(text)
        text = ins_text
        ins = [(p + delta if p > kw else p, g) for (p, g) in ins]
        loops = L.find_loops(text)
        ctx.note('R15', 'for %s in EXPR' % m.group(1), repl + 'EXPR  (named ghost iterator)')
    attr_ins = []
    for n, txt in spec.loopattrs.items():
        if n < 1 or n > len(loops):
            raise ExtractError('fn %s: loopattr %d requested, function has %d loops' % (spec.name, n, len(loops)))
        attr_ins.append((loops[n - 1][0], txt))
    for n, gtext in spec.loops.items():
        if n < 1 or n > len(loops):
            raise ExtractError('fn %s: loop %d requested, function has %d loops' % (spec.name, n, len(loops)))
        ins.append((loops[n - 1][1], gtext))
    for n, gtext in spec.loopbodies.items():
        if n < 1 or n > len(loops):
            raise ExtractError('fn %s: loopbody %d requested, function has %d loops' % (spec.name, n, len(loops)))
        at = loops[n - 1][1] + 1
        # after the binder statements R5 puts at the start of a `for` body (`let c = *verif_refN.0;`): the hook may name them
        while True:
            mb = re.match(r'\s*let \w+ = \*verif_ref\d+(\.\d+)?;', text[at:])
            if not mb:
                break
            at += mb.end()
        ins.append((at, HINT_BEGIN + '\n' + gtext + '\n' + HINT_END))
    if spec.loopends:
        ltoks = L.code_toks(text)
        for n, gtext in spec.loopends.items():
            if n < 1 or n > len(loops):
                raise ExtractError('fn %s: loopend %d requested, function has %d loops' % (spec.name, n, len(loops)))
            oi = [i for i, t in enumerate(ltoks) if t.s == loops[n - 1][1]][0]
            ins.append((ltoks[L.match_close(ltoks, oi)].s, HINT_BEGIN + '\n' + gtext + '\n' + HINT_END))
    unannotated = [i + 1 for i in range(len(loops)) if (i + 1) not in spec.loops]
    body = L.fn_body_brace(text)
    if spec.start:
        ins.append((body + 1, HINT_BEGIN + '\n' + '\n'.join(spec.start) + '\n' + HINT_END))
    if canary:
        ins.append((body + 1, 'proof { assert(false); }'))
    if spec.head:
        ins.append((body, '\n'.join(spec.head) + '\n'))
    # attributes of a loop go directly in front of its keyword: at equal positions they are inserted first
    ins = attr_ins + ins
    ins.sort(key=lambda x: -x[0])
    for pos, gtext in ins:
        text = text[:pos] + '\n' + gtext + '\n' + text[pos:]
    if spec.ret:
        # name return value: find '->' at depth 0 of the signature
        body = L.fn_body_brace(text)
        sig = text[:body]
        toks = L.code_toks(sig)
        i = 0
        while toks[i].text != 'fn':
            i += 1
        k = i + 2
        if toks[k].text == '<':
            k = L.skip_generics(toks, k)
        k = L.match_close(toks, k) + 1
        if k < len(toks) and toks[k].text == '-' and toks[k + 1].text == '>':
            ts = toks[k + 2].s
            # type ends before `where` or first contract keyword or end of sig
            end = len(sig)
            depth = 0
            for t in toks[k + 2:]:
                if t.text in ('<', '(', '['):
                    depth += 1
                elif t.text in ('>', ')', ']'):
                    depth -= 1
                elif depth == 0 and t.kind == 'ident' and t.text in ('where', 'requires', 'ensures', 'decreases', 'opens_invariants', 'no_unwind'):
                    end = t.s
                    break
            ty = sig[ts:end].rstrip()
            text = sig[:toks[k].s] + '-> (%s: %s)' % (spec.ret, ty) + sig[ts + len(ty):] + text[body:]
        else:
            raise ExtractError('fn %s: //@ret given but no return type' % spec.name)
    return ''.join(spec.pre) + text, unannotated


def parse_block(lines, i):
    """lines[i] ends with '{' directive; collect until //@}"""
    out = []
    i += 1
    while i < len(lines) and lines[i].strip() != '//@}':
        out.append(lines[i])
        i += 1
    if i >= len(lines):
        raise ExtractError('unterminated //@...{ block')
    return '\n'.join(out), i + 1


def parse_fn_directives(lines, i, spec):
    while i < len(lines):
        ln = lines[i].strip()
        if not ln.startswith('//@'):
            if ln == '' or ln.startswith('//'):
                i += 1
                continue
            break
        d = ln[3:]
        if d.startswith('ret '):
            spec.ret = d[4:].strip()
            i += 1
        elif d.startswith('rules'):
            spec.rules |= set(d[5:].split())
            i += 1
        elif d == 'head{':
            t, i = parse_block(lines, i)
            spec.head.append(t)
        elif d == 'start{':
            t, i = parse_block(lines, i)
            spec.start.append(t)
        elif d == 'pre{':
            t, i = parse_block(lines, i)
            spec.pre.append(t + '\n')
        elif d.startswith('loopiter '):
            _, n, nm = d.split()
            spec.loopiters[int(n)] = nm
            i += 1
        elif d.startswith('loopend '):
            m = re.match(r'loopend (\d+)\{$', d)
            t, i = parse_block(lines, i)
            spec.loopends[int(m.group(1))] = t
        elif d.startswith('loopattr '):
            # //@loopattr N TEXT : TEXT (an attribute) is put in front of the n-th loop statement
            _, nn, txt = d.split(None, 2)
            spec.loopattrs[int(nn)] = txt
            i += 1
        elif d.startswith('forbid '):
            # syntactic frame: the function must not mention this identifier (otherwise the unit is undecided)
            spec.forbid.append(d[len('forbid '):].strip())
            i += 1
        elif d.startswith('loopbody '):
            m = re.match(r'loopbody (\d+)\{$', d)
            t, i = parse_block(lines, i)
            spec.loopbodies[int(m.group(1))] = t
        elif d.startswith('loop '):
            m = re.match(r'loop (\d+)\{$', d)
            t, i = parse_block(lines, i)
            spec.loops[int(m.group(1))] = t
        elif d.startswith('before ') or d.startswith('after '):
            m = re.match(r'(before|after) (\d+) (.*)\{$', d)
            if not m:
                raise ExtractError('bad directive: ' + ln)
            t, i = parse_block(lines, i)
            spec.anchors.append((m.group(1), int(m.group(2)), m.group(3).strip(), t))
        elif d.startswith('closure '):
            m = re.match(r'closure (\d+) (.*?) => (.*)\{$', d)
            if not m:
                raise ExtractError('bad directive: ' + ln)
            t, i = parse_block(lines, i)
            spec.closures.append((int(m.group(1)), m.group(2).strip(), m.group(3).strip(), t))
        else:
            break
    return i


def find_item(src, items, kind, name, path):
    c = [it for it in items if it.kind == kind and it.name == name]
    if len(c) != 1:
        raise ExtractError('%s: expected exactly one `%s %s`, found %d' % (path, kind, name, len(c)))
    return c[0]


def process_template(unit, tpl_path=None, canary=False):
    tpl_path = tpl_path or os.path.join(CONTRACTS, 'units', unit + '.rs.tpl')
    ctx = Ctx(unit)
    with open(tpl_path, encoding='utf-8') as f:
        lines = f.read().split('\n')
    # includes (recursive, each file at most once)
    seen = set()

    def expand(ls, depth=0):
        exp = []
        for ln in ls:
            s = ln.strip()
            if s.startswith('//@includeblock '):
                # one named block (`//@block NAME` .. `//@endblock`) of a file: the same contract text used in two places
                _, rel, bname = s.split(None, 2)
                with open(os.path.join(CONTRACTS, rel), encoding='utf-8') as f:
                    bl = f.read().split('\n')
                try:
                    lo = [k for k, x in enumerate(bl) if x.strip() == '//@block ' + bname][0]
                    hi = [k for k, x in enumerate(bl) if k > lo and x.strip() == '//@endblock'][0]
                except IndexError:
                    raise ExtractError('%s: no block %r' % (rel, bname))
                exp.extend(bl[lo + 1:hi])
            elif s.startswith('//@include_subst '):
                # the same ghost text for the other label type: word-wise substitution A=B on the included file (and on what it includes)
                _, rel, sub = s.split(None, 2)
                fr, to = sub.split('=')
                key = rel + ' ' + sub
                if key in seen:
                    continue
                seen.add(key)
                with open(os.path.join(CONTRACTS, rel), encoding='utf-8') as f:
                    body = [ln2 if ln2.strip().startswith('//@include') else re.sub(r'\b%s\b' % re.escape(fr), to, ln2) for ln2 in f.read().split('\n')]
                body = [(ln2.replace('//@include ', '//@include_subst ', 1).rstrip() + ' ' + sub) if ln2.strip().startswith('//@include ') else ln2 for ln2 in body]
                exp.extend(expand(body, depth + 1))
            elif s.startswith('//@include '):
                rel = s[len('//@include '):].strip()
                if rel in seen:
                    continue
                seen.add(rel)
                with open(os.path.join(CONTRACTS, rel), encoding='utf-8') as f:
                    exp.extend(expand(f.read().split('\n'), depth + 1))
            else:
                exp.append(ln)
        return exp
    lines = expand(lines)
    out = []
    emitted_items = set()
    fns = []          # names of functions under contract: "Type::fn"
    unannot = []
    cache = {}

    def load(path):
        if path not in cache:
            src = read_src(path)
            cache[path] = (src, L.items_in(src))
        return cache[path]

    def emit_fn(path, owner, it_src, spec, assoc_types=None):
        ctx.cur = (path, (owner + '::' if owner else '') + spec.name)
        ctx.items.append({'file': path, 'item': ctx.cur[1], 'sha256': hashlib.sha256(it_src.encode()).hexdigest()[:16],
                          'lines': it_src.count('\n') + 1})
        text, un = apply_fn(it_src, spec, ctx, assoc_types, canary if isinstance(canary, bool) else (spec.name in canary))
        fns.append(ctx.cur[1])
        for n in un:
            unannot.append('%s loop %d' % (ctx.cur[1], n))
        out.append(text)

    i = 0
    while i < len(lines):
        ln = lines[i]
        s = ln.strip()
        if not s.startswith('//@'):
            out.append(ln)
            i += 1
            continue
        d = s[3:]
        if d.startswith('item '):
            _, path, kind, name = d.split(None, 3)
            src, items = load(path)
            it = find_item(src, items, kind, name, path)
            text = src[it.s:it.e]
            i += 1
            if kind != 'fn' and (path, kind, name) in emitted_items:
                # the same item requested by two included parts: emit once
                dummy = FnSpec(name)
                i = parse_fn_directives(lines, i, dummy)
                if i < len(lines) and lines[i].strip() == '//@end':
                    i += 1
                continue
            emitted_items.add((path, kind, name))
            if kind == 'fn':
                spec = FnSpec(name)
                i = parse_fn_directives(lines, i, spec)
                emit_fn(path, '', text, spec)
            else:
                spec = FnSpec(name)
                i = parse_fn_directives(lines, i, spec)
                ctx.cur = (path, kind + ' ' + name)
                # searching is pure (C14, for the record): no data structure the search code reads may have interior mutability;
                # the NFA builder types are the only ones that use RefCell, and they are not reachable from an automaton
                if kind == 'struct' and name not in ('NfaBuilder', 'NfaBuilderState'):
                    bad = [t.text for t in L.code_toks(text) if t.kind == 'ident' and re.match(r'^(Cell|RefCell|UnsafeCell|OnceCell|Mutex|RwLock|Atomic\w*)$', t.text)]
                    if bad:
                        raise ExtractError('%s: struct %s uses interior mutability (%s): the purity argument for searches no longer applies' % (path, name, ', '.join(sorted(set(bad)))))
                ctx.items.append({'file': path, 'item': ctx.cur[1], 'sha256': hashlib.sha256(text.encode()).hexdigest()[:16],
                                  'lines': text.count('\n') + 1})
                if 'keepeq' in spec.rules:
                    text = strip_attrs_and_docs(text, ctx, keep_derive=('Clone', 'Copy', 'PartialEq', 'Eq'))
                else:
                    text = strip_attrs_and_docs(text, ctx)
                if 'keeppub' not in spec.rules:
                    text = strip_pub(text, ctx)
                if 'R9' in spec.rules:
                    text = rule_refcell(text, ctx)
                out.append(''.join(spec.pre) + text)
            if i < len(lines) and lines[i].strip() == '//@end':
                i += 1
            continue
        if d.startswith('impl '):
            _, path, hdr = d.split(None, 2)
            src, items = load(path)
            norm = ' '.join(hdr.split())
            c = [it for it in items if it.kind == 'impl' and norm in it.name]
            exact = [it for it in c if it.name == norm]
            if len(exact) == 1:
                c = exact
            if len(c) != 1:
                raise ExtractError('%s: impl header containing %r matches %d impl blocks' % (path, norm, len(c)))
            imp = c[0]
            inner_lo = imp.body_s + 1
            inner_hi = imp.e - 1
            sub = L.items_in(src, inner_lo, inner_hi)
            header = src[imp.s:imp.body_s]
            ctx.cur = (path, imp.name)
            header = strip_attrs_and_docs(header, ctx).strip()
            header, trait = detrait_header(header, ctx)
            assoc_types = {}
            if trait:
                for it in sub:
                    if it.kind == 'type':
                        m = re.match(r'type\s+(\w+)\s*=\s*(.*?);$', src[it.s:it.e].strip(), re.S)
                        if m:
                            assoc_types[it.name] = m.group(2).strip()
            i += 1
            keep_trait = False
            if i < len(lines) and lines[i].strip() == '//@keeptrait':
                keep_trait = True
                header = ' '.join(strip_attrs_and_docs(src[imp.s:imp.body_s], ctx).split())
                keep_assoc = dict(assoc_types)
                i += 1
            mono = None
            if i < len(lines) and lines[i].strip().startswith('//@mono '):
                # R30: monomorphisation `//@mono L=u8`: the type parameter is replaced by the concrete type in the impl header and in
                # every function taken from this impl (what the compiler does for each instantiation)
                mono = lines[i].strip()[len('//@mono '):].split('=')
                hdr0 = header
                header = re.sub(r'<\s*%s\s*,\s*' % mono[0], '<', header, count=1)          # generics list
                header = re.sub(r'\b%s\s*:\s*[\w:]+\s*,?' % mono[0], '', header)          # its where-bound
                header = re.sub(r'\b%s\b' % mono[0], mono[1], header)
                header = re.sub(r'where\s*$', '', header.strip())
                ctx.note('R30', ' '.join(hdr0.split()), ' '.join(header.split()))
                i += 1
            out.append(header + ' {')
            if keep_trait:
                for k, v in assoc_types.items():
                    out.append('    type %s = %s;' % (k, v))
            while i < len(lines):
                s2 = lines[i].strip()
                if s2 == '//@endimpl':
                    i += 1
                    break
                if s2.startswith('//@fn '):
                    name = s2[6:].strip()
                    it = find_item(src, sub, 'fn', name, path + ' ' + imp.name)
                    spec = FnSpec(name)
                    i = parse_fn_directives(lines, i + 1, spec)
                    owner = re.sub(r'^impl(<.*?>)?\s*', '', header)
                    if ' for ' in owner:
                        owner = owner.split(' for ', 1)[1]
                    owner = owner.split('<')[0].split(' where')[0].strip()
                    fsrc = src[it.s:it.e]
                    if mono:
                        fsrc = re.sub(r'\b%s\b' % mono[0], mono[1], fsrc)
                    emit_fn(path, owner, fsrc, spec, assoc_types)
                    continue
                if s2.startswith('//@assoc '):
                    _, kind, name = s2.split(None, 2)
                    it = find_item(src, sub, kind, name, path + ' ' + imp.name)
                    ctx.cur = (path, imp.name + ' ' + name)
                    t = strip_pub(strip_attrs_and_docs(src[it.s:it.e], ctx), ctx)
                    out.append(t)
                    i += 1
                    continue
                if s2.startswith('//@'):
                    raise ExtractError('unexpected directive inside //@impl: ' + s2)
                out.append(lines[i])
                i += 1
            out.append('}')
            continue
        if d.startswith('trait '):
            # //@trait <file> <name> ... //@endtrait : trait declaration with contracts on its method declarations
            _, path, name = d.split(None, 2)
            src, items = load(path)
            tr = find_item(src, items, 'trait', name, path)
            sub = L.items_in(src, tr.body_s + 1, tr.e - 1)
            ctx.cur = (path, 'trait ' + name)
            header = strip_pub(strip_attrs_and_docs(src[tr.s:tr.body_s], ctx), ctx).strip()
            i += 1
            if i < len(lines) and lines[i].strip().startswith('//@header '):
                header = lines[i].strip()[len('//@header '):]
                i += 1
            out.append(header + ' {')
            emitted = set()
            while i < len(lines):
                s2 = lines[i].strip()
                if s2 == '//@endtrait':
                    i += 1
                    break
                if s2.startswith('//@fn '):
                    fname = s2[6:].strip()
                    it = find_item(src, sub, 'fn', fname, path + ' trait ' + name)
                    spec = FnSpec(fname)
                    i = parse_fn_directives(lines, i + 1, spec)
                    ctx.cur = (path, name + '::' + fname)
                    t = strip_pub(strip_attrs_and_docs(src[it.s:it.e], ctx), ctx).strip()
                    if not t.endswith(';'):
                        raise ExtractError('trait fn %s has a default body; not supported' % fname)
                    t = t[:-1]
                    if spec.ret:
                        m = re.search(r'->\s*(.*)$', t, re.S)
                        if not m:
                            raise ExtractError('trait fn %s: //@ret without return type' % fname)
                        t = t[:m.start()] + '-> (%s: %s)' % (spec.ret, m.group(1).strip())
                    out.append(t + '\n' + '\n'.join(spec.head) + ';')
                    fns.append(name + '::' + fname + ' (trait contract)')
                    emitted.add(fname)
                    continue
                if s2.startswith('//@'):
                    raise ExtractError('unexpected directive inside //@trait: ' + s2)
                out.append(lines[i])
                i += 1
            missing = [it.name for it in sub if it.kind == 'fn' and it.name not in emitted]
            if missing:
                raise ExtractError('trait %s: methods without contract block: %s' % (name, missing))
            out.append('}')
            continue
        raise ExtractError('unknown directive: ' + s)
    text = '\n'.join(out)
    return text, {'functions': fns, 'rewrites': ctx.applied, 'items': ctx.items, 'unannotated_loops': unannot, 'lost_anchors': ctx.lost_anchors, 'loop_locals': ctx.loop_locals}


def main(argv):
    import argparse
    ap = argparse.ArgumentParser()
    ap.add_argument('unit')
    ap.add_argument('-o', '--out', required=True)
    ap.add_argument('--canary', action='store_true')
    ap.add_argument('--meta')
    a = ap.parse_args(argv)
    try:
        text, meta = process_template(a.unit, canary=a.canary)
    except (ExtractError, L.LexError, OSError) as e:
        print('EXTRACT-ERROR unit=%s: %s' % (a.unit, e), file=sys.stderr)
        return 2
    with open(a.out, 'w', encoding='utf-8') as f:
        f.write(text)
    if a.meta:
        with open(a.meta, 'w') as f:
            json.dump(meta, f, indent=1)
    return 0


if __name__ == '__main__':
    sys.exit(main(sys.argv[1:]))
