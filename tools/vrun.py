"""Run one Verus unit: extract from /repo, verify, classify the outcome.

status:
  ok         every function in the generated file verified
  fail       Verus reported a *verification* failure (pre/postcondition, invariant, assert, overflow,
             termination, index ...) for at least one function
  undecided  extraction problem, unsupported construct, rustc error, rlimit/timeout: the check is
             broken for this tree; never reported as a violation
"""
import json
import os
import re
import subprocess
import sys
import time

sys.path.insert(0, os.path.dirname(os.path.abspath(__file__)))
import vx  # noqa: E402

VERUS = os.environ.get('VERIF_VERUS', 'verus')
ASSUME_PATTERNS = [
    (r'\bassume\s*\(', 'assume'),
    (r'\badmit\s*\(', 'admit'),
    (r'external_body', 'external_body'),
    (r'assume_specification', 'assume_specification'),
    (r'#\[verifier::external', 'verifier::external'),
    (r'\buninterp\b', 'uninterp'),
    (r'external_type_specification', 'external_type_specification'),
]


def new_loop_locals(unit, cur, failed_fns):
    """names in cur[fn#loop] that the baseline (contracts/LOOP_LOCALS.json, recorded on the pinned tree) does not list, for failed functions"""
    try:
        with open(os.path.join(vx.CONTRACTS, 'LOOP_LOCALS.json')) as f:
            base = json.load(f).get(unit, {})
    except (OSError, ValueError):
        return []
    out = []
    failed_short = {(f or '').split('::')[-1] for f in failed_fns}
    for key, names in cur.items():
        fn = key.split('#')[0]
        if fn not in failed_short:
            continue
        extra = [x for x in names if x not in base.get(key, [])]
        if extra:
            out.append('%s: %s' % (key, ', '.join(extra)))
    return out


def load_trusted():
    path = os.path.join(vx.CONTRACTS, 'TRUSTED.json')
    with open(path) as f:
        return json.load(f)


def scan_assumptions(text):
    """Return list of (kind, line_no, line, name) for every trusted construct in the generated file."""
    found = []
    lines = text.split('\n')
    for no, ln in enumerate(lines, 1):
        code = ln.split('//')[0]
        for pat, kind in ASSUME_PATTERNS:
            if re.search(pat, code):
                # name: next fn name / bracket content
                ctxt = ' '.join(l.split('//')[0] for l in lines[no - 1:no + 6])
                m = re.search(r'\[([^\]]+)\]', code) if kind == 'assume_specification' else None
                if m:
                    name = m.group(1).strip()
                else:
                    m = re.search(r'\b(fn|struct|enum|trait)\s+(\w+)', ctxt)
                    name = m.group(2) if m else '?'
                found.append((kind, no, ln.strip(), name))
                break
    return found


def line_fn_map(text):
    """Map line number -> function name, for generated file (best effort, by `fn NAME` occurrences)."""
    cur = None
    m = {}
    for no, ln in enumerate(text.split('\n'), 1):
        mm = re.search(r'\bfn\s+(\w+)', ln.split('//')[0])
        if mm and not re.search(r'\b(spec|proof)\s+fn', ln) or (mm and re.search(r'\bproof\s+fn', ln)):
            cur = mm.group(1)
        m[no] = cur
    return m


def hint_lines(text):
    """Lines of the generated file that belong to spliced proof hints (between the //@@hint markers) or to proof fns (lemmas).
    A failure located there is a failed *hint*; a failure anywhere else (ensures, invariant, decreases, a real call's precondition,
    a real assert!, arithmetic, indexing) is a failed *contract*."""
    hs = set()
    inside = False
    in_proof_fn = False
    depth = 0
    for no, ln in enumerate(text.split('\n'), 1):
        t = ln.strip()
        if t == vx.HINT_BEGIN:
            inside = True
        if inside:
            hs.add(no)
        if t == vx.HINT_END:
            inside = False
        code = ln.split('//')[0]
        if depth == 0 and re.search(r'\bproof\s+fn\b', code):
            in_proof_fn = True
        if in_proof_fn:
            hs.add(no)
        depth += code.count('{') - code.count('}')
        if in_proof_fn and depth == 0 and '}' in code:
            in_proof_fn = False
    return hs


def parse_diagnostics(stderr, fname):
    """Split rustc-style stderr into blocks: [{'level','msg','line','text'}]"""
    blocks = []
    cur = None
    for ln in stderr.split('\n'):
        m = re.match(r'^(error|warning|note)(\[E\d+\])?: (.*)$', ln)
        if m:
            cur = {'level': m.group(1), 'msg': m.group(3), 'line': None, 'text': [ln]}
            blocks.append(cur)
            continue
        if cur is not None:
            cur['text'].append(ln)
            mm = re.match(r'^\s*--> (.*?):(\d+):(\d+)', ln)
            if mm and cur['line'] is None and os.path.basename(mm.group(1)) == os.path.basename(fname):
                cur['line'] = int(mm.group(2))
    for b in blocks:
        b['text'] = '\n'.join(b['text']).rstrip()
    return blocks


VERIF_ERR = re.compile(r'(postcondition not satisfied|precondition not satisfied|invariant not satisfied|assertion failed|'
                       r'possible arithmetic (under|over)flow|possible division by zero|decreases not satisfied|'
                       r'could not prove termination|loop invariant|recommendation not met|unreachable|'
                       r'cannot show invariant|might panic|failed to|possible bit shift|index out of bounds|'
                       r'bitvector assertion not satisfied|bit_vector)', re.I)
RLIMIT_ERR = re.compile(r'(resource limit|rlimit|timed? ?out|while loop: Resource)', re.I)


def run_unit(unit, workdir, canary=False, rlimit=None, timeout=900, tpl_path=None):
    """Composite units re-verify the functions of the units they include; their canary is restricted to the functions
    they add (registry.CANARY_ONLY) and run one function at a time (--verify-function), the others have their own canary."""
    import registry
    names = registry.CANARY_ONLY.get(unit) if canary is True else None
    if not names:
        return _run_unit(unit, workdir, canary, rlimit, timeout, tpl_path)
    merged = None
    for nm in names:
        # `*::NAME`: the plain name is ambiguous for Verus when another item's name ends the same way
        r = _run_unit(unit, workdir, list(names), rlimit, timeout, tpl_path, extra=['--verify-root', '--verify-function', '*::' + nm])
        r['functions'] = [f for f in r['functions'] if f['function'].split('::')[-1] == nm]
        if merged is None:
            merged = r
        else:
            merged['functions'] += r['functions']
            merged['wall_s'] += r['wall_s']
            if r['status'] != 'fail':
                merged['status'] = r['status']
                merged['reason'] = r.get('reason', '')
    ext = merged.get('extraction', {})
    ext['functions'] = [f for f in ext.get('functions', []) if f.split('::')[-1] in names]
    merged['canary'] = True
    return merged


def _run_unit(unit, workdir, canary=False, rlimit=None, timeout=900, tpl_path=None, extra=None):
    t0 = time.time()
    res = {'unit': unit, 'backend': 'verus', 'canary': canary, 'status': 'undecided', 'functions': [],
           'failed': [], 'reason': '', 'wall_s': 0.0}
    os.makedirs(workdir, exist_ok=True)
    try:
        text, meta = vx.process_template(unit, tpl_path=tpl_path, canary=canary)
    except (vx.ExtractError, vx.L.LexError, OSError, IndexError, AttributeError, ValueError) as e:
        res['reason'] = 'extraction: %s: %s' % (type(e).__name__, e)
        res['wall_s'] = time.time() - t0
        return res
    res['extraction'] = meta
    fname = os.path.join(workdir, unit + ('_canary' if canary else '') + '.rs')
    with open(fname, 'w') as f:
        f.write(text)
    # assumption scan
    trusted = load_trusted()
    scan = scan_assumptions(text)
    tb = []
    unlisted = []
    for kind, no, ln, name in scan:
        key = '%s:%s' % (kind, name)
        if key in trusted:
            if key not in [t['key'] for t in tb]:
                tb.append({'key': key, 'why': trusted[key]})
        else:
            unlisted.append('%s (line %d: %s)' % (key, no, ln[:100]))
    res['trusted'] = tb
    if unlisted:
        res['reason'] = 'unlisted trusted construct(s): ' + '; '.join(unlisted)
        res['wall_s'] = time.time() - t0
        return res
    # canary runs only need to know that every function fails: stop at the first error of each function
    cmd = [VERUS, fname, '--output-json', '--time', '--multiple-errors', '1' if canary else '20']
    if canary and not rlimit:
        rlimit = 3   # a canary only has to stay unproved; a small budget keeps the many failing queries cheap
    if rlimit:
        cmd += ['--rlimit', str(rlimit)]
    if extra:
        cmd += extra
    res['cmd'] = ' '.join(cmd)
    try:
        p = subprocess.run(cmd, cwd=workdir, stdout=subprocess.PIPE, stderr=subprocess.PIPE, timeout=timeout,
                           universal_newlines=True)
    except subprocess.TimeoutExpired:
        res['reason'] = 'verus timeout after %ds' % timeout
        res['wall_s'] = time.time() - t0
        return res
    res['wall_s'] = time.time() - t0
    stderr = p.stderr
    res['stderr_tail'] = stderr[-6000:]
    try:
        out = json.loads(p.stdout)
    except ValueError:
        res['reason'] = 'verus produced no JSON (rustc/parse error): ' + ' | '.join(
            b['msg'] for b in parse_diagnostics(stderr, fname) if b['level'] == 'error')[:600]
        return res
    vr = out.get('verification-results', {})
    funcs = []
    for mod in out.get('times-ms', {}).get('smt', {}).get('smt-run-module-times', []):
        for fb in mod.get('function-breakdown', []):
            funcs.append({'function': fb['function'].split('::', 1)[-1], 'mode': fb.get('mode:', fb.get('mode', '')),
                          'ms': round(fb.get('time-micros', 0) / 1000.0, 1), 'rlimit': fb.get('rlimit', 0),
                          'success': bool(fb.get('success'))})
    res['functions'] = funcs
    res['smt_ms'] = out.get('times-ms', {}).get('smt', {}).get('total', 0)
    res['verified'] = vr.get('verified', 0)
    res['errors'] = vr.get('errors', 0)
    diags = parse_diagnostics(stderr, fname)
    errs = [b for b in diags if b['level'] == 'error' and not b['msg'].startswith('aborting due to')]
    if vr.get('encountered-vir-error') or (vr.get('encountered-error') and not funcs):
        res['reason'] = 'verus front-end error (unsupported construct / type error): ' + ' | '.join(b['msg'] for b in errs)[:800]
        return res
    if vr.get('success') and vr.get('errors', 1) == 0 and all(f['success'] for f in funcs):
        if not funcs:
            res['reason'] = 'no obligations generated'
            return res
        res['status'] = 'ok'
        return res
    # failure: classify
    lf = line_fn_map(text)
    failed_fns = [f['function'] for f in funcs if not f['success']]
    rl = [b for b in errs if RLIMIT_ERR.search(b['text'])]
    ver = [b for b in errs if not RLIMIT_ERR.search(b['text'])]
    if not ver and rl:
        res['reason'] = 'resource limit exceeded in: ' + ', '.join(failed_fns)
        res['rlimit_exceeded'] = True
        if canary:
            res['status'] = 'fail'   # for a canary "not proved" is the expected outcome, whatever the reason
        return res
    unknown = [b for b in ver if not VERIF_ERR.search(b['text'])]
    if unknown and not [b for b in ver if VERIF_ERR.search(b['text'])]:
        res['reason'] = 'unclassified verus error: ' + ' | '.join(b['msg'] for b in unknown)[:800]
        return res
    lost = res.get('extraction', {}).get('lost_anchors', [])
    if lost:
        # proof hints could not be placed (the code around an anchor changed): a failure now may be a missing hint
        res['reason'] = 'anchor(s) lost, proof hints dropped, verification then failed: ' + '; '.join(lost)[:600]
        return res
    # a hoisted expression: an immutable local that is new (w.r.t. the pinned tree) in an isolated loop whose invariant cannot mention it
    newloc = new_loop_locals(unit, res.get('extraction', {}).get('loop_locals', {}), failed_fns)
    if newloc:
        res['reason'] = ('loop(s) read a local bound outside them that the loop invariant does not mention (hoisted expression; Verus checks '
                         'loop bodies from the invariant alone), verification then failed: ' + '; '.join(newloc))[:700]
        return res
    res['status'] = 'fail'
    hl = hint_lines(text)
    for b in ver:
        res['failed'].append({'function': lf.get(b['line']) if b['line'] else None, 'line': b['line'], 'msg': b['msg'],
                              'level': 'hint' if (b['line'] in hl) else 'contract',
                              'diagnostic': b['text'][:3000]})
    # only proof hints failed: the contracts themselves were not refuted (the hints may simply no longer fit the code)
    res['hint_only'] = bool(res['failed']) and all(f['level'] == 'hint' for f in res['failed'])
    res['failed_functions'] = failed_fns
    if rl:
        res['rlimit_exceeded'] = True
    return res


if __name__ == '__main__':
    import argparse
    ap = argparse.ArgumentParser()
    ap.add_argument('unit')
    ap.add_argument('--canary', action='store_true')
    ap.add_argument('--work', default='/tmp/vx')
    ap.add_argument('--rlimit')
    a = ap.parse_args()
    r = run_unit(a.unit, a.work, canary=a.canary, rlimit=a.rlimit)
    print('unit=%s status=%s wall=%.1fs smt=%sms verified=%s errors=%s' % (r['unit'], r['status'], r['wall_s'], r.get('smt_ms'), r.get('verified'), r.get('errors')))
    if r['reason']:
        print('reason:', r['reason'])
    for f in r['functions']:
        if not f['success'] or f['ms'] > 2000:
            print('  %-60s %8.0fms rlimit=%s %s' % (f['function'], f['ms'], f['rlimit'], 'ok' if f['success'] else 'FAILED'))
    for f in r['failed']:
        print('--- in fn %s (line %s)' % (f['function'], f['line']))
        print(f['diagnostic'][:2500])
    if r['status'] == 'undecided':
        print(r.get('stderr_tail', '')[-3000:])
    if r.get('extraction', {}).get('unannotated_loops'):
        print('unannotated loops:', r['extraction']['unannotated_loops'])
