#!/usr/bin/env python3
"""Developer tool (never part of a check): applies single-token changes to /repo one at a time, runs the Verus units that cover the
changed function, restores /repo, and tabulates: P-fail (the unit reports a failed obligation), undecided, or ok (= the contracts
did not notice).  Usage: python3 tools/mutation_selftest.py [name-filter]"""
import os, subprocess, sys, json
sys.path.insert(0, os.path.dirname(__file__))
import vrun
REPO = '/repo'
M = [
 # name, file, old, new, occurrence (1-based), units
 ('delta: root returns dead', 'src/bytewise.rs', 'return ROOT_STATE_IDX;', 'return DEAD_STATE_IDX;', 1, ['search_bw']),
 ('ovl: end off by one', 'src/bytewise/iter.rs', 'end: pos + 1,', 'end: pos,', 1, ['iter_bw']),
 ('ovl: pos off by one', 'src/bytewise/iter.rs', 'self.pos = pos + 1;', 'self.pos = pos;', 1, ['iter_bw']),
 ('find: end off by one', 'src/bytewise/iter.rs', 'end: pos + 1,', 'end: pos,', 2, ['iter_bw']),
 ('leftmost: pos off by one', 'src/bytewise/iter.rs', 'self.pos = pos + 1;', 'self.pos = pos;', 2, ['iter_bw']),
 ('utf8: continuation mask', 'src/charwise/iter.rs', 'rest & 0x3f', 'rest & 0x1f', 1, ['utf8']),
 ('utf8: 3-byte lead mask', 'src/charwise/iter.rs', 'first & 0x0f', 'first & 0x1f', 1, ['utf8']),
 ('cw nosuf: end is previous offset', 'src/charwise/iter.rs', 'end: pos,', 'end: pos - 1,', 3, ['iter_cw']),
 ('helper: push_block bound', 'src/build_helper.rs', 'self.num_elements() > u32::MAX - self.block_len', 'self.num_elements() >= u32::MAX - self.block_len', 1, ['helper']),
 ('helper: unused base search negated', 'src/build_helper.rs', '!self.is_used_base(base)', 'self.is_used_base(base)', 1, ['helper', 'build_bw']),
 ('build_bw: base uniqueness test dropped', 'src/bytewise/builder.rs', 'if helper.is_used_base(base) {', 'if false && helper.is_used_base(base) {', 1, ['build_bw']),
 ('build_bw: extend bound', 'src/bytewise/builder.rs', 'self.states.len() > usize::from_u32(u32::MAX - BLOCK_LEN)', 'self.states.len() > usize::from_u32(u32::MAX)', 1, ['build_bw']),
 ('build_bw: num_states', 'src/bytewise/builder.rs', 'nfa.states.len() - 1', 'nfa.states.len() - 2', 1, ['wrap_bw']),
 ('build_cw: num_states', 'src/charwise/builder.rs', 'nfa.states.len() - 1', 'nfa.states.len()', 1, ['wrap_cw']),
 ('add: len not counted', 'src/nfa_builder.rs', 'self.len += 1;', 'self.len += 0;', 1, ['nfa_add']),
 ('mapper: code shifted', 'src/charwise/mapper.rs', 'table[c] = u32::try_from(i).unwrap();', 'table[c] = u32::try_from(i + 1).unwrap();', 1, ['mapper_cw']),
 ('ser: state field order', 'src/bytewise.rs', 'self.base.serialize_to_vec(dst);\n        self.fail.serialize_to_vec(dst);', 'self.fail.serialize_to_vec(dst);\n        self.base.serialize_to_vec(dst);', 1, ['ser']),
 ('cw child: check against child', 'src/charwise.rs', '== state_id\n        {', '== child_idx\n        {', 1, ['search_cw']),
 ('cw leftmost: skips not reset', 'src/charwise/iter.rs', 'skips = 0;\n            }', 'skips = 1;\n            }', 1, ['lm_cw']),
 ('stats: heap bytes', 'src/bytewise.rs', 'self.states.len() * mem::size_of::<State>()', 'self.states.len() * mem::size_of::<u32>()', 1, ['stats']),
 ('remove_invalid_checks: dead slot skipped', 'src/bytewise/builder.rs', 'idx == ROOT_STATE_IDX || idx == DEAD_STATE_IDX || !helper.is_used_index(idx)', 'idx == ROOT_STATE_IDX || !helper.is_used_index(idx)', 1, ['build_bw']),
 ('fails: chase starts at the root', 'src/nfa_builder.rs', 'let mut fail_id = s.fail;', 'let mut fail_id = ROOT_STATE_ID;', 1, ['pass_bw']),
 ('fails: wrong break value', 'src/nfa_builder.rs', 'break child_fail_id;', 'break fail_id;', 1, ['pass_bw']),
 ('fails: child not queued', 'src/nfa_builder.rs', '                q.push(child_id);', '                let _ = child_id;', 1, ['pass_bw']),
 ('fails: link written to the parent', 'src/nfa_builder.rs', 'self.states[usize::from_u32(child_id)].borrow_mut().fail = new_fail_id;', 'self.states[state_id].borrow_mut().fail = new_fail_id;', 1, ['pass_bw']),
 ('fails: queue index not advanced', 'src/nfa_builder.rs', 'qi += 1;', 'qi += 0;', 1, ['pass_bw']),
 ('leftmost: output state not marked dead', 'src/nfa_builder.rs', 's.fail = DEAD_STATE_ID;', 's.fail = ROOT_STATE_ID;', 1, ['pass_bw']),
 ('leftmost: root reached means dead', 'src/nfa_builder.rs', 'break ROOT_STATE_ID;', 'break DEAD_STATE_ID;', 2, ['pass_bw']),
 ('leftmost: chase ignores dead links', 'src/nfa_builder.rs', 'if next_fail_id == DEAD_STATE_ID {', 'if false {', 1, ['pass_bw']),
 ('leftmost: dead not propagated', 'src/nfa_builder.rs', 'let new_fail_id = if fail_id == DEAD_STATE_ID {', 'let new_fail_id = if false {', 1, ['pass_bw']),
 ('outputs: position off by one', 'src/nfa_builder.rs', 'u32::try_from(self.outputs.len() + 1).unwrap()', 'u32::try_from(self.outputs.len() + 2).unwrap()', 1, ['pass_bw']),
 ('outputs: parent is own position', 'src/nfa_builder.rs', 'let parent = self.states[usize::from_u32(s.fail)].borrow().output_pos;', 'let parent = s.output_pos;', 1, ['pass_bw']),
 ('outputs: no inheritance', 'src/nfa_builder.rs', 's.output_pos = self.states[usize::from_u32(s.fail)].borrow().output_pos;', 's.output_pos = None;', 1, ['pass_bw']),
 ('outputs: length is char count', 'src/nfa_builder.rs', 'Output::new(output.0, output.1.get(), parent)', 'Output::new(output.0, 1, parent)', 1, ['pass_bw']),
 ('build: value is position + 1', 'src/bytewise/builder.rs', 'V::try_from(i).map', 'V::try_from(i + 1).map', 1, ['wrap_bw']),
 ('cw builder: check holds child id', 'src/charwise/builder.rs', '.set_check(state_idx)', '.set_check(child_idx)', 1, ['build_cw']),
]
def nth(s, sub, k):
    i = -1
    for _ in range(k):
        i = s.find(sub, i + 1)
        if i < 0: return -1
    return i
rows = []
flt = sys.argv[1] if len(sys.argv) > 1 else ''
for name, f, old, new, k, units in M:
    if flt and flt not in name: continue
    p = os.path.join(REPO, f)
    src = open(p).read()
    i = nth(src, old, k)
    if i < 0:
        rows.append((name, 'SITE NOT FOUND', '')); continue
    open(p, 'w').write(src[:i] + new + src[i + len(old):])
    try:
        if subprocess.call(['cargo', 'check', '--offline', '-q'], cwd=REPO, stdout=subprocess.DEVNULL, stderr=subprocess.DEVNULL) != 0:
            rows.append((name, 'does not compile', '')); continue
        res = []
        for u in units:
            r = vrun.run_unit(u, '/tmp/vx/mut_' + u)
            res.append('%s=%s%s%s' % (u, r['status'], ('(hint-only)' if r.get('hint_only') else ''), (' [' + ','.join(sorted(set(x.get('function') or '?' for x in r.get('failed', [])))) [:80] + ']') if r['status'] == 'fail' else ''))
        rows.append((name, ' '.join(res), ''))
    finally:
        open(p, 'w').write(src)
for r in rows:
    print('%-45s %s' % (r[0], r[1]))
subprocess.call(['git', '-C', REPO, 'status', '--short'])
