"""Minimal Rust lexer + structural helpers used by the extractor.

Only what is needed to cut items out of /repo/src verbatim and to find
structural anchors (fn header end, n-th loop, closures, statements).
No dependency outside the Python standard library.
"""
import re

IDENT_RE = re.compile(r'[A-Za-z_][A-Za-z0-9_]*')
NUM_RE = re.compile(r'[0-9][0-9A-Za-z_]*(\.[0-9][0-9A-Za-z_]*)?')


class Tok:
    __slots__ = ('kind', 's', 'e', 'text')

    def __init__(self, kind, s, e, text):
        self.kind, self.s, self.e, self.text = kind, s, e, text

    def __repr__(self):
        return '%s(%r@%d)' % (self.kind, self.text, self.s)


class LexError(Exception):
    pass


def lex(src):
    """Return list of Tok (whitespace dropped; comments kept as kind 'comment')."""
    toks = []
    i, n = 0, len(src)
    while i < n:
        c = src[i]
        if c.isspace():
            i += 1
            continue
        if src.startswith('//', i):
            j = src.find('\n', i)
            j = n if j < 0 else j
            toks.append(Tok('comment', i, j, src[i:j]))
            i = j
            continue
        if src.startswith('/*', i):
            depth, j = 1, i + 2
            while j < n and depth:
                if src.startswith('/*', j):
                    depth += 1
                    j += 2
                elif src.startswith('*/', j):
                    depth -= 1
                    j += 2
                else:
                    j += 1
            toks.append(Tok('comment', i, j, src[i:j]))
            i = j
            continue
        # raw strings / byte strings
        m = re.match(r'b?r(#*)"', src[i:i + 40])
        if m:
            hashes = m.group(1)
            close = '"' + hashes
            j = src.find(close, i + m.end())
            if j < 0:
                raise LexError('unterminated raw string at %d' % i)
            j += len(close)
            toks.append(Tok('string', i, j, src[i:j]))
            i = j
            continue
        if c == '"' or (c == 'b' and i + 1 < n and src[i + 1] == '"'):
            j = i + (2 if c == 'b' else 1)
            while j < n and src[j] != '"':
                j += 2 if src[j] == '\\' else 1
            j += 1
            toks.append(Tok('string', i, j, src[i:j]))
            i = j
            continue
        if c == "'" or (c == 'b' and i + 1 < n and src[i + 1] == "'"):
            k = i + (1 if c == 'b' else 0)
            # char literal or lifetime?
            m = re.match(r"'(\\.[^']*|[^\\'])'", src[k:k + 16])
            if m:
                j = k + m.end()
                toks.append(Tok('char', i, j, src[i:j]))
                i = j
                continue
            m = re.match(r"'[A-Za-z_][A-Za-z0-9_]*", src[k:k + 64])
            if m and c == "'":
                j = k + m.end()
                toks.append(Tok('lifetime', i, j, src[i:j]))
                i = j
                continue
            raise LexError('bad quote at %d' % i)
        m = IDENT_RE.match(src, i)
        if m:
            toks.append(Tok('ident', i, m.end(), m.group(0)))
            i = m.end()
            continue
        m = NUM_RE.match(src, i)
        if m:
            toks.append(Tok('num', i, m.end(), m.group(0)))
            i = m.end()
            continue
        toks.append(Tok('punct', i, i + 1, c))
        i += 1
    return toks


OPEN = {'{': '}', '(': ')', '[': ']'}
CLOSE = {'}', ')', ']'}


def code_toks(src):
    return [t for t in lex(src) if t.kind != 'comment']


def match_close(toks, idx):
    """toks[idx] is an opening delimiter; return index of its closing partner."""
    depth = 0
    for j in range(idx, len(toks)):
        t = toks[j]
        if t.kind == 'punct':
            if t.text in OPEN:
                depth += 1
            elif t.text in CLOSE:
                depth -= 1
                if depth == 0:
                    return j
    raise LexError('unbalanced delimiter at %d' % toks[idx].s)


def skip_generics(toks, idx):
    """toks[idx] is '<'; return index after the matching '>' (handles ->, nested)."""
    depth = 0
    j = idx
    while j < len(toks):
        t = toks[j]
        if t.kind == 'punct':
            if t.text == '<':
                depth += 1
            elif t.text == '>':
                if not (j > 0 and toks[j - 1].kind == 'punct' and toks[j - 1].text in '-=' and toks[j - 1].e == t.s):
                    depth -= 1
                    if depth == 0:
                        return j + 1
            elif t.text in OPEN:
                j = match_close(toks, j)
        j += 1
    raise LexError('unbalanced <')


ITEM_KW = ('fn', 'struct', 'enum', 'impl', 'const', 'type', 'trait', 'mod', 'use', 'static', 'macro_rules', 'extern')


class Item:
    def __init__(self, kind, name, s, e, body_s, header):
        # s..e : full text incl. leading attributes/doc comments; body_s: index of '{' (or -1)
        self.kind, self.name, self.s, self.e, self.body_s, self.header = kind, name, s, e, body_s, header

    def __repr__(self):
        return 'Item(%s %s %d..%d)' % (self.kind, self.name, self.s, self.e)


def items_in(src, lo=0, hi=None):
    """Parse the sequence of items in src[lo:hi] (file level or inside an impl/mod body)."""
    hi = len(src) if hi is None else hi
    alltoks = [t for t in lex(src[lo:hi])]
    for t in alltoks:
        t.s += lo
        t.e += lo
    toks = [t for t in alltoks if t.kind != 'comment']
    items = []
    i = 0
    n = len(toks)
    while i < n:
        start_tok = i
        # attributes
        while i < n and toks[i].text == '#':
            j = i + 1
            if j < n and toks[j].text == '!':
                j += 1
            if j < n and toks[j].text == '[':
                i = match_close(toks, j) + 1
            else:
                break
        # visibility / qualifiers
        j = i
        while j < n and toks[j].kind == 'ident' and toks[j].text in ('pub', 'unsafe', 'const', 'async', 'default', 'extern'):
            if toks[j].text == 'const' and j + 1 < n and toks[j + 1].kind == 'ident' and toks[j + 1].text not in ('fn', 'unsafe', 'async', 'extern'):
                break
            if toks[j].text == 'extern' and j + 1 < n and toks[j + 1].text == 'crate':
                break
            j += 1
            if j < n and toks[j].text == '(' and toks[j - 1].text == 'pub':
                j = match_close(toks, j) + 1
            if j < n and toks[j].kind == 'string' and toks[j - 1].text == 'extern':
                j += 1
        if j >= n:
            break
        kw = toks[j].text
        if toks[j].kind != 'ident' or kw not in ITEM_KW:
            # macro invocation at item level, e.g. define_serializable_primitive!(u8, 1);
            if toks[j].kind == 'ident' and j + 1 < n and toks[j + 1].text == '!':
                k = j + 2
                if toks[k].kind == 'ident':
                    k += 1
                endk = match_close(toks, k)
                if toks[k].text != '{' and endk + 1 < n and toks[endk + 1].text == ';':
                    endk += 1
                items.append(Item('macro', toks[j].text, toks[start_tok].s, toks[endk].e, -1, ''))
                i = endk + 1
                continue
            raise LexError('cannot parse item at offset %d: %r' % (toks[j].s, src[toks[j].s:toks[j].s + 40]))
        name = ''
        k = j + 1
        if kw == 'impl':
            # header text up to '{'
            kk = k
            while toks[kk].text != '{':
                if toks[kk].text == '<':
                    kk = skip_generics(toks, kk)
                elif toks[kk].text in OPEN:
                    kk = match_close(toks, kk) + 1
                else:
                    kk += 1
            name = ' '.join(src[toks[j].s:toks[kk].s].split())
            body = kk
            endk = match_close(toks, body)
            items.append(Item('impl', name, toks[start_tok].s, toks[endk].e, toks[body].s, name))
            i = endk + 1
            continue
        if kw == 'macro_rules':
            name = toks[k + 1].text
            kk = k + 2
            endk = match_close(toks, kk)
            items.append(Item('macro_rules', name, toks[start_tok].s, toks[endk].e, -1, ''))
            i = endk + 1
            continue
        if kw == 'use' or (kw == 'extern'):
            kk = j
            while toks[kk].text != ';':
                kk += 1
            items.append(Item('use', '', toks[start_tok].s, toks[kk].e, -1, ''))
            i = kk + 1
            continue
        name = toks[k].text
        # find end: first ';' or '{' at depth 0 (skipping generics/parens)
        kk = k + 1
        body = -1
        while True:
            t = toks[kk]
            if t.text == ';':
                endk = kk
                break
            if t.text == '{':
                body = kk
                endk = match_close(toks, kk)
                # `struct X {..}` has no trailing ';'
                break
            if t.text == '<' and kw in ('fn', 'struct', 'enum', 'type', 'trait') and src[t.s - 1] != ' ' and toks[kk - 1].kind == 'ident':
                kk = skip_generics(toks, kk)
                continue
            if t.text in ('(', '['):
                kk = match_close(toks, kk) + 1
                continue
            if t.text == '=' and kw in ('const', 'static', 'type'):
                # skip expression to ';' respecting delimiters
                kk += 1
                while toks[kk].text != ';':
                    if toks[kk].text in OPEN:
                        kk = match_close(toks, kk) + 1
                    else:
                        kk += 1
                continue
            kk += 1
        header = src[toks[j].s:(toks[body].s if body >= 0 else toks[endk].s)]
        items.append(Item(kw, name, toks[start_tok].s, toks[endk].e, toks[body].s if body >= 0 else -1, header))
        i = endk + 1
    # extend item starts backwards over doc comments directly preceding: we simply keep s at first attr/token;
    # comments are dropped by extraction anyway.
    return items


def find_loops(src):
    """Return list of (kw_start, brace_pos) for every loop/while/for in src (a fn text), source order.

    `for` inside `impl ... for` / HRTB `for<'a>` do not occur inside fn bodies we extract."""
    toks = code_toks(src)
    out = []
    for i, t in enumerate(toks):
        if t.kind == 'ident' and t.text in ('loop', 'while', 'for'):
            if t.text == 'for' and i + 1 < len(toks) and toks[i + 1].text == '<':
                continue
            # header ends at first '{' at depth 0 (parens/brackets skipped; closures with braces in
            # loop headers do not occur in the extracted code)
            k = i + 1
            while k < len(toks):
                if toks[k].text == '{':
                    break
                if toks[k].text in ('(', '['):
                    k = match_close(toks, k) + 1
                    continue
                k += 1
            out.append((t.s, toks[k].s))
    return out


def fn_body_brace(src):
    """src is the text of one fn item; return offset of the '{' opening its body."""
    toks = code_toks(src)
    i = 0
    while toks[i].text != 'fn':
        i += 1
    k = i + 2
    while k < len(toks):
        t = toks[k]
        if t.text == '{':
            return t.s
        if t.text == '<' and toks[k - 1].kind == 'ident' and toks[k - 1].e == t.s:
            k = skip_generics(toks, k)
            continue
        if t.text in ('(', '['):
            k = match_close(toks, k) + 1
            continue
        k += 1
    raise LexError('fn without body')


def stmt_bounds(src, pos):
    """Return (start, end) of the statement containing offset pos inside fn text src:
    start = after previous ';' or '{' or '}' at the same depth, end = after the next ';' at that depth
    (or the closing '}' of a block-like statement)."""
    toks = code_toks(src)
    # compute depth of each token
    depth = 0
    depths = []
    for t in toks:
        if t.kind == 'punct' and t.text in CLOSE:
            depth -= 1
        depths.append(depth)
        if t.kind == 'punct' and t.text in OPEN:
            depth += 1
    idx = None
    for i, t in enumerate(toks):
        if t.s <= pos < t.e or (t.s >= pos and idx is None):
            idx = i
            break
    if idx is None:
        raise LexError('anchor position outside tokens')
    # innermost brace block containing idx
    d = depths[idx]
    # walk back to enclosing '{' depth: find statement depth = depth of nearest enclosing '{' + 1
    j = idx
    bd = None
    while j >= 0:
        if toks[j].text == '{' and depths[j] < d + (0 if toks[idx].text in CLOSE else 1) and depths[j] <= depths[idx]:
            # ensure it really encloses
            if match_close(toks, j) >= idx:
                bd = depths[j] + 1
                open_j = j
                break
        j -= 1
    if bd is None:
        raise LexError('no enclosing block')
    # statement start
    s = open_j + 1
    for j in range(idx - 1, open_j, -1):
        if depths[j] == bd and toks[j].text == ';':
            s = j + 1
            break
        if depths[j] == bd and toks[j].text == '}' :
            # a block statement ended here (if/loop) unless followed by else / method chain
            nxt = toks[j + 1]
            if not (nxt.text in ('else', '.', '?', ')', ',') ):
                s = j + 1
                break
    close_j = match_close(toks, open_j)
    e = close_j
    blocklike = toks[s].kind == 'ident' and toks[s].text in ('for', 'while', 'loop')
    if blocklike:
        k = s + 1
        while k < close_j and not (toks[k].text == '{' and depths[k] == bd):
            k += 1
        if k < close_j:
            e = match_close(toks, k) + 1
    else:
        for j in range(idx, close_j):
            if depths[j] == bd and toks[j].text == ';':
                e = j + 1
                break
    start_off = toks[s].s
    end_off = toks[e - 1].e if e > 0 else toks[e].s
    return start_off, end_off
