"""Build and run the bounded stand-in driver against a scratch copy of /repo's working tree.

The copy gets three injected read-only modules (bounded/verif_hooks*.rs) behind
`#[cfg(daachorse_verif)]`; nothing is written to /repo.
"""
import hashlib
import json
import os
import shutil
import subprocess
import time

ROOT = os.path.dirname(os.path.dirname(os.path.abspath(__file__)))
REPO = os.environ.get('VERIF_REPO', '/repo')

CARGO_TOML = '''[package]
name = "daachorse"
version = "1.0.0"
edition = "2021"

[features]
default = ["alloc"]
alloc = []

[[bin]]
name = "verif_bounded"
path = "src/bin/verif_bounded.rs"

[profile.release]
debug-assertions = true
overflow-checks = true
opt-level = 2

[workspace]
'''


def tree_hash(srcdir):
    h = hashlib.sha256()
    for base, _, files in sorted(os.walk(srcdir)):
        for f in sorted(files):
            p = os.path.join(base, f)
            h.update(p[len(srcdir):].encode())
            with open(p, 'rb') as fh:
                h.update(fh.read())
    return h.hexdigest()


def build(work):
    """Build under a lock in a shared directory (cargo incremental cache), copy the binary to `work`."""
    import fcntl
    shared = os.path.join(ROOT, '.work', 'bbuild')
    os.makedirs(shared, exist_ok=True)
    os.makedirs(work, exist_ok=True)
    with open(os.path.join(shared, '.lock'), 'w') as lk:
        fcntl.flock(lk, fcntl.LOCK_EX)
        binp, log = build_locked(shared)
        if binp:
            dst = os.path.join(work, 'verif_bounded')
            shutil.copy(binp, dst)
            binp = dst
    return binp, log


def build_locked(work):
    """Copy /repo/src, inject hooks, build. Returns (binary path | None, log)."""
    crate = os.path.join(work, 'crate')
    src = os.path.join(crate, 'src')
    if os.path.isdir(src):
        shutil.rmtree(src)
    os.makedirs(crate, exist_ok=True)
    shutil.copytree(os.path.join(REPO, 'src'), src)
    with open(os.path.join(crate, 'Cargo.toml'), 'w') as f:
        f.write(CARGO_TOML)
    inj = [('lib.rs', 'verif_hooks', 'verif_hooks.rs', ''),
           ('bytewise.rs', 'verif_hooks_bw', 'verif_hooks_bw.rs', 'bytewise'),
           ('charwise.rs', 'verif_hooks_cw', 'verif_hooks_cw.rs', 'charwise')]
    for host, mod, fname, sub in inj:
        hp = os.path.join(src, host)
        with open(hp, 'a') as f:
            f.write('\n#[cfg(daachorse_verif)]\n#[doc(hidden)]\npub mod %s;\n' % mod)
        dst_dir = os.path.join(src, sub) if sub else src
        shutil.copy(os.path.join(ROOT, 'bounded', fname), os.path.join(dst_dir, fname))
    os.makedirs(os.path.join(src, 'bin'), exist_ok=True)
    shutil.copy(os.path.join(ROOT, 'bounded', 'main.rs'), os.path.join(src, 'bin', 'verif_bounded.rs'))
    env = dict(os.environ)
    env['RUSTFLAGS'] = '--cfg daachorse_verif -A warnings'
    env['CARGO_NET_OFFLINE'] = 'true'
    env['CARGO_TARGET_DIR'] = os.path.join(work, 'target')
    p = subprocess.run(['cargo', 'build', '--release', '--offline', '--bin', 'verif_bounded'], cwd=crate, env=env,
                       stdout=subprocess.PIPE, stderr=subprocess.STDOUT, universal_newlines=True)
    binp = os.path.join(work, 'target', 'release', 'verif_bounded')
    if p.returncode != 0 or not os.path.exists(binp):
        return None, p.stdout[-4000:]
    return binp, p.stdout[-1000:]


def run(work, props, tier, seed, timeout=3600):
    t0 = time.time()
    res = {'status': 'undecided', 'reason': '', 'failures': [], 'evaluations': {}, 'wall_s': 0.0}
    binp, log = build(work)
    if not binp:
        res['reason'] = 'bounded driver does not build against this tree: ' + log[-1500:]
        return res
    out = os.path.join(work, 'bounded_%s.json' % '_'.join(props))
    if os.path.exists(out):
        os.remove(out)
    cmd = [binp, '--props', ','.join(props), '--tier', tier, '--seed', str(seed), '--out', out]
    res['cmd'] = ' '.join(cmd)
    if timeout == 3600:
        timeout = 360 if tier == 'quick' else 2400      # the driver normally needs about 40 s (quick) / 5 min (thorough)
    try:
        p = subprocess.run(cmd, stdout=subprocess.PIPE, stderr=subprocess.PIPE, universal_newlines=True, timeout=timeout)
    except subprocess.TimeoutExpired:
        # a hang (C13: every search terminates; C10: construction does not hang): rerun with breadcrumbs, the cases still in
        # progress at the timeout are the candidates; a candidate that does not finish on its own within 30 s is the failing input
        crumbs = os.path.join(work, 'crumbs')
        shutil.rmtree(crumbs, ignore_errors=True)
        os.makedirs(crumbs)
        env = dict(os.environ)
        env['VERIF_BREADCRUMB'] = crumbs
        try:
            subprocess.run(cmd, stdout=subprocess.PIPE, stderr=subprocess.PIPE, universal_newlines=True, timeout=timeout, env=env)
        except subprocess.TimeoutExpired:
            pass
        cands = []
        for fn in sorted(os.listdir(crumbs)):
            try:
                with open(os.path.join(crumbs, fn)) as f:
                    cands.append(json.load(f))
            except (OSError, ValueError):
                pass
        for c in cands:
            tmp = os.path.join(work, 'hang_candidate.json')
            with open(tmp, 'w') as f:
                json.dump(c, f)
            try:
                subprocess.call([binp, '--replay', tmp], stdout=subprocess.DEVNULL, stderr=subprocess.DEVNULL, timeout=30)
            except subprocess.TimeoutExpired:
                c['clause'] = 'terminates'
                c['actual'] = 'construction or search did not return within 30 s on this input (driver timeout %d s) | %s' % (timeout, c.get('actual', ''))
                res['failures'] = [c]
                res['status'] = 'fail'
                res['hang'] = True
                res['wall_s'] = time.time() - t0
                return res
        res['reason'] = 'bounded driver timeout (%d s) and no single case reproduces a hang (%d candidates)' % (timeout, len(cands))
        return res
    try:
        with open(out) as f:
            data = json.load(f)
    except (OSError, ValueError) as e:
        if p.returncode < 0 or p.returncode in (134, 139):
            # the driver itself died (abort from a UB check, segfault): rerun with breadcrumbs to find the case
            crumbs = os.path.join(work, 'crumbs')
            shutil.rmtree(crumbs, ignore_errors=True)
            os.makedirs(crumbs)
            env = dict(os.environ)
            env['VERIF_BREADCRUMB'] = crumbs
            p2 = subprocess.run(cmd, stdout=subprocess.PIPE, stderr=subprocess.PIPE, universal_newlines=True, timeout=timeout, env=env)
            cands = []
            for fn in sorted(os.listdir(crumbs)):
                try:
                    with open(os.path.join(crumbs, fn)) as f:
                        cands.append(json.load(f))
                except (OSError, ValueError):
                    pass
            res['crash'] = {'returncode': p.returncode, 'stderr_tail': (p.stderr or '')[-1500:], 'candidates': len(cands)}
            # confirm which candidate reproduces the crash on its own
            for c in cands:
                tmp = os.path.join(work, 'crash_candidate.json')
                with open(tmp, 'w') as f:
                    json.dump(c, f)
                rc = subprocess.call([binp, '--replay', tmp], stdout=subprocess.DEVNULL, stderr=subprocess.DEVNULL)
                if rc < 0 or rc in (134, 139):
                    c['actual'] = 'process aborted with status %d; stderr: %s | %s' % (rc, (p.stderr or '')[-400:].replace('\n', ' '), c['actual'])
                    res['failures'] = [c]
                    res['status'] = 'fail'
                    res['wall_s'] = time.time() - t0
                    return res
            res['reason'] = 'bounded driver died (status %s) and no single case reproduces it: %s' % (p.returncode, (p.stderr or '')[-500:])
            return res
        res['reason'] = 'bounded driver produced no report (exit %s): %s %s' % (p.returncode, e, p.stderr[-500:])
        return res
    res.update(data)
    res['status'] = 'ok' if not data['failures'] else 'fail'
    res['wall_s'] = time.time() - t0
    return res


def replay(work, path):
    binp, log = build(work)
    if not binp:
        print('cannot build bounded driver:', log)
        return 2
    try:
        rc = subprocess.call([binp, '--replay', path], timeout=120)
    except subprocess.TimeoutExpired:
        print('REPLAY: the case does not return within 120 s (hang)')
        return 1
    if rc < 0 or rc in (134, 139):
        print('replay: the process ABORTED (status %d) on this input -- the violation reproduces' % rc)
        return 1
    return rc


if __name__ == '__main__':
    import sys
    r = run(os.path.join(ROOT, '.work', 'bounded'), sys.argv[1].split(','), sys.argv[2] if len(sys.argv) > 2 else 'quick', 1)
    fails = r.pop('failures')
    print(json.dumps(r, indent=1))
    for f in fails[:10]:
        print(json.dumps(f))
