#!/bin/bash
# usage: confirm_seed.sh <name> <worktree> <property> ; confirms a seeded change and stores it under /verif/seeded/<name>
set -u
name=$1; wt=$2; prop=$3
out=/verif/seeded/$name; mkdir -p $out
cd $wt || exit 2
export CARGO_TARGET_DIR=$wt/target CARGO_NET_OFFLINE=true
demo=$(ls tests/demo_*.rs | head -1); dn=$(basename $demo .rs)
cp patch.diff $out/patch.diff; cp $demo $out/
git checkout -q -- src
# without the change: demo must pass
cargo test --offline --test $dn > $out/demo_without.log 2>&1; r_without=$?
git apply patch.diff || { echo "patch does not apply"; exit 2; }
cargo test --offline --test $dn > $out/demo_with.log 2>&1; r_with=$?
mv $demo /tmp/$dn.aside
cargo test --workspace --no-fail-fast --offline > $out/suite_with.log 2>&1; r_suite=$?
mv /tmp/$dn.aside $demo
passed=$(grep -E "^test result" $out/suite_with.log | awk '{s+=$4} END {print s}')
failed=$(grep -E "^test result" $out/suite_with.log | awk '{s+=$6} END {print s}')
echo "$name: demo_without_exit=$r_without demo_with_exit=$r_with suite_exit=$r_suite suite_passed=$passed suite_failed=$failed"
cat > $out/confirm.txt <<EOT
demo without change: exit $r_without (must be 0)
demo with change: exit $r_with (must be non-zero)
existing suite with change: exit $r_suite, passed=$passed failed=$failed (must be 0 failed; 74 tests + 43 doctests = 117)
EOT
for f in demo_without demo_with suite_with; do tail -5 $out/$f.log > $out/$f.tail; rm $out/$f.log; done
