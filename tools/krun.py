"""Run Kani harnesses (kani/verif_kani.rs) against a scratch copy of /repo's working tree."""
import fcntl
import os
import re
import shutil
import subprocess
import time

ROOT = os.path.dirname(os.path.dirname(os.path.abspath(__file__)))
REPO = os.environ.get('VERIF_REPO', '/repo')

CARGO_TOML = '''[package]
name = "daachorse"
version = "1.0.0"
edition = "2021"

[features]
default = ["alloc"]
alloc = []

[workspace]

[lints.rust]
unexpected_cfgs = { level = "allow", check-cfg = ['cfg(kani)'] }
'''

TRUSTED = [{'key': 'kani/cbmc', 'why': 'CBMC bit-precise model of the compiled MIR; harnesses are loop-free or have loops bounded by the operand width (unwinding assertions on)'}]


def prepare(work):
    crate = os.path.join(work, 'crate')
    src = os.path.join(crate, 'src')
    if os.path.isdir(src):
        shutil.rmtree(src)
    os.makedirs(crate, exist_ok=True)
    shutil.copytree(os.path.join(REPO, 'src'), src)
    with open(os.path.join(crate, 'Cargo.toml'), 'w') as f:
        f.write(CARGO_TOML)
    lock = os.path.join(REPO, 'Cargo.lock')
    with open(os.path.join(src, 'lib.rs'), 'a') as f:
        f.write('\n#[cfg(kani)]\nmod verif_kani;\n')
    shutil.copy(os.path.join(ROOT, 'kani', 'verif_kani.rs'), os.path.join(src, 'verif_kani.rs'))
    return crate


def run_group(harnesses, work, timeout=1800):
    """Returns {harness: result dict}."""
    t0 = time.time()
    out = {h: {'harness': h, 'backend': 'kani', 'status': 'undecided', 'reason': '', 'wall_s': 0.0, 'trusted': TRUSTED} for h in harnesses}
    shared = os.path.join(ROOT, '.work', 'kbuild')
    os.makedirs(shared, exist_ok=True)
    with open(os.path.join(shared, '.lock'), 'w') as lk:
        fcntl.flock(lk, fcntl.LOCK_EX)
        try:
            crate = prepare(shared)
        except OSError as e:
            for h in harnesses:
                out[h]['reason'] = 'cannot prepare scratch crate: %s' % e
            return out
        env = dict(os.environ)
        env['CARGO_NET_OFFLINE'] = 'true'
        env['CARGO_TARGET_DIR'] = os.path.join(shared, 'target')
        cmd = ['cargo', 'kani', '-j', '8', '--output-format', 'terse', '--default-unwind', '18']
        for h in harnesses:
            cmd += ['--harness', h]
        try:
            p = subprocess.run(cmd, cwd=crate, env=env, stdout=subprocess.PIPE, stderr=subprocess.STDOUT, universal_newlines=True, timeout=timeout)
            text = p.stdout
        except subprocess.TimeoutExpired as e:
            text = (e.stdout or '') if isinstance(e.stdout, str) else ''
            for h in harnesses:
                out[h]['reason'] = 'kani timeout'
    wall = time.time() - t0
    cur = {}
    blocks = {}
    active = None
    for ln in text.split('\n'):
        m = re.match(r'^Thread (\d+): ?(.*)$', ln)
        if m:
            tid, rest = m.group(1), m.group(2)
            mm = re.match(r'Checking harness (\S+?)\.\.\.', rest)
            if mm:
                cur[tid] = mm.group(1).split('::')[-1]
                active = None
            else:
                active = cur.get(tid)
                if active:
                    blocks.setdefault(active, []).append(rest)
            continue
        mm = re.match(r'^Checking harness (\S+?)\.\.\.', ln)
        if mm:
            active = mm.group(1).split('::')[-1]
            blocks.setdefault(active, [])
            continue
        if ln.startswith('Manual Harness Summary') or ln.startswith('Complete - '):
            active = None
        if active:
            blocks.setdefault(active, []).append(ln)
    seen = set()
    for name, lines_ in blocks.items():
        b = '\n'.join(lines_)
        if name not in out:
            continue
        seen.add(name)
        r = out[name]
        r['wall_s'] = wall / max(1, len(harnesses))
        r['cmd'] = ' '.join(cmd)
        m = re.search(r'Verification Time: ([0-9.]+)s', b)
        if m:
            r['solver_s'] = float(m.group(1))
        if 'VERIFICATION:- SUCCESSFUL' in b:
            r['status'] = 'ok'
            m = re.search(r'\*\* (\d+) of (\d+) failed', b)
            r['checks'] = m.group(0) if m else ''
        elif 'VERIFICATION:- FAILED' in b:
            fails = re.findall(r'(?m)^Failed Checks: (.*)$', b)
            if fails and all('unwinding' in f for f in fails):
                r['reason'] = 'unwinding bound too small: ' + '; '.join(fails)[:300]
            else:
                r['status'] = 'fail'
                r['output'] = b[-3000:]
                r['reason'] = '; '.join(fails)[:600]
        else:
            r['reason'] = 'no verdict in kani output: ' + b[-300:]
    for h in harnesses:
        if h not in seen and not out[h]['reason']:
            out[h]['reason'] = 'harness not run (compile error?): ' + text[-800:]
    return out


def run_harness(h, work):
    return run_group([h], work)[h]


if __name__ == '__main__':
    import sys
    res = run_group(sys.argv[1:], '/tmp/kx')
    for h, r in res.items():
        print(h, r['status'], r.get('checks', ''), r['reason'][:300])
