// Bounded stand-in / falsifier driver.  Compiled inside a scratch copy of the crate with
// `--cfg daachorse_verif` (three read-only hook modules injected).  It enumerates every input inside a
// stated bound, calls the REAL functions and evaluates the executable form of (a) the contracts that
// the Verus chain assumes for the NFA stage and for the automaton invariants, (b) the property
// statements at the public API.  Labelled `bounded` everywhere; never counted as proved.
#![allow(clippy::all)]
use std::cell::Cell;
use std::collections::{BTreeMap, BTreeSet};
use std::io::Write;
use std::panic::{catch_unwind, AssertUnwindSafe};
use std::rc::Rc;
use std::sync::atomic::{AtomicU64, Ordering};
use std::sync::Mutex;

use daachorse::bytewise::verif_hooks_bw::{da_view as da_view_bw, DaViewBw};
use daachorse::charwise::verif_hooks_cw::{da_view as da_view_cw, DaViewCw};
use daachorse::verif_hooks::{error_code, run_nfa_stage, NfaView};
use daachorse::{
    CharwiseDoubleArrayAhoCorasick, CharwiseDoubleArrayAhoCorasickBuilder, DoubleArrayAhoCorasick,
    DoubleArrayAhoCorasickBuilder, MatchKind,
};

type M = (usize, usize, u32); // (start, end, value)

const KINDS: [MatchKind; 3] = [MatchKind::Standard, MatchKind::LeftmostLongest, MatchKind::LeftmostFirst];

fn kind_id(k: MatchKind) -> u8 {
    match k {
        MatchKind::Standard => 0,
        MatchKind::LeftmostLongest => 1,
        MatchKind::LeftmostFirst => 2,
    }
}
fn kind_from(i: u64) -> MatchKind {
    KINDS[i as usize]
}

// ------------------------------------------------------------------------------------------------
// reference semantics: transcriptions of the property statements (quadratic, obviously correct)
// ------------------------------------------------------------------------------------------------
fn occurs(p: &[u8], hay: &[u8], s: usize) -> bool {
    s + p.len() <= hay.len() && &hay[s..s + p.len()] == p
}

fn ref_overlapping(pats: &[Vec<u8>], vals: &[u32], hay: &[u8]) -> Vec<M> {
    let mut out = vec![];
    for e in 1..=hay.len() {
        let mut here: Vec<M> = vec![];
        for (i, p) in pats.iter().enumerate() {
            if p.len() <= e && occurs(p, hay, e - p.len()) {
                here.push((e - p.len(), e, vals[i]));
            }
        }
        here.sort_by(|a, b| a.0.cmp(&b.0)); // longest first == smallest start first
        out.extend(here);
    }
    out
}

fn ref_no_suffix(pats: &[Vec<u8>], vals: &[u32], hay: &[u8]) -> Vec<M> {
    let mut out = vec![];
    for e in 1..=hay.len() {
        let mut best: Option<M> = None;
        for (i, p) in pats.iter().enumerate() {
            if p.len() <= e && occurs(p, hay, e - p.len()) {
                let m = (e - p.len(), e, vals[i]);
                if best.map_or(true, |b| m.0 < b.0) {
                    best = Some(m);
                }
            }
        }
        if let Some(b) = best {
            out.push(b);
        }
    }
    out
}

fn ref_find(pats: &[Vec<u8>], vals: &[u32], hay: &[u8]) -> Vec<M> {
    let mut out = vec![];
    let mut k = 0usize;
    loop {
        let mut found: Option<M> = None;
        'e: for e in k + 1..=hay.len() {
            let mut best: Option<M> = None;
            for (i, p) in pats.iter().enumerate() {
                if p.len() <= e - k && occurs(p, hay, e - p.len()) {
                    let m = (e - p.len(), e, vals[i]);
                    if best.map_or(true, |b| m.0 < b.0) {
                        best = Some(m);
                    }
                }
            }
            if best.is_some() {
                found = best;
                break 'e;
            }
        }
        match found {
            None => return out,
            Some(m) => {
                out.push(m);
                k = m.1;
            }
        }
    }
}

fn ref_leftmost(pats: &[Vec<u8>], vals: &[u32], hay: &[u8], first: bool) -> Vec<M> {
    let mut out = vec![];
    let mut k = 0usize;
    while k <= hay.len() {
        let mut found: Option<M> = None;
        's: for s in k..hay.len() {
            let mut best: Option<(usize, M)> = None; // (pattern index, match)
            for (i, p) in pats.iter().enumerate() {
                if occurs(p, hay, s) {
                    let m = (s, s + p.len(), vals[i]);
                    let better = match best {
                        None => true,
                        Some((_, b)) => {
                            if first {
                                false // earliest registered wins: keep the first found
                            } else {
                                m.1 > b.1
                            }
                        }
                    };
                    if better {
                        best = Some((i, m));
                    }
                }
            }
            if let Some((_, m)) = best {
                found = Some(m);
                break 's;
            }
        }
        match found {
            None => return out,
            Some(m) => {
                out.push(m);
                k = m.1;
            }
        }
    }
    out
}

// ------------------------------------------------------------------------------------------------
// failure reporting
// ------------------------------------------------------------------------------------------------
#[derive(Clone, Debug)]
struct Failure {
    property: String,
    clause: String,
    variant: String,
    kind: u8,
    nfb: u32,
    patterns: Vec<Vec<u8>>,
    values: Vec<u32>,
    haystack: Vec<u8>,
    expected: String,
    actual: String,
}

fn hex(b: &[u8]) -> String {
    b.iter().map(|x| format!("{:02x}", x)).collect()
}
fn unhex(s: &str) -> Vec<u8> {
    (0..s.len() / 2).map(|i| u8::from_str_radix(&s[2 * i..2 * i + 2], 16).unwrap()).collect()
}
fn jstr(s: &str) -> String {
    let mut o = String::from("\"");
    for c in s.chars() {
        match c {
            '"' => o.push_str("\\\""),
            '\\' => o.push_str("\\\\"),
            '\n' => o.push_str("\\n"),
            c if (c as u32) < 0x20 => o.push_str(&format!("\\u{:04x}", c as u32)),
            c => o.push(c),
        }
    }
    o.push('"');
    o
}
impl Failure {
    fn to_json(&self) -> String {
        format!(
            "{{\"property\":{},\"clause\":{},\"variant\":{},\"kind\":{},\"nfb\":{},\"patterns\":[{}],\"values\":[{}],\"haystack\":{},\"expected\":{},\"actual\":{}}}",
            jstr(&self.property),
            jstr(&self.clause),
            jstr(&self.variant),
            self.kind,
            self.nfb,
            self.patterns.iter().map(|p| jstr(&hex(p))).collect::<Vec<_>>().join(","),
            self.values.iter().map(|v| v.to_string()).collect::<Vec<_>>().join(","),
            jstr(&hex(&self.haystack)),
            jstr(&self.expected),
            jstr(&self.actual)
        )
    }
}

struct Stats {
    evals: BTreeMap<String, AtomicU64>,
    failures: Mutex<Vec<Failure>>,
    automata: AtomicU64,
    distinct: Mutex<BTreeSet<u64>>,
}
impl Stats {
    fn new() -> Self {
        let mut evals = BTreeMap::new();
        for p in ALL_PROPS {
            evals.insert(p.to_string(), AtomicU64::new(0));
        }
        evals.insert("NFA".to_string(), AtomicU64::new(0));
        evals.insert("DA".to_string(), AtomicU64::new(0));
        Stats { evals, failures: Mutex::new(vec![]), automata: AtomicU64::new(0), distinct: Mutex::new(BTreeSet::new()) }
    }
    fn tick(&self, p: &str) {
        self.evals[p].fetch_add(1, Ordering::Relaxed);
    }
    fn fail(&self, f: Failure) {
        let mut g = self.failures.lock().unwrap();
        if g.iter().filter(|x| x.property == f.property && x.clause == f.clause).count() < 3 {
            g.push(f);
        }
    }
}
const ALL_PROPS: [&str; 14] = ["C01", "C02", "C03", "C04", "C05", "C06", "C07", "C08", "C09", "C10", "C11", "C12", "C13", "C15"];

// ------------------------------------------------------------------------------------------------
// running the real automata
// ------------------------------------------------------------------------------------------------
struct Counting<I> {
    inner: I,
    pulled: Rc<Cell<usize>>,
    nones: Rc<Cell<usize>>,
}
impl<I: Iterator<Item = u8>> Iterator for Counting<I> {
    type Item = u8;
    fn next(&mut self) -> Option<u8> {
        let r = self.inner.next();
        if r.is_some() {
            self.pulled.set(self.pulled.get() + 1);
        } else {
            self.nones.set(self.nones.get() + 1);
        }
        r
    }
}

fn ms<V: Copy + Into<u64>>(it: impl Iterator<Item = daachorse::Match<V>>) -> Vec<M> {
    it.map(|m| (m.start(), m.end(), m.value().into() as u32)).collect()
}

struct Ctx<'a> {
    st: &'a Stats,
    props: &'a BTreeSet<String>,
}
impl<'a> Ctx<'a> {
    fn on(&self, p: &str) -> bool {
        self.props.contains(p)
    }
}

fn mk_fail(prop: &str, clause: &str, variant: &str, kind: MatchKind, nfb: u32, pats: &[Vec<u8>], vals: &[u32], hay: &[u8], exp: String, act: String) -> Failure {
    Failure {
        property: prop.to_string(),
        clause: clause.to_string(),
        variant: variant.to_string(),
        kind: kind_id(kind),
        nfb,
        patterns: pats.to_vec(),
        values: vals.to_vec(),
        haystack: hay.to_vec(),
        expected: exp,
        actual: act,
    }
}

fn build_bw(pats: &[Vec<u8>], vals: &[u32], kind: MatchKind, nfb: u32) -> Result<DoubleArrayAhoCorasick<u32>, u8> {
    let pv: Vec<(&[u8], u32)> = pats.iter().map(|p| p.as_slice()).zip(vals.iter().copied()).collect();
    DoubleArrayAhoCorasickBuilder::new().match_kind(kind).num_free_blocks(nfb).build_with_values(pv).map_err(|e| error_code(&e))
}
fn build_cw(pats: &[Vec<u8>], vals: &[u32], kind: MatchKind, nfb: u32) -> Result<CharwiseDoubleArrayAhoCorasick<u32>, u8> {
    let pv: Vec<(&str, u32)> = pats.iter().map(|p| std::str::from_utf8(p).unwrap()).zip(vals.iter().copied()).collect();
    CharwiseDoubleArrayAhoCorasickBuilder::new().match_kind(kind).num_free_blocks(nfb).build_with_values(pv).map_err(|e| error_code(&e))
}

/// all search checks for one automaton pair and one haystack
fn check_searches(cx: &Ctx, variant: &str, kind: MatchKind, nfb: u32, pats: &[Vec<u8>], vals: &[u32], hay: &[u8],
                  bw: Option<&DoubleArrayAhoCorasick<u32>>, cw: Option<&CharwiseDoubleArrayAhoCorasick<u32>>) {
    let st = cx.st;
    let hay_str = std::str::from_utf8(hay).ok();
    let f = |prop: &str, clause: &str, var: &str, e: &Vec<M>, a: &Vec<M>| {
        st.fail(mk_fail(prop, clause, var, kind, nfb, pats, vals, hay, format!("{:?}", e), format!("{:?}", a)));
    };
    let bounds_ok = |v: &Vec<M>| v.iter().all(|m| m.0 < m.1 && m.1 <= hay.len());
    if cx.on("C07") {
        // execute every search so that the UB checks compiled into this driver (debug assertions on unchecked
        // operations) can fire; only memory-safety observables are judged here: offsets inside the haystack and,
        // for the char-wise automaton, on character boundaries
        st.tick("C07");
        let mut all: Vec<(&str, Vec<M>)> = vec![];
        if let Some(p) = bw {
            if kind == MatchKind::Standard { all.push(("bytewise", ms(p.find_overlapping_iter(hay)))); all.push(("bytewise", ms(p.find_iter(hay)))); all.push(("bytewise", ms(p.find_overlapping_no_suffix_iter(hay)))); }
            else { all.push(("bytewise", ms(p.leftmost_find_iter(hay)))); }
        }
        if let (Some(c), Some(hs)) = (cw, hay_str) {
            if kind == MatchKind::Standard { all.push(("charwise", ms(c.find_overlapping_iter(hs)))); all.push(("charwise", ms(c.find_iter(hs)))); all.push(("charwise", ms(c.find_overlapping_no_suffix_iter(hs)))); }
            else { all.push(("charwise", ms(c.leftmost_find_iter(hs)))); }
            for (v, a) in all.iter().filter(|x| x.0 == "charwise") { if !a.iter().all(|m| m.1 <= hay.len() && hs.is_char_boundary(m.0) && hs.is_char_boundary(m.1)) { f("C07", "char-wise offsets inside the haystack and on char boundaries", v, &vec![], a); } }
        }
        for (v, a) in &all { if !bounds_ok(a) { f("C07", "0<=start<end<=len (no read outside the haystack)", v, &vec![], a); } }
    }
    if kind == MatchKind::Standard {
        let e_ovl = ref_overlapping(pats, vals, hay);
        let e_ns = ref_no_suffix(pats, vals, hay);
        let e_find = ref_find(pats, vals, hay);
        if let Some(p) = bw {
            let a_ovl = ms(p.find_overlapping_iter(hay));
            let a_ns = ms(p.find_overlapping_no_suffix_iter(hay));
            let a_find = ms(p.find_iter(hay));
            if cx.on("C01") { st.tick("C01"); if a_ovl != e_ovl { f("C01", "overlapping==all occurrences", "bytewise", &e_ovl, &a_ovl); } }
            if cx.on("C05") { st.tick("C05"); if a_ns != e_ns { f("C05", "no-suffix==longest per end", "bytewise", &e_ns, &a_ns); } }
            if cx.on("C02") { st.tick("C02"); if a_find != e_find { f("C02", "find==earliest end then restart", "bytewise", &e_find, &a_find); } }
            if cx.on("C06") {
                st.tick("C06");
                for a in [&a_ovl, &a_ns, &a_find] {
                    if !bounds_ok(a) { f("C06", "0<=start<end<=len", "bytewise", &vec![], a); }
                    for m in a.iter() {
                        if !pats.iter().zip(vals).any(|(p, v)| *v == m.2 && &hay[m.0..m.1] == p.as_slice()) {
                            f("C06", "match text/value is a registered pair", "bytewise", &vec![], a);
                        }
                    }
                }
            }
            if cx.on("C12") {
                st.tick("C12");
                // same results + laziness, each of the three standard methods
                for which in 0..3 {
                    let pulled = Rc::new(Cell::new(0usize));
                    let nones = Rc::new(Cell::new(0usize));
                    let src = Counting { inner: hay.iter().copied(), pulled: pulled.clone(), nones: nones.clone() };
                    let mut got: Vec<M> = vec![];
                    let mut lazy_ok = true;
                    macro_rules! drive { ($it:expr) => {{ let mut it = $it; loop { match it.next() { Some(m) => { if pulled.get() != m.end() { lazy_ok = false; } got.push((m.start(), m.end(), m.value())); } None => break } } }} }
                    match which {
                        0 => drive!(p.find_iter_from_iter(src)),
                        1 => drive!(p.find_overlapping_iter_from_iter(src)),
                        _ => drive!(p.find_overlapping_no_suffix_iter_from_iter(src)),
                    }
                    let exp = [&a_find, &a_ovl, &a_ns][which];
                    if &got != exp { f("C12", "from_iter == slice results", "bytewise", exp, &got); }
                    if !lazy_ok { f("C12", "pulled == m.end at every returned match", "bytewise", exp, &got); }
                    if pulled.get() != hay.len() { f("C12", "every byte pulled exactly once by the end", "bytewise", &vec![(0, hay.len(), 0)], &vec![(0, pulled.get(), 0)]); }
                }
            }
        }
        if let (Some(c), Some(hs)) = (cw, hay_str) {
            let a_ovl = ms(c.find_overlapping_iter(hs));
            let a_ns = ms(c.find_overlapping_no_suffix_iter(hs));
            let a_find = ms(c.find_iter(hs));
            if cx.on("C01") { st.tick("C01"); if a_ovl != e_ovl { f("C01", "overlapping==all occurrences", "charwise", &e_ovl, &a_ovl); } }
            if cx.on("C05") { st.tick("C05"); if a_ns != e_ns { f("C05", "no-suffix==longest per end", "charwise", &e_ns, &a_ns); } }
            if cx.on("C02") { st.tick("C02"); if a_find != e_find { f("C02", "find==earliest end then restart", "charwise", &e_find, &a_find); } }
            if cx.on("C08") {
                st.tick("C08");
                if let Some(p) = bw {
                    if ms(p.find_overlapping_iter(hay)) != a_ovl { f("C08", "charwise==bytewise (overlapping)", "both", &ms(p.find_overlapping_iter(hay)), &a_ovl); }
                    if ms(p.find_overlapping_no_suffix_iter(hay)) != a_ns { f("C08", "charwise==bytewise (no suffix)", "both", &ms(p.find_overlapping_no_suffix_iter(hay)), &a_ns); }
                    if ms(p.find_iter(hay)) != a_find { f("C08", "charwise==bytewise (find)", "both", &ms(p.find_iter(hay)), &a_find); }
                }
                for a in [&a_ovl, &a_ns, &a_find] {
                    if !a.iter().all(|m| hs.is_char_boundary(m.0) && hs.is_char_boundary(m.1)) { f("C08", "offsets on char boundaries", "charwise", &vec![], a); }
                }
            }
            if cx.on("C06") {
                st.tick("C06");
                for a in [&a_ovl, &a_ns, &a_find] {
                    if !bounds_ok(a) { f("C06", "0<=start<end<=len", "charwise", &vec![], a); }
                }
            }
            if cx.on("C12") {
                st.tick("C12");
                for which in 0..3 {
                    let pulled = Rc::new(Cell::new(0usize));
                    let nones = Rc::new(Cell::new(0usize));
                    let src = Counting { inner: hay.iter().copied(), pulled: pulled.clone(), nones: nones.clone() };
                    let mut got: Vec<M> = vec![];
                    let mut lazy_ok = true;
                    macro_rules! drive { ($it:expr) => {{ let mut it = $it; loop { match it.next() { Some(m) => { if pulled.get() != m.end() { lazy_ok = false; } got.push((m.start(), m.end(), m.value())); } None => break } } }} }
                    unsafe {
                        match which {
                            0 => drive!(c.find_iter_from_iter(src)),
                            1 => drive!(c.find_overlapping_iter_from_iter(src)),
                            _ => drive!(c.find_overlapping_no_suffix_iter_from_iter(src)),
                        }
                    }
                    let exp = [&a_find, &a_ovl, &a_ns][which];
                    if &got != exp { f("C12", "from_iter == str results", "charwise", exp, &got); }
                    if !lazy_ok { f("C12", "pulled == m.end at every returned match", "charwise", exp, &got); }
                    if pulled.get() != hay.len() { f("C12", "every byte pulled exactly once by the end", "charwise", &vec![(0, hay.len(), 0)], &vec![(0, pulled.get(), 0)]); }
                }
            }
        }
    } else {
        let first = kind == MatchKind::LeftmostFirst;
        let prop = if first { "C04" } else { "C03" };
        let e = ref_leftmost(pats, vals, hay, first);
        if let Some(p) = bw {
            let a = ms(p.leftmost_find_iter(hay));
            if cx.on(prop) { st.tick(prop); if a != e { f(prop, "leftmost tiling", "bytewise", &e, &a); } }
            if cx.on("C06") { st.tick("C06"); if !bounds_ok(&a) { f("C06", "0<=start<end<=len", "bytewise", &vec![], &a); } }
        }
        if let (Some(c), Some(hs)) = (cw, hay_str) {
            let a = ms(c.leftmost_find_iter(hs));
            if cx.on(prop) { st.tick(prop); if a != e { f(prop, "leftmost tiling", "charwise", &e, &a); } }
            if cx.on("C08") {
                st.tick("C08");
                if let Some(p) = bw { let b = ms(p.leftmost_find_iter(hay)); if b != a { f("C08", "charwise==bytewise (leftmost)", "both", &b, &a); } }
                if !a.iter().all(|m| hs.is_char_boundary(m.0) && hs.is_char_boundary(m.1)) { f("C08", "offsets on char boundaries", "charwise", &vec![], &a); }
            }
        }
    }
    let _ = variant;
}

// ------------------------------------------------------------------------------------------------
// executable twins of the assumed contracts
// ------------------------------------------------------------------------------------------------
fn is_shadowed(pats: &[Vec<u8>], i: usize) -> bool {
    // leftmost-first: a pattern with an earlier-registered proper prefix is dropped at insertion
    (0..i).any(|j| pats[j].len() < pats[i].len() && pats[i].starts_with(&pats[j]) && !is_shadowed(pats, j))
}

/// `labels(p)`: pattern as label sequence (bytes or chars as u32) with byte length of each label
fn nfa_contract<L: Copy + Ord + std::fmt::Debug>(v: &NfaView<L>, pats: &[Vec<L>], vals: &[u32], kind: MatchKind, nbytes: &dyn Fn(&L) -> u32) -> Result<(), String> {
    let n = v.edges.len();
    if n < 2 { return Err("nfa_tree: fewer than 2 states".into()); }
    if !v.edges[1].is_empty() { return Err("nfa_tree: dead state has edges".into()); }
    let mut parent: Vec<Option<(usize, L)>> = vec![None; n];
    for s in 0..n {
        for (&c, &t) in &v.edges[s] {
            let t = t as usize;
            if t < 2 || t >= n { return Err(format!("nfa_tree: edge {}-{:?}->{} targets root/dead/out of range", s, c, t)); }
            if t <= s { return Err(format!("nfa_tree: edge {}->{} not increasing", s, t)); }
            if parent[t].is_some() { return Err(format!("nfa_tree: state {} has two parents", t)); }
            parent[t] = Some((s, c));
        }
    }
    for t in 2..n { if parent[t].is_none() { return Err(format!("nfa_tree: state {} unreachable", t)); } }
    let mut path: Vec<Vec<L>> = vec![vec![]; n];
    for t in 2..n { let (p, c) = parent[t].unwrap(); let mut x = path[p].clone(); x.push(c); path[t] = x; }
    let lf = kind == MatchKind::LeftmostFirst;
    let lm = kind != MatchKind::Standard;
    // which patterns are registered (not shadowed)
    let shadowed: Vec<bool> = (0..pats.len()).map(|i| lf && (0..i).any(|j| pats[j].len() < pats[i].len() && pats[i].starts_with(&pats[j]))).collect();
    // NOTE: a pattern shadowed by a shadowed pattern is also shadowed by that one's shadower (prefix transitivity)
    let mut prefixes: BTreeSet<Vec<L>> = BTreeSet::new();
    for (i, p) in pats.iter().enumerate() { if !shadowed[i] { for k in 1..=p.len() { prefixes.insert(p[..k].to_vec()); } } }
    let paths: BTreeSet<Vec<L>> = (2..n).map(|t| path[t].clone()).collect();
    if paths.len() != n - 2 { return Err("nfa_is_ac: two states share a path".into()); }
    if paths != prefixes { return Err(format!("nfa_is_ac: state paths != prefixes of registered patterns ({} vs {})", paths.len(), prefixes.len())); }
    let reg = pats.iter().enumerate().filter(|(i, _)| !shadowed[*i]).count();
    if v.len != reg { return Err(format!("add: len {} != registered patterns {}", v.len, reg)); }
    let state_of: BTreeMap<Vec<L>, usize> = (0..n).filter(|&t| t != 1).map(|t| (path[t].clone(), t)).collect();
    for t in 0..n {
        if t == 1 { continue; }
        let want = pats.iter().enumerate().find(|(i, p)| !shadowed[*i] && **p == path[t] && !p.is_empty()).map(|(i, p)| (vals[i], p.iter().map(|c| nbytes(c)).sum::<u32>()));
        if v.output[t] != want { return Err(format!("add: output of state {} is {:?}, want {:?}", t, v.output[t], want)); }
    }
    // links
    for t in 2..n {
        let f = v.fail[t] as usize;
        if f >= n { return Err(format!("nfa_links: fail[{}] out of range", t)); }
        if !lm {
            if f == 1 { return Err(format!("nfa_links: standard fail[{}] is dead", t)); }
            // longest proper suffix of path that is a trie node
            let p = &path[t];
            let mut want = 0usize;
            for k in 1..p.len() { if let Some(&s) = state_of.get(&p[k..].to_vec()) { want = s; break; } }
            if f != want { return Err(format!("nfa_is_ac: fail[{}]={} want {}", t, f, want)); }
        } else if f != 1 && !(path[f].len() < path[t].len() && path[t].ends_with(&path[f])) {
            return Err(format!("nfa_links: leftmost fail[{}]={} is not a shorter suffix state", t, f));
        }
    }
    if v.fail[0] != 0 && !(lm && v.fail[0] == 1) { return Err("nfa_links: root fail".into()); }
    // outputs
    for (j, o) in v.outputs.iter().enumerate() {
        if o.1 == 0 { return Err(format!("nfa_links: outputs[{}].length == 0", j)); }
        if o.2 as usize > j { return Err(format!("nfa_links: outputs[{}].parent {} not before own slot", j, o.2)); }
    }
    for t in 0..n {
        if t == 1 { continue; }
        let op = v.output_pos[t] as usize;
        if op > v.outputs.len() { return Err(format!("nfa_links: output_pos[{}] out of range", t)); }
        if !lm {
            // chain == registered patterns that are suffixes of path(t), longest first
            let mut chain = vec![];
            let mut o = op;
            let mut guard = 0;
            while o != 0 { let x = v.outputs[o - 1]; chain.push((x.0, x.1)); o = x.2 as usize; guard += 1; if guard > v.outputs.len() { return Err("outputs: parent cycle".into()); } }
            let mut want = vec![];
            let p = &path[t];
            for k in 0..p.len() {
                if let Some((i, q)) = pats.iter().enumerate().find(|(_, q)| **q == p[k..].to_vec()) { want.push((vals[i], q.iter().map(|c| nbytes(c)).sum::<u32>())); }
            }
            if chain != want { return Err(format!("nfa_is_ac: output chain of state {} is {:?}, want {:?}", t, chain, want)); }
        } else {
            // leftmost: output_pos is the state's own output, or inherited through non-dead fails
            if let Some((val, len)) = v.output[t] {
                if op == 0 || (v.outputs[op - 1].0, v.outputs[op - 1].1) != (val, len) { return Err(format!("leftmost: output_pos[{}] does not head its own output", t)); }
            }
        }
    }
    // q: every non-root, non-dead state once, parents first
    let mut seen = vec![false; n];
    for &s in &v.q {
        let s = s as usize;
        if s < 2 || s >= n || seen[s] { return Err("q: not a duplicate-free list of non-root states".into()); }
        let (p, _) = parent[s].unwrap();
        if p != 0 && !seen[p] { return Err("q: child before parent".into()); }
        seen[s] = true;
    }
    if v.q.len() != n - 2 { return Err("q: does not cover all states".into()); }
    Ok(())
}

struct DaGen {
    base: Vec<u32>,
    fail: Vec<u32>,
    opos: Vec<u32>,
    outputs: Vec<(u32, u32)>,
    leftmost: bool,
}
/// da_safe + da_ranked + encodes, evaluated on the real array. `child(s, label_index)`.
fn da_contract<L: Copy + Ord + std::fmt::Debug>(d: &DaGen, len_multiple: usize, child: &dyn Fn(usize, &L) -> Option<usize>, nfa: &NfaView<L>, num_states: usize,
                                               probe_labels: &[L]) -> Result<(), String> {
    let n = d.base.len();
    if n == 0 || n % len_multiple != 0 { return Err(format!("da_safe: len {} not a positive multiple of {}", n, len_multiple)); }
    for i in 0..n {
        if d.base[i] != 0 && d.base[i] as usize >= n { return Err(format!("da_safe: base[{}] out of range", i)); }
        if d.fail[i] as usize >= n { return Err(format!("da_safe: fail[{}] out of range", i)); }
        if d.opos[i] as usize > d.outputs.len() { return Err(format!("da_safe: output_pos[{}] out of range", i)); }
    }
    for (j, o) in d.outputs.iter().enumerate() { if o.1 as usize > j { return Err(format!("da_safe: outputs[{}].parent not before own slot", j)); } }
    // encodes: walk the NFA and the DA together
    let m = nfa.edges.len();
    if num_states != m - 1 { return Err(format!("num_states {} != nfa states - 1 = {}", num_states, m - 1)); }
    let mut idmap = vec![usize::MAX; m];
    idmap[0] = 0;
    let mut rank = vec![usize::MAX; n];
    rank[0] = 0;
    let mut order = vec![0usize];
    let mut qi = 0;
    while qi < order.len() {
        let s = order[qi];
        qi += 1;
        for (c, &t) in &nfa.edges[s] {
            match child(idmap[s], c) {
                Some(x) => {
                    if x == 1 || x == 0 { return Err(format!("encodes: edge lands on root/dead")); }
                    if rank[x] != usize::MAX { return Err(format!("encodes: idmap not injective at slot {}", x)); }
                    rank[x] = rank[idmap[s]] + 1;
                    idmap[t as usize] = x;
                    order.push(t as usize);
                }
                None => return Err(format!("encodes: edge {}-{:?}->{} missing in the double array", s, c, t)),
            }
        }
        for c in probe_labels {
            if !nfa.edges[s].contains_key(c) {
                if let Some(x) = child(idmap[s], c) { return Err(format!("encodes: spurious edge from nfa state {} on {:?} to slot {}", s, c, x)); }
            }
        }
    }
    for s in 0..m {
        if s == 1 { continue; }
        let x = idmap[s];
        if x == usize::MAX { return Err(format!("encodes: nfa state {} has no slot", s)); }
        let wf = if nfa.fail[s] == 1 { 1 } else { idmap[nfa.fail[s] as usize] };
        if d.fail[x] as usize != wf { return Err(format!("encodes: fail of slot {} is {}, want {}", x, d.fail[x], wf)); }
        if d.opos[x] != nfa.output_pos[s] { return Err(format!("encodes: output_pos of slot {} differs", x)); }
        // da_ranked fail clause
        if s != 0 {
            let f = d.fail[x] as usize;
            if !((rank[f] != usize::MAX && rank[f] < rank[x]) || (d.leftmost && f == 1)) { return Err(format!("da_ranked: fail of slot {} does not decrease rank", x)); }
        }
    }
    if d.outputs.len() != nfa.outputs.len() || d.outputs.iter().zip(&nfa.outputs).any(|(a, b)| a.0 != b.1 || a.1 != b.2) { return Err("encodes: outputs differ".into()); }
    Ok(())
}

/// properties whose chain contains the assumed DA-stage contract
fn da_props(cx: &Ctx) -> bool {
    ["C01", "C02", "C03", "C04", "C05", "C06", "C07", "C08", "C11", "C13", "C15"].iter().any(|p| cx.on(p))
}

fn da_gen_bw(v: &DaViewBw) -> DaGen { DaGen { base: v.base.clone(), fail: v.fail.clone(), opos: v.opos.clone(), outputs: v.outputs.clone(), leftmost: v.leftmost } }
fn da_gen_cw(v: &DaViewCw) -> DaGen { DaGen { base: v.base.clone(), fail: v.fail.clone(), opos: v.opos.clone(), outputs: v.outputs.clone(), leftmost: v.leftmost } }

/// transitions taken by the standard scan of `hay` on the byte-wise view (twin of the ghost counter)
fn transitions_bw(v: &DaViewBw, hay: &[u8]) -> usize {
    let mut s = 0usize;
    let mut steps = 0usize;
    for &c in hay {
        loop {
            steps += 1;
            if v.base[s] != 0 { let x = (v.base[s] ^ c as u32) as usize; if v.check[x] == c { s = x; break; } }
            if s == 0 { break; }
            s = v.fail[s] as usize;
        }
    }
    steps
}

// ------------------------------------------------------------------------------------------------
// per pattern-sequence checks
// ------------------------------------------------------------------------------------------------
fn distinct_prefix_count(pats: &[Vec<u8>], kind: MatchKind, as_chars: bool) -> usize {
    let lf = kind == MatchKind::LeftmostFirst;
    let mut set: BTreeSet<Vec<u32>> = BTreeSet::new();
    for (i, p) in pats.iter().enumerate() {
        if lf && (0..i).any(|j| pats[j].len() < p.len() && p.starts_with(&pats[j])) { continue; }
        let labels: Vec<u32> = if as_chars { std::str::from_utf8(p).unwrap().chars().map(|c| c as u32).collect() } else { p.iter().map(|&b| b as u32).collect() };
        for k in 1..=labels.len() { set.insert(labels[..k].to_vec()); }
    }
    set.len()
}

fn hash64(x: &[u8]) -> u64 { let mut h = 0xcbf29ce484222325u64; for &b in x { h ^= b as u64; h = h.wrapping_mul(0x100000001b3); } h }

fn breadcrumb(pats: &[Vec<u8>], vals: &[u32], kind: MatchKind, nfbs: &[u32], hays: &[Vec<u8>]) {
    if let Ok(dir) = std::env::var("VERIF_BREADCRUMB") {
        let f = Failure { property: "CRASH".into(), clause: "process aborted (UB check / abort) while this case was running".into(), variant: "any".into(), kind: kind_id(kind),
                          nfb: *nfbs.last().unwrap_or(&16), patterns: pats.to_vec(), values: vals.to_vec(), haystack: vec![], expected: "no abort".into(),
                          actual: format!("haystacks: {}", hays.iter().map(|h| hex(h)).collect::<Vec<_>>().join(",")) };
        let tid = format!("{:?}", std::thread::current().id()).replace(|c: char| !c.is_ascii_digit(), "");
        let _ = std::fs::write(format!("{}/crumb_{}.json", dir, tid), f.to_json());
    }
}

fn check_set(cx: &Ctx, pats: &[Vec<u8>], vals: &[u32], kind: MatchKind, nfbs: &[u32], hays: &[Vec<u8>], utf8: bool) {
    breadcrumb(pats, vals, kind, nfbs, hays);
    // a panic anywhere below (e.g. `Match::start` underflow, an index panic in a search) is itself a finding
    let r = catch_unwind(AssertUnwindSafe(|| check_set_inner(cx, pats, vals, kind, nfbs, hays, utf8)));
    if r.is_err() {
        // find the haystack
        let mut culprit: Vec<u8> = vec![];
        for h in hays {
            if catch_unwind(AssertUnwindSafe(|| check_set_inner(cx, pats, vals, kind, nfbs, &[h.clone()], utf8))).is_err() { culprit = h.clone(); break; }
        }
        cx.st.fail(mk_fail("PANIC", "the library panicked while searching / inspecting a match (valid input)", "any", kind, *nfbs.last().unwrap_or(&16), pats, vals, &culprit, "no panic".into(), "panic".into()));
    }
}

fn check_set_inner(cx: &Ctx, pats: &[Vec<u8>], vals: &[u32], kind: MatchKind, nfbs: &[u32], hays: &[Vec<u8>], utf8: bool) {
    let st = cx.st;
    let nfb0 = nfbs[0];
    // --- NFA stage contract (assumed by the Verus chain) ---
    let want_nfa = true;
    let bytes_pv: Vec<(Vec<u8>, u32)> = pats.iter().cloned().zip(vals.iter().copied()).collect();
    let nfa_b = if want_nfa { catch_unwind(AssertUnwindSafe(|| run_nfa_stage::<u8>(&bytes_pv, kind))).ok() } else { None };
    if want_nfa {
        st.tick("NFA");
        match &nfa_b {
            None => st.fail(mk_fail("C10", "NFA stage panicked (RefCell borrow or index)", "bytewise", kind, nfb0, pats, vals, &[], "no panic".into(), "panic".into())),
            Some(run) => if let Some(v) = &run.view {
                if let Err(e) = nfa_contract::<u8>(v, pats, vals, kind, &|_| 1) {
                    st.fail(mk_fail("NFA", "assumed NFA-stage contract", "bytewise", kind, nfb0, pats, vals, &[], "contract holds".into(), e));
                }
            },
        }
    }
    let chars_pv: Vec<(Vec<char>, u32)> = if utf8 { pats.iter().map(|p| std::str::from_utf8(p).unwrap().chars().collect()).zip(vals.iter().copied()).collect() } else { vec![] };
    let nfa_c = if want_nfa && utf8 { catch_unwind(AssertUnwindSafe(|| run_nfa_stage::<char>(&chars_pv, kind))).ok() } else { None };
    if let Some(run) = &nfa_c {
        if let Some(v) = &run.view {
            let cp: Vec<Vec<char>> = chars_pv.iter().map(|x| x.0.clone()).collect();
            if let Err(e) = nfa_contract::<char>(v, &cp, vals, kind, &|c| c.len_utf8() as u32) {
                st.fail(mk_fail("NFA", "assumed NFA-stage contract", "charwise", kind, nfb0, pats, vals, &[], "contract holds".into(), e));
            }
        }
    }
    // --- build with every nfb ---
    let mut first_bw: Option<DoubleArrayAhoCorasick<u32>> = None;
    let mut first_cw: Option<CharwiseDoubleArrayAhoCorasick<u32>> = None;
    for (ni, &nfb) in nfbs.iter().enumerate() {
        let bw = catch_unwind(AssertUnwindSafe(|| build_bw(pats, vals, kind, nfb)));
        let cw = if utf8 { Some(catch_unwind(AssertUnwindSafe(|| build_cw(pats, vals, kind, nfb)))) } else { None };
        let bw = match bw { Ok(Ok(p)) => Some(p), Ok(Err(e)) => { st.fail(mk_fail("C10", "valid collection rejected", "bytewise", kind, nfb, pats, vals, &[], "Ok".into(), format!("Err kind {}", e))); None }
            Err(_) => { st.fail(mk_fail("C10", "build panicked", "bytewise", kind, nfb, pats, vals, &[], "Ok".into(), "panic".into())); None } };
        let cw = match cw { None => None, Some(Ok(Ok(p))) => Some(p), Some(Ok(Err(e))) => { st.fail(mk_fail("C10", "valid collection rejected", "charwise", kind, nfb, pats, vals, &[], "Ok".into(), format!("Err kind {}", e))); None }
            Some(Err(_)) => { st.fail(mk_fail("C10", "build panicked", "charwise", kind, nfb, pats, vals, &[], "Ok".into(), "panic".into())); None } };
        st.automata.fetch_add(1, Ordering::Relaxed);
        if cx.on("C10") { st.tick("C10"); }
        // automaton-level contracts
        if let Some(p) = &bw {
            let view = da_view_bw(p);
            { let mut g = st.distinct.lock().unwrap(); let mut key = vec![]; for i in 0..view.base.len() { key.extend_from_slice(&view.base[i].to_le_bytes()); key.push(view.check[i]); key.extend_from_slice(&view.fail[i].to_le_bytes()); } g.insert(hash64(&key)); }
            if da_props(cx) {
                if let Some(Some(nv)) = nfa_b.as_ref().map(|r| r.view.as_ref()) {
                    let d = da_gen_bw(&view);
                    let labels: Vec<u8> = (0..=255u8).collect();
                    let r = da_contract::<u8>(&d, 256, &|s, c| { if view.base[s] == 0 { None } else { let x = (view.base[s] ^ *c as u32) as usize; if x < view.base.len() && view.check[x] == *c { Some(x) } else { None } } }, nv, view.num_states, &labels);
                    st.tick("DA");
                    for pr in ["C07", "C11", "C13", "C15"] { if cx.on(pr) { st.tick(pr); } }
                    if let Err(e) = r {
                        let pr = if e.starts_with("num_states") { "C15" } else { "DA" };
                        st.fail(mk_fail(pr, "da_safe/da_ranked/encodes on the built array", "bytewise", kind, nfb, pats, vals, &[], "holds".into(), e));
                    }
                }
            }
            if cx.on("C15") {
                st.tick("C15");
                let want = 1 + distinct_prefix_count(pats, kind, false);
                if p.num_states() != want { st.fail(mk_fail("C15", "num_states == 1 + distinct prefixes", "bytewise", kind, nfb, pats, vals, &[], want.to_string(), p.num_states().to_string())); }
                if p.heap_bytes() < 12 * p.num_states() { st.fail(mk_fail("C15", "heap_bytes >= 12*num_states", "bytewise", kind, nfb, pats, vals, &[], format!(">= {}", 12 * p.num_states()), p.heap_bytes().to_string())); }
                if view.base.len() < p.num_states() + 1 { st.fail(mk_fail("C15", "elements >= num_states+1", "bytewise", kind, nfb, pats, vals, &[], "".into(), view.base.len().to_string())); }
            }
            if cx.on("C09") {
                st.tick("C09");
                let bytes = p.serialize();
                let mut with_tail = bytes.clone();
                with_tail.extend_from_slice(&[0xde, 0xad, 0x00]);
                let (q, rest) = unsafe { DoubleArrayAhoCorasick::<u32>::deserialize_unchecked(&with_tail) };
                if rest != [0xde, 0xad, 0x00] { st.fail(mk_fail("C09", "trailing bytes handed back", "bytewise", kind, nfb, pats, vals, &[], "dead00".into(), hex(rest))); }
                if q != *p { st.fail(mk_fail("C09", "restored == original", "bytewise", kind, nfb, pats, vals, &[], "equal".into(), "not equal".into())); }
                if q.serialize() != bytes { st.fail(mk_fail("C09", "re-serialisation reproduces the bytes", "bytewise", kind, nfb, pats, vals, &[], "same".into(), "different".into())); }
                for h in hays.iter().take(6) { check_searches(cx, "bytewise-restored", kind, nfb, pats, vals, h, Some(&q), None); }
            }
            if cx.on("C13") && kind == MatchKind::Standard {
                for h in hays { st.tick("C13"); let t = transitions_bw(&view, h); if t > 2 * h.len() { st.fail(mk_fail("C13", "transitions <= 2n", "bytewise", kind, nfb, pats, vals, h, format!("<= {}", 2 * h.len()), t.to_string())); } }
            }
        }
        if let Some(c) = &cw {
            let view = da_view_cw(c);
            if da_props(cx) {
                if let Some(Some(nv)) = nfa_c.as_ref().map(|r| r.view.as_ref()) {
                    let d = da_gen_cw(&view);
                    // block length: smallest power of two >= max(alphabet_size, 2)
                    let bl = (view.alphabet_size.next_power_of_two().max(2)) as usize;
                    let probe: Vec<char> = chars_pv.iter().flat_map(|x| x.0.iter().copied()).collect::<BTreeSet<char>>().into_iter().collect();
                    let code = |ch: &char| -> Option<u32> { let i = *ch as usize; if i < view.table.len() && view.table[i] != u32::MAX { Some(view.table[i]) } else { None } };
                    let mut mapper_ok = Ok(());
                    for ch in &probe { match code(ch) { Some(k) if k < view.alphabet_size => {}, other => { mapper_ok = Err(format!("mapper: pattern char {:?} has code {:?} (alphabet {})", ch, other, view.alphabet_size)); } } }
                    let mut codes: Vec<u32> = view.table.iter().copied().filter(|&k| k != u32::MAX).collect(); codes.sort();
                    if codes.iter().enumerate().any(|(i, &k)| k != i as u32) || codes.len() as u32 != view.alphabet_size { mapper_ok = Err("mapper: codes are not a bijection onto 0..alphabet_size".into()); }
                    let r = mapper_ok.and_then(|_| da_contract::<char>(&d, bl, &|s, ch| { match code(ch) { None => None, Some(k) => { if view.base[s] == 0 { None } else { let x = (view.base[s] ^ k) as usize; if x < view.base.len() && view.check[x] == s as u32 { Some(x) } else { None } } } } }, nv, view.num_states, &probe));
                    if let Err(e) = r {
                        let pr = if e.starts_with("num_states") { "C15" } else { "DA" };
                        st.fail(mk_fail(pr, "da_safe/da_ranked/encodes on the built array", "charwise", kind, nfb, pats, vals, &[], "holds".into(), e));
                    }
                }
            }
            if cx.on("C15") {
                st.tick("C15");
                let want = 1 + distinct_prefix_count(pats, kind, true);
                if c.num_states() != want { st.fail(mk_fail("C15", "num_states == 1 + distinct prefixes", "charwise", kind, nfb, pats, vals, &[], want.to_string(), c.num_states().to_string())); }
                if c.num_elements() < c.num_states() + 1 { st.fail(mk_fail("C15", "num_elements >= num_states+1", "charwise", kind, nfb, pats, vals, &[], "".into(), c.num_elements().to_string())); }
                if c.heap_bytes() < 16 * c.num_states() { st.fail(mk_fail("C15", "heap_bytes >= 16*num_states", "charwise", kind, nfb, pats, vals, &[], "".into(), c.heap_bytes().to_string())); }
            }
            if cx.on("C09") {
                st.tick("C09");
                let bytes = c.serialize();
                let mut with_tail = bytes.clone();
                with_tail.extend_from_slice(&[0xff, 0x00]);
                let (q, rest) = unsafe { CharwiseDoubleArrayAhoCorasick::<u32>::deserialize_unchecked(&with_tail) };
                if rest != [0xff, 0x00] { st.fail(mk_fail("C09", "trailing bytes handed back", "charwise", kind, nfb, pats, vals, &[], "ff00".into(), hex(rest))); }
                if q != *c { st.fail(mk_fail("C09", "restored == original", "charwise", kind, nfb, pats, vals, &[], "equal".into(), "not equal".into())); }
                if q.serialize() != bytes { st.fail(mk_fail("C09", "re-serialisation reproduces the bytes", "charwise", kind, nfb, pats, vals, &[], "same".into(), "different".into())); }
                for h in hays.iter().take(6) { check_searches(cx, "charwise-restored", kind, nfb, pats, vals, h, None, Some(&q)); }
            }
        }
        // searches: full haystack list on the first nfb, C11 comparison for the others
        if ni == 0 {
            for h in hays { check_searches(cx, "fresh", kind, nfb, pats, vals, h, bw.as_ref(), cw.as_ref()); }
            first_bw = bw;
            first_cw = cw;
        } else if cx.on("C11") {
            for h in hays {
                st.tick("C11");
                let cmp = |name: &str, a: Vec<M>, b: Vec<M>, var: &str| { if a != b { st.fail(mk_fail("C11", name, var, kind, nfb, pats, vals, h, format!("{:?}", a), format!("{:?}", b))); } };
                if let (Some(a), Some(b)) = (&first_bw, &bw) {
                    if kind == MatchKind::Standard {
                        cmp("overlapping independent of num_free_blocks", ms(a.find_overlapping_iter(h)), ms(b.find_overlapping_iter(h)), "bytewise");
                        cmp("find independent of num_free_blocks", ms(a.find_iter(h)), ms(b.find_iter(h)), "bytewise");
                        cmp("no-suffix independent of num_free_blocks", ms(a.find_overlapping_no_suffix_iter(h)), ms(b.find_overlapping_no_suffix_iter(h)), "bytewise");
                    } else { cmp("leftmost independent of num_free_blocks", ms(a.leftmost_find_iter(h)), ms(b.leftmost_find_iter(h)), "bytewise"); }
                    if a.num_states() != b.num_states() { st.fail(mk_fail("C11", "num_states independent of num_free_blocks", "bytewise", kind, nfb, pats, vals, h, a.num_states().to_string(), b.num_states().to_string())); }
                }
                if let (Some(a), Some(b), Ok(hs)) = (&first_cw, &cw, std::str::from_utf8(h)) {
                    if kind == MatchKind::Standard {
                        cmp("overlapping independent of num_free_blocks", ms(a.find_overlapping_iter(hs)), ms(b.find_overlapping_iter(hs)), "charwise");
                        cmp("find independent of num_free_blocks", ms(a.find_iter(hs)), ms(b.find_iter(hs)), "charwise");
                    } else { cmp("leftmost independent of num_free_blocks", ms(a.leftmost_find_iter(hs)), ms(b.leftmost_find_iter(hs)), "charwise"); }
                }
            }
        }
    }
}

/// C10: accept exactly the valid collections (sequence may contain empties and repeats)
fn check_accept(cx: &Ctx, pats: &[Vec<u8>], kind: MatchKind, utf8: bool) {
    let st = cx.st;
    if !cx.on("C10") { return; }
    st.tick("C10");
    let vals: Vec<u32> = (0..pats.len() as u32).collect();
    let mut applicable: BTreeSet<u8> = BTreeSet::new();
    if pats.is_empty() { applicable.insert(1); }
    for (i, p) in pats.iter().enumerate() {
        if p.is_empty() { applicable.insert(1); }
        if (0..i).any(|j| pats[j] == *p) { applicable.insert(2); }
    }
    let judge = |res: std::thread::Result<Result<(), u8>>, variant: &str| {
        let act = match res { Err(_) => "panic".to_string(), Ok(Ok(())) => "Ok".to_string(), Ok(Err(k)) => format!("Err kind {}", k) };
        let ok = match &res { Err(_) => false, Ok(Ok(())) => applicable.is_empty(), Ok(Err(k)) => applicable.contains(k) };
        if !ok {
            let exp = if applicable.is_empty() { "Ok".to_string() } else { format!("Err kind in {:?} (1=invalid argument, 2=duplicate pattern)", applicable) };
            st.fail(mk_fail("C10", "accepts exactly the valid collections", variant, kind, 16, pats, &vals, &[], exp, act));
        }
    };
    judge(catch_unwind(AssertUnwindSafe(|| build_bw(pats, &vals, kind, 16).map(|_| ()))), "bytewise build_with_values");
    judge(catch_unwind(AssertUnwindSafe(|| DoubleArrayAhoCorasickBuilder::new().match_kind(kind).build::<_, _, u32>(pats).map(|_| ()).map_err(|e| error_code(&e)))), "bytewise build");
    if utf8 {
        judge(catch_unwind(AssertUnwindSafe(|| build_cw(pats, &vals, kind, 16).map(|_| ()))), "charwise build_with_values");
        let sp: Vec<&str> = pats.iter().map(|p| std::str::from_utf8(p).unwrap()).collect();
        judge(catch_unwind(AssertUnwindSafe(|| CharwiseDoubleArrayAhoCorasickBuilder::new().match_kind(kind).build::<_, _, u32>(sp).map(|_| ()).map_err(|e| error_code(&e)))), "charwise build");
    }
}

// value types (C06/C09): positions via build(), explicit values via build_with_values, round trip
macro_rules! value_type_check {
    ($cx:expr, $t:ty, $name:expr, $pats:expr, $hay:expr) => {{
        let st = $cx.st;
        let pats: &Vec<Vec<u8>> = $pats;
        let hay: &Vec<u8> = $hay;
        st.tick("C06");
        // positions
        if let Ok(p) = DoubleArrayAhoCorasick::<$t>::new(pats) {
            let got: Vec<(usize, usize, $t)> = p.find_overlapping_iter(hay).map(|m| (m.start(), m.end(), m.value())).collect();
            let vals: Vec<u32> = (0..pats.len() as u32).collect();
            let exp: Vec<(usize, usize, $t)> = ref_overlapping(pats, &vals, hay).into_iter().map(|m| (m.0, m.1, m.2 as $t)).collect();
            if got != exp { st.fail(mk_fail("C06", concat!("value == input position, type ", $name), "bytewise build", MatchKind::Standard, 16, pats, &vals, hay, format!("{:?}", exp), format!("{:?}", got))); }
        } else { st.fail(mk_fail("C06", concat!("build failed for type ", $name), "bytewise build", MatchKind::Standard, 16, pats, &[], hay, "Ok".into(), "Err".into())); }
        // explicit values incl. 0, MAX, MIN and repeats
        let pool: [$t; 4] = [0 as $t, <$t>::MAX, <$t>::MIN, <$t>::MAX];
        let pv: Vec<(&[u8], $t)> = pats.iter().enumerate().map(|(i, p)| (p.as_slice(), pool[i % 4])).collect();
        if let Ok(p) = DoubleArrayAhoCorasick::<$t>::with_values(pv) {
            let idx: Vec<u32> = (0..pats.len() as u32).collect();
            let exp: Vec<(usize, usize, $t)> = ref_overlapping(pats, &idx, hay).into_iter().map(|m| (m.0, m.1, pool[m.2 as usize % 4])).collect();
            let got: Vec<(usize, usize, $t)> = p.find_overlapping_iter(hay).map(|m| (m.start(), m.end(), m.value())).collect();
            if got != exp { st.fail(mk_fail("C06", concat!("value == supplied value, type ", $name), "bytewise with_values", MatchKind::Standard, 16, pats, &idx, hay, format!("{:?}", exp), format!("{:?}", got))); }
            if $cx.on("C09") {
                st.tick("C09");
                let bytes = p.serialize();
                let mut t = bytes.clone(); t.push(0x5a);
                let (q, rest) = unsafe { DoubleArrayAhoCorasick::<$t>::deserialize_unchecked(&t) };
                let got2: Vec<(usize, usize, $t)> = q.find_overlapping_iter(hay).map(|m| (m.start(), m.end(), m.value())).collect();
                if rest != [0x5a] || q != p || got2 != exp || q.serialize() != bytes { st.fail(mk_fail("C09", concat!("round trip, value type ", $name), "bytewise", MatchKind::Standard, 16, pats, &idx, hay, format!("{:?}", exp), format!("{:?} rest={:?}", got2, rest))); }
            }
        }
        let sp: Option<Vec<&str>> = pats.iter().map(|p| std::str::from_utf8(p).ok()).collect();
        if let (Some(sp), Ok(hs)) = (sp, std::str::from_utf8(hay)) {
            let pv: Vec<(&str, $t)> = sp.iter().enumerate().map(|(i, p)| (*p, pool[i % 4])).collect();
            if let Ok(p) = CharwiseDoubleArrayAhoCorasick::<$t>::with_values(pv) {
                let idx: Vec<u32> = (0..pats.len() as u32).collect();
                let exp: Vec<(usize, usize, $t)> = ref_overlapping(pats, &idx, hay).into_iter().map(|m| (m.0, m.1, pool[m.2 as usize % 4])).collect();
                let got: Vec<(usize, usize, $t)> = p.find_overlapping_iter(hs).map(|m| (m.start(), m.end(), m.value())).collect();
                if got != exp { st.fail(mk_fail("C06", concat!("value == supplied value, type ", $name), "charwise with_values", MatchKind::Standard, 16, pats, &idx, hay, format!("{:?}", exp), format!("{:?}", got))); }
                if $cx.on("C09") {
                    st.tick("C09");
                    let bytes = p.serialize();
                    let mut t = bytes.clone(); t.push(0x5a);
                    let (q, rest) = unsafe { CharwiseDoubleArrayAhoCorasick::<$t>::deserialize_unchecked(&t) };
                    if rest != [0x5a] || q != p || q.serialize() != bytes { st.fail(mk_fail("C09", concat!("round trip, value type ", $name), "charwise", MatchKind::Standard, 16, pats, &idx, hay, "equal".into(), "different".into())); }
                }
            }
        }
    }};
}

fn check_value_types(cx: &Ctx, pats: &Vec<Vec<u8>>, hay: &Vec<u8>) {
    if !cx.on("C06") && !cx.on("C09") { return; }
    let pr = if cx.on("C09") { "C09" } else { "C06" };
    if catch_unwind(AssertUnwindSafe(|| { value_type_check!(cx, u8, "u8", pats, hay); })).is_err() {
        cx.st.fail(mk_fail(pr, "panic: the library panicked in the value-type family (build / search / serialisation round trip), value type u8", "any", MatchKind::Standard, 16, pats, &[], hay, "no panic".into(), "panic".into()));
    }
    if catch_unwind(AssertUnwindSafe(|| { value_type_check!(cx, u16, "u16", pats, hay); })).is_err() {
        cx.st.fail(mk_fail(pr, "panic: the library panicked in the value-type family (build / search / serialisation round trip), value type u16", "any", MatchKind::Standard, 16, pats, &[], hay, "no panic".into(), "panic".into()));
    }
    if catch_unwind(AssertUnwindSafe(|| { value_type_check!(cx, u32, "u32", pats, hay); })).is_err() {
        cx.st.fail(mk_fail(pr, "panic: the library panicked in the value-type family (build / search / serialisation round trip), value type u32", "any", MatchKind::Standard, 16, pats, &[], hay, "no panic".into(), "panic".into()));
    }
    if catch_unwind(AssertUnwindSafe(|| { value_type_check!(cx, u64, "u64", pats, hay); })).is_err() {
        cx.st.fail(mk_fail(pr, "panic: the library panicked in the value-type family (build / search / serialisation round trip), value type u64", "any", MatchKind::Standard, 16, pats, &[], hay, "no panic".into(), "panic".into()));
    }
    if catch_unwind(AssertUnwindSafe(|| { value_type_check!(cx, u128, "u128", pats, hay); })).is_err() {
        cx.st.fail(mk_fail(pr, "panic: the library panicked in the value-type family (build / search / serialisation round trip), value type u128", "any", MatchKind::Standard, 16, pats, &[], hay, "no panic".into(), "panic".into()));
    }
    if catch_unwind(AssertUnwindSafe(|| { value_type_check!(cx, usize, "usize", pats, hay); })).is_err() {
        cx.st.fail(mk_fail(pr, "panic: the library panicked in the value-type family (build / search / serialisation round trip), value type usize", "any", MatchKind::Standard, 16, pats, &[], hay, "no panic".into(), "panic".into()));
    }
    if catch_unwind(AssertUnwindSafe(|| { value_type_check!(cx, i8, "i8", pats, hay); })).is_err() {
        cx.st.fail(mk_fail(pr, "panic: the library panicked in the value-type family (build / search / serialisation round trip), value type i8", "any", MatchKind::Standard, 16, pats, &[], hay, "no panic".into(), "panic".into()));
    }
    if catch_unwind(AssertUnwindSafe(|| { value_type_check!(cx, i16, "i16", pats, hay); })).is_err() {
        cx.st.fail(mk_fail(pr, "panic: the library panicked in the value-type family (build / search / serialisation round trip), value type i16", "any", MatchKind::Standard, 16, pats, &[], hay, "no panic".into(), "panic".into()));
    }
    if catch_unwind(AssertUnwindSafe(|| { value_type_check!(cx, i32, "i32", pats, hay); })).is_err() {
        cx.st.fail(mk_fail(pr, "panic: the library panicked in the value-type family (build / search / serialisation round trip), value type i32", "any", MatchKind::Standard, 16, pats, &[], hay, "no panic".into(), "panic".into()));
    }
    if catch_unwind(AssertUnwindSafe(|| { value_type_check!(cx, i64, "i64", pats, hay); })).is_err() {
        cx.st.fail(mk_fail(pr, "panic: the library panicked in the value-type family (build / search / serialisation round trip), value type i64", "any", MatchKind::Standard, 16, pats, &[], hay, "no panic".into(), "panic".into()));
    }
    if catch_unwind(AssertUnwindSafe(|| { value_type_check!(cx, i128, "i128", pats, hay); })).is_err() {
        cx.st.fail(mk_fail(pr, "panic: the library panicked in the value-type family (build / search / serialisation round trip), value type i128", "any", MatchKind::Standard, 16, pats, &[], hay, "no panic".into(), "panic".into()));
    }
    if catch_unwind(AssertUnwindSafe(|| { value_type_check!(cx, isize, "isize", pats, hay); })).is_err() {
        cx.st.fail(mk_fail(pr, "panic: the library panicked in the value-type family (build / search / serialisation round trip), value type isize", "any", MatchKind::Standard, 16, pats, &[], hay, "no panic".into(), "panic".into()));
    }
}

/// C13 / C07: the constructors of the wrong match kind must panic (documented), otherwise a scan can run on an
/// automaton whose fail links it does not understand (dead-state self loop => no termination)
fn check_kind_guards(cx: &Ctx) {
    if !(cx.on("C13") || cx.on("C07")) { return; }
    let st = cx.st;
    let pats: Vec<Vec<u8>> = vec![b"ab".to_vec(), "全世".as_bytes().to_vec()];
    let vals: Vec<u32> = vec![0, 1];
    for kind in KINDS {
        st.tick("C13");
        let bw = build_bw(&pats, &vals, kind, 16).unwrap();
        let cw = build_cw(&pats, &vals, kind, 16).unwrap();
        let hay = "abb全世世";
        let std_kind = kind == MatchKind::Standard;
        let mut results: Vec<(&str, bool, bool)> = vec![]; // (constructor, panicked, must_panic)
        results.push(("bytewise find_iter", catch_unwind(AssertUnwindSafe(|| { let _ = bw.find_iter(hay); })).is_err(), !std_kind));
        results.push(("bytewise find_iter_from_iter", catch_unwind(AssertUnwindSafe(|| { let _ = bw.find_iter_from_iter(hay.bytes()); })).is_err(), !std_kind));
        results.push(("bytewise find_overlapping_iter", catch_unwind(AssertUnwindSafe(|| { let _ = bw.find_overlapping_iter(hay); })).is_err(), !std_kind));
        results.push(("bytewise find_overlapping_iter_from_iter", catch_unwind(AssertUnwindSafe(|| { let _ = bw.find_overlapping_iter_from_iter(hay.bytes()); })).is_err(), !std_kind));
        results.push(("bytewise find_overlapping_no_suffix_iter", catch_unwind(AssertUnwindSafe(|| { let _ = bw.find_overlapping_no_suffix_iter(hay); })).is_err(), !std_kind));
        results.push(("bytewise find_overlapping_no_suffix_iter_from_iter", catch_unwind(AssertUnwindSafe(|| { let _ = bw.find_overlapping_no_suffix_iter_from_iter(hay.bytes()); })).is_err(), !std_kind));
        results.push(("bytewise leftmost_find_iter", catch_unwind(AssertUnwindSafe(|| { let _ = bw.leftmost_find_iter(hay); })).is_err(), std_kind));
        results.push(("charwise find_iter", catch_unwind(AssertUnwindSafe(|| { let _ = cw.find_iter(hay); })).is_err(), !std_kind));
        results.push(("charwise find_iter_from_iter", catch_unwind(AssertUnwindSafe(|| { let _ = unsafe { cw.find_iter_from_iter(hay.bytes()) }; })).is_err(), !std_kind));
        results.push(("charwise find_overlapping_iter", catch_unwind(AssertUnwindSafe(|| { let _ = cw.find_overlapping_iter(hay); })).is_err(), !std_kind));
        results.push(("charwise find_overlapping_iter_from_iter", catch_unwind(AssertUnwindSafe(|| { let _ = unsafe { cw.find_overlapping_iter_from_iter(hay.bytes()) }; })).is_err(), !std_kind));
        results.push(("charwise find_overlapping_no_suffix_iter", catch_unwind(AssertUnwindSafe(|| { let _ = cw.find_overlapping_no_suffix_iter(hay); })).is_err(), !std_kind));
        results.push(("charwise find_overlapping_no_suffix_iter_from_iter", catch_unwind(AssertUnwindSafe(|| { let _ = unsafe { cw.find_overlapping_no_suffix_iter_from_iter(hay.bytes()) }; })).is_err(), !std_kind));
        results.push(("charwise leftmost_find_iter", catch_unwind(AssertUnwindSafe(|| { let _ = cw.leftmost_find_iter(hay); })).is_err(), std_kind));
        for (name, panicked, must) in results {
            if panicked != must {
                for pr in ["C13", "C07"] { if cx.on(pr) {
                    st.fail(mk_fail(pr, "search constructors accept exactly their own match kind (documented panic otherwise)", name, kind, 16, &pats, &vals, hay.as_bytes(),
                                    if must { "panic".into() } else { "no panic".into() }, if panicked { "panic".into() } else { "no panic".into() }));
                } }
            }
        }
    }
}

fn check_conversion(cx: &Ctx) {
    if !cx.on("C10") { return; }
    let st = cx.st;
    st.tick("C10");
    // 257 distinct patterns cannot be numbered by u8; 256 can. i8: 129 / 128.
    let mk = |n: usize| -> Vec<Vec<u8>> { (0..n).map(|i| vec![(i % 251) as u8, (i / 251) as u8 + 1]).collect() };
    let r = catch_unwind(|| DoubleArrayAhoCorasick::<u8>::new(mk(257)).map(|_| ()).map_err(|e| error_code(&e)));
    if !matches!(r, Ok(Err(4))) { st.fail(mk_fail("C10", "position 256 does not convert to u8 => invalid conversion", "bytewise build", MatchKind::Standard, 16, &[], &[], &[], "Err kind 4".into(), format!("{:?}", r.map_err(|_| "panic")))); }
    let r = catch_unwind(|| DoubleArrayAhoCorasick::<u8>::new(mk(256)).map(|_| ()).map_err(|e| error_code(&e)));
    if !matches!(r, Ok(Ok(()))) { st.fail(mk_fail("C10", "256 patterns are numberable by u8", "bytewise build", MatchKind::Standard, 16, &[], &[], &[], "Ok".into(), format!("{:?}", r.map_err(|_| "panic")))); }
    let r = catch_unwind(|| DoubleArrayAhoCorasick::<i8>::new(mk(129)).map(|_| ()).map_err(|e| error_code(&e)));
    if !matches!(r, Ok(Err(4))) { st.fail(mk_fail("C10", "position 128 does not convert to i8 => invalid conversion", "bytewise build", MatchKind::Standard, 16, &[], &[], &[], "Err kind 4".into(), format!("{:?}", r.map_err(|_| "panic")))); }
    let sp: Vec<String> = (0..257).map(|i| format!("k{}", i)).collect();
    let r = catch_unwind(|| CharwiseDoubleArrayAhoCorasick::<u8>::new(&sp).map(|_| ()).map_err(|e| error_code(&e)));
    if !matches!(r, Ok(Err(4))) { st.fail(mk_fail("C10", "position 256 does not convert to u8 => invalid conversion", "charwise build", MatchKind::Standard, 16, &[], &[], &[], "Err kind 4".into(), format!("{:?}", r.map_err(|_| "panic")))); }
}

/// C01 / C06 through the position-assigning entry points with a value type narrower than the collection:
/// the documented outcome is an error; if an automaton is returned nevertheless it has to report every occurrence
/// of every pattern (C01 speaks about whatever automaton the build hands out).
fn check_index_entry(cx: &Ctx) {
    if !(cx.on("C01") || cx.on("C06")) { return; }
    let st = cx.st;
    let mk = |n: usize| -> Vec<Vec<u8>> { (0..n).map(|i| vec![b'a' + (i % 26) as u8, b'a' + ((i / 26) % 26) as u8, b'0' + (i / 676) as u8]).collect() };
    macro_rules! one {
        ($t:ty, $n:expr, $name:expr) => {{
            let pats = mk($n);
            let hay: Vec<u8> = pats.iter().flat_map(|p| p.iter().copied()).collect();
            let vals: Vec<u32> = (0..pats.len() as u32).collect();
            let exp: Vec<(usize, usize)> = ref_overlapping(&pats, &vals, &hay).into_iter().map(|m| (m.0, m.1)).collect();
            for pr in ["C01", "C06"] { if cx.on(pr) {
                st.tick(pr);
                if let Ok(Ok(p)) = catch_unwind(|| DoubleArrayAhoCorasick::<$t>::new(&pats)) {
                    let got: Vec<(usize, usize)> = p.find_overlapping_iter(&hay).map(|m| (m.start(), m.end())).collect();
                    // C06: a value reported by an automaton built from bare patterns is the position of the matched pattern
                    if pr == "C06" { for m in p.find_overlapping_iter(&hay) {
                        let idx = pats.iter().position(|q| q[..] == hay[m.start()..m.end()]);
                        let want = idx.and_then(|i| <$t>::try_from(i).ok());
                        if want != Some(m.value()) { st.fail(mk_fail(pr, concat!("index-entry: value reported by an automaton that new() returned for more patterns than ", $name, " can number == position of the matched pattern"), "bytewise build", MatchKind::Standard, 16, &[], &[], &[], format!("position {:?}", idx), format!("value {:?}", m.value()))); break; }
                    } }
                    if got != exp { st.fail(mk_fail(pr, concat!("index-entry: automaton returned by new() for more patterns than ", $name, " can number reports every occurrence"), "bytewise build", MatchKind::Standard, 16, &[], &[], &[], format!("{} occurrences", exp.len()), format!("{} occurrences", got.len()))); }
                }
                let sp: Vec<&str> = pats.iter().map(|p| std::str::from_utf8(p).unwrap()).collect();
                let hs = std::str::from_utf8(&hay).unwrap();
                if let Ok(Ok(p)) = catch_unwind(|| CharwiseDoubleArrayAhoCorasick::<$t>::new(&sp)) {
                    let got: Vec<(usize, usize)> = p.find_overlapping_iter(hs).map(|m| (m.start(), m.end())).collect();
                    if pr == "C06" { for m in p.find_overlapping_iter(hs) {
                        let idx = pats.iter().position(|q| q[..] == hay[m.start()..m.end()]);
                        let want = idx.and_then(|i| <$t>::try_from(i).ok());
                        if want != Some(m.value()) { st.fail(mk_fail(pr, concat!("index-entry: value reported by an automaton that new() returned for more patterns than ", $name, " can number == position of the matched pattern"), "charwise build", MatchKind::Standard, 16, &[], &[], &[], format!("position {:?}", idx), format!("value {:?}", m.value()))); break; }
                    } }
                    if got != exp { st.fail(mk_fail(pr, concat!("index-entry: automaton returned by new() for more patterns than ", $name, " can number reports every occurrence"), "charwise build", MatchKind::Standard, 16, &[], &[], &[], format!("{} occurrences", exp.len()), format!("{} occurrences", got.len()))); }
                }
            } }
        }};
    }
    one!(u8, 257, "u8");
    one!(i8, 129, "i8");
    one!(u8, 300, "u8");
}

/// C07 / C12: haystacks passed BY VALUE whose bytes live inside the value itself (`[u8; N]`): the iterator returned by
/// the slice entry points owns the haystack and is moved around; whatever it caches must stay valid.  The iterator is
/// produced in a non-inlined helper, the dead stack frame is overwritten, then the matches are collected and compared
/// with a search of the same bytes behind a reference.
#[inline(never)]
fn clobber_stack(seed: u8) -> u64 {
    let mut junk = [0u8; 4096];
    for (i, x) in junk.iter_mut().enumerate() { *x = (i as u8).wrapping_mul(31).wrapping_add(seed); }
    let mut acc = 0u64;
    for x in junk.iter() { acc = acc.wrapping_mul(131).wrapping_add(*std::hint::black_box(x) as u64); }
    std::hint::black_box(acc)
}
#[inline(never)]
fn mk_find_inline<'a>(p: &'a DoubleArrayAhoCorasick<u32>, h: [u8; 48]) -> impl Iterator<Item = daachorse::Match<u32>> + 'a { p.find_iter(std::hint::black_box(h)) }
#[inline(never)]
fn mk_ovl_inline<'a>(p: &'a DoubleArrayAhoCorasick<u32>, h: [u8; 48]) -> impl Iterator<Item = daachorse::Match<u32>> + 'a { p.find_overlapping_iter(std::hint::black_box(h)) }
#[inline(never)]
fn mk_nosuf_inline<'a>(p: &'a DoubleArrayAhoCorasick<u32>, h: [u8; 48]) -> impl Iterator<Item = daachorse::Match<u32>> + 'a { p.find_overlapping_no_suffix_iter(std::hint::black_box(h)) }
#[inline(never)]
fn mk_lm_inline<'a>(p: &'a DoubleArrayAhoCorasick<u32>, h: [u8; 48]) -> impl Iterator<Item = daachorse::Match<u32>> + 'a { p.leftmost_find_iter(std::hint::black_box(h)) }

fn check_inline_haystack(cx: &Ctx) {
    if !(cx.on("C07") || cx.on("C12")) { return; }
    let st = cx.st;
    let pats: Vec<Vec<u8>> = vec![b"abc".to_vec(), b"bc".to_vec(), b"cab".to_vec(), vec![0, 255]];
    let vals: Vec<u32> = vec![0, 1, 2, 3];
    let mut h = [b'x'; 48];
    h[3..6].copy_from_slice(b"abc"); h[20..23].copy_from_slice(b"cab"); h[23] = b'c'; h[40] = 0; h[41] = 255;
    for kind in KINDS {
        let p = match build_bw(&pats, &vals, kind, 16) { Ok(p) => p, Err(_) => continue };
        let ms = |it: &mut dyn Iterator<Item = daachorse::Match<u32>>| -> Vec<M> { it.map(|m| (m.start(), m.end(), m.value())).collect() };
        let mut cases: Vec<(&str, Vec<M>, Vec<M>)> = vec![];
        if kind == MatchKind::Standard {
            let mut it = mk_find_inline(&p, h); clobber_stack(1); let got = ms(&mut it); cases.push(("find_iter([u8; 48] by value)", ms(&mut p.find_iter(&h[..])), got));
            let mut it = mk_ovl_inline(&p, h); clobber_stack(2); let got = ms(&mut it); cases.push(("find_overlapping_iter([u8; 48] by value)", ms(&mut p.find_overlapping_iter(&h[..])), got));
            let mut it = mk_nosuf_inline(&p, h); clobber_stack(3); let got = ms(&mut it); cases.push(("find_overlapping_no_suffix_iter([u8; 48] by value)", ms(&mut p.find_overlapping_no_suffix_iter(&h[..])), got));
        } else {
            let mut it = mk_lm_inline(&p, h); clobber_stack(4); let got = ms(&mut it); cases.push(("leftmost_find_iter([u8; 48] by value)", ms(&mut p.leftmost_find_iter(&h[..])), got));
        }
        for (name, exp, got) in cases {
            for pr in ["C07", "C12"] { if cx.on(pr) {
                st.tick(pr);
                if exp != got { st.fail(mk_fail(pr, "owned-haystack: a haystack owned by the iterator (bytes stored inline, iterator moved) gives the results of the same bytes behind a reference", name, kind, 16, &[], &[], &[], format!("{:?}", exp), format!("{:?}", got))); }
            } }
        }
    }
}

// ------------------------------------------------------------------------------------------------
// enumeration
// ------------------------------------------------------------------------------------------------
fn all_strings(alpha: &[Vec<u8>], min: usize, max: usize) -> Vec<Vec<u8>> {
    let mut out = vec![];
    let mut cur: Vec<Vec<u8>> = vec![vec![]];
    for len in 1..=max {
        let mut next = vec![];
        for s in &cur { for a in alpha { let mut t = s.clone(); t.extend_from_slice(a); next.push(t); } }
        if len >= min { out.extend(next.iter().cloned()); }
        cur = next;
    }
    out
}

struct Rng(u64);
impl Rng {
    fn next(&mut self) -> u64 { self.0 ^= self.0 << 13; self.0 ^= self.0 >> 7; self.0 ^= self.0 << 17; self.0 }
    fn below(&mut self, n: u64) -> u64 { self.next() % n }
}

fn run_small(cx: &Ctx, alpha: &[Vec<u8>], foreign: &[u8], max_pat_len: usize, max_seq: usize, hay_len: usize, utf8: bool, nfbs: &[u32], threads: usize, sample_triples: Option<(u64, u64)>) {
    let strings = all_strings(alpha, 1, max_pat_len);
    let mut hays = all_strings(alpha, 1, hay_len);
    hays.push(vec![]);
    let mut alpha_f: Vec<Vec<u8>> = alpha.to_vec();
    alpha_f.push(foreign.to_vec());
    for h in all_strings(&alpha_f, 1, if utf8 && alpha.len() > 2 { hay_len } else { hay_len.saturating_sub(2).max(1) }) { if h.windows(foreign.len()).any(|w| w == foreign) { hays.push(h); } }
    // sequences
    let mut seqs: Vec<Vec<usize>> = vec![];
    let n = strings.len();
    for a in 0..n { seqs.push(vec![a]); }
    if max_seq >= 2 { for a in 0..n { for b in 0..n { if a != b { seqs.push(vec![a, b]); } } } }
    if max_seq >= 3 {
        let mut rng = sample_triples.map(|(seed, _)| Rng(seed | 1));
        for a in 0..n { for b in 0..n { for c in 0..n { if a != b && a != c && b != c {
            if let (Some(r), Some((_, keep_1_in))) = (rng.as_mut(), sample_triples) { if r.below(keep_1_in) != 0 { continue; } }
            seqs.push(vec![a, b, c]);
        } } } }
    }
    if max_seq >= 4 {
        let mut rng = Rng(sample_triples.map(|x| x.0).unwrap_or(7) | 1);
        for _ in 0..(seqs.len() / 2) { let mut s: Vec<usize> = vec![]; while s.len() < 4 { let x = rng.below(n as u64) as usize; if !s.contains(&x) { s.push(x); } } seqs.push(s); }
    }
    let chunk = (seqs.len() + threads - 1) / threads;
    std::thread::scope(|sc| {
        for part in seqs.chunks(chunk.max(1)) {
            let strings = &strings; let hays = &hays;
            sc.spawn(move || {
                for s in part {
                    let pats: Vec<Vec<u8>> = s.iter().map(|&i| strings[i].clone()).collect();
                    let vals: Vec<u32> = (0..pats.len() as u32).map(|i| 10 + i * 7).collect();
                    for kind in KINDS { check_set(cx, &pats, &vals, kind, nfbs, hays, utf8); }
                }
            });
        }
    });
    // error clauses: every duplicate-free sequence of <= 2 with one empty or one repeat inserted at every position
    for s in seqs.iter().filter(|s| s.len() <= 2) {
        let base: Vec<Vec<u8>> = s.iter().map(|&i| strings[i].clone()).collect();
        for kind in KINDS {
            check_accept(cx, &base, kind, utf8);
            for pos in 0..=base.len() {
                let mut e = base.clone(); e.insert(pos, vec![]); check_accept(cx, &e, kind, utf8);
                for r in 0..base.len() { let mut d = base.clone(); d.insert(pos, base[r].clone()); check_accept(cx, &d, kind, utf8); }
            }
        }
    }
    // prefix chains of three with one repeat in every position (interacts with leftmost-first skipping)
    for s in seqs.iter().filter(|s| s.len() == 3) {
        let base: Vec<Vec<u8>> = s.iter().map(|&i| strings[i].clone()).collect();
        let chainy = (0..3).any(|i| (0..3).any(|j| i != j && base[j].len() > base[i].len() && base[j].starts_with(&base[i])));
        if !chainy { continue; }
        for kind in KINDS {
            for pos in 0..=base.len() { for r in 0..base.len() { let mut d = base.clone(); d.insert(pos, base[r].clone()); check_accept(cx, &d, kind, utf8); } }
        }
    }
    for kind in KINDS { check_accept(cx, &[], kind, utf8); }
    // prefix-chains with a repeat (the shape that LeftmostFirst shadowing interacts with)
    for a in &strings { for b in &strings { if b.len() > a.len() && b.starts_with(a) { for kind in KINDS {
        check_accept(cx, &[a.clone(), b.clone(), b.clone()], kind, utf8);
        check_accept(cx, &[b.clone(), a.clone(), b.clone()], kind, utf8);
        check_accept(cx, &[a.clone(), b.clone(), a.clone()], kind, utf8);
    } } } }
}

fn run_wide(cx: &Ctx, seed: u64, sets: usize, threads: usize) {
    // pattern sets large enough to span several 256-slot blocks, small num_free_blocks => block eviction
    let per = (sets + threads - 1) / threads;
    std::thread::scope(|sc| {
        for t in 0..threads {
            sc.spawn(move || {
                let mut rng = Rng(seed.wrapping_mul(0x9e3779b97f4a7c15).wrapping_add(t as u64 * 7919) | 1);
                for _ in 0..per {
                    let style = rng.below(4);
                    let npat = 40 + rng.below(500) as usize;
                    let mut set: BTreeSet<Vec<u8>> = BTreeSet::new();
                    let mut order: Vec<Vec<u8>> = vec![];
                    while order.len() < npat {
                        let len = 1 + rng.below(4) as usize;
                        let p: Vec<u8> = (0..len).map(|_| match style { 0 => rng.below(256) as u8, 1 => [0u8, 1, 2, 0xff, 0xfe, 0x80][rng.below(6) as usize], 2 => (rng.below(40) * 6) as u8, _ => b'a' + rng.below(26) as u8 }).collect();
                        if set.insert(p.clone()) { order.push(p); }
                        if set.len() > 60000 { break; }
                    }
                    let vals: Vec<u32> = (0..order.len() as u32).map(|i| i ^ 0x55).collect();
                    let mut hays: Vec<Vec<u8>> = vec![];
                    for _ in 0..12 {
                        let mut h = vec![];
                        while h.len() < 40 { if rng.below(3) == 0 { h.push(rng.below(256) as u8); } else { h.extend_from_slice(&order[rng.below(order.len() as u64) as usize]); } }
                        hays.push(h);
                    }
                    let utf8 = style == 3;
                    let nfbs = [16u32, 1, 2, 1 + rng.below(64) as u32];
                    for kind in KINDS { check_set(cx, &order, &vals, kind, &nfbs, &hays, utf8); }
                }
            });
        }
    });
}

/// interesting-byte family: {[x], [y, z]} and {[x, w], [y, z]} over bytes that interact with CHECK
/// sanitising (0x00, 0x01, 0xff, values near block boundaries); the encodes twin probes all 256 labels.
fn run_bytes_family(cx: &Ctx, threads: usize, thorough: bool) {
    let ib: Vec<u8> = if thorough { vec![0, 1, 2, 3, 4, 0x7f, 0x80, 0x81, 0xfb, 0xfc, 0xfd, 0xfe, 0xff, b'a', b'b'] } else { vec![0, 1, 2, 3, 0x80, 0xfc, 0xfd, 0xfe, 0xff, b'a'] };
    let mut sets: Vec<Vec<Vec<u8>>> = vec![];
    for &x in &ib { for &y in &ib { for &z in &ib {
        if x != y { sets.push(vec![vec![x], vec![y, z]]); sets.push(vec![vec![y, z], vec![x]]); }
        sets.push(vec![vec![x, z], vec![x, y, z]]);
    } } }
    let chunk = (sets.len() + threads - 1) / threads;
    std::thread::scope(|sc| {
        for part in sets.chunks(chunk.max(1)) {
            sc.spawn(move || {
                for pats in part {
                    if pats[0] == pats[1] { continue; }
                    let vals: Vec<u32> = vec![5, 9];
                    let mut hays: Vec<Vec<u8>> = vec![];
                    for p in pats { let mut h = p.clone(); h.push(0); hays.push(h); let mut h2 = vec![p[0]]; h2.extend_from_slice(&pats[0]); hays.push(h2); }
                    for kind in KINDS { check_set(cx, pats, &vals, kind, &[16, 1], &hays, false); }
                }
            });
        }
    });
}

/// dense fan-out family: a few prefixes each followed by almost every byte, so that states claim whole
/// 256-slot blocks with one or two holes; small num_free_blocks => blocks are dropped with holes in them.
fn run_fanout_family(cx: &Ctx, seed: u64, threads: usize, thorough: bool) {
    let ranges: Vec<(u16, u16, Option<u8>)> = vec![(1, 255, None), (0, 254, None), (0, 255, Some(0)), (0, 255, Some(0xff)), (2, 255, None), (0, 255, Some(1)), (0, 255, None), (0, 253, None), (1, 254, None)];
    let heads: Vec<Vec<u8>> = vec![vec![0], vec![1], vec![b'b'], vec![b'c'], vec![0xff], vec![b'b', 0], vec![0xfe]];
    let mut sets: Vec<Vec<Vec<u8>>> = vec![];
    let mut rng = Rng(seed.wrapping_mul(31).wrapping_add(17) | 1);
    let n = if thorough { 160 } else { 48 };
    // the systematic part: one short pattern + two or three fan-out states, every range for the first two
    for r1 in 0..ranges.len() { for r2 in 0..ranges.len() {
        if !thorough && (r1 * ranges.len() + r2) % 3 != (seed % 3) as usize { continue; }
        let mut pats: Vec<Vec<u8>> = vec![vec![0]];
        for (h, r) in [(vec![b'b'], r1), (vec![b'c'], r2)] {
            let (lo, hi, hole) = ranges[r];
            for x in lo..=hi { if Some(x as u8) != hole { let mut p = h.clone(); p.push(x as u8); pats.push(p); } }
        }
        sets.push(pats);
    } }
    for _ in 0..n {
        let k = 2 + rng.below(3) as usize;
        let mut pats: Vec<Vec<u8>> = vec![];
        let mut used: Vec<usize> = vec![];
        if rng.below(2) == 0 { pats.push(vec![0]); }
        while used.len() < k { let h = rng.below(heads.len() as u64) as usize; if !used.contains(&h) { used.push(h); } }
        for &h in &used {
            let (lo, hi, hole) = ranges[rng.below(ranges.len() as u64) as usize];
            for x in lo..=hi { if Some(x as u8) != hole { let mut p = heads[h].clone(); p.push(x as u8); pats.push(p); } }
        }
        let set: BTreeSet<Vec<u8>> = pats.iter().cloned().collect();
        if set.len() != pats.len() { continue; }
        // drop patterns that are proper prefixes of a head (keeps the set valid for every kind)
        sets.push(pats);
    }
    let chunk = (sets.len() + threads - 1) / threads;
    std::thread::scope(|sc| {
        for part in sets.chunks(chunk.max(1)) {
            sc.spawn(move || {
                for pats in part {
                    let vals: Vec<u32> = (0..pats.len() as u32).collect();
                    let firsts: BTreeSet<u8> = pats.iter().map(|p| p[0]).collect();
                    let mut hays: Vec<Vec<u8>> = vec![];
                    for &f in &firsts { for t in [0u8, 1, 0xff, 0xfe] { hays.push(vec![f, t]); hays.push(vec![f, t, f, 0]); } }
                    for kind in KINDS { check_set(cx, pats, &vals, kind, &[16, 1, 2, 3], &hays, false); }
                }
            });
        }
    });
}

/// overlap family: pattern sets built from substrings of one another (suffix-of-prefix relations, shared
/// heads and tails), 3..5 patterns of length <= 5 over small alphabets; all three kinds; haystacks: every
/// string of length <= 4 over the alphabet plus concatenations of patterns with one letter changed.
fn run_overlap_family(cx: &Ctx, seed: u64, sets: usize, threads: usize) {
    let per = (sets + threads - 1) / threads;
    std::thread::scope(|sc| {
        for t in 0..threads {
            sc.spawn(move || {
                let mut rng = Rng(seed.wrapping_mul(0x2545f4914f6cdd1d).wrapping_add(t as u64 * 104729) | 1);
                for it in 0..per {
                    let alpha: &[u8] = if it % 2 == 0 { b"abc" } else { b"abcde" };
                    let letter = |r: &mut Rng| alpha[r.below(alpha.len() as u64) as usize];
                    let blen = 2 + rng.below(4) as usize;
                    let b: Vec<u8> = (0..blen).map(|_| letter(&mut rng)).collect();
                    let mut pats: Vec<Vec<u8>> = vec![b.clone()];
                    let k = 2 + rng.below(3) as usize;
                    let mut guard = 0;
                    while pats.len() < 1 + k && guard < 50 {
                        guard += 1;
                        let src = pats[rng.below(pats.len() as u64) as usize].clone();
                        let i = rng.below(src.len() as u64) as usize;
                        let j = i + 1 + rng.below((src.len() - i) as u64) as usize;
                        let mut p: Vec<u8> = src[i..j].to_vec();
                        match rng.below(4) { 0 => p.push(letter(&mut rng)), 1 => { let l = p.len(); p[l - 1] = letter(&mut rng); } 2 => p.insert(0, letter(&mut rng)), _ => {} }
                        if p.len() <= 5 && !pats.contains(&p) { pats.push(p); }
                    }
                    // random registration order
                    for i in (1..pats.len()).rev() { let j = rng.below(i as u64 + 1) as usize; pats.swap(i, j); }
                    let vals: Vec<u32> = (0..pats.len() as u32).map(|i| 3 + i).collect();
                    let al: Vec<Vec<u8>> = alpha.iter().map(|&x| vec![x]).collect();
                    let mut hays = all_strings(&al, 1, if alpha.len() == 3 { 5 } else { 3 });
                    for p in &pats { for q in &pats { let mut h = p.clone(); let l = h.len(); h[l - 1] = letter(&mut rng); h.extend_from_slice(q); hays.push(h);
                                                       let mut h2 = p.clone(); h2.extend_from_slice(q); h2.push(letter(&mut rng)); hays.push(h2); } }
                    for kind in KINDS { check_set(cx, &pats, &vals, kind, &[16], &hays, true); }
                }
            });
        }
    });
}

/// leftmost-optimality family (thorough only; C03 / C04 and the leftmost half of C08 are decided by the stand-in alone as far as
/// "leftmost start, then longest / earliest-registered" goes): EVERY ordered duplicate-free sequence of <= 3 patterns of length 1..4 over
/// {a,b}, both leftmost kinds, every haystack of length <= 7 over {a,b} and every haystack of length <= 5 with one foreign symbol.
fn run_leftmost_deep(cx: &Ctx, threads: usize) {
    if !(cx.on("C03") || cx.on("C04") || cx.on("C08")) { return; }
    let alpha: Vec<Vec<u8>> = vec![b"a".to_vec(), b"b".to_vec()];
    let strings = all_strings(&alpha, 1, 4);
    let mut hays = all_strings(&alpha, 1, 7);
    hays.push(vec![]);
    let mut alpha_f = alpha.clone(); alpha_f.push(b"c".to_vec());
    for h in all_strings(&alpha_f, 1, 5) { if h.contains(&b'c') { hays.push(h); } }
    let n = strings.len();
    let mut seqs: Vec<Vec<usize>> = vec![];
    for a in 0..n { for b in 0..n { if a != b { seqs.push(vec![a, b]); for c in 0..n { if c != a && c != b { seqs.push(vec![a, b, c]); } } } } }
    let chunk = (seqs.len() + threads - 1) / threads;
    std::thread::scope(|sc| {
        for part in seqs.chunks(chunk.max(1)) {
            let strings = &strings; let hays = &hays;
            sc.spawn(move || {
                for s in part {
                    let pats: Vec<Vec<u8>> = s.iter().map(|&i| strings[i].clone()).collect();
                    let vals: Vec<u32> = (0..pats.len() as u32).map(|i| 3 + i * 5).collect();
                    for kind in [MatchKind::LeftmostLongest, MatchKind::LeftmostFirst] { check_set(cx, &pats, &vals, kind, &[16], hays, true); }
                }
            });
        }
    });
}

/// long-chain family: runs of one byte value longer than several blocks, so that whole 256-slot blocks are filled by the children of
/// single-child states (every BASE value of a block in use), alone and next to short patterns; small num_free_blocks closes such blocks.
fn run_chain_family(cx: &Ctx, thorough: bool) {
    let lens: Vec<usize> = if thorough { vec![255, 256, 257, 300, 600, 1100, 1500] } else { vec![257, 600, 1100] };
    let mut sets: Vec<Vec<Vec<u8>>> = vec![];
    for &b in &[b'a', 0x00u8, 0xffu8, 0x01u8] {
        for &n in &lens {
            sets.push(vec![vec![b; n]]);
            sets.push(vec![vec![b; n], vec![0xff, 0xff, 0xff], b"abc".to_vec()]);
            let mut alt: Vec<u8> = vec![]; for i in 0..n { alt.push(if i % 2 == 0 { b } else { b'b' }); }
            sets.push(vec![alt, vec![b, b, b'z']]);
        }
    }
    std::thread::scope(|sc| {
        for pats in &sets {
            sc.spawn(move || {
                let set: BTreeSet<Vec<u8>> = pats.iter().cloned().collect();
                if set.len() != pats.len() { return; }
                let vals: Vec<u32> = (0..pats.len() as u32).collect();
                let mut hays: Vec<Vec<u8>> = vec![pats[0].clone()];
                let mut h2 = pats[0][..pats[0].len() - 1].to_vec(); h2.extend_from_slice(b"xabc"); h2.extend_from_slice(&[0xff, 0xff, 0xff]); hays.push(h2);
                for kind in KINDS { check_set(cx, pats, &vals, kind, &[16, 1, 2], &hays, false); }
            });
        }
    });
}

/// boundary-character family (char-wise lengths and offsets): characters at the edges of the UTF-8 length classes
fn run_boundary_chars(cx: &Ctx) {
    let cs: Vec<char> = vec!['\u{7f}', '\u{80}', '\u{7ff}', '\u{800}', '\u{d7ff}', '\u{e000}', '\u{ffff}', '\u{10000}', '\u{10001}', '\u{10ffff}', 'a'];
    for &c in &cs { for &d in &cs {
        let p1: String = [c].iter().collect();
        let p2: String = ['a', c, d].iter().collect();
        let p3: String = [d, 'b'].iter().collect();
        let mut pats: Vec<Vec<u8>> = vec![p2.into_bytes(), p1.into_bytes(), p3.into_bytes()];
        pats.dedup();
        let set: BTreeSet<Vec<u8>> = pats.iter().cloned().collect();
        if set.len() != pats.len() { continue; }
        let vals: Vec<u32> = vec![7, 8, 9];
        let mut hays: Vec<Vec<u8>> = vec![];
        for x in [format!("xa{}{}b", c, d), format!("{}{}{}", c, d, c), format!("a{}{}{}b", c, d, d), format!("α{}a{}{}", d, c, d)] { hays.push(x.into_bytes()); }
        for kind in KINDS { check_set(cx, &pats, &vals, kind, &[16], &hays, true); }
    } }
}

fn replay(path: &str) -> i32 {
    let text = std::fs::read_to_string(path).expect("replay file");
    // tiny extractor for the fields we wrote ourselves
    let field = |k: &str| -> String { let key = format!("\"{}\":", k); let i = text.find(&key).expect("field") + key.len(); let rest = text[i..].trim_start(); if rest.starts_with('"') { let j = rest[1..].find('"').unwrap(); rest[1..1 + j].to_string() } else if rest.starts_with('[') { let j = rest.find(']').unwrap(); rest[1..j].to_string() } else { rest.split(|c| c == ',' || c == '}').next().unwrap().trim().to_string() } };
    let prop = field("property");
    let kind = kind_from(field("kind").parse().unwrap());
    let nfb: u32 = field("nfb").parse().unwrap();
    let pats: Vec<Vec<u8>> = field("patterns").split(',').filter(|s| !s.trim().is_empty() || field("patterns").contains("\"\"")).map(|s| unhex(s.trim().trim_matches('"'))).collect();
    let vals: Vec<u32> = field("values").split(',').filter(|s| !s.trim().is_empty()).map(|s| s.trim().parse().unwrap()).collect();
    let hay = unhex(&field("haystack"));
    let extra_hays: Vec<Vec<u8>> = { let a = field("actual"); if let Some(ix) = a.find("haystacks: ") { a[ix + "haystacks: ".len()..].split(',').map(|h| unhex(h.trim())).collect() } else { vec![] } };
    let utf8 = pats.iter().all(|p| std::str::from_utf8(p).is_ok());
    let st = Stats::new();
    let mut props = BTreeSet::new();
    props.insert(if prop == "NFA" || prop == "DA" || prop == "CRASH" || prop == "PANIC" { "C07".to_string() } else { prop.clone() });
    if prop == "CRASH" || prop == "PANIC" { for p in ALL_PROPS { props.insert(p.to_string()); } }
    let cx = Ctx { st: &st, props: &props };
    println!("replaying {} on the real code: kind={:?} nfb={} patterns={:?} haystack={:?}", prop, kind, nfb, pats.iter().map(|p| String::from_utf8_lossy(p).to_string()).collect::<Vec<_>>(), String::from_utf8_lossy(&hay));
    if prop == "C10" && field("clause").starts_with("accepts") { check_accept(&cx, &pats, kind, utf8); }
    else if pats.is_empty() {
        // a failure of one of the fixed families (they build their own inputs): run them again for this property
        println!("(fixed family: the clause names the input it builds)");
        check_conversion(&cx);
        check_index_entry(&cx);
        check_inline_haystack(&cx);
        check_kind_guards(&cx);
    }
    else {
        let vals = if vals.len() == pats.len() { vals } else { (0..pats.len() as u32).collect() };
        let nfbs = if nfb == 16 { vec![16] } else { vec![16, nfb] };
        let mut hs = vec![hay];
        hs.extend(extra_hays);
        check_set(&cx, &pats, &vals, kind, &nfbs, &hs, utf8);
    }
    let fails = st.failures.lock().unwrap();
    for f in fails.iter() { println!("STILL FAILS [{}] {} ({}): expected {} actual {}", f.property, f.clause, f.variant, f.expected, f.actual); }
    if fails.is_empty() { println!("replay: no failure reproduced"); 0 } else { 1 }
}

fn main() {
    let args: Vec<String> = std::env::args().collect();
    let mut props: BTreeSet<String> = BTreeSet::new();
    let mut tier = "quick".to_string();
    let mut seed = 1u64;
    let mut out = String::new();
    let mut i = 1;
    while i < args.len() {
        match args[i].as_str() {
            "--props" => { for p in args[i + 1].split(',') { props.insert(p.to_string()); } i += 1; }
            "--tier" => { tier = args[i + 1].clone(); i += 1; }
            "--seed" => { seed = args[i + 1].parse().unwrap_or(1); i += 1; }
            "--out" => { out = args[i + 1].clone(); i += 1; }
            "--replay" => { std::process::exit(replay(&args[i + 1])); }
            _ => {}
        }
        i += 1;
    }
    if props.is_empty() { for p in ALL_PROPS { props.insert(p.to_string()); } }
    std::panic::set_hook(Box::new(|_| {}));
    let st = Stats::new();
    let cx = Ctx { st: &st, props: &props };
    let threads = std::thread::available_parallelism().map(|x| x.get()).unwrap_or(4);
    let thorough = tier == "thorough";
    let t0 = std::time::Instant::now();
    let b = |x: &[u8]| x.to_vec();
    // alphabets
    let a1 = vec![b(&[0x00]), b(&[0x01])];
    let a2 = vec![b(&[0x61]), b(&[0xff])];
    let a3: Vec<Vec<u8>> = ["a", "é", "あ", "𝄞"].iter().map(|s| s.as_bytes().to_vec()).collect();
    let a4 = vec![b(b"a"), b(b"b")];
    let nfbs = [16u32, 1];
    if thorough {
        run_small(&cx, &a1, &[0x02], 3, 4, 7, false, &nfbs, threads, None);
        run_small(&cx, &a2, &[0x00], 3, 3, 6, false, &nfbs, threads, None);
        run_small(&cx, &a4, b"c", 4, 3, 7, true, &nfbs, threads, Some((seed, 4)));
        run_small(&cx, &a3, "ß".as_bytes(), 2, 3, 4, true, &nfbs, threads, Some((seed, 2)));
        let a5 = vec![b(b"a"), b(b"b"), b(b"c")];
        run_small(&cx, &a5, b"d", 3, 3, 5, true, &nfbs, threads, Some((seed, 6)));
        run_small(&cx, &a4, b"c", 4, 3, 7, true, &nfbs, threads, Some((seed + 1, 4)));
        run_small(&cx, &a5, b"d", 3, 3, 5, true, &nfbs, threads, Some((seed + 1, 6)));
        run_wide(&cx, seed, 2000, threads);
        run_bytes_family(&cx, threads, true);
        run_fanout_family(&cx, seed, threads, true);
        run_fanout_family(&cx, seed + 1, threads, true);
        run_overlap_family(&cx, seed, 1500000, threads);
        run_overlap_family(&cx, seed + 1, 500000, threads);
        run_chain_family(&cx, true);
        run_leftmost_deep(&cx, threads);
        run_boundary_chars(&cx);
    } else {
        run_small(&cx, &a1, &[0x02], 3, 3, 6, false, &nfbs, threads, Some((seed, 3)));
        run_small(&cx, &a4, b"c", 3, 3, 6, true, &nfbs, threads, Some((seed, 3)));
        run_small(&cx, &a2, &[0x00], 2, 3, 5, false, &nfbs, threads, None);
        run_small(&cx, &a3, "ß".as_bytes(), 2, 2, 3, true, &nfbs, threads, None);
        run_wide(&cx, seed, 16, threads);
        run_bytes_family(&cx, threads, false);
        run_fanout_family(&cx, seed, threads, false);
        run_overlap_family(&cx, seed, 4000, threads);
        run_chain_family(&cx, false);
        run_boundary_chars(&cx);
    }
    for (name, fam) in [("conversion", check_conversion as fn(&Ctx)), ("index-entry", check_index_entry as fn(&Ctx)), ("owned-haystack", check_inline_haystack as fn(&Ctx)), ("kind guards", check_kind_guards as fn(&Ctx))] {
        if catch_unwind(AssertUnwindSafe(|| fam(&cx))).is_err() {
            st.fail(mk_fail("PANIC", &format!("panic: the library panicked in the fixed family `{}` (valid inputs)", name), "any", MatchKind::Standard, 16, &[], &[], &[], "no panic".into(), "panic".into()));
        }
    }
    let vt_pats = vec![b(b"ab"), b(b"b"), b(b"abc"), b(b"c"), b("é".as_bytes())];
    check_value_types(&cx, &vt_pats, &b("xabcéb".as_bytes()));
    check_value_types(&cx, &vec![b(&[0, 1]), b(&[1]), b(&[0xff, 0])], &b(&[0, 1, 0xff, 0, 1]));
    // report
    let fails = st.failures.lock().unwrap();
    let mut j = String::from("{");
    j.push_str(&format!("\"tier\":{},\"seed\":{},\"wall_s\":{:.2},\"automata_built\":{},\"distinct_bytewise_arrays\":{},", jstr(&tier), seed, t0.elapsed().as_secs_f64(), st.automata.load(Ordering::Relaxed), st.distinct.lock().unwrap().len()));
    j.push_str("\"evaluations\":{");
    j.push_str(&st.evals.iter().map(|(k, v)| format!("{}:{}", jstr(k), v.load(Ordering::Relaxed))).collect::<Vec<_>>().join(","));
    j.push_str("},\"failures\":[");
    j.push_str(&fails.iter().map(|f| f.to_json()).collect::<Vec<_>>().join(","));
    j.push_str("]}");
    if out.is_empty() { println!("{}", j); } else { let mut f = std::fs::File::create(&out).unwrap(); f.write_all(j.as_bytes()).unwrap(); }
    let _ = is_shadowed;
    std::process::exit(if fails.is_empty() { 0 } else { 1 });
}
