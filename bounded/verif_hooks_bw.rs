//! Injected into a scratch copy only: read-only view of the byte-wise double array.
#![allow(missing_docs)]
use alloc::vec::Vec;

use super::DoubleArrayAhoCorasick;

pub struct DaViewBw {
    pub base: Vec<u32>,  // 0 = none
    pub check: Vec<u8>,
    pub fail: Vec<u32>,
    pub opos: Vec<u32>,  // 0 = none
    pub outputs: Vec<(u32, u32)>, // (length, parent (0 = none))
    pub num_states: usize,
    pub leftmost: bool,
}

pub fn da_view<V: Copy>(pma: &DoubleArrayAhoCorasick<V>) -> DaViewBw {
    let mut v = DaViewBw {
        base: Vec::new(),
        check: Vec::new(),
        fail: Vec::new(),
        opos: Vec::new(),
        outputs: Vec::new(),
        num_states: pma.num_states(),
        leftmost: pma.match_kind.is_leftmost(),
    };
    for s in &pma.states {
        v.base.push(s.base().map_or(0, |x| x.get()));
        v.check.push(s.check());
        v.fail.push(s.fail());
        v.opos.push(s.output_pos().map_or(0, |x| x.get()));
    }
    for o in &pma.outputs {
        v.outputs.push((o.length(), o.parent().map_or(0, |x| x.get())));
    }
    v
}
