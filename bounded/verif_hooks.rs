//! Injected into a scratch copy of the crate only (never committed to the repository).
//! Read-only views of crate-private data for the bounded stand-in driver.
#![allow(missing_docs)]
#![allow(clippy::all)]

use alloc::collections::BTreeMap;
use alloc::string::String;
use alloc::vec::Vec;

use crate::nfa_builder::{EdgeLabel, NfaBuilder};
use crate::MatchKind;

/// Plain copy of the sparse NFA after `add`* + `build_fails`/`build_fails_leftmost` + `build_outputs`.
pub struct NfaView<L> {
    pub edges: Vec<BTreeMap<L, u32>>,
    pub fail: Vec<u32>,
    pub output: Vec<Option<(u32, u32)>>, // (value, length in bytes)
    pub output_pos: Vec<u32>,            // 0 = none
    pub outputs: Vec<(u32, u32, u32)>,   // (value, length, parent (0 = none))
    pub len: usize,
    pub q: Vec<u32>,
}

/// Result of replaying the NFA stage: per-pattern result of `add` (0 ok, 1 invalid argument,
/// 2 duplicate, 3 scale, 4 conversion) for every pattern up to and including the first error.
pub struct NfaRun<L> {
    pub add_results: Vec<u8>,
    pub view: Option<NfaView<L>>,
}

fn err_code(e: &crate::errors::DaachorseError) -> u8 {
    match e {
        crate::errors::DaachorseError::InvalidArgument(_) => 1,
        crate::errors::DaachorseError::DuplicatePattern(_) => 2,
        crate::errors::DaachorseError::AutomatonScale(_) => 3,
        crate::errors::DaachorseError::InvalidConversion(_) => 4,
    }
}

pub fn error_code(e: &crate::errors::DaachorseError) -> u8 {
    err_code(e)
}

/// Calls the real `NfaBuilder::add` for every pattern, then the real fail/output passes, in the
/// order `build_sparse_nfa` / `build_original_nfa_and_mapper` call them.
pub fn run_nfa_stage<L: EdgeLabel>(patterns: &[(Vec<L>, u32)], kind: MatchKind) -> NfaRun<L> {
    let mut nfa = NfaBuilder::<L, u32>::new(kind);
    let mut add_results = Vec::new();
    for (p, v) in patterns {
        match nfa.add(p, *v) {
            Ok(()) => add_results.push(0),
            Err(e) => {
                add_results.push(err_code(&e));
                return NfaRun { add_results, view: None };
            }
        }
    }
    if nfa.len == 0 {
        return NfaRun { add_results, view: None };
    }
    let q = match kind {
        MatchKind::Standard => nfa.build_fails(),
        MatchKind::LeftmostLongest | MatchKind::LeftmostFirst => nfa.build_fails_leftmost(),
    };
    nfa.build_outputs(&q);
    let mut view = NfaView {
        edges: Vec::new(),
        fail: Vec::new(),
        output: Vec::new(),
        output_pos: Vec::new(),
        outputs: Vec::new(),
        len: nfa.len,
        q,
    };
    for s in &nfa.states {
        let s = s.borrow();
        view.edges.push(s.edges.clone());
        view.fail.push(s.fail);
        view.output.push(s.output.map(|(v, l)| (v, l.get())));
        view.output_pos.push(s.output_pos.map_or(0, |x| x.get()));
    }
    for o in &nfa.outputs {
        view.outputs.push((o.value(), o.length(), o.parent().map_or(0, |x| x.get())));
    }
    NfaRun { add_results, view: Some(view) }
}

pub fn kind_name(k: MatchKind) -> String {
    alloc::format!("{:?}", k)
}
