//! Injected into a scratch copy only: read-only view of the character-wise double array.
#![allow(missing_docs)]
use alloc::vec::Vec;

use super::CharwiseDoubleArrayAhoCorasick;

pub struct DaViewCw {
    pub base: Vec<u32>,  // 0 = none
    pub check: Vec<u32>,
    pub fail: Vec<u32>,
    pub opos: Vec<u32>,
    pub outputs: Vec<(u32, u32)>,
    pub num_states: usize,
    pub leftmost: bool,
    pub table: Vec<u32>,
    pub alphabet_size: u32,
}

pub fn da_view<V: Copy>(pma: &CharwiseDoubleArrayAhoCorasick<V>) -> DaViewCw {
    let mut v = DaViewCw {
        base: Vec::new(),
        check: Vec::new(),
        fail: Vec::new(),
        opos: Vec::new(),
        outputs: Vec::new(),
        num_states: pma.num_states(),
        leftmost: pma.match_kind.is_leftmost(),
        table: Vec::new(),
        alphabet_size: pma.mapper.alphabet_size(),
    };
    for s in &pma.states {
        v.base.push(s.base().map_or(0, |x| x.get()));
        v.check.push(s.check());
        v.fail.push(s.fail());
        v.opos.push(s.output_pos().map_or(0, |x| x.get()));
    }
    for o in &pma.outputs {
        v.outputs.push((o.length(), o.parent().map_or(0, |x| x.get())));
    }
    let mut c = 0u32;
    loop {
        // table is private to mapper; reconstruct through the accessor
        if let Some(ch) = char::from_u32(c) {
            v.table.push(pma.mapper.get(ch).unwrap_or(u32::MAX));
        } else {
            v.table.push(u32::MAX);
        }
        c += 1;
        if c as usize * 4 >= pma.mapper.heap_bytes() {
            break;
        }
    }
    v
}
