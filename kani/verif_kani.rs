//! Injected into a scratch copy only (`#[cfg(kani)] mod verif_kani;`): loop-free harnesses over the full
//! value domain of the bit-level leaves whose contracts the Verus units assume.
#![allow(missing_docs)]
use alloc::vec::Vec;

use crate::serializer::Serializable;
use crate::utils::FromU32;

macro_rules! ser_harness {
    ($name:ident, $t:ty, $ut:ty, $n:expr) => {
        #[kani::proof]
        fn $name() {
            let x: $t = kani::any();
            let tail: [u8; 3] = kani::any();
            let mut v: Vec<u8> = Vec::new();
            x.serialize_to_vec(&mut v);
            // contract assumed in Verus: little-endian bytes of the two's complement value, fixed size
            assert!(v.len() == $n);
            assert!(<$t as Serializable>::serialized_bytes() == $n);
            let u = x as $ut;
            let mut i = 0;
            while i < $n {
                assert!(v[i] == ((u >> (8 * i)) & 0xff) as u8);
                i += 1;
            }
            v.extend_from_slice(&tail);
            let (y, rest) = <$t as Serializable>::deserialize_from_slice(&v);
            assert!(y == x);
            assert!(rest.len() == 3 && rest[0] == tail[0] && rest[1] == tail[1] && rest[2] == tail[2]);
        }
    };
}

ser_harness!(ser_u8, u8, u8, 1);
ser_harness!(ser_u16, u16, u16, 2);
ser_harness!(ser_u32, u32, u32, 4);
ser_harness!(ser_u64, u64, u64, 8);
ser_harness!(ser_u128, u128, u128, 16);
ser_harness!(ser_usize, usize, usize, 8);
ser_harness!(ser_i8, i8, u8, 1);
ser_harness!(ser_i16, i16, u16, 2);
ser_harness!(ser_i32, i32, u32, 4);
ser_harness!(ser_i64, i64, u64, 8);
ser_harness!(ser_i128, i128, u128, 16);
ser_harness!(ser_isize, isize, usize, 8);

#[kani::proof]
fn ser_empty() {
    let tail: [u8; 3] = kani::any();
    let mut v: Vec<u8> = Vec::new();
    crate::Empty.serialize_to_vec(&mut v);
    assert!(v.is_empty());
    assert!(<crate::Empty as Serializable>::serialized_bytes() == 0);
    let (_e, rest) = <crate::Empty as Serializable>::deserialize_from_slice(&tail);
    assert!(rest.len() == 3 && rest[0] == tail[0] && rest[2] == tail[2]);
}

#[kani::proof]
fn from_u32() {
    let x: u32 = kani::any();
    // contract assumed in Verus: lossless widening; the unwrap_unchecked is reached only on Ok
    assert!(usize::from_u32(x) == x as usize);
    assert!(usize::try_from(x).is_ok());
}

#[kani::proof]
fn intpack_u24nu8() {
    use crate::intpack::{U24nU8, U24};
    let raw: u32 = kani::any();
    let a: u32 = kani::any();
    let b: u8 = kani::any();
    let mut v: Vec<u8> = Vec::new();
    raw.serialize_to_vec(&mut v);
    let t: u8 = kani::any();
    v.push(t);
    let (mut p, rest) = U24nU8::deserialize_from_slice(&v);
    assert!(p.a().get() == raw >> 8 && p.b() == (raw & 0xff) as u8);
    // Serializable for U24nU8: four little-endian bytes of the packed word, exact inverse, the tail is handed back
    assert!(rest.len() == 1 && rest[0] == t);
    let mut w: Vec<u8> = Vec::new();
    p.serialize_to_vec(&mut w);
    assert!(w.len() == 4 && w[0] == v[0] && w[1] == v[1] && w[2] == v[2] && w[3] == v[3]);
    assert!(<U24nU8 as Serializable>::serialized_bytes() == 4);
    match U24::try_from(a) {
        Ok(a24) => {
            assert!(a <= 0x00ff_ffff);
            p.set_a(a24);
            assert!(p.a().get() == a && p.b() == (raw & 0xff) as u8);
            p.set_b(b);
            assert!(p.a().get() == a && p.b() == b);
        }
        Err(_) => assert!(a > 0x00ff_ffff),
    }
}

#[kani::proof]
fn utf8_decoder_two_chars() {
    use crate::charwise::iter::CharWithEndOffsetIterator;
    let c1: char = kani::any();
    let c2: char = kani::any();
    let mut buf = [0u8; 8];
    let n1 = c1.encode_utf8(&mut buf).len();
    let n2 = c2.encode_utf8(&mut buf[n1..]).len();
    let bytes = &buf[..n1 + n2];
    let mut it = unsafe { CharWithEndOffsetIterator::new(bytes.iter().copied()) };
    let r1 = it.next();
    assert!(r1 == Some((n1, c1)));
    let r2 = it.next();
    assert!(r2 == Some((n1 + n2, c2)));
    assert!(it.next().is_none());
}

#[kani::proof]
fn num_bytes_labels() {
    use crate::nfa_builder::EdgeLabel;
    let c: char = kani::any();
    let b: u8 = kani::any();
    // contract assumed by the `add` contract: the byte length of a label is its UTF-8 length (1 for a byte)
    assert!(c.num_bytes() == c.len_utf8());
    let v = c as u32;
    assert!(c.num_bytes() == if v < 0x80 { 1 } else if v < 0x800 { 2 } else if v < 0x10000 { 3 } else { 4 });
    assert!(b.num_bytes() == 1);
}
