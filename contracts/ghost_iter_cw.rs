// ---- ghost vocabulary for the char-wise iterators: spec streams over the DA, input = UTF-8 bytes ----
//@include ghost_chain.rs
//@include ghost_outs_cw.rs

spec fn cw_ovl_scan<V>(st: Seq<State>, tb: Seq<u32>, outs: Seq<Output<V>>, s: int, rest: Seq<u8>, k: nat) -> Seq<Match<V>>
    decreases rest.len()
{
    if rest.len() == 0 || u8len(rest[0]) > rest.len() { Seq::empty() } else {
        let n = u8len(rest[0]);
        let t = cw_delta(st, tb, s, u8code(rest));
        chain(outs, cw_opos(st[t]), k + n) + cw_ovl_scan(st, tb, outs, t, rest.skip(n as int), k + n)
    }
}

spec fn cw_head_match<V>(st: Seq<State>, outs: Seq<Output<V>>, t: int, end: nat) -> Match<V> {
    mk_match(outs[cw_opos(st[t]) - 1], end)
}

spec fn cw_nosuf_scan<V>(st: Seq<State>, tb: Seq<u32>, outs: Seq<Output<V>>, s: int, rest: Seq<u8>, k: nat) -> Seq<Match<V>>
    decreases rest.len()
{
    if rest.len() == 0 || u8len(rest[0]) > rest.len() { Seq::empty() } else {
        let n = u8len(rest[0]);
        let t = cw_delta(st, tb, s, u8code(rest));
        (if cw_opos(st[t]) == 0 { Seq::empty() } else { seq![cw_head_match(st, outs, t, k + n)] })
            + cw_nosuf_scan(st, tb, outs, t, rest.skip(n as int), k + n)
    }
}

// first reporting position: (bytes consumed by then, state reached)
spec fn cw_find_first(st: Seq<State>, tb: Seq<u32>, s: int, rest: Seq<u8>, n0: nat) -> Option<(nat, int)>
    decreases rest.len()
{
    if rest.len() == 0 || u8len(rest[0]) > rest.len() { None } else {
        let n = u8len(rest[0]);
        let t = cw_delta(st, tb, s, u8code(rest));
        if cw_opos(st[t]) != 0 { Some((n0 + n, t)) } else { cw_find_first(st, tb, t, rest.skip(n as int), n0 + n) }
    }
}

spec fn cw_find_stream<V>(st: Seq<State>, tb: Seq<u32>, outs: Seq<Output<V>>, rest: Seq<u8>, k: nat) -> Seq<Match<V>>
    decreases rest.len()
{
    match cw_find_first(st, tb, 0, rest, 0) {
        None => Seq::empty(),
        Some(p) => if p.0 == 0 || p.0 > rest.len() { Seq::empty() } else {
            seq![cw_head_match(st, outs, p.1, k + p.0)] + cw_find_stream(st, tb, outs, rest.skip(p.0 as int), k + p.0)
        },
    }
}

spec fn cw_pma_ok<V>(pma: &CharwiseDoubleArrayAhoCorasick<V>, lm: bool) -> bool {
    cw_wf(pma.states@, pma.mapper.table@, lm) && outs_ok_cw(pma.states@, pma.outputs@)
}
