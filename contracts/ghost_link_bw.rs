// ---- from "the array encodes the NFA" (postcondition of the byte-wise build_double_array) to "the array is well formed
// for the search" (precondition of the byte-wise transition functions and iterators): the ranking witness is the NFA depth ----
spec fn nfa_depth<V>(n: NfaBuilder<u8, V>, t: int) -> nat
    decreases t
{
    if t < 2 { 0 } else { let p = nfa_parent(n, t).0; if 0 <= p < t { nfa_depth(n, p) + 1 } else { 0 } }
}

// assumed contract of build_fails / build_fails_leftmost (checked by the stand-in): fail links point to strictly
// shallower states, or to the dead state under the leftmost kinds
spec fn nfa_links<V>(n: NfaBuilder<u8, V>, lm: bool) -> bool {
    forall|s: int| 0 <= s < n.states@.len() && s != 1 && s != 0 ==> {
        let f = (#[trigger] n.states@[s]).fail as int;
        (f != 1 && 0 <= f < n.states@.len() && nfa_depth(n, f) < nfa_depth(n, s)) || (lm && f == 1)
    }
}

spec fn slot_owner<V>(n: NfaBuilder<u8, V>, idmap: Seq<u32>, y: int) -> int {
    choose|t: int| 0 <= t < n.states@.len() && t != 1 && #[trigger] idmap[t] == y
}
spec fn slot_depth<V>(n: NfaBuilder<u8, V>, idmap: Seq<u32>, y: int) -> nat {
    if exists|t: int| 0 <= t < n.states@.len() && t != 1 && #[trigger] idmap[t] == y { nfa_depth(n, slot_owner(n, idmap, y)) } else { 0 }
}

spec fn link_wit<V>(n: NfaBuilder<u8, V>, st: Seq<State>, idmap: Seq<u32>) -> Wit {
    Wit {
        live: idmap.remove(1).map_values(|v: u32| v as int).to_set(),
        rank: Seq::new(st.len(), |y: int| slot_depth(n, idmap, y)),
    }
}

// slot y is live iff it is the slot of a non-dead NFA state; its rank is then that state's depth
proof fn lemma_link_live<V>(n: NfaBuilder<u8, V>, st: Seq<State>, idmap: Seq<u32>, y: int)
    requires bw_encodes(st, n, idmap), n.states@.len() >= 2,
    ensures link_wit(n, st, idmap).live.contains(y) <==> (exists|t: int| 0 <= t < n.states@.len() && t != 1 && #[trigger] idmap[t] == y),
{
    let len = n.states@.len();
    lemma_benc_basic(st, n, idmap, 0);
    let w = link_wit(n, st, idmap);
    let ids = idmap.remove(1).map_values(|v: u32| v as int);
    if w.live.contains(y) {
        assert(ids.contains(y));
        let i = choose|i: int| 0 <= i < ids.len() && ids[i] == y;
        let t = if i < 1 { i } else { i + 1 };
        assert(idmap.remove(1)[i] == idmap[t]);
        assert(idmap[t] == y);
    }
    if exists|t: int| 0 <= t < len && t != 1 && #[trigger] idmap[t] == y {
        let t = choose|t: int| 0 <= t < len && t != 1 && #[trigger] idmap[t] == y;
        let i = if t < 1 { t } else { t - 1 };
        assert(idmap.remove(1)[i] == idmap[t]);
        assert(ids[i] == y);
        assert(ids.contains(y));
    }
}

proof fn lemma_link_rank<V>(n: NfaBuilder<u8, V>, st: Seq<State>, idmap: Seq<u32>, t: int)
    requires bw_encodes(st, n, idmap), 0 <= t < n.states@.len(), t != 1, n.states@.len() >= 2,
    ensures link_wit(n, st, idmap).live.contains(idmap[t] as int), link_wit(n, st, idmap).rank[idmap[t] as int] == nfa_depth(n, t),
        link_wit(n, st, idmap).rank.len() == st.len(),
{
    let len = n.states@.len();
    lemma_benc_basic(st, n, idmap, t);
    let y = idmap[t] as int;
    lemma_link_live(n, st, idmap, y);
    assert(exists|t: int| 0 <= t < n.states@.len() && t != 1 && #[trigger] idmap[t] == y);
    let t2 = slot_owner(n, idmap, y);
    assert(0 <= t2 < n.states@.len() && t2 != 1 && idmap[t2] == y);
    lemma_benc_inj(st, n, idmap, t, t2);
    assert(0 <= y < st.len());
    assert(slot_depth(n, idmap, y) == nfa_depth(n, t2));
    assert(link_wit(n, st, idmap).rank[y] == slot_depth(n, idmap, y));
}

proof fn lemma_encodes_gives_wf<V>(n: NfaBuilder<u8, V>, st: Seq<State>, idmap: Seq<u32>, lm: bool)
    requires bw_encodes(st, n, idmap), nfa_tree(n), nfa_links(n, lm), da_safe(st),
    ensures bw_wf(st, lm),
{
    let len = n.states@.len();
    let w = link_wit(n, st, idmap);
    lemma_link_rank(n, st, idmap, 0);
    lemma_benc_basic(st, n, idmap, 0);
    assert(w.live.contains(0) && w.rank[0] == 0);
    assert(!w.live.contains(1)) by {
        lemma_link_live(n, st, idmap, 1);
        if exists|t: int| 0 <= t < len && t != 1 && #[trigger] idmap[t] == 1 {
            let t = choose|t: int| 0 <= t < len && t != 1 && #[trigger] idmap[t] == 1;
            lemma_benc_basic(st, n, idmap, t);
        }
    }
    assert forall|s: int| #[trigger] w.live.contains(s) implies 0 <= s < st.len() by {
        lemma_link_live(n, st, idmap, s);
        let t = choose|t: int| 0 <= t < len && t != 1 && #[trigger] idmap[t] == s;
        lemma_benc_basic(st, n, idmap, t);
    }
    assert forall|s: int, c: u8| w.live.contains(s) && (#[trigger] bw_child(st, s, c)).is_some() implies
            w.live.contains(bw_child(st, s, c).unwrap() as int) && w.rank[bw_child(st, s, c).unwrap() as int] == w.rank[s] + 1 by {
        lemma_link_live(n, st, idmap, s);
        let t = choose|t: int| 0 <= t < len && t != 1 && #[trigger] idmap[t] == s;
        lemma_benc_basic(st, n, idmap, t);
        assert(bw_edge(st, idmap[t] as int, c));
        lemma_benc_nospur(st, n, idmap, t, c);
        lemma_benc_edge(st, n, idmap, t, c);
        let child = nfa_edges(n, t)[c] as int;
        assert(nfa_parent(n, nfa_edges(n, t)[c] as int) == (t, c));
        assert(nfa_depth(n, child) == nfa_depth(n, t) + 1);
        lemma_link_rank(n, st, idmap, child);
        lemma_link_rank(n, st, idmap, t);
        assert(bw_child(st, s, c).unwrap() == idmap[child]);
    }
    assert forall|s: int| #[trigger] w.live.contains(s) && s != 0 implies
            (w.live.contains(st[s].fail as int) && w.rank[st[s].fail as int] < w.rank[s]) || (lm && st[s].fail == 1) by {
        lemma_link_live(n, st, idmap, s);
        let t = choose|t: int| 0 <= t < len && t != 1 && #[trigger] idmap[t] == s;
        lemma_benc_basic(st, n, idmap, t);
        assert(t != 0);
        let f = n.states@[t].fail as int;
        if f != 1 {
            lemma_link_rank(n, st, idmap, f);
            lemma_link_rank(n, st, idmap, t);
        }
    }
    lemma_link_rank(n, st, idmap, 0);
    assert(da_ranked(st, lm, w));
}

// ---- the double array simulates the sparse NFA (standard kind): transitions and output positions commute with idmap ----
// goto/fail transition of the sparse NFA itself
spec fn nfa_nd<V>(n: NfaBuilder<u8, V>, s: int, c: u8) -> int
    decreases nfa_depth(n, s)
    when nfa_tree(n) && nfa_links(n, false) && 0 <= s < n.states@.len() && s != 1
{
    if nfa_edges(n, s).contains_key(c) { nfa_edges(n, s)[c] as int }
    else if s == 0 { 0 }
    else { nfa_nd(n, n.states@[s].fail as int, c) }
}
proof fn lemma_nd_range<V>(n: NfaBuilder<u8, V>, s: int, c: u8)
    requires nfa_tree(n), nfa_links(n, false), 0 <= s < n.states@.len(), s != 1,
    ensures 0 <= nfa_nd(n, s, c) < n.states@.len(), nfa_nd(n, s, c) != 1,
    decreases nfa_depth(n, s),
{
    if nfa_edges(n, s).contains_key(c) { }
    else if s == 0 { }
    else { lemma_nd_range(n, n.states@[s].fail as int, c); }
}
// every image slot is live for every ranking witness (it is reachable from the root through array edges)
proof fn lemma_image_live<V>(n: NfaBuilder<u8, V>, st: Seq<State>, idmap: Seq<u32>, w: Wit, s: int)
    requires bw_encodes(st, n, idmap), nfa_tree(n), da_ranked(st, false, w), 0 <= s < n.states@.len(), s != 1,
    ensures w.live.contains(idmap[s] as int),
    decreases s,
{
    lemma_benc_basic(st, n, idmap, 0);
    if s >= 2 {
        let p = nfa_parent(n, s);
        assert(nfa_parent_ok(n, s, p));
        lemma_image_live(n, st, idmap, w, p.0);
        lemma_benc_edge(st, n, idmap, p.0, p.1);
        lemma_benc_basic(st, n, idmap, p.0);
        assert(bw_child(st, idmap[p.0] as int, p.1) == Some(idmap[s]));
        assert(w.live.contains(bw_child(st, idmap[p.0] as int, p.1).unwrap() as int));
    }
}
proof fn lemma_sim_delta<V>(n: NfaBuilder<u8, V>, st: Seq<State>, idmap: Seq<u32>, s: int, c: u8)
    requires bw_encodes(st, n, idmap), nfa_tree(n), nfa_links(n, false), da_safe(st), 0 <= s < n.states@.len(), s != 1,
    ensures bw_wf(st, false), bw_live(st, false, idmap[s] as int),
        bw_delta(st, idmap[s] as int, c) == idmap[nfa_nd(n, s, c)] as int,
    decreases nfa_depth(n, s),
{
    lemma_encodes_gives_wf(n, st, idmap, false);
    let w = bw_wit(st, false);
    assert(da_ranked(st, false, w));
    lemma_image_live(n, st, idmap, w, s);
    lemma_benc_basic(st, n, idmap, s);
    lemma_benc_basic(st, n, idmap, 0);
    let x = idmap[s] as int;
    if nfa_edges(n, s).contains_key(c) {
        lemma_benc_edge(st, n, idmap, s, c);
        assert(bw_child(st, x, c) == Some(idmap[nfa_edges(n, s)[c] as int]));
    } else {
        assert(bw_child(st, x, c).is_none()) by {
            if bw_child(st, x, c).is_some() { assert(bw_edge(st, x, c)); lemma_benc_nospur(st, n, idmap, s, c); }
        }
        if s == 0 { }
        else {
            assert(x != 0) by { if x == 0 { lemma_benc_inj(st, n, idmap, s, 0); } }
            let f = n.states@[s].fail as int;
            assert(f != 1 && 0 <= f < n.states@.len());
            lemma_sim_delta(n, st, idmap, f, c);
            assert(st[x].fail == idmap[f]);
        }
    }
}
