// (generic in the label type: shared by the byte-wise and the char-wise vocabulary and by the C08 unit)
// ---- property-level semantics of the overlapping search (C01): at every end position, all registered patterns
// that end there, longest first; end positions in increasing order ----
spec fn reg_match<L, V>(n: NfaBuilder<L, V>, q: Seq<L>, end: nat) -> Match<V> {
    let o = n.states@[walk(n, q).unwrap()].output.unwrap();
    Match { length: o.1@ as usize, end: end as usize, value: o.0 }
}
// matches for the registered patterns among the suffixes p[i..], p[i+1..], ... (longest first)
spec fn suf_matches<L, V>(n: NfaBuilder<L, V>, p: Seq<L>, i: nat, end: nat) -> Seq<Match<V>>
    decreases p.len() - i
{
    if i >= p.len() { Seq::empty() } else {
        (if is_registered(n, p.skip(i as int)) { seq![reg_match(n, p.skip(i as int), end)] } else { Seq::empty() }) + suf_matches(n, p, i + 1, end)
    }
}
spec fn first_of<V>(s: Seq<Match<V>>) -> Seq<Match<V>> { if s.len() == 0 { Seq::empty() } else { seq![s[0]] } }
// the number of reports does not depend on the end offset they carry
proof fn lemma_suf_len<L, V>(n: NfaBuilder<L, V>, p: Seq<L>, i: nat, e1: nat, e2: nat)
    ensures suf_matches(n, p, i, e1).len() == suf_matches(n, p, i, e2).len(),
    decreases p.len() - i,
{
    if i < p.len() { lemma_suf_len(n, p, i + 1, e1, e2); }
}
