// ---- stage B of the byte-wise construction: the array encodes the NFA and has no spurious edge ----
// In the byte-wise array CHECK holds the *label* of the edge into a slot, so "no spurious edge" rests on
//   (1) BASE values of distinct states are distinct (is_used_base / use_base), and
//   (2) every free slot of a block carries a CHECK that would need an unused BASE of that block
//       (remove_invalid_checks), or the block has no unused BASE -- and then, by counting, no free slot.

spec fn in_block(x: int, kb: int) -> bool { kb * 256 <= x < kb * 256 + 256 }
spec fn slot_free(inv: Map<int, int>, x: int) -> bool { x == 0 || x == 1 || !inv.contains_key(x) }
spec fn hfree(h: BuildHelper, x: int) -> bool { x == 0 || x == 1 || !h_used_index(h, x) }

// the helper's flags agree with the ghost maps on the active window
spec fn glue(h: BuildHelper, inv: Map<int, int>, bowner: Map<int, int>) -> bool {
    &&& forall|j: int| #![trigger h_used_index(h, j)] #![trigger inv.contains_key(j)]
            h_active(h, j) ==> (h_used_index(h, j) <==> (j == 0 || j == 1 || inv.contains_key(j)))
    &&& forall|j: int| #![trigger h_used_base(h, j)] #![trigger bowner.contains_key(j)]
            h_active(h, j) ==> (h_used_base(h, j) <==> bowner.contains_key(j))
}

// what remove_invalid_checks leaves behind in block kb, in terms of the helper's flags
spec fn hb_wit(st: Seq<State>, h: BuildHelper, kb: int, u: u32) -> bool {
    &&& in_block(u as int, kb)
    &&& !h_used_base(h, u as int)
    &&& forall|x: u32| in_block(x as int, kb) && hfree(h, x as int) ==> st_check(#[trigger] st[x as int]) == (u ^ x) as u8
}
spec fn hb_sane(st: Seq<State>, h: BuildHelper, kb: int) -> bool {
    ||| exists|u: u32| hb_wit(st, h, kb, u)
    ||| forall|u: int| in_block(u, kb) ==> h_used_base(h, u)
}

// the same in terms of the ghost maps (survives the block leaving the helper's window)
spec fn sane_wit(st: Seq<State>, inv: Map<int, int>, bowner: Map<int, int>, kb: int, u: u32) -> bool {
    &&& in_block(u as int, kb)
    &&& !bowner.contains_key(u as int)
    &&& forall|x: u32| in_block(x as int, kb) && slot_free(inv, x as int) ==> st_check(#[trigger] st[x as int]) == (u ^ x) as u8
}
#[verifier::opaque]
spec fn sane_block(st: Seq<State>, inv: Map<int, int>, bowner: Map<int, int>, kb: int) -> bool {
    ||| exists|u: u32| sane_wit(st, inv, bowner, kb, u)
    ||| forall|u: int| in_block(u, kb) ==> bowner.contains_key(u)
}

proof fn lemma_hb_to_sane(st: Seq<State>, h: BuildHelper, inv: Map<int, int>, bowner: Map<int, int>, kb: int)
    requires hb_sane(st, h, kb), glue(h, inv, bowner), h_lo(h) <= kb * 256, kb * 256 + 256 <= h_hi(h),
    ensures sane_block(st, inv, bowner, kb),
{
    reveal(sane_block);
    if exists|u: u32| hb_wit(st, h, kb, u) {
        let u = choose|u: u32| hb_wit(st, h, kb, u);
        assert(h_active(h, u as int));
        assert(!bowner.contains_key(u as int));
        assert forall|x: u32| in_block(x as int, kb) && slot_free(inv, x as int) implies st_check(#[trigger] st[x as int]) == (u ^ x) as u8 by {
            assert(h_active(h, x as int));
            assert(hfree(h, x as int));
        }
        assert(sane_wit(st, inv, bowner, kb, u));
    } else {
        assert forall|u: int| in_block(u, kb) implies bowner.contains_key(u) by {
            assert(h_active(h, u));
            assert(h_used_base(h, u));
        }
    }
}

// nothing in block kb changed (slots may only become occupied... they do not, the block is closed; stated as implications)
proof fn lemma_sane_frame(st: Seq<State>, st2: Seq<State>, inv: Map<int, int>, inv2: Map<int, int>, bowner: Map<int, int>, bowner2: Map<int, int>, kb: int)
    requires sane_block(st, inv, bowner, kb),
        forall|x: u32| in_block(x as int, kb) ==> st_check(#[trigger] st2[x as int]) == st_check(st[x as int]),
        forall|x: int| in_block(x, kb) && inv.contains_key(x) ==> #[trigger] inv2.contains_key(x),
        forall|x: int| in_block(x, kb) ==> (#[trigger] bowner2.contains_key(x) <==> bowner.contains_key(x)),
    ensures sane_block(st2, inv2, bowner2, kb),
{
    reveal(sane_block);
    if exists|u: u32| sane_wit(st, inv, bowner, kb, u) {
        let u = choose|u: u32| sane_wit(st, inv, bowner, kb, u);
        assert(!bowner2.contains_key(u as int));
        assert forall|x: u32| in_block(x as int, kb) && slot_free(inv2, x as int) implies st_check(#[trigger] st2[x as int]) == (u ^ x) as u8 by {
            assert(slot_free(inv, x as int));
            assert(st_check(st[x as int]) == (u ^ x) as u8);
        }
        assert(sane_wit(st2, inv2, bowner2, kb, u));
    } else {
        assert forall|u: int| in_block(u, kb) implies bowner2.contains_key(u) by { assert(bowner.contains_key(u)); }
    }
}

// The invariant of the placement loop, as a conjunction of small opaque parts (each lemma reveals only what it needs).
// (A)+(B) the placement map and its inverse on the non-root states
#[verifier::opaque]
spec fn p_map<V>(n: NfaBuilder<u8, V>, st: Seq<State>, map: Seq<u32>, inv: Map<int, int>) -> bool {
    let len = n.states@.len();
    &&& map.len() == len && map[0] == 0 && map[1] == 1
    &&& forall|t: int| 0 <= t < len ==> (#[trigger] map[t]) < st.len()
    &&& !inv.contains_key(0) && !inv.contains_key(1)
    &&& forall|t: int| 2 <= t < len && #[trigger] map[t] != 1 ==> inv.contains_key(map[t] as int) && inv[map[t] as int] == t
    &&& forall|y: int| #[trigger] inv.contains_key(y) ==> 2 <= inv[y] < len && map[inv[y]] == y && 0 <= y < st.len()
}
// (C) CHECK of an occupied slot is the label of the edge that leads to it
#[verifier::opaque]
spec fn p_chk<V>(n: NfaBuilder<u8, V>, st: Seq<State>, inv: Map<int, int>) -> bool {
    forall|y: int| #[trigger] inv.contains_key(y) ==> st_check(st[y]) == nfa_parent(n, inv[y]).1
}
// (D1) finished states have a BASE and their children sit at base ^ label
#[verifier::opaque]
spec fn p_edge<V>(n: NfaBuilder<u8, V>, st: Seq<State>, map: Seq<u32>, done: Set<int>) -> bool {
    forall|s: int, c: u8| done.contains(s) && #[trigger] nfa_edges(n, s).contains_key(c) ==>
        st[map[s] as int].base.is_some() && map[nfa_edges(n, s)[c] as int] == st[map[s] as int].base.unwrap()@ ^ (c as u32)
}
// (D2) BASE values identify their state
#[verifier::opaque]
spec fn p_own<V>(n: NfaBuilder<u8, V>, st: Seq<State>, map: Seq<u32>, bowner: Map<int, int>, done: Set<int>) -> bool {
    &&& forall|y: int| 0 <= y < st.len() && (#[trigger] st[y]).base.is_some() ==>
            bowner.contains_key(st[y].base.unwrap()@ as int) && map[bowner[st[y].base.unwrap()@ as int]] == y
    &&& forall|b: int| #[trigger] bowner.contains_key(b) ==> {
            &&& 0 < b < st.len() && done.contains(bowner[b])
            &&& st[map[bowner[b]] as int].base.is_some() && st[map[bowner[b]] as int].base.unwrap()@ == b
            &&& exists|c: u8| nfa_edges(n, bowner[b]).contains_key(c)
        }
}
// (E) placed non-root states have a finished (or the current) parent; (F) finished states are placed
#[verifier::opaque]
spec fn p_par<V>(n: NfaBuilder<u8, V>, map: Seq<u32>, done: Set<int>, cur: int) -> bool {
    let len = n.states@.len();
    &&& forall|t: int| 2 <= t < len && #[trigger] map[t] != 1 ==> done.contains(nfa_parent(n, t).0) || nfa_parent(n, t).0 == cur
    &&& forall|s: int| #[trigger] done.contains(s) ==> 0 <= s < len && s != 1 && map[s] != 1
}
// (G) the state in progress
#[verifier::opaque]
spec fn p_cur<V>(n: NfaBuilder<u8, V>, st: Seq<State>, map: Seq<u32>, bowner: Map<int, int>, done: Set<int>, cur: int, base: u32, placed: Set<u8>) -> bool {
    let len = n.states@.len();
    cur >= 0 ==> {
        &&& 0 <= cur < len && cur != 1 && map[cur] != 1 && !done.contains(cur)
        &&& 0 < base < st.len() && !bowner.contains_key(base as int)
        &&& forall|c: u8| #[trigger] placed.contains(c) ==> nfa_edges(n, cur).contains_key(c) && map[nfa_edges(n, cur)[c] as int] == base ^ (c as u32)
        &&& forall|c: u8| #[trigger] nfa_edges(n, cur).contains_key(c) && !placed.contains(c) ==> map[nfa_edges(n, cur)[c] as int] == 1
    }
}
spec fn bwb<V>(n: NfaBuilder<u8, V>, st: Seq<State>, map: Seq<u32>, inv: Map<int, int>, bowner: Map<int, int>,
               done: Set<int>, cur: int, base: u32, placed: Set<u8>) -> bool {
    &&& p_map(n, st, map, inv)
    &&& p_chk(n, st, inv)
    &&& p_edge(n, st, map, done)
    &&& p_own(n, st, map, bowner, done)
    &&& p_par(n, map, done, cur)
    &&& p_cur(n, st, map, bowner, done, cur, base, placed)
}

proof fn lemma_bwb_init<V>(n: NfaBuilder<u8, V>, st: Seq<State>, map: Seq<u32>)
    requires nfa_tree(n), st.len() >= 2, map.len() == n.states@.len(), map[0] == 0,
        forall|t: int| 1 <= t < map.len() ==> #[trigger] map[t] == 1,
        forall|y: int| 0 <= y < st.len() ==> (#[trigger] st[y]).base.is_none(),
    ensures bwb(n, st, map, Map::empty(), Map::empty(), Set::empty(), -1, 0, Set::empty()),
{
    reveal(p_map); reveal(p_chk); reveal(p_edge); reveal(p_own); reveal(p_par); reveal(p_cur);
}

proof fn lemma_bwb_facts<V>(n: NfaBuilder<u8, V>, st: Seq<State>, map: Seq<u32>, inv: Map<int, int>, bowner: Map<int, int>,
                            done: Set<int>, cur: int, base: u32, placed: Set<u8>)
    requires bwb(n, st, map, inv, bowner, done, cur, base, placed),
    ensures map.len() == n.states@.len(), map[0] == 0, map[1] == 1,
        !inv.contains_key(0) && !inv.contains_key(1),
        forall|y: int| #[trigger] inv.contains_key(y) ==> 0 <= y < st.len(),
        forall|b: int| #[trigger] bowner.contains_key(b) ==> 0 < b < st.len(),
        forall|s: int| #[trigger] done.contains(s) ==> 0 <= s < map.len() && s != 1 && map[s] != 1,
        forall|t: int| 0 <= t < map.len() && t != 1 && t != 0 && #[trigger] map[t] != 1 ==> inv.contains_key(map[t] as int) && inv[map[t] as int] == t,
{
    reveal(p_map); reveal(p_own); reveal(p_par);
}

// distinct placed states occupy distinct slots
proof fn lemma_pmap_inj<V>(n: NfaBuilder<u8, V>, st: Seq<State>, map: Seq<u32>, inv: Map<int, int>, t1: int, t2: int)
    requires p_map(n, st, map, inv), 0 <= t1 < n.states@.len(), 0 <= t2 < n.states@.len(), t1 != 1, t2 != 1,
        map[t1] != 1, map[t2] != 1, map[t1] == map[t2],
    ensures t1 == t2,
{
    reveal(p_map);
    if t1 >= 2 { assert(inv[map[t1] as int] == t1); }
    if t2 >= 2 { assert(inv[map[t2] as int] == t2); }
}

// a leaf (no edges) is finished without touching the array
proof fn lemma_bwb_leaf<V>(n: NfaBuilder<u8, V>, st: Seq<State>, map: Seq<u32>, inv: Map<int, int>, bowner: Map<int, int>, done: Set<int>, sid: int)
    requires bwb(n, st, map, inv, bowner, done, -1, 0, Set::empty()), 0 <= sid < n.states@.len(), sid != 1, map[sid] != 1,
        forall|c: u8| !nfa_edges(n, sid).contains_key(c),
    ensures bwb(n, st, map, inv, bowner, done.insert(sid), -1, 0, Set::empty()),
{
    let done2 = done.insert(sid);
    assert(p_edge(n, st, map, done2)) by { reveal(p_edge); }
    assert(p_own(n, st, map, bowner, done2)) by {
        reveal(p_own);
        assert forall|b: int| #[trigger] bowner.contains_key(b) implies done2.contains(bowner[b]) by { assert(done.contains(bowner[b])); }
    }
    assert(p_par(n, map, done2, -1)) by { reveal(p_par); }
    assert(p_cur(n, st, map, bowner, done2, -1, 0, Set::empty())) by { reveal(p_cur); }
}

// the array grows by default states and/or fields the predicate does not read change (fail, output_pos, CHECK of free slots)
proof fn lemma_bwb_congr<V>(n: NfaBuilder<u8, V>, st: Seq<State>, st2: Seq<State>, map: Seq<u32>, inv: Map<int, int>, bowner: Map<int, int>,
                            done: Set<int>, cur: int, base: u32, placed: Set<u8>)
    requires bwb(n, st, map, inv, bowner, done, cur, base, placed), st2.len() >= st.len(),
        forall|y: int| 0 <= y < st.len() ==> (#[trigger] st2[y]).base == st[y].base && (inv.contains_key(y) ==> st_check(st2[y]) == st_check(st[y])),
        forall|y: int| st.len() <= y < st2.len() ==> (#[trigger] st2[y]).base.is_none(),
    ensures bwb(n, st2, map, inv, bowner, done, cur, base, placed),
{
    assert(p_map(n, st2, map, inv)) by { reveal(p_map); }
    assert(p_chk(n, st2, inv)) by {
        reveal(p_chk); reveal(p_map);
        assert forall|y: int| #[trigger] inv.contains_key(y) implies st_check(st2[y]) == nfa_parent(n, inv[y]).1 by { assert(st2[y].base == st[y].base); }
    }
    assert(p_edge(n, st2, map, done)) by {
        reveal(p_edge); reveal(p_map); reveal(p_par);
        assert forall|s: int, c: u8| done.contains(s) && #[trigger] nfa_edges(n, s).contains_key(c) implies
                st2[map[s] as int].base.is_some() && map[nfa_edges(n, s)[c] as int] == st2[map[s] as int].base.unwrap()@ ^ (c as u32) by {
            assert(st2[map[s] as int].base == st[map[s] as int].base);
        }
    }
    assert(p_own(n, st2, map, bowner, done)) by {
        reveal(p_own); reveal(p_map); reveal(p_par);
        assert forall|y: int| 0 <= y < st2.len() && (#[trigger] st2[y]).base.is_some() implies
                bowner.contains_key(st2[y].base.unwrap()@ as int) && map[bowner[st2[y].base.unwrap()@ as int]] == y by {
            if y < st.len() { assert(st2[y].base == st[y].base); }
        }
        assert forall|b: int| #[trigger] bowner.contains_key(b) implies
                0 < b < st2.len() && done.contains(bowner[b])
                && st2[map[bowner[b]] as int].base.is_some() && st2[map[bowner[b]] as int].base.unwrap()@ == b
                && exists|c: u8| nfa_edges(n, bowner[b]).contains_key(c) by {
            assert(st2[map[bowner[b]] as int].base == st[map[bowner[b]] as int].base);
        }
    }
    assert(p_cur(n, st2, map, bowner, done, cur, base, placed)) by { reveal(p_cur); }
}

// start placing the children of sid at `base`: none of them is placed yet
proof fn lemma_bwb_begin<V>(n: NfaBuilder<u8, V>, st: Seq<State>, map: Seq<u32>, inv: Map<int, int>, bowner: Map<int, int>, done: Set<int>, sid: int, base: u32)
    requires bwb(n, st, map, inv, bowner, done, -1, 0, Set::empty()), nfa_tree(n), 0 <= sid < n.states@.len(), sid != 1, map[sid] != 1, !done.contains(sid),
        0 < base < st.len(), !bowner.contains_key(base as int),
    ensures bwb(n, st, map, inv, bowner, done, sid, base, Set::empty()),
{
    assert(p_par(n, map, done, sid)) by { reveal(p_par); }
    assert(p_cur(n, st, map, bowner, done, sid, base, Set::empty())) by {
        reveal(p_cur); reveal(p_par);
        assert forall|c: u8| #[trigger] nfa_edges(n, sid).contains_key(c) implies map[nfa_edges(n, sid)[c] as int] == 1 by {
            let t = nfa_edges(n, sid)[c] as int;
            assert(nfa_parent(n, t) == (sid, c));
            if map[t] != 1 { assert(done.contains(nfa_parent(n, t).0) || nfa_parent(n, t).0 == -1); }
        }
    }
}

// facts about the child that is about to be placed
proof fn lemma_step_child<V>(n: NfaBuilder<u8, V>, st: Seq<State>, map: Seq<u32>, inv: Map<int, int>, bowner: Map<int, int>,
                             done: Set<int>, sid: int, base: u32, placed: Set<u8>, c: u8)
    requires bwb(n, st, map, inv, bowner, done, sid, base, placed), nfa_tree(n), 0 <= sid, nfa_edges(n, sid).contains_key(c), !placed.contains(c),
    ensures ({ let child = nfa_edges(n, sid)[c] as int;
        &&& 0 <= sid < n.states@.len() && sid != 1 && !done.contains(sid) && map[sid] != 1
        &&& 2 <= child < n.states@.len() && map[child] == 1 && nfa_parent(n, child) == (sid, c) && child != sid && !done.contains(child)
        &&& map.len() == n.states@.len() }),
{
    reveal(p_cur); reveal(p_par); reveal(p_map);
    assert(nfa_parent(n, nfa_edges(n, sid)[c] as int) == (sid, c));
}

// one child placed: slot y = base ^ c gets CHECK = c, the child's slot is recorded
// what placing the child along label c does to the array and the id map
spec fn bwb_step_rel<V>(n: NfaBuilder<u8, V>, st: Seq<State>, st2: Seq<State>, map: Seq<u32>, map2: Seq<u32>, inv: Map<int, int>, sid: int, base: u32, c: u8) -> bool {
    let y = (base ^ (c as u32)) as int; let child = nfa_edges(n, sid)[c] as int;
    &&& 2 <= y < st.len() && !inv.contains_key(y)
    &&& st2.len() == st.len() && st2[y].base == st[y].base && st_check(st2[y]) == c
    &&& forall|z: int| 0 <= z < st.len() && z != y ==> (#[trigger] st2[z]).base == st[z].base && st_check(st2[z]) == st_check(st[z])
    &&& map2 == map.update(child, y as u32)
}
proof fn lemma_bwb_step<V>(n: NfaBuilder<u8, V>, st: Seq<State>, st2: Seq<State>, map: Seq<u32>, map2: Seq<u32>, inv: Map<int, int>, bowner: Map<int, int>,
                           done: Set<int>, sid: int, base: u32, placed: Set<u8>, c: u8)
    requires bwb(n, st, map, inv, bowner, done, sid, base, placed), nfa_tree(n), 0 <= sid, nfa_edges(n, sid).contains_key(c), !placed.contains(c),
        bwb_step_rel(n, st, st2, map, map2, inv, sid, base, c),
    ensures bwb(n, st2, map2, inv.insert((base ^ (c as u32)) as int, nfa_edges(n, sid)[c] as int), bowner, done, sid, base, placed.insert(c)),
{
    let len = n.states@.len();
    let y = (base ^ (c as u32)) as int; let child = nfa_edges(n, sid)[c] as int;
    let inv2 = inv.insert(y, child);
    let placed2 = placed.insert(c);
    lemma_step_child(n, st, map, inv, bowner, done, sid, base, placed, c);
    // no placed state sits at y; map2 differs from map only at child
    assert forall|t: int| 0 <= t < len && t != child implies #[trigger] map2[t] == map[t] && map[t] != y by {
        reveal(p_map);
        if map[t] == y { if t >= 2 { assert(inv.contains_key(map[t] as int)); } }
    }
    assert(map2[child] == y as u32);
    assert(p_map(n, st2, map2, inv2)) by {
        reveal(p_map);
        assert forall|t: int| 0 <= t < len implies (#[trigger] map2[t]) < st2.len() by { if t != child { assert(map2[t] == map[t]); } }
        assert forall|t: int| 2 <= t < len && #[trigger] map2[t] != 1 implies inv2.contains_key(map2[t] as int) && inv2[map2[t] as int] == t by {
            if t != child { assert(map2[t] == map[t]); assert(inv.contains_key(map[t] as int)); }
        }
        assert forall|z: int| #[trigger] inv2.contains_key(z) implies 2 <= inv2[z] < len && map2[inv2[z]] == z && 0 <= z < st2.len() by {
            if z != y { assert(inv.contains_key(z)); assert(inv[z] != child) by { if inv[z] == child { assert(map[inv[z]] == z); } } assert(map2[inv[z]] == map[inv[z]]); }
        }
    }
    assert(p_chk(n, st2, inv2)) by {
        reveal(p_chk); reveal(p_map);
        assert forall|z: int| #[trigger] inv2.contains_key(z) implies st_check(st2[z]) == nfa_parent(n, inv2[z]).1 by {
            if z != y { assert(inv.contains_key(z)); assert(st_check(st2[z]) == st_check(st[z])); }
        }
    }
    assert(p_edge(n, st2, map2, done)) by {
        reveal(p_edge); reveal(p_par);
        assert forall|s: int, d: u8| done.contains(s) && #[trigger] nfa_edges(n, s).contains_key(d) implies
                st2[map2[s] as int].base.is_some() && map2[nfa_edges(n, s)[d] as int] == st2[map2[s] as int].base.unwrap()@ ^ (d as u32) by {
            assert(s != child); assert(map2[s] == map[s]);
            assert(st2[map[s] as int].base == st[map[s] as int].base) by { reveal(p_map); }
            let t = nfa_edges(n, s)[d] as int;
            assert(t != child) by { if t == child { assert(nfa_parent(n, nfa_edges(n, s)[d] as int) == (s, d)); } }
            assert(map2[t] == map[t]);
        }
    }
    assert(p_own(n, st2, map2, bowner, done)) by {
        reveal(p_own); reveal(p_par);
        assert forall|z: int| 0 <= z < st2.len() && (#[trigger] st2[z]).base.is_some() implies
                bowner.contains_key(st2[z].base.unwrap()@ as int) && map2[bowner[st2[z].base.unwrap()@ as int]] == z by {
            assert(st[z].base == st2[z].base);
            let o = bowner[st[z].base.unwrap()@ as int];
            assert(done.contains(o));
            assert(o != child);
            assert(map2[o] == map[o]);
        }
        assert forall|b: int| #[trigger] bowner.contains_key(b) implies
                0 < b < st2.len() && done.contains(bowner[b])
                && st2[map2[bowner[b]] as int].base.is_some() && st2[map2[bowner[b]] as int].base.unwrap()@ == b
                && exists|d: u8| nfa_edges(n, bowner[b]).contains_key(d) by {
            assert(done.contains(bowner[b]));
            assert(bowner[b] != child);
            assert(map2[bowner[b]] == map[bowner[b]]);
            assert(st2[map[bowner[b]] as int].base == st[map[bowner[b]] as int].base) by { reveal(p_map); }
        }
    }
    assert(p_par(n, map2, done, sid)) by {
        reveal(p_par);
        assert forall|t: int| 2 <= t < len && #[trigger] map2[t] != 1 implies done.contains(nfa_parent(n, t).0) || nfa_parent(n, t).0 == sid by {
            if t != child { assert(map2[t] == map[t]); }
        }
        assert forall|s: int| #[trigger] done.contains(s) implies 0 <= s < len && s != 1 && map2[s] != 1 by { assert(s != child); assert(map2[s] == map[s]); }
    }
    assert(p_cur(n, st2, map2, bowner, done, sid, base, placed2)) by {
        reveal(p_cur);
        assert(map2[sid] == map[sid]);
        assert forall|d: u8| #[trigger] placed2.contains(d) implies nfa_edges(n, sid).contains_key(d) && map2[nfa_edges(n, sid)[d] as int] == base ^ (d as u32) by {
            if d != c {
                assert(placed.contains(d));
                let t = nfa_edges(n, sid)[d] as int;
                assert(t != child) by { if t == child { assert(nfa_parent(n, nfa_edges(n, sid)[d] as int) == (sid, d)); } }
                assert(map2[t] == map[t]);
            }
        }
        assert forall|d: u8| #[trigger] nfa_edges(n, sid).contains_key(d) && !placed2.contains(d) implies map2[nfa_edges(n, sid)[d] as int] == 1 by {
            let t = nfa_edges(n, sid)[d] as int;
            assert(t != child) by { if t == child { assert(nfa_parent(n, nfa_edges(n, sid)[d] as int) == (sid, d)); } }
            assert(!placed.contains(d));
            assert(map2[t] == map[t]);
        }
    }
}

// all children placed: the state receives its BASE and is finished
proof fn lemma_bwb_finish<V>(n: NfaBuilder<u8, V>, st: Seq<State>, st2: Seq<State>, map: Seq<u32>, inv: Map<int, int>, bowner: Map<int, int>,
                             done: Set<int>, sid: int, base: NonZeroU32, placed: Set<u8>, c0: u8)
    requires bwb(n, st, map, inv, bowner, done, sid, base@, placed), nfa_tree(n), 0 <= sid,
        forall|c: u8| nfa_edges(n, sid).contains_key(c) ==> placed.contains(c),
        nfa_edges(n, sid).contains_key(c0),
        ({ let x = map[sid] as int;
           &&& 0 <= sid < map.len() && 0 <= x < st.len()
           &&& st2.len() == st.len() && st2[x].base == Some(base) && st_check(st2[x]) == st_check(st[x])
           &&& forall|z: int| 0 <= z < st.len() && z != x ==> (#[trigger] st2[z]).base == st[z].base && st_check(st2[z]) == st_check(st[z]) }),
    ensures bwb(n, st2, map, inv, bowner.insert(base@ as int, sid), done.insert(sid), -1, 0, Set::empty()),
{
    let len = n.states@.len(); let x = map[sid] as int;
    let b0 = base@ as int;
    let bowner2 = bowner.insert(b0, sid); let done2 = done.insert(sid);
    assert(0 <= sid < len && sid != 1 && map[sid] != 1 && !done.contains(sid) && 0 < b0 < st.len() && !bowner.contains_key(b0)) by { reveal(p_cur); }
    assert(map.len() == len) by { reveal(p_map); }
    // finished states other than sid do not sit at x
    assert forall|s: int| #[trigger] done.contains(s) implies 0 <= s < len && s != 1 && s != sid && map[s] != 1 && map[s] != x by {
        reveal(p_par);
        if map[s] == x { lemma_pmap_inj(n, st, map, inv, s, sid); }
    }
    assert(p_map(n, st2, map, inv)) by { reveal(p_map); }
    assert(p_chk(n, st2, inv)) by {
        reveal(p_chk); reveal(p_map);
        assert forall|z: int| #[trigger] inv.contains_key(z) implies st_check(st2[z]) == nfa_parent(n, inv[z]).1 by { assert(st_check(st2[z]) == st_check(st[z])); }
    }
    assert(p_edge(n, st2, map, done2)) by {
        reveal(p_edge); reveal(p_cur);
        assert forall|s: int, c: u8| done2.contains(s) && #[trigger] nfa_edges(n, s).contains_key(c) implies
                st2[map[s] as int].base.is_some() && map[nfa_edges(n, s)[c] as int] == st2[map[s] as int].base.unwrap()@ ^ (c as u32) by {
            if s == sid { assert(placed.contains(c)); }
            else { assert(done.contains(s)); assert(map[s] != x); assert(st2[map[s] as int].base == st[map[s] as int].base) by { reveal(p_map); } }
        }
    }
    assert(p_own(n, st2, map, bowner2, done2)) by {
        reveal(p_own);
        assert forall|z: int| 0 <= z < st2.len() && (#[trigger] st2[z]).base.is_some() implies
                bowner2.contains_key(st2[z].base.unwrap()@ as int) && map[bowner2[st2[z].base.unwrap()@ as int]] == z by {
            if z != x { assert(st2[z].base == st[z].base); assert(st[z].base.unwrap()@ as int != b0); }
        }
        assert forall|b: int| #[trigger] bowner2.contains_key(b) implies
                0 < b < st2.len() && done2.contains(bowner2[b])
                && st2[map[bowner2[b]] as int].base.is_some() && st2[map[bowner2[b]] as int].base.unwrap()@ == b
                && exists|c: u8| nfa_edges(n, bowner2[b]).contains_key(c) by {
            if b != b0 {
                assert(bowner.contains_key(b));
                let s = bowner[b];
                assert(done.contains(s));
                assert(map[s] != x);
                assert(st2[map[s] as int].base == st[map[s] as int].base) by { reveal(p_map); }
            } else {
                assert(nfa_edges(n, sid).contains_key(c0));
            }
        }
    }
    assert(p_par(n, map, done2, -1)) by { reveal(p_par); }
    assert(p_cur(n, st2, map, bowner2, done2, -1, 0, Set::empty())) by { reveal(p_cur); }
}

// ---- pointwise accessors (cur = -1 form) ----
proof fn lemma_bwb_basic<V>(n: NfaBuilder<u8, V>, st: Seq<State>, map: Seq<u32>, inv: Map<int, int>, bowner: Map<int, int>, done: Set<int>, t: int)
    requires bwb(n, st, map, inv, bowner, done, -1, 0, Set::empty()), 0 <= t < n.states@.len(),
    ensures map.len() == n.states@.len(), map[0] == 0, map[1] == 1, map[t] < st.len(), !inv.contains_key(0), !inv.contains_key(1),
        t >= 2 && map[t] != 1 ==> inv.contains_key(map[t] as int) && inv[map[t] as int] == t,
{ reveal(p_map); }

proof fn lemma_bwb_slot<V>(n: NfaBuilder<u8, V>, st: Seq<State>, map: Seq<u32>, inv: Map<int, int>, bowner: Map<int, int>, done: Set<int>, y: int)
    requires bwb(n, st, map, inv, bowner, done, -1, 0, Set::empty()), inv.contains_key(y), nfa_tree(n),
    ensures 0 <= y < st.len(), 2 <= inv[y] < n.states@.len(), map[inv[y]] == y, st_check(st[y]) == nfa_parent(n, inv[y]).1,
        done.contains(nfa_parent(n, inv[y]).0),
{ reveal(p_map); reveal(p_chk); reveal(p_par); assert(map[inv[y]] != 1); assert(nfa_parent_ok(n, inv[y], nfa_parent(n, inv[y]))); }

proof fn lemma_bwb_done_edge<V>(n: NfaBuilder<u8, V>, st: Seq<State>, map: Seq<u32>, inv: Map<int, int>, bowner: Map<int, int>, done: Set<int>, s: int, c: u8)
    requires bwb(n, st, map, inv, bowner, done, -1, 0, Set::empty()), done.contains(s), nfa_edges(n, s).contains_key(c),
    ensures st[map[s] as int].base.is_some(), map[nfa_edges(n, s)[c] as int] == st[map[s] as int].base.unwrap()@ ^ (c as u32),
{ reveal(p_edge); }

proof fn lemma_bwb_base_owner<V>(n: NfaBuilder<u8, V>, st: Seq<State>, map: Seq<u32>, inv: Map<int, int>, bowner: Map<int, int>, done: Set<int>, y: int)
    requires bwb(n, st, map, inv, bowner, done, -1, 0, Set::empty()), 0 <= y < st.len(), st[y].base.is_some(),
    ensures bowner.contains_key(st[y].base.unwrap()@ as int), map[bowner[st[y].base.unwrap()@ as int]] == y,
{ reveal(p_own); }

proof fn lemma_bwb_bowner<V>(n: NfaBuilder<u8, V>, st: Seq<State>, map: Seq<u32>, inv: Map<int, int>, bowner: Map<int, int>, done: Set<int>, b: int)
    requires bwb(n, st, map, inv, bowner, done, -1, 0, Set::empty()), bowner.contains_key(b),
    ensures 0 < b < st.len(), done.contains(bowner[b]), 0 <= bowner[b] < n.states@.len(), bowner[b] != 1,
        st[map[bowner[b]] as int].base.is_some(), st[map[bowner[b]] as int].base.unwrap()@ == b,
        exists|c: u8| nfa_edges(n, bowner[b]).contains_key(c),
{ reveal(p_own); reveal(p_par); }

proof fn lemma_bwb_map_inj<V>(n: NfaBuilder<u8, V>, st: Seq<State>, map: Seq<u32>, inv: Map<int, int>, bowner: Map<int, int>, done: Set<int>, t1: int, t2: int)
    requires bwb(n, st, map, inv, bowner, done, -1, 0, Set::empty()), 0 <= t1 < n.states@.len(), 0 <= t2 < n.states@.len(), t1 != 1, t2 != 1,
        map[t1] != 1, map[t2] != 1, map[t1] == map[t2],
    ensures t1 == t2,
{
    lemma_pmap_inj(n, st, map, inv, t1, t2);
}

// counting: 256 BASE values of one block in use => every slot of the block is occupied
proof fn lemma_pigeon(lo: int, f: spec_fn(int) -> int, used: Set<int>)
    requires forall|u: int| lo <= u < lo + 256 ==> lo <= #[trigger] f(u) < lo + 256 && used.contains(f(u)),
        forall|u: int, v: int| lo <= u < lo + 256 && lo <= v < lo + 256 && #[trigger] f(u) == #[trigger] f(v) ==> u == v,
    ensures forall|x: int| lo <= x < lo + 256 ==> used.contains(x),
{
    let a = vstd::set_lib::set_int_range(lo, lo + 256);
    vstd::set_lib::lemma_int_range(lo, lo + 256);
    let b = a.map(f);
    vstd::set_lib::lemma_map_size(a, b, f);
    assert(b.subset_of(a)) by {
        assert forall|y: int| b.contains(y) implies a.contains(y) by {
            let u = choose|u: int| a.contains(u) && f(u) == y;
        }
    }
    vstd::set_lib::lemma_subset_equality(b, a);
    assert forall|x: int| lo <= x < lo + 256 implies used.contains(x) by {
        assert(a.contains(x));
        assert(b.contains(x));
        let u = choose|u: int| a.contains(u) && f(u) == x;
    }
}

// the slot of "the first child" of the state that owns BASE value u
spec fn first_child_slot<V>(n: NfaBuilder<u8, V>, bowner: Map<int, int>, u: int) -> int {
    let c = choose|c: u8| nfa_edges(n, bowner[u]).contains_key(c);
    ((u as u32) ^ (c as u32)) as int
}

// a block all of whose BASE values are in use has no free slot (and is not block 0)
proof fn lemma_full_block<V>(n: NfaBuilder<u8, V>, st: Seq<State>, map: Seq<u32>, inv: Map<int, int>, bowner: Map<int, int>, done: Set<int>, kb: int, x: int)
    requires bwb(n, st, map, inv, bowner, done, -1, 0, Set::empty()), nfa_tree(n), 0 <= kb, kb * 256 + 256 <= st.len(), st.len() <= u32::MAX,
        forall|t: int| 0 <= t < n.states@.len() && t != 1 ==> #[trigger] map[t] != 1,
        forall|u: int| in_block(u, kb) ==> bowner.contains_key(u), in_block(x, kb),
    ensures inv.contains_key(x), x >= 2,
{
    let lo = kb * 256;
    let f = |u: int| first_child_slot(n, bowner, u);
    assert forall|u: int| lo <= u < lo + 256 implies lo <= #[trigger] f(u) < lo + 256 && inv.dom().contains(f(u)) by {
        assert(in_block(u, kb));
        lemma_bwb_bowner(n, st, map, inv, bowner, done, u);
        let s = bowner[u];
        let c = choose|c: u8| nfa_edges(n, s).contains_key(c);
        lemma_bwb_done_edge(n, st, map, inv, bowner, done, s, c);
        let t = nfa_edges(n, s)[c] as int;
        lemma_bwb_basic(n, st, map, inv, bowner, done, t);
        assert(map[t] == (u as u32) ^ (c as u32));
        lemma_same_block(u as u32, c, lo, lo + 256);
        // the child is placed: it sits at base ^ c, which is not the dead slot unless ... it is recorded in inv
        lemma_bwb_child_placed(n, st, map, inv, bowner, done, s, c);
    }
    assert forall|u: int, v: int| lo <= u < lo + 256 && lo <= v < lo + 256 && #[trigger] f(u) == #[trigger] f(v) implies u == v by {
        assert(in_block(u, kb) && in_block(v, kb));
        lemma_bwb_bowner(n, st, map, inv, bowner, done, u);
        lemma_bwb_bowner(n, st, map, inv, bowner, done, v);
        let su = bowner[u]; let sv = bowner[v];
        let cu = choose|c: u8| nfa_edges(n, su).contains_key(c);
        let cv = choose|c: u8| nfa_edges(n, sv).contains_key(c);
        lemma_bwb_done_edge(n, st, map, inv, bowner, done, su, cu);
        lemma_bwb_done_edge(n, st, map, inv, bowner, done, sv, cv);
        lemma_bwb_child_placed(n, st, map, inv, bowner, done, su, cu);
        lemma_bwb_child_placed(n, st, map, inv, bowner, done, sv, cv);
        let tu = nfa_edges(n, su)[cu] as int; let tv = nfa_edges(n, sv)[cv] as int;
        assert(map[tu] == map[tv]);
        lemma_bwb_map_inj(n, st, map, inv, bowner, done, tu, tv);
        assert(nfa_parent(n, nfa_edges(n, su)[cu] as int) == (su, cu));
        assert(nfa_parent(n, nfa_edges(n, sv)[cv] as int) == (sv, cv));
        assert(su == sv);
    }
    lemma_pigeon(lo, f, inv.dom());
    assert(inv.dom().contains(x));
    lemma_bwb_basic(n, st, map, inv, bowner, done, 0);
}

// the child reached by a finished state's edge is placed (its slot is recorded in inv)
proof fn lemma_bwb_child_placed<V>(n: NfaBuilder<u8, V>, st: Seq<State>, map: Seq<u32>, inv: Map<int, int>, bowner: Map<int, int>, done: Set<int>, s: int, c: u8)
    requires bwb(n, st, map, inv, bowner, done, -1, 0, Set::empty()), nfa_tree(n), done.contains(s), nfa_edges(n, s).contains_key(c),
        forall|t: int| 0 <= t < n.states@.len() && t != 1 ==> #[trigger] map[t] != 1,
    ensures ({ let t = nfa_edges(n, s)[c] as int; 2 <= t < n.states@.len() && map[t] != 1 && inv.contains_key(map[t] as int) && inv[map[t] as int] == t }),
{
    reveal(p_map); reveal(p_par);
}

proof fn lemma_bits_block(u: u32, b: u32, c: u8)
    ensures u >> 8 == u / 256, b >> 8 == b / 256,
        (u >> 8 == b >> 8 && ((u ^ (b ^ (c as u32))) as u8 == c)) ==> u == b,
{
    assert(u >> 8 == u / 256) by(bit_vector);
    assert(b >> 8 == b / 256) by(bit_vector);
    assert((u >> 8 == b >> 8 && ((u ^ (b ^ (c as u32))) as u8 == c)) ==> u == b) by(bit_vector);
}
proof fn lemma_xor_inj_base(b1: u32, b2: u32, c: u8)
    requires (b1 ^ (c as u32)) == (b2 ^ (c as u32)),
    ensures b1 == b2,
{
    assert((b1 ^ (c as u32)) == (b2 ^ (c as u32)) ==> b1 == b2) by(bit_vector);
}

// no spurious edge out of the slot of state s
proof fn lemma_bwb_nospur<V>(n: NfaBuilder<u8, V>, st: Seq<State>, map: Seq<u32>, inv: Map<int, int>, bowner: Map<int, int>, done: Set<int>, s: int, c: u8)
    requires bwb(n, st, map, inv, bowner, done, -1, 0, Set::empty()), nfa_tree(n),
        forall|t: int| 0 <= t < n.states@.len() && t != 1 ==> #[trigger] map[t] != 1 && done.contains(t),
        st.len() % 256 == 0, st.len() <= u32::MAX,
        forall|kb: int| 0 <= kb && kb * 256 + 256 <= st.len() ==> #[trigger] sane_block(st, inv, bowner, kb),
        0 <= s < n.states@.len(), s != 1, bw_edge(st, map[s] as int, c),
    ensures nfa_edges(n, s).contains_key(c),
{
    lemma_bwb_basic(n, st, map, inv, bowner, done, s);
    let y = map[s] as int;
    let bb = st[y].base.unwrap()@;
    let b = bb as int;
    let x = (bb ^ (c as u32)) as int;
    lemma_bwb_base_owner(n, st, map, inv, bowner, done, y);
    lemma_bwb_bowner(n, st, map, inv, bowner, done, b);
    lemma_bwb_map_inj(n, st, map, inv, bowner, done, bowner[b], s);
    let kb = b / 256;
    assert(kb * 256 + 256 <= st.len()) by {
        let q = st.len() as int / 256;
        assert(st.len() == q * 256);
        if kb >= q { assert(kb * 256 >= q * 256) by (nonlinear_arith) requires kb >= q; }
        assert((kb + 1) * 256 <= q * 256) by (nonlinear_arith) requires kb + 1 <= q;
    }
    lemma_same_block(bb, c, kb * 256, kb * 256 + 256);
    assert(in_block(x, kb) && in_block(b, kb));
    if inv.contains_key(x) {
        lemma_bwb_slot(n, st, map, inv, bowner, done, x);
        let t = inv[x];
        let p = nfa_parent(n, t);
        assert(nfa_parent_ok(n, t, p));
        assert(p.1 == c);
        lemma_bwb_done_edge(n, st, map, inv, bowner, done, p.0, c);
        lemma_bwb_basic(n, st, map, inv, bowner, done, p.0);
        let y2 = map[p.0] as int;
        lemma_xor_inj_base(st[y2].base.unwrap()@, bb, c);
        lemma_bwb_base_owner(n, st, map, inv, bowner, done, y2);
        lemma_bwb_map_inj(n, st, map, inv, bowner, done, p.0, s);
    } else {
        assert(sane_block(st, inv, bowner, kb));
        reveal(sane_block);
        if exists|u: u32| sane_wit(st, inv, bowner, kb, u) {
            let u = choose|u: u32| sane_wit(st, inv, bowner, kb, u);
            let xx = bb ^ (c as u32);
            assert(slot_free(inv, xx as int));
            assert(st_check(st[xx as int]) == (u ^ xx) as u8);
            lemma_bits_block(u, bb, c);
            assert(u as int / 256 == kb);
            assert(u == bb);
            assert(false);
        } else {
            lemma_full_block(n, st, map, inv, bowner, done, kb, x);
            assert(false);
        }
    }
}

proof fn lemma_bwb_final<V>(n: NfaBuilder<u8, V>, st: Seq<State>, map: Seq<u32>, inv: Map<int, int>, bowner: Map<int, int>, done: Set<int>)
    requires bwb(n, st, map, inv, bowner, done, -1, 0, Set::empty()), nfa_tree(n),
        forall|t: int| 0 <= t < n.states@.len() && t != 1 ==> #[trigger] map[t] != 1 && done.contains(t),
        st.len() % 256 == 0, st.len() <= u32::MAX,
        forall|kb: int| 0 <= kb && kb * 256 + 256 <= st.len() ==> #[trigger] sane_block(st, inv, bowner, kb),
        forall|s: int| 0 <= s < n.states@.len() && s != 1 ==> (#[trigger] st[map[s] as int]).fail == (if n.states@[s].fail == 1 { 1u32 } else { map[n.states@[s].fail as int] })
            && st_opos(st[map[s] as int]) == opt_u32(n.states@[s].output_pos),
    ensures bw_encodes(st, n, map),
{
    let len = n.states@.len();
    lemma_bwb_basic(n, st, map, inv, bowner, done, 0);
    assert forall|t: int| 0 <= t < len && t != 1 implies (#[trigger] map[t]) < st.len() && map[t] != 1 by {
        lemma_bwb_basic(n, st, map, inv, bowner, done, t);
    }
    assert forall|t1: int, t2: int| 0 <= t1 < len && 0 <= t2 < len && t1 != 1 && t2 != 1 && #[trigger] map[t1] == #[trigger] map[t2] implies t1 == t2 by {
        lemma_bwb_map_inj(n, st, map, inv, bowner, done, t1, t2);
    }
    assert forall|s: int, c: u8| 0 <= s < len && s != 1 && #[trigger] nfa_edges(n, s).contains_key(c) implies
            bw_edge(st, map[s] as int, c) && map[nfa_edges(n, s)[c] as int] == st[map[s] as int].base.unwrap()@ ^ (c as u32) by {
        let t = nfa_edges(n, s)[c] as int;
        lemma_bwb_done_edge(n, st, map, inv, bowner, done, s, c);
        lemma_bwb_child_placed(n, st, map, inv, bowner, done, s, c);
        assert(nfa_parent(n, nfa_edges(n, s)[c] as int) == (s, c));
        lemma_bwb_slot(n, st, map, inv, bowner, done, map[t] as int);
    }
    assert forall|s: int, c: u8| 0 <= s < len && s != 1 && #[trigger] bw_edge(st, map[s] as int, c) implies nfa_edges(n, s).contains_key(c) by {
        lemma_bwb_nospur(n, st, map, inv, bowner, done, s, c);
    }
    reveal(bw_encodes);
}

// ---- bookkeeping lemmas used by the exec proof of build_double_array ----
spec fn closed_sane(st: Seq<State>, inv: Map<int, int>, bowner: Map<int, int>, lo: int) -> bool {
    forall|kb: int| 0 <= kb && kb * 256 + 256 <= lo ==> #[trigger] sane_block(st, inv, bowner, kb)
}

// nothing below `lo` changed
proof fn lemma_closed_frame(st: Seq<State>, st2: Seq<State>, inv: Map<int, int>, inv2: Map<int, int>, bowner: Map<int, int>, bowner2: Map<int, int>, lo: int)
    requires closed_sane(st, inv, bowner, lo),
        forall|x: int| 0 <= x < lo ==> st_check(#[trigger] st2[x]) == st_check(st[x]),
        forall|x: int| 0 <= x < lo && inv.contains_key(x) ==> #[trigger] inv2.contains_key(x),
        forall|x: int| 0 <= x < lo ==> (#[trigger] bowner2.contains_key(x) <==> bowner.contains_key(x)),
    ensures closed_sane(st2, inv2, bowner2, lo),
{
    assert forall|kb: int| 0 <= kb && kb * 256 + 256 <= lo implies #[trigger] sane_block(st2, inv2, bowner2, kb) by {
        assert(sane_block(st, inv, bowner, kb));
        lemma_sane_frame(st, st2, inv, inv2, bowner, bowner2, kb);
    }
}

proof fn lemma_glue_index(h: BuildHelper, h2: BuildHelper, inv: Map<int, int>, bowner: Map<int, int>, y: int, child: int)
    requires glue(h, inv, bowner), h_same_params(h, h2),
        forall|j: int| h_active(h, j) ==> h_used_base(h2, j) == h_used_base(h, j) && h_used_index(h2, j) == (h_used_index(h, j) || j == y),
    ensures glue(h2, inv.insert(y, child), bowner),
{
    let inv2 = inv.insert(y, child);
    assert forall|j: int| #![trigger h_used_index(h2, j)] #![trigger inv2.contains_key(j)]
            h_active(h2, j) implies (h_used_index(h2, j) <==> (j == 0 || j == 1 || inv2.contains_key(j))) by {
        assert(h_active(h, j));
        assert(h_used_index(h, j) <==> (j == 0 || j == 1 || inv.contains_key(j)));
    }
    assert forall|j: int| #![trigger h_used_base(h2, j)] #![trigger bowner.contains_key(j)]
            h_active(h2, j) implies (h_used_base(h2, j) <==> bowner.contains_key(j)) by {
        assert(h_active(h, j));
        assert(h_used_base(h, j) <==> bowner.contains_key(j));
    }
}

proof fn lemma_glue_base(h: BuildHelper, h2: BuildHelper, inv: Map<int, int>, bowner: Map<int, int>, b: int, s: int)
    requires glue(h, inv, bowner), h_same_params(h, h2),
        forall|j: int| h_active(h, j) ==> h_used_index(h2, j) == h_used_index(h, j) && h_used_base(h2, j) == (h_used_base(h, j) || j == b),
    ensures glue(h2, inv, bowner.insert(b, s)),
{
    let bowner2 = bowner.insert(b, s);
    assert forall|j: int| #![trigger h_used_index(h2, j)] #![trigger inv.contains_key(j)]
            h_active(h2, j) implies (h_used_index(h2, j) <==> (j == 0 || j == 1 || inv.contains_key(j))) by {
        assert(h_active(h, j));
        assert(h_used_index(h, j) <==> (j == 0 || j == 1 || inv.contains_key(j)));
    }
    assert forall|j: int| #![trigger h_used_base(h2, j)] #![trigger bowner2.contains_key(j)]
            h_active(h2, j) implies (h_used_base(h2, j) <==> bowner2.contains_key(j)) by {
        assert(h_active(h, j));
        assert(h_used_base(h, j) <==> bowner.contains_key(j));
    }
}

// extend_array: the window moved up by at most one block, a fresh block was appended
proof fn lemma_glue_extend(h: BuildHelper, h2: BuildHelper, inv: Map<int, int>, bowner: Map<int, int>)
    requires glue(h, inv, bowner), h_lo(h) <= h_lo(h2) <= h_hi(h), h_hi(h) >= 256,
        forall|j: int| h_lo(h2) <= j < h_hi(h) ==> h_used_index(h2, j) == h_used_index(h, j) && h_used_base(h2, j) == h_used_base(h, j),
        forall|j: int| h_hi(h) <= j < h_hi(h2) ==> !h_used_index(h2, j) && !h_used_base(h2, j),
        forall|y: int| #[trigger] inv.contains_key(y) ==> y < h_hi(h),
        forall|b: int| #[trigger] bowner.contains_key(b) ==> b < h_hi(h),
    ensures glue(h2, inv, bowner),
{
    assert forall|j: int| #![trigger h_used_index(h2, j)] #![trigger inv.contains_key(j)]
            h_active(h2, j) implies (h_used_index(h2, j) <==> (j == 0 || j == 1 || inv.contains_key(j))) by {
        if j < h_hi(h) { assert(h_active(h, j)); assert(h_used_index(h, j) <==> (j == 0 || j == 1 || inv.contains_key(j))); }
    }
    assert forall|j: int| #![trigger h_used_base(h2, j)] #![trigger bowner.contains_key(j)]
            h_active(h2, j) implies (h_used_base(h2, j) <==> bowner.contains_key(j)) by {
        if j < h_hi(h) { assert(h_active(h, j)); assert(h_used_base(h, j) <==> bowner.contains_key(j)); }
    }
}

// extend_array, whole step on the ghost side: the encoding survives, and the block that left the window is sane
proof fn lemma_bwb_after_extend<V>(n: NfaBuilder<u8, V>, st: Seq<State>, st2: Seq<State>, map: Seq<u32>, inv: Map<int, int>, bowner: Map<int, int>, done: Set<int>,
                                   h: BuildHelper, h2: BuildHelper)
    requires bwb(n, st, map, inv, bowner, done, -1, 0, Set::empty()), glue(h, inv, bowner), closed_sane(st, inv, bowner, h_lo(h)),
        st.len() == h_hi(h), st2.len() == st.len() + 256, h_hi(h2) == h_hi(h) + 256, h_hi(h) >= 256, h_hi(h2) <= u32::MAX,
        0 <= h_lo(h), h_lo(h) % 256 == 0, h_lo(h) <= h_hi(h),
        h_lo(h2) == h_lo(h) || h_lo(h2) == h_lo(h) + 256, h_lo(h2) <= h_hi(h),
        forall|j: int| h_lo(h2) <= j < h_hi(h) ==> h_used_index(h2, j) == h_used_index(h, j) && h_used_base(h2, j) == h_used_base(h, j),
        forall|j: int| h_hi(h) <= j < h_hi(h2) ==> !h_used_index(h2, j) && !h_used_base(h2, j),
        forall|i: int| 0 <= i < st.len() ==> (#[trigger] st2[i]).base == st[i].base,
        forall|i: int| st.len() <= i < st2.len() ==> (#[trigger] st2[i]).base.is_none(),
        forall|x: int| 0 <= x < st.len() && !(h_lo(h2) > h_lo(h) && in_block(x, h_lo(h) / 256) && hfree(h, x)) ==> st_check(#[trigger] st2[x]) == st_check(st[x]),
        h_lo(h2) > h_lo(h) ==> hb_sane(st2, h, h_lo(h) / 256),
    ensures bwb(n, st2, map, inv, bowner, done, -1, 0, Set::empty()), glue(h2, inv, bowner), closed_sane(st2, inv, bowner, h_lo(h2)),
{
    lemma_bwb_facts(n, st, map, inv, bowner, done, -1, 0, Set::empty());
    let q = h_lo(h) / 256;
    assert(h_lo(h) == q * 256);
    assert forall|y: int| 0 <= y < st.len() implies (#[trigger] st2[y]).base == st[y].base && (inv.contains_key(y) ==> st_check(st2[y]) == st_check(st[y])) by {
        if inv.contains_key(y) && in_block(y, q) { assert(h_active(h, y)); assert(h_used_index(h, y)); }
    }
    lemma_bwb_congr(n, st, st2, map, inv, bowner, done, -1, 0, Set::empty());
    lemma_glue_extend(h, h2, inv, bowner);
    assert forall|kb: int| 0 <= kb && kb * 256 + 256 <= h_lo(h2) implies #[trigger] sane_block(st2, inv, bowner, kb) by {
        if kb * 256 + 256 <= h_lo(h) {
            assert(sane_block(st, inv, bowner, kb));
            assert forall|x: u32| in_block(x as int, kb) implies st_check(#[trigger] st2[x as int]) == st_check(st[x as int]) by {
                assert(!in_block(x as int, q));
            }
            lemma_sane_frame(st, st2, inv, inv, bowner, bowner, kb);
        } else {
            assert(kb == q);
            lemma_hb_to_sane(st2, h, inv, bowner, kb);
        }
    }
}

// bit facts behind the sanitising loop: within one block, x is determined by the low byte of unused_base ^ x
proof fn lemma_sanitise_bits(ub: u32, x: u32, c: u8)
    ensures ub >> 8 == ub / 256, x >> 8 == x / 256,
        (ub >> 8 == x >> 8 && (ub ^ x) as u8 == c) ==> x == ub ^ (c as u32),
        ((ub ^ (ub ^ (c as u32))) as u8) == c,
{
    assert(ub >> 8 == ub / 256) by(bit_vector);
    assert(x >> 8 == x / 256) by(bit_vector);
    assert((ub >> 8 == x >> 8 && (ub ^ x) as u8 == c) ==> x == ub ^ (c as u32)) by(bit_vector);
    assert(((ub ^ (ub ^ (c as u32))) as u8) == c) by(bit_vector);
}

proof fn lemma_opos_zero(s: State)
    requires s.opos_ch.0 == 0,
    ensures st_opos(s) == 0, st_check(s) == 0,
{
    assert(0u32 >> 8 == 0u32) by(bit_vector);
    assert(0u32 & 0xff == 0u32) by(bit_vector);
}
