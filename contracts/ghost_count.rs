// ---- C15 as a number: the states below the root are in bijection with the distinct non-empty prefixes of the registered patterns ----
// q is a non-empty prefix of a pattern that can be reported (registered: all patterns, except those shadowed under leftmost-first)
spec fn is_pref<V>(n: NfaBuilder<u8, V>, q: Seq<u8>) -> bool {
    q.len() > 0 && exists|p: Seq<u8>, k: int| is_registered(n, p) && 0 < k <= p.len() && q == #[trigger] p.take(k)
}
// the (finite) set of the paths of the states below the root
spec fn node_set<V>(n: NfaBuilder<u8, V>) -> Set<Seq<u8>> {
    vstd::set_lib::set_int_range(2, n.states@.len() as int).map(|t: int| path(n, t))
}
// b is the set of those prefixes and has cnt elements
spec fn pref_count<V>(n: NfaBuilder<u8, V>, b: Set<Seq<u8>>, cnt: int) -> bool {
    (forall|q: Seq<u8>| #[trigger] b.contains(q) <==> is_pref(n, q)) && b.len() == cnt
}
proof fn lemma_node_count<V>(n: NfaBuilder<u8, V>)
    requires nfa_tree(n), trie_ok(n),
    ensures node_set(n).len() + 2 == n.states@.len(),
        forall|q: Seq<u8>| #[trigger] node_set(n).contains(q) <==> (q.len() > 0 && walk(n, q).is_some()),
{
    let len = n.states@.len() as int;
    let a = vstd::set_lib::set_int_range(2, len);
    vstd::set_lib::lemma_int_range(2, len);
    let f = |t: int| path(n, t);
    let b = a.map(f);
    assert forall|s: int, t: int| a.contains(s) && a.contains(t) && f(s) == f(t) implies s == t by {
        lemma_walk_path(n, s);
        lemma_walk_path(n, t);
    }
    vstd::set_lib::lemma_map_size(a, b, f);
    assert forall|q: Seq<u8>| #[trigger] b.contains(q) <==> (q.len() > 0 && walk(n, q).is_some()) by {
        if b.contains(q) {
            let t = choose|t: int| a.contains(t) && f(t) == q;
            lemma_walk_path(n, t);
            assert(nfa_depth(n, t) > 0) by { assert(nfa_parent_ok(n, t, nfa_parent(n, t))); }
        }
        if q.len() > 0 && walk(n, q).is_some() {
            lemma_path_of_walk(n, q);
            lemma_walk_range(n, q);
            let t = walk(n, q).unwrap();
            assert(a.contains(t) && f(t) == q);
        }
    }
}
proof fn lemma_pref_is_node<V>(n: NfaBuilder<u8, V>, q: Seq<u8>)
    requires trie_ok(n), reach_ok(n),
    ensures is_pref(n, q) <==> (q.len() > 0 && walk(n, q).is_some()),
{
    if is_pref(n, q) {
        let (p, k) = choose|p: Seq<u8>, k: int| is_registered(n, p) && 0 < k <= p.len() && q == #[trigger] p.take(k);
        lemma_prefix_has_state(n, p, k);
    }
    if q.len() > 0 && walk(n, q).is_some() {
        lemma_walk_range(n, q);
        let t = walk(n, q).unwrap();
        reveal(reach_ok);
        assert(has_reach(n, t));
        let (p, k) = choose|p: Seq<u8>, k: int| reach_wit(n, t, p, k);
        lemma_walk_inj(n, q, p.take(k));
        assert(q == p.take(k));
    }
}
// the count the automaton reports: one (the root) plus the number of those prefixes
proof fn lemma_state_count<V>(n: NfaBuilder<u8, V>)
    requires nfa_tree(n), trie_ok(n), reach_ok(n),
    ensures pref_count(n, node_set(n), n.states@.len() - 2),
{
    lemma_node_count(n);
    assert forall|q: Seq<u8>| #[trigger] node_set(n).contains(q) <==> is_pref(n, q) by { lemma_pref_is_node(n, q); }
}
