// ---- stage B of the char-wise construction (only the build units need this) ----


// the array `st` encodes the placed part of the NFA.
//   map: NFA id -> slot (1 = not placed), inv: slot -> NFA id (non-root states), owner: slot with a BASE -> NFA id,
//   done: states whose children are all placed, cur: the state whose children are being placed (-1: none),
//   with BASE `base` and sorted (code, child) list s1 of which the first k are placed.
#[verifier::opaque]
spec fn cwb<V>(n: NfaBuilder<char, V>, st: Seq<State>, tb: Seq<u32>, map: Seq<u32>, inv: Map<int, int>, owner: Map<int, int>,
               done: Set<int>, cur: int, base: u32, s1: Seq<(u32, u32)>, k: int) -> bool {
    let len = n.states@.len();
    // (A) the placement map
    &&& map.len() == len && map[0] == 0 && map[1] == 1
    &&& forall|t: int| 0 <= t < len ==> (#[trigger] map[t]) < st.len()
    // (B) inv is its inverse on the non-root states
    &&& !inv.contains_key(0) && !inv.contains_key(1)
    &&& forall|t: int| 2 <= t < len && #[trigger] map[t] != 1 ==> inv.contains_key(map[t] as int) && inv[map[t] as int] == t
    &&& forall|y: int| #[trigger] inv.contains_key(y) ==> 2 <= inv[y] < len && map[inv[y]] == y && 0 <= y < st.len()
    // (C) CHECK: the parent's slot for occupied slots, the dead index everywhere else
    &&& forall|y: int| 0 <= y < st.len() && !inv.contains_key(y) ==> (#[trigger] st[y]).check == 1
    &&& forall|y: int| #[trigger] inv.contains_key(y) ==> st[y].check == map[nfa_parent(n, inv[y]).0]
    // (D) BASE: finished states have theirs and their children sit at base ^ code; every BASE has an owner
    &&& forall|s: int, c: char| done.contains(s) && #[trigger] nfa_edges(n, s).contains_key(c) ==>
            st[map[s] as int].base.is_some() && map[nfa_edges(n, s)[c] as int] == st[map[s] as int].base.unwrap()@ ^ code_of(tb, c)
    &&& forall|y: int| 0 <= y < st.len() && (#[trigger] st[y]).base.is_some() ==>
            owner.contains_key(y) && done.contains(owner[y]) && 0 <= owner[y] < len && map[owner[y]] == y
    // (E) placed non-root states have a finished (or the current) parent; (F) finished states are placed
    &&& forall|t: int| 2 <= t < len && #[trigger] map[t] != 1 ==> done.contains(nfa_parent(n, t).0) || nfa_parent(n, t).0 == cur
    &&& forall|s: int| #[trigger] done.contains(s) ==> 0 <= s < len && s != 1 && map[s] != 1
    // (G) the state in progress
    &&& (cur >= 0 ==> {
            &&& 0 <= cur < len && cur != 1 && map[cur] != 1 && !done.contains(cur) && 0 <= k <= s1.len()
            &&& forall|j: int| 0 <= j < k ==> map[(#[trigger] s1[j]).1 as int] == base ^ s1[j].0
            &&& forall|j: int| k <= j < s1.len() ==> map[(#[trigger] s1[j]).1 as int] == 1
            &&& forall|t: int| 2 <= t < len && #[trigger] map[t] != 1 && nfa_parent(n, t).0 == cur ==> exists|j: int| 0 <= j < k && s1[j].1 == t
        })
}

spec fn map0(len: nat) -> Seq<u32> { Seq::new(len, |i: int| if i == 0 { 0u32 } else { 1u32 }) }

proof fn lemma_cwb_init<V>(n: NfaBuilder<char, V>, st: Seq<State>, tb: Seq<u32>, map: Seq<u32>)
    requires nfa_tree(n), st.len() >= 2, map.len() == n.states@.len(), map[0] == 0,
        forall|t: int| 1 <= t < map.len() ==> #[trigger] map[t] == 1,
        forall|y: int| 0 <= y < st.len() ==> (#[trigger] st[y]).check == 1 && st[y].base.is_none(),
    ensures cwb(n, st, tb, map, Map::empty(), Map::empty(), Set::empty(), -1, 0, Seq::empty(), 0),
{
    reveal(cwb);
}

proof fn lemma_cwb_facts<V>(n: NfaBuilder<char, V>, st: Seq<State>, tb: Seq<u32>, map: Seq<u32>, inv: Map<int, int>, owner: Map<int, int>,
                            done: Set<int>, cur: int, base: u32, s1: Seq<(u32, u32)>, k: int)
    requires cwb(n, st, tb, map, inv, owner, done, cur, base, s1, k),
    ensures map.len() == n.states@.len(), map[0] == 0, map[1] == 1,
        !inv.contains_key(0) && !inv.contains_key(1),
        forall|y: int| #[trigger] inv.contains_key(y) ==> 0 <= y < st.len(),
        forall|s: int| #[trigger] done.contains(s) ==> 0 <= s < map.len() && s != 1 && map[s] != 1,
{
    reveal(cwb);
}

// a leaf (no edges) is finished without touching the array
proof fn lemma_cwb_leaf<V>(n: NfaBuilder<char, V>, st: Seq<State>, tb: Seq<u32>, map: Seq<u32>, inv: Map<int, int>, owner: Map<int, int>,
                           done: Set<int>, sid: int)
    requires cwb(n, st, tb, map, inv, owner, done, -1, 0, Seq::empty(), 0), 0 <= sid < n.states@.len(), sid != 1, map[sid] != 1,
        forall|c: char| !nfa_edges(n, sid).contains_key(c),
    ensures cwb(n, st, tb, map, inv, owner, done.insert(sid), -1, 0, Seq::empty(), 0),
{
    reveal(cwb);
}

// a new block of default states is appended
proof fn lemma_cwb_extend<V>(n: NfaBuilder<char, V>, st: Seq<State>, st2: Seq<State>, tb: Seq<u32>, map: Seq<u32>, inv: Map<int, int>, owner: Map<int, int>,
                             done: Set<int>, cur: int, base: u32, s1: Seq<(u32, u32)>, k: int)
    requires cwb(n, st, tb, map, inv, owner, done, cur, base, s1, k), st2.len() >= st.len(),
        forall|y: int| 0 <= y < st.len() ==> #[trigger] st2[y] == st[y],
        forall|y: int| st.len() <= y < st2.len() ==> (#[trigger] st2[y]).check == 1 && st2[y].base.is_none(),
    ensures cwb(n, st2, tb, map, inv, owner, done, cur, base, s1, k),
{
    reveal(cwb);
    assert forall|y: int| 0 <= y < st2.len() && !inv.contains_key(y) implies (#[trigger] st2[y]).check == 1 by { if y < st.len() { assert(st2[y] == st[y]); } }
    assert forall|y: int| #[trigger] inv.contains_key(y) implies st2[y].check == map[nfa_parent(n, inv[y]).0] by { assert(st2[y] == st[y]); }
    assert forall|s: int, c: char| done.contains(s) && #[trigger] nfa_edges(n, s).contains_key(c) implies
            st2[map[s] as int].base.is_some() && map[nfa_edges(n, s)[c] as int] == st2[map[s] as int].base.unwrap()@ ^ code_of(tb, c) by {
        assert(st2[map[s] as int] == st[map[s] as int]);
    }
    assert forall|y: int| 0 <= y < st2.len() && (#[trigger] st2[y]).base.is_some() implies
            owner.contains_key(y) && done.contains(owner[y]) && 0 <= owner[y] < n.states@.len() && map[owner[y]] == y by {
        if y < st.len() { assert(st2[y] == st[y]); }
    }
}

// start placing the children of sid: none of them is placed yet
proof fn lemma_cwb_begin<V>(n: NfaBuilder<char, V>, st: Seq<State>, tb: Seq<u32>, map: Seq<u32>, inv: Map<int, int>, owner: Map<int, int>,
                            done: Set<int>, sid: int, base: u32, bl: u32, s1: Seq<(u32, u32)>)
    requires cwb(n, st, tb, map, inv, owner, done, -1, 0, Seq::empty(), 0), nfa_tree(n), 0 <= sid < n.states@.len(), sid != 1, map[sid] != 1, !done.contains(sid),
        mapped_ok(n, sid, tb, bl, s1),
    ensures cwb(n, st, tb, map, inv, owner, done, sid, base, s1, 0),
{
    reveal(cwb);
    assert forall|j: int| 0 <= j < s1.len() implies map[(#[trigger] s1[j]).1 as int] == 1 by {
        let t = s1[j].1 as int;
        let label = choose|label: char| pair_of(n, sid, tb, label, s1[j]);
        assert(nfa_edges(n, sid).contains_key(label));
        assert(nfa_parent(n, t) == (sid, label));
        if map[t] != 1 { assert(done.contains(nfa_parent(n, t).0) || nfa_parent(n, t).0 == -1); }
    }
    assert forall|t: int| 2 <= t < n.states@.len() && #[trigger] map[t] != 1 && nfa_parent(n, t).0 == sid implies exists|j: int| 0 <= j < 0 && s1[j].1 == t by {
        assert(done.contains(nfa_parent(n, t).0) || nfa_parent(n, t).0 == -1);
    }
}

// what placing child k does to the array and the id map
spec fn cwb_step_rel(st: Seq<State>, st2: Seq<State>, map: Seq<u32>, map2: Seq<u32>, inv: Map<int, int>, sid: int, base: u32, s1: Seq<(u32, u32)>, k: int) -> bool {
    let y = (base ^ s1[k].0) as int; let child = s1[k].1 as int;
    &&& 2 <= y < st.len() && !inv.contains_key(y)
    &&& st2.len() == st.len() && st2[y] == (State { check: map[sid], ..st[y] })
    &&& forall|z: int| 0 <= z < st.len() && z != y ==> #[trigger] st2[z] == st[z]
    &&& map2 == map.update(child, y as u32)
}
// one child placed: slot y = base ^ code gets CHECK = slot of sid, the child's id is recorded
#[verifier::spinoff_prover]
#[verifier::rlimit(100)]
proof fn lemma_cwb_step<V>(n: NfaBuilder<char, V>, st: Seq<State>, st2: Seq<State>, tb: Seq<u32>, map: Seq<u32>, map2: Seq<u32>, inv: Map<int, int>, owner: Map<int, int>,
                           done: Set<int>, sid: int, base: u32, bl: u32, s1: Seq<(u32, u32)>, k: int)
    requires cwb(n, st, tb, map, inv, owner, done, sid, base, s1, k), nfa_tree(n), mapped_ok(n, sid, tb, bl, s1), 0 <= k < s1.len(), 0 <= sid,
        cwb_step_rel(st, st2, map, map2, inv, sid, base, s1, k),
    ensures cwb(n, st2, tb, map2, inv.insert((base ^ s1[k].0) as int, s1[k].1 as int), owner, done, sid, base, s1, k + 1),
{
    let len = n.states@.len();
    let y = (base ^ s1[k].0) as int; let child = s1[k].1 as int;
    let inv2 = inv.insert(y, child);
    assert(pair_ok(n, sid, tb, s1[k]));
    let label = choose|label: char| pair_of(n, sid, tb, label, s1[k]);
    assert(nfa_edges(n, sid).contains_key(label) && nfa_edges(n, sid)[label] == child);
    assert(0 <= sid < len) by { reveal(cwb); }
    assert(nfa_parent(n, nfa_edges(n, sid)[label] as int) == (sid, label));
    assert(nfa_parent(n, child) == (sid, label));
    reveal(cwb);
    assert(map[child] == 1);
    assert(2 <= child < len);
    // no placed state sits at y
    assert forall|t: int| 0 <= t < len && t != child implies #[trigger] map2[t] == map[t] && map[t] != y by {
        if map[t] == y { if t >= 2 { assert(inv.contains_key(map[t] as int)); } }
    }
    assert forall|t: int| 0 <= t < len implies (#[trigger] map2[t]) < st2.len() by { if t != child { assert(map2[t] == map[t]); } }
    assert forall|t: int| 2 <= t < len && #[trigger] map2[t] != 1 implies inv2.contains_key(map2[t] as int) && inv2[map2[t] as int] == t by {
        if t != child { assert(map2[t] == map[t]); assert(inv.contains_key(map[t] as int)); }
    }
    assert forall|z: int| #[trigger] inv2.contains_key(z) implies 2 <= inv2[z] < len && map2[inv2[z]] == z && 0 <= z < st2.len() by {
        if z != y { assert(inv.contains_key(z)); assert(inv[z] != child) by { if inv[z] == child { assert(map[inv[z]] == z); } } }
    }
    assert forall|z: int| 0 <= z < st2.len() && !inv2.contains_key(z) implies (#[trigger] st2[z]).check == 1 by { assert(z != y); assert(st2[z] == st[z]); }
    assert forall|z: int| #[trigger] inv2.contains_key(z) implies st2[z].check == map2[nfa_parent(n, inv2[z]).0] by {
        if z == y { assert(map2[sid] == map[sid]) by { assert(sid != child); } }
        else {
            assert(inv.contains_key(z)); assert(st2[z] == st[z]);
            let p = nfa_parent(n, inv[z]).0;
            assert(nfa_parent_ok(n, inv[z], nfa_parent(n, inv[z])));
            assert(p != child) by { if p == child { assert(map[inv[z]] != 1); assert(done.contains(p) || p == sid); } }
        }
    }
    assert forall|s: int, c: char| done.contains(s) && #[trigger] nfa_edges(n, s).contains_key(c) implies
            st2[map2[s] as int].base.is_some() && map2[nfa_edges(n, s)[c] as int] == st2[map2[s] as int].base.unwrap()@ ^ code_of(tb, c) by {
        assert(s != child); assert(map2[s] == map[s]); assert(map[s] != y) by { if s >= 2 { assert(inv.contains_key(map[s] as int)); } }
        assert(st2[map[s] as int] == st[map[s] as int]);
        let t = nfa_edges(n, s)[c] as int;
        assert(t != child) by { if t == child { assert(nfa_parent(n, child) == (s, c)); } }
    }
    assert forall|z: int| 0 <= z < st2.len() && (#[trigger] st2[z]).base.is_some() implies
            owner.contains_key(z) && done.contains(owner[z]) && 0 <= owner[z] < len && map2[owner[z]] == z by {
        assert(st[z].base == st2[z].base);
        assert(owner[z] != child);
    }
    assert forall|t: int| 2 <= t < len && #[trigger] map2[t] != 1 implies done.contains(nfa_parent(n, t).0) || nfa_parent(n, t).0 == sid by {
        if t != child { assert(map2[t] == map[t]); }
    }
    assert forall|s: int| #[trigger] done.contains(s) implies 0 <= s < len && s != 1 && map2[s] != 1 by { assert(s != child); }
    assert(map2[sid] == map[sid]);
    assert forall|j: int| 0 <= j < k + 1 implies map2[(#[trigger] s1[j]).1 as int] == base ^ s1[j].0 by {
        if j < k { assert(s1[j].1 != s1[k].1) by { if s1[j].1 == s1[k].1 { let lj = choose|l: char| pair_of(n, sid, tb, l, s1[j]); assert(nfa_parent(n, child) == (sid, lj)); assert(lj == label); } } }
    }
    assert forall|j: int| k + 1 <= j < s1.len() implies map2[(#[trigger] s1[j]).1 as int] == 1 by {
        assert(s1[j].1 != s1[k].1) by { if s1[j].1 == s1[k].1 { let lj = choose|l: char| pair_of(n, sid, tb, l, s1[j]); assert(nfa_parent(n, child) == (sid, lj)); assert(lj == label); } }
    }
    assert forall|t: int| 2 <= t < len && #[trigger] map2[t] != 1 && nfa_parent(n, t).0 == sid implies exists|j: int| 0 <= j < k + 1 && s1[j].1 == t by {
        if t == child { assert(s1[k].1 == t); }
        else { assert(map2[t] == map[t]); let j = choose|j: int| 0 <= j < k && s1[j].1 == t; assert(0 <= j < k + 1 && s1[j].1 == t); }
    }
}

// all children placed: the state receives its BASE and is finished
proof fn lemma_cwb_finish<V>(n: NfaBuilder<char, V>, st: Seq<State>, st2: Seq<State>, tb: Seq<u32>, map: Seq<u32>, inv: Map<int, int>, owner: Map<int, int>,
                             done: Set<int>, sid: int, base: NonZeroU32, bl: u32, s1: Seq<(u32, u32)>)
    requires cwb(n, st, tb, map, inv, owner, done, sid, base@, s1, s1.len() as int), nfa_tree(n), mapped_ok(n, sid, tb, bl, s1),
        ({ let x = map[sid] as int;
           &&& 0 <= sid < map.len() && 0 <= x < st.len()
           &&& st2.len() == st.len() && st2[x] == (State { base: Some(base), ..st[x] })
           &&& forall|z: int| 0 <= z < st.len() && z != x ==> #[trigger] st2[z] == st[z] }),
    ensures cwb(n, st2, tb, map, inv, owner.insert(map[sid] as int, sid), done.insert(sid), -1, 0, Seq::empty(), 0),
{
    reveal(cwb);
    let len = n.states@.len(); let x = map[sid] as int;
    let owner2 = owner.insert(x, sid); let done2 = done.insert(sid);
    assert forall|z: int| 0 <= z < st2.len() && !inv.contains_key(z) implies (#[trigger] st2[z]).check == 1 by { assert(st2[z].check == st[z].check); }
    assert forall|z: int| #[trigger] inv.contains_key(z) implies st2[z].check == map[nfa_parent(n, inv[z]).0] by { assert(st2[z].check == st[z].check); }
    assert forall|s: int, c: char| done2.contains(s) && #[trigger] nfa_edges(n, s).contains_key(c) implies
            st2[map[s] as int].base.is_some() && map[nfa_edges(n, s)[c] as int] == st2[map[s] as int].base.unwrap()@ ^ code_of(tb, c) by {
        if s == sid {
            let j = choose|j: int| 0 <= j < s1.len() && pair_of(n, sid, tb, c, #[trigger] s1[j]);
            assert(map[s1[j].1 as int] == base@ ^ s1[j].0);
        } else {
            // distinct placed states occupy distinct slots
            assert(map[s] != x) by {
                if map[s] == x {
                    if s >= 2 { assert(inv[map[s] as int] == s); if sid >= 2 { assert(inv[map[sid] as int] == sid); } else { assert(!inv.contains_key(0)); } }
                    else { assert(s == 0); if sid >= 2 { assert(inv.contains_key(map[sid] as int)); } }
                }
            }
            assert(st2[map[s] as int] == st[map[s] as int]);
        }
    }
    assert forall|z: int| 0 <= z < st2.len() && (#[trigger] st2[z]).base.is_some() implies
            owner2.contains_key(z) && done2.contains(owner2[z]) && 0 <= owner2[z] < len && map[owner2[z]] == z by {
        if z != x { assert(st2[z] == st[z]); }
    }
    assert forall|t: int| 2 <= t < len && #[trigger] map[t] != 1 implies done2.contains(nfa_parent(n, t).0) || nfa_parent(n, t).0 == -1 by { }
}

// pointwise accessors of the opaque cwb (cur = -1 form)
proof fn lemma_cwb_basic<V>(n: NfaBuilder<char, V>, st: Seq<State>, tb: Seq<u32>, map: Seq<u32>, inv: Map<int, int>, owner: Map<int, int>, done: Set<int>, t: int)
    requires cwb(n, st, tb, map, inv, owner, done, -1, 0, Seq::empty(), 0), 0 <= t < n.states@.len(),
    ensures map.len() == n.states@.len(), map[0] == 0, map[1] == 1, map[t] < st.len(), !inv.contains_key(0), !inv.contains_key(1),
        t >= 2 && map[t] != 1 ==> inv.contains_key(map[t] as int) && inv[map[t] as int] == t,
{ reveal(cwb); }

proof fn lemma_cwb_slot<V>(n: NfaBuilder<char, V>, st: Seq<State>, tb: Seq<u32>, map: Seq<u32>, inv: Map<int, int>, owner: Map<int, int>, done: Set<int>, y: int)
    requires cwb(n, st, tb, map, inv, owner, done, -1, 0, Seq::empty(), 0), 0 <= y < st.len(),
    ensures !inv.contains_key(y) ==> st[y].check == 1,
        inv.contains_key(y) ==> 2 <= inv[y] < n.states@.len() && map[inv[y]] == y && st[y].check == map[nfa_parent(n, inv[y]).0],
{ reveal(cwb); }

proof fn lemma_cwb_done_edge<V>(n: NfaBuilder<char, V>, st: Seq<State>, tb: Seq<u32>, map: Seq<u32>, inv: Map<int, int>, owner: Map<int, int>, done: Set<int>, s: int, c: char)
    requires cwb(n, st, tb, map, inv, owner, done, -1, 0, Seq::empty(), 0), done.contains(s), nfa_edges(n, s).contains_key(c),
    ensures st[map[s] as int].base.is_some(), map[nfa_edges(n, s)[c] as int] == st[map[s] as int].base.unwrap()@ ^ code_of(tb, c),
{ reveal(cwb); }

proof fn lemma_cwb_map_inj<V>(n: NfaBuilder<char, V>, st: Seq<State>, tb: Seq<u32>, map: Seq<u32>, inv: Map<int, int>, owner: Map<int, int>, done: Set<int>, t1: int, t2: int)
    requires cwb(n, st, tb, map, inv, owner, done, -1, 0, Seq::empty(), 0), 0 <= t1 < n.states@.len(), 0 <= t2 < n.states@.len(), t1 != 1, t2 != 1,
        map[t1] != 1, map[t2] != 1, map[t1] == map[t2],
    ensures t1 == t2,
{
    lemma_cwb_basic(n, st, tb, map, inv, owner, done, t1);
    lemma_cwb_basic(n, st, tb, map, inv, owner, done, t2);
}

proof fn lemma_cwb_final<V>(n: NfaBuilder<char, V>, st: Seq<State>, stf: Seq<State>, tb: Seq<u32>, map: Seq<u32>, inv: Map<int, int>, owner: Map<int, int>, done: Set<int>)
    requires cwb(n, st, tb, map, inv, owner, done, -1, 0, Seq::empty(), 0), nfa_tree(n),
        forall|t: int| 0 <= t < n.states@.len() && t != 1 ==> #[trigger] map[t] != 1 && done.contains(t),
        stf.len() == st.len(),
        forall|y: int| 0 <= y < st.len() ==> (#[trigger] stf[y]).base == st[y].base && stf[y].check == st[y].check,
        forall|s: int| 0 <= s < n.states@.len() && s != 1 ==> (#[trigger] stf[map[s] as int]).fail == (if n.states@[s].fail == 1 { 1u32 } else { map[n.states@[s].fail as int] })
            && stf[map[s] as int].output_pos == n.states@[s].output_pos,
    ensures cw_encodes(stf, tb, n, map),
{
    let len = n.states@.len();
    lemma_cwb_basic(n, st, tb, map, inv, owner, done, 0);
    assert forall|t: int| 0 <= t < len && t != 1 implies (#[trigger] map[t]) < stf.len() && map[t] != 1 by {
        lemma_cwb_basic(n, st, tb, map, inv, owner, done, t);
    }
    assert forall|t1: int, t2: int| 0 <= t1 < len && 0 <= t2 < len && t1 != 1 && t2 != 1 && #[trigger] map[t1] == #[trigger] map[t2] implies t1 == t2 by {
        lemma_cwb_map_inj(n, st, tb, map, inv, owner, done, t1, t2);
    }
    assert forall|s: int, c: char| 0 <= s < len && s != 1 && #[trigger] nfa_edges(n, s).contains_key(c) implies ({
            let x = map[nfa_edges(n, s)[c] as int];
            &&& stf[map[s] as int].base.is_some()
            &&& x == stf[map[s] as int].base.unwrap()@ ^ code_of(tb, c)
            &&& stf[x as int].check == map[s]
        }) by {
        let t = nfa_edges(n, s)[c] as int;
        lemma_cwb_done_edge(n, st, tb, map, inv, owner, done, s, c);
        lemma_cwb_basic(n, st, tb, map, inv, owner, done, s);
        lemma_cwb_basic(n, st, tb, map, inv, owner, done, t);
        assert(nfa_parent(n, t) == (s, c));
        lemma_cwb_slot(n, st, tb, map, inv, owner, done, map[t] as int);
    }
    assert forall|s: int, mc: u32| 0 <= s < len && s != 1 && stf[map[s] as int].base.is_some()
            && 0 <= #[trigger] (stf[map[s] as int].base.unwrap()@ ^ mc) < stf.len()
            && stf[(stf[map[s] as int].base.unwrap()@ ^ mc) as int].check == map[s] implies
            exists|c: char| nfa_edges(n, s).contains_key(c) && code_of(tb, c) == mc
                && map[nfa_edges(n, s)[c] as int] == (stf[map[s] as int].base.unwrap()@ ^ mc) by {
        lemma_cwb_basic(n, st, tb, map, inv, owner, done, s);
        let b = stf[map[s] as int].base.unwrap()@;
        let x = (b ^ mc) as int;
        lemma_cwb_slot(n, st, tb, map, inv, owner, done, x);
        assert(st[x].check == map[s] && map[s] != 1);
        assert(inv.contains_key(x));
        let t = inv[x];
        let p = nfa_parent(n, t);
        assert(nfa_parent_ok(n, t, p));
        lemma_cwb_basic(n, st, tb, map, inv, owner, done, p.0);
        lemma_cwb_map_inj(n, st, tb, map, inv, owner, done, p.0, s);
        let c = p.1;
        lemma_cwb_done_edge(n, st, tb, map, inv, owner, done, s, c);
        lemma_xor_inj_cw(b, mc, code_of(tb, c));
        assert(nfa_edges(n, s).contains_key(c) && code_of(tb, c) == mc && map[nfa_edges(n, s)[c] as int] == (b ^ mc));
    }
    reveal(cw_encodes);
}

