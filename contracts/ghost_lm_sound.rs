//@include ghost_lm_nfa.rs
// ---- leftmost kinds, soundness half of C03 / C04 / C06: every match of the NFA-level leftmost stream is a true occurrence of a
// registered pattern with its value, and the matches tile the text from left to right without overlap.  From the pass contract:
// fail_suffix (a fail link is dead or leads to a proper suffix) and opos_sound (the record behind an output position belongs to a
// registered suffix of the state's path).  What stays bounded is optimality (leftmost start, longest / earliest-registered). ----
//@include ghost_lm_sound_core.rs
// a candidate (output position, end) seen by a scan that started at pos: the record is that of a registered pattern occurring in hay[pos..end]
spec fn cand_ok<V>(n: NfaBuilder<u8, V>, hay: Seq<u8>, pos: nat, cand: (nat, nat)) -> bool {
    let o = cand.0; let e = cand.1;
    &&& pos < e <= hay.len() && 1 <= o <= n.outputs@.len()
    &&& exists|q: Seq<u8>| #[trigger] rec_of(n, q, n.outputs@[o - 1]) && q.len() <= e - pos && hay.subrange(e - q.len(), e as int) == q
}
// the candidate produced at position p + 1 by a state whose path is a suffix of hay[pos..p+1]
proof fn lemma_new_cand<V>(n: NfaBuilder<u8, V>, t: int, hay: Seq<u8>, pos: nat, p: nat)
    requires lmctx(n), 0 <= t < n.states@.len(), t != 1, pos <= p < hay.len(), is_suffix(path(n, t), hay.subrange(pos as int, p as int + 1)),
        opt_n(n.states@[t].output_pos) != 0,
    ensures cand_ok(n, hay, pos, (opt_n(n.states@[t].output_pos), (p + 1) as nat)),
{
    let o = opt_n(n.states@[t].output_pos);
    let w2 = hay.subrange(pos as int, p as int + 1);
    w_lm_opos(n, t);
    let q = choose|q: Seq<u8>| is_suffix(q, path(n, t)) && #[trigger] rec_of(n, q, n.outputs@[o - 1]);
    lemma_suffix_trans(q, path(n, t), w2);
    assert(w2.skip(w2.len() - q.len()) =~= hay.subrange(p + 1 - q.len(), p as int + 1));
    assert(hay.subrange(p + 1 - q.len(), p as int + 1) == q);
}
proof fn lemma_lm_scan_sound<V>(n: NfaBuilder<u8, V>, s: int, last: Option<(nat, nat)>, hay: Seq<u8>, pos: nat, p: nat)
    requires lmctx(n), 0 <= s < n.states@.len(), s != 1,
        pos <= p <= hay.len(), is_suffix(path(n, s), hay.subrange(pos as int, p as int)), last.is_some() ==> cand_ok(n, hay, pos, last.unwrap()),
    ensures nfa_lm_scan(n, s, last, hay, p).is_some() ==> cand_ok(n, hay, pos, nfa_lm_scan(n, s, last, hay, p).unwrap()),
    decreases hay.len() - p,
{
    if p < hay.len() {
        let c = hay[p as int];
        let w = hay.subrange(pos as int, p as int);
        let w2 = hay.subrange(pos as int, p as int + 1);
        assert(w.push(c) =~= w2);
        lemma_nd_lm_suffix(n, s, c, w);
        w_lm_unfold(n, s, c);
        let t = nfa_nd_lm(n, s, c);
        if t == 0 {
            if last.is_none() { lemma_lm_scan_sound(n, 0, None, hay, pos, p + 1); }
        } else {
            let o = opt_n(n.states@[t].output_pos);
            if o != 0 {
                lemma_new_cand(n, t, hay, pos, p);
                lemma_lm_scan_sound(n, t, Some((o, (p + 1) as nat)), hay, pos, p + 1);
            } else {
                lemma_lm_scan_sound(n, t, last, hay, pos, p + 1);
            }
        }
    }
}
// the reported matches tile the text: each is an occurrence of a registered pattern with its value, starting at or after the end of the previous one
spec fn lm_tiled<V>(n: NfaBuilder<u8, V>, hay: Seq<u8>, pos: nat, ms: Seq<Match<V>>) -> bool
    decreases ms.len()
{
    ms.len() == 0 || ({ let m = ms[0];
        &&& pos < m.end <= hay.len() && m.length <= m.end - pos
        &&& exists|q: Seq<u8>| #[trigger] is_registered(n, q) && q.len() == m.length && hay.subrange(m.end - m.length, m.end as int) == q
                && m.value == reg_out(n, q).unwrap().0
        &&& lm_tiled(n, hay, m.end as nat, ms.skip(1)) })
}
// recorded byte lengths are the pattern lengths (from the invariant of `add`)
spec fn lens_ok<V>(n: NfaBuilder<u8, V>) -> bool {
    forall|q: Seq<u8>| #[trigger] is_registered(n, q) ==> reg_out(n, q).unwrap().1@ == q.len()
}
// THEOREM (leftmost kinds, soundness): the NFA-level leftmost stream tiles the haystack with true occurrences
proof fn theorem_lm_sound<V>(n: NfaBuilder<u8, V>, hay: Seq<u8>, pos: nat)
    requires lmctx(n), lens_ok(n), pos <= hay.len() <= usize::MAX,
    ensures lm_tiled(n, hay, pos, nfa_lm_stream(n, hay, pos)),
    decreases hay.len() - pos,
{
    assert(path(n, 0).len() == 0);
    assert(is_suffix(path(n, 0), hay.subrange(pos as int, pos as int)));
    assert(n.states@.len() >= 2) by { reveal(lmctx); }
    lemma_lm_scan_sound(n, 0, None, hay, pos, pos);
    match nfa_lm_scan(n, 0, None, hay, pos) {
        None => { },
        Some(p) => {
            if p.1 <= pos || p.1 > hay.len() || p.0 == 0 || p.0 > n.outputs@.len() { } else {
                let m = mk_match(n.outputs@[p.0 - 1], p.1);
                let ms = nfa_lm_stream(n, hay, pos);
                assert(ms[0] == m);
                assert(ms.skip(1) =~= nfa_lm_stream(n, hay, p.1));
                theorem_lm_sound(n, hay, p.1);
                let q = choose|q: Seq<u8>| #[trigger] rec_of(n, q, n.outputs@[p.0 - 1]) && q.len() <= p.1 - pos && hay.subrange(p.1 - q.len(), p.1 as int) == q;
                assert(is_registered(n, q));
                assert(m.length == q.len());
                assert(m.end == p.1);
            }
        },
    }
}

// from what build_with_values promises about its trie (clause of its postcondition for the leftmost kinds) to the tiling
proof fn lemma_lens_from_add_inv<V>(n: NfaBuilder<u8, V>)
    requires add_inv(n),
    ensures lens_ok(n),
{
    assert forall|q: Seq<u8>| #[trigger] is_registered(n, q) implies reg_out(n, q).unwrap().1@ == q.len() by { lemma_blen_u8(q); }
}
proof fn lemma_blen_u8(p: Seq<u8>)
    ensures byte_len(p) == p.len(),
    decreases p.len(),
{
    if p.len() > 0 { lemma_blen_u8(p.drop_last()); }
}
proof fn theorem_lm_sound_post<V>(n: NfaBuilder<u8, V>, hay: Seq<u8>)
    requires nfa_tree(n), nfa_links(n, true), sound_facts(n), add_inv(n), hay.len() <= usize::MAX,
    ensures lm_tiled(n, hay, 0, nfa_lm_stream(n, hay, 0)),
{
    assert(lmctx(n)) by { reveal(lmctx); reveal(sound_facts); }
    lemma_lens_from_add_inv(n);
    theorem_lm_sound(n, hay, 0);
}
