// ---- char-wise leftmost search at the level of the sparse NFA: transition, candidate scan, stream ----
spec fn nfa_nd_lm<V>(n: NfaBuilder<char, V>, s: int, c: char) -> int
    decreases nfa_depth(n, s)
    when nfa_tree(n) && nfa_links(n, true) && 0 <= s < n.states@.len() && s != 1
{
    if nfa_edges(n, s).contains_key(c) { nfa_edges(n, s)[c] as int }
    else if s == 0 || n.states@[s].fail == 1 { 0 }
    else { nfa_nd_lm(n, n.states@[s].fail as int, c) }
}
proof fn lemma_nd_lm_range<V>(n: NfaBuilder<char, V>, s: int, c: char)
    requires nfa_tree(n), nfa_links(n, true), 0 <= s < n.states@.len(), s != 1,
    ensures 0 <= nfa_nd_lm(n, s, c) < n.states@.len(), nfa_nd_lm(n, s, c) != 1,
    decreases nfa_depth(n, s),
{
    if nfa_edges(n, s).contains_key(c) { }
    else if s == 0 || n.states@[s].fail == 1 { }
    else { lemma_nd_lm_range(n, n.states@[s].fail as int, c); }
}
proof fn lemma_nd_lm_no_edge<V>(n: NfaBuilder<char, V>, s: int, c: char)
    requires nfa_tree(n), nfa_links(n, true), 0 <= s < n.states@.len(), s != 1,
        forall|t: int| 0 <= t < n.states@.len() ==> !(#[trigger] nfa_edges(n, t)).contains_key(c),
    ensures nfa_nd_lm(n, s, c) == 0,
    decreases nfa_depth(n, s),
{
    if s != 0 && n.states@[s].fail != 1 { lemma_nd_lm_no_edge(n, n.states@[s].fail as int, c); }
}
// the leftmost scan over the sparse NFA, over the characters of the text (same shape as cwl_scan over the array)
spec fn nfa_cwl_scan<V>(n: NfaBuilder<char, V>, s: int, last: Option<(nat, nat)>, chars: Seq<char>, p: nat) -> Option<(nat, nat)>
    decreases chars.len()
{
    if chars.len() == 0 { last } else {
        let c = chars[0];
        let p2 = (p + c.len_utf8()) as nat;
        let t = nfa_nd_lm(n, s, c);
        if t == 0 { if last.is_some() { last } else { nfa_cwl_scan(n, 0, None, chars.skip(1), p2) } }
        else if opt_n(n.states@[t].output_pos) != 0 { nfa_cwl_scan(n, t, Some((opt_n(n.states@[t].output_pos), p2)), chars.skip(1), p2) }
        else { nfa_cwl_scan(n, t, last, chars.skip(1), p2) }
    }
}
spec fn nfa_cwl_stream<V>(n: NfaBuilder<char, V>, hs: &str, pos: nat) -> Seq<Match<V>>
    decreases str_blen(hs) - pos
{
    match nfa_cwl_scan(n, 0, None, tail_chars(hs, pos as int), pos) {
        None => Seq::empty(),
        Some(p) => if p.1 <= pos || p.1 > str_blen(hs) || p.0 == 0 || p.0 > n.outputs@.len() { Seq::empty() } else {
            seq![mk_match(n.outputs@[p.0 - 1], p.1)] + nfa_cwl_stream(n, hs, p.1)
        },
    }
}
