// ---- ghost vocabulary for BuildHelper (src/build_helper.rs) ----
// hi = one past the last element, lo = first element of the active blocks; the ring buffer `items`
// holds element i at i % cap.  The vacant list is characterised by its successor function, which is
// determined by the flags: next(i) is the least vacant index above i, or the least vacant index of
// all when i is the greatest (circular); head is the least vacant index.
spec fn h_cap(h: BuildHelper) -> int { h.items@.len() as int }
spec fn h_hi(h: BuildHelper) -> int { h.num_blocks as int * h.block_len as int }
spec fn h_lo(h: BuildHelper) -> int {
    (if h.num_blocks >= h.num_free_blocks { h.num_blocks - h.num_free_blocks } else { 0 }) * h.block_len as int
}
#[verifier::opaque]
spec fn h_it(h: BuildHelper, i: int) -> ListItem { h.items@[i % h_cap(h)] }

spec fn h_basic(h: BuildHelper) -> bool {
    &&& h.block_len > 0
    &&& h.num_free_blocks > 0
    &&& h_cap(h) == h.block_len as int * h.num_free_blocks as int
    &&& h_cap(h) <= u32::MAX
    &&& h_hi(h) <= u32::MAX
}

// list structure over the index range [lo, hi), stated over an abstract cell function so that the
// list lemmas are free of ring arithmetic
spec fn l_vac(f: spec_fn(int) -> ListItem, lo: int, hi: int, i: int) -> bool { lo <= i < hi && !f(i).used_index }
// same predicate under a second name, used in the *conclusions* of the link clause so that instantiating it does not
// create a new trigger term (l_vac(next(i)) would re-trigger the clause: next, next.next, ... a matching loop)
spec fn in_vac(f: spec_fn(int) -> ListItem, lo: int, hi: int, i: int) -> bool { lo <= i < hi && !f(i).used_index }

#[verifier::opaque]
spec fn list_ok(f: spec_fn(int) -> ListItem, head: Option<u32>, lo: int, hi: int) -> bool {
    // (a,b) head is the least vacant index
    &&& (match head {
            None => forall|j: int| !l_vac(f, lo, hi, j),
            Some(hd) => l_vac(f, lo, hi, hd as int) && forall|j: int| #[trigger] l_vac(f, lo, hi, j) ==> j >= hd,
        })
    // (c) next/prev are mutually inverse on the vacant indices
    &&& forall|i: int| #[trigger] l_vac(f, lo, hi, i) ==> {
            &&& in_vac(f, lo, hi, f(i).next as int)
            &&& f(f(i).next as int).prev == i
            &&& in_vac(f, lo, hi, f(i).prev as int)
            &&& f(f(i).prev as int).next == i
        }
    // (e) next(i) is the least vacant index above i, if there is one
    &&& forall|i: int, j: int| #[trigger] l_vac(f, lo, hi, i) && #[trigger] l_vac(f, lo, hi, j) && i < j ==> i < f(i).next <= j
    // (f) otherwise the list wraps around to the head
    &&& forall|i: int| #[trigger] l_vac(f, lo, hi, i) && f(i).next <= i ==> head == Some(f(i).next)
}

spec fn h_cells(h: BuildHelper) -> spec_fn(int) -> ListItem { |i: int| h_it(h, i) }
spec fn h_list(h: BuildHelper, lo: int, hi: int) -> bool { list_ok(h_cells(h), h.head_idx, lo, hi) }
spec fn h_vac(h: BuildHelper, lo: int, hi: int, i: int) -> bool { l_vac(h_cells(h), lo, hi, i) }

// cell j after use_index(idx) where p, n are idx's list neighbours
spec fn cell_after_remove(c: ListItem, j: int, idx: int, p: int, n: int) -> ListItem {
    ListItem {
        next: if j == p { n as u32 } else { c.next },
        prev: if j == n { p as u32 } else { c.prev },
        used_base: c.used_base,
        used_index: c.used_index || j == idx,
    }
}

proof fn lemma_neighbours(f: spec_fn(int) -> ListItem, head: Option<u32>, lo: int, hi: int, idx: int)
    requires list_ok(f, head, lo, hi), l_vac(f, lo, hi, idx),
    ensures l_vac(f, lo, hi, f(idx).next as int), l_vac(f, lo, hi, f(idx).prev as int), head.is_some(), head.unwrap() <= idx,
        f(idx).next <= idx ==> head == Some(f(idx).next),
{
    reveal(list_ok);
}

proof fn lemma_empty_window(f: spec_fn(int) -> ListItem, lo: int)
    ensures list_ok(f, None, lo, lo),
{
    reveal(list_ok);
}

proof fn lemma_head(f: spec_fn(int) -> ListItem, head: Option<u32>, lo: int, hi: int)
    requires list_ok(f, head, lo, hi),
    ensures
        head.is_some() ==> l_vac(f, lo, hi, head.unwrap() as int),
        forall|j: int| #[trigger] l_vac(f, lo, hi, j) ==> head.is_some() && j >= head.unwrap(),
{
    reveal(list_ok);
}

// pointwise accessors of the opaque list predicate (keep the quantifiers of list_ok out of client proofs)
proof fn lemma_links(f: spec_fn(int) -> ListItem, head: Option<u32>, lo: int, hi: int, i: int)
    requires list_ok(f, head, lo, hi), l_vac(f, lo, hi, i),
    ensures l_vac(f, lo, hi, f(i).next as int), f(f(i).next as int).prev == i, l_vac(f, lo, hi, f(i).prev as int), f(f(i).prev as int).next == i,
{ reveal(list_ok); }

proof fn lemma_order(f: spec_fn(int) -> ListItem, head: Option<u32>, lo: int, hi: int, i: int, j: int)
    requires list_ok(f, head, lo, hi), l_vac(f, lo, hi, i), l_vac(f, lo, hi, j), i < j,
    ensures i < f(i).next <= j,
{ reveal(list_ok); }

proof fn lemma_wrap(f: spec_fn(int) -> ListItem, head: Option<u32>, lo: int, hi: int, i: int)
    requires list_ok(f, head, lo, hi), l_vac(f, lo, hi, i), f(i).next <= i,
    ensures head == Some(f(i).next),
{ reveal(list_ok); }

proof fn lemma_list_intro(f: spec_fn(int) -> ListItem, head: Option<u32>, lo: int, hi: int)
    requires
        match head {
            None => forall|j: int| !l_vac(f, lo, hi, j),
            Some(hd) => l_vac(f, lo, hi, hd as int) && forall|j: int| #[trigger] l_vac(f, lo, hi, j) ==> j >= hd,
        },
        forall|i: int| #[trigger] l_vac(f, lo, hi, i) ==>
            in_vac(f, lo, hi, f(i).next as int) && f(f(i).next as int).prev == i && in_vac(f, lo, hi, f(i).prev as int) && f(f(i).prev as int).next == i,
        forall|i: int, j: int| #[trigger] l_vac(f, lo, hi, i) && #[trigger] l_vac(f, lo, hi, j) && i < j ==> i < f(i).next <= j,
        forall|i: int| #[trigger] l_vac(f, lo, hi, i) && f(i).next <= i ==> head == Some(f(i).next),
    ensures list_ok(f, head, lo, hi),
{ reveal(list_ok); }

proof fn lemma_remove(f0: spec_fn(int) -> ListItem, f3: spec_fn(int) -> ListItem, head0: Option<u32>, head3: Option<u32>,
                      lo: int, hi: int, idx: int, p: int, n: int)
    requires
        list_ok(f0, head0, lo, hi), l_vac(f0, lo, hi, idx), p == f0(idx).prev, n == f0(idx).next,
        forall|j: int| lo <= j < hi ==> #[trigger] f3(j) == cell_after_remove(f0(j), j, idx, p, n),
        head3 == (if head0 == Some(idx as u32) { if n != idx { Some(n as u32) } else { None } } else { head0 }),
        0 <= lo, hi <= u32::MAX,
    ensures
        list_ok(f3, head3, lo, hi),
        match head3 { None => true, Some(x) => head0.is_some() && x >= head0.unwrap() && (head0.unwrap() == idx ==> x > idx) },
{
    lemma_links(f0, head0, lo, hi, idx);
    lemma_head(f0, head0, lo, hi);
    assert(l_vac(f0, lo, hi, n) && l_vac(f0, lo, hi, p));
    assert forall|j: int| l_vac(f3, lo, hi, j) == (l_vac(f0, lo, hi, j) && j != idx) by { if lo <= j < hi { assert(f3(j) == cell_after_remove(f0(j), j, idx, p, n)); } }
    assert(head0.is_some());
    let h0 = head0.unwrap() as int;
    if p == idx {
        assert(n == idx);
        assert forall|j: int| !l_vac(f3, lo, hi, j) by {
            if l_vac(f0, lo, hi, j) && j != idx {
                if j > idx { lemma_order(f0, head0, lo, hi, idx, j); }
                else { lemma_wrap(f0, head0, lo, hi, idx); }
            }
        }
        lemma_list_intro(f3, head3, lo, hi);
    } else {
        assert(n != idx) by { if n == idx { lemma_links(f0, head0, lo, hi, n); } }
        lemma_links(f0, head0, lo, hi, p);
        lemma_links(f0, head0, lo, hi, n);
        // (c)
        assert forall|i: int| #[trigger] l_vac(f3, lo, hi, i) implies
            in_vac(f3, lo, hi, f3(i).next as int) && f3(f3(i).next as int).prev == i && in_vac(f3, lo, hi, f3(i).prev as int) && f3(f3(i).prev as int).next == i by {
            assert(l_vac(f0, lo, hi, i) && i != idx);
            lemma_links(f0, head0, lo, hi, i);
            assert(f3(i) == cell_after_remove(f0(i), i, idx, p, n));
            let n0 = f0(i).next as int; let p0 = f0(i).prev as int;
            let nn = f3(i).next as int; let pp = f3(i).prev as int;
            assert(f3(n0) == cell_after_remove(f0(n0), n0, idx, p, n));
            assert(f3(p0) == cell_after_remove(f0(p0), p0, idx, p, n));
            assert(f3(n) == cell_after_remove(f0(n), n, idx, p, n));
            assert(f3(p) == cell_after_remove(f0(p), p, idx, p, n));
            if i == p { assert(nn == n); } else { assert(n0 != idx) by { if n0 == idx { } } assert(nn == n0); assert(n0 != n) by { if n0 == n { } } }
            if i == n { assert(pp == p); } else { assert(p0 != idx) by { if p0 == idx { } } assert(pp == p0); assert(p0 != p) by { if p0 == p { } } }
        }
        // (e)
        assert forall|i: int, j: int| #[trigger] l_vac(f3, lo, hi, i) && #[trigger] l_vac(f3, lo, hi, j) && i < j implies i < f3(i).next <= j by {
            lemma_order(f0, head0, lo, hi, i, j);
            assert(f3(i) == cell_after_remove(f0(i), i, idx, p, n));
            if i == p { assert(f0(p).next == idx); lemma_order(f0, head0, lo, hi, idx, j); }
        }
        // (f) and the head
        if h0 == idx {
            assert forall|j: int| #[trigger] l_vac(f3, lo, hi, j) implies j >= n by { lemma_order(f0, head0, lo, hi, idx, j); }
            assert forall|i: int| #[trigger] l_vac(f3, lo, hi, i) && f3(i).next <= i implies head3 == Some(f3(i).next) by {
                assert(f3(i) == cell_after_remove(f0(i), i, idx, p, n));
                if i != p { lemma_wrap(f0, head0, lo, hi, i); lemma_links(f0, head0, lo, hi, i); }
            }
            if n <= idx { lemma_wrap(f0, head0, lo, hi, idx); }
        } else {
            assert(l_vac(f3, lo, hi, h0));
            assert forall|i: int| #[trigger] l_vac(f3, lo, hi, i) && f3(i).next <= i implies head3 == Some(f3(i).next) by {
                assert(f3(i) == cell_after_remove(f0(i), i, idx, p, n));
                if i == p {
                    if idx > p { lemma_wrap(f0, head0, lo, hi, idx); } else { lemma_wrap(f0, head0, lo, hi, p); }
                } else { lemma_wrap(f0, head0, lo, hi, i); }
            }
        }
        lemma_list_intro(f3, head3, lo, hi);
    }
}

proof fn lemma_congr(f: spec_fn(int) -> ListItem, g: spec_fn(int) -> ListItem, head: Option<u32>, lo: int, hi: int)
    requires list_ok(f, head, lo, hi), forall|j: int| lo <= j < hi ==> #[trigger] f(j) == g(j),
    ensures list_ok(g, head, lo, hi),
{
    reveal(list_ok);
    assert forall|j: int| l_vac(g, lo, hi, j) == l_vac(f, lo, hi, j) by { if lo <= j < hi { assert(f(j) == g(j)); } }
    assert forall|i: int| #[trigger] l_vac(g, lo, hi, i) implies
        in_vac(g, lo, hi, g(i).next as int) && g(g(i).next as int).prev == i && in_vac(g, lo, hi, g(i).prev as int) && g(g(i).prev as int).next == i by {
        assert(l_vac(f, lo, hi, i)); assert(f(i) == g(i));
        let n = f(i).next as int; let p = f(i).prev as int;
        assert(l_vac(f, lo, hi, n) && l_vac(f, lo, hi, p)); assert(f(n) == g(n)); assert(f(p) == g(p));
    }
    assert forall|i: int, j: int| #[trigger] l_vac(g, lo, hi, i) && #[trigger] l_vac(g, lo, hi, j) && i < j implies i < g(i).next <= j by {
        assert(l_vac(f, lo, hi, i) && l_vac(f, lo, hi, j)); assert(f(i) == g(i));
    }
    assert forall|i: int| #[trigger] l_vac(g, lo, hi, i) && g(i).next <= i implies head == Some(g(i).next) by {
        assert(l_vac(f, lo, hi, i)); assert(f(i) == g(i));
    }
}

// changing only used_base flags keeps the list
proof fn lemma_flag_congr(f: spec_fn(int) -> ListItem, g: spec_fn(int) -> ListItem, head: Option<u32>, lo: int, hi: int)
    requires list_ok(f, head, lo, hi),
        forall|j: int| lo <= j < hi ==> (#[trigger] g(j)).next == f(j).next && g(j).prev == f(j).prev && g(j).used_index == f(j).used_index,
    ensures list_ok(g, head, lo, hi),
{
    reveal(list_ok);
    assert forall|j: int| l_vac(g, lo, hi, j) == l_vac(f, lo, hi, j) by { if lo <= j < hi { assert(g(j).used_index == f(j).used_index); } }
    assert forall|i: int| #[trigger] l_vac(g, lo, hi, i) implies
        in_vac(g, lo, hi, g(i).next as int) && g(g(i).next as int).prev == i && in_vac(g, lo, hi, g(i).prev as int) && g(g(i).prev as int).next == i by {
        assert(l_vac(f, lo, hi, i)); assert(g(i).next == f(i).next && g(i).prev == f(i).prev);
        let n = f(i).next as int; let p = f(i).prev as int;
        assert(in_vac(f, lo, hi, n) && in_vac(f, lo, hi, p)); assert(g(n).prev == f(n).prev && g(n).used_index == f(n).used_index); assert(g(p).next == f(p).next && g(p).used_index == f(p).used_index);
    }
    assert forall|i: int, j: int| #[trigger] l_vac(g, lo, hi, i) && #[trigger] l_vac(g, lo, hi, j) && i < j implies i < g(i).next <= j by {
        assert(l_vac(f, lo, hi, i) && l_vac(f, lo, hi, j)); assert(g(i).next == f(i).next);
    }
    assert forall|i: int| #[trigger] l_vac(g, lo, hi, i) && g(i).next <= i implies head == Some(g(i).next) by {
        assert(l_vac(f, lo, hi, i)); assert(g(i).next == f(i).next);
    }
}

// dropping a vacancy-free prefix of the window
proof fn lemma_shrink(f: spec_fn(int) -> ListItem, head: Option<u32>, lo: int, lo2: int, hi: int)
    requires list_ok(f, head, lo, hi), lo <= lo2 <= hi, forall|j: int| lo <= j < lo2 ==> !l_vac(f, lo, hi, j),
    ensures list_ok(f, head, lo2, hi),
{
    reveal(list_ok);
    assert forall|j: int| l_vac(f, lo2, hi, j) == l_vac(f, lo, hi, j) by { }
    assert forall|i: int| #[trigger] l_vac(f, lo2, hi, i) implies
        in_vac(f, lo2, hi, f(i).next as int) && f(f(i).next as int).prev == i && in_vac(f, lo2, hi, f(i).prev as int) && f(f(i).prev as int).next == i by {
        assert(l_vac(f, lo, hi, i));
        assert(l_vac(f, lo, hi, f(i).next as int) == l_vac(f, lo2, hi, f(i).next as int));
        assert(l_vac(f, lo, hi, f(i).prev as int) == l_vac(f, lo2, hi, f(i).prev as int));
    }
    assert forall|i: int, j: int| #[trigger] l_vac(f, lo2, hi, i) && #[trigger] l_vac(f, lo2, hi, j) && i < j implies i < f(i).next <= j by {
        assert(l_vac(f, lo, hi, i) && l_vac(f, lo, hi, j));
    }
    assert forall|i: int| #[trigger] l_vac(f, lo2, hi, i) && f(i).next <= i implies head == Some(f(i).next) by { assert(l_vac(f, lo, hi, i)); }
    match head { None => { assert forall|j: int| !l_vac(f, lo2, hi, j) by { assert(!l_vac(f, lo, hi, j)); } }
                 Some(hd) => { assert(l_vac(f, lo, hi, hd as int)); assert forall|j: int| #[trigger] l_vac(f, lo2, hi, j) implies j >= hd by { assert(l_vac(f, lo, hi, j)); } } }
}

spec fn fresh_cell(j: int, lo: int, hi: int, first_prev: int, last_next: int) -> ListItem {
    ListItem { next: (if j == hi - 1 { last_next } else { j + 1 }) as u32, prev: (if j == lo { first_prev } else { j - 1 }) as u32,
               used_base: false, used_index: false }
}

// a fresh block [mid, hi) spliced behind the tail of a non-empty list over [lo, mid)
proof fn lemma_append_setup(f0: spec_fn(int) -> ListItem, f4: spec_fn(int) -> ListItem, h: int, lo: int, mid: int, hi: int)
    requires list_ok(f0, Some(h as u32), lo, mid), 0 <= lo <= mid < hi <= u32::MAX, 0 <= h <= u32::MAX,
        forall|j: int| lo <= j < mid ==> #[trigger] f4(j) == (ListItem {
            next: if j == f0(h).prev { mid as u32 } else { f0(j).next }, prev: if j == h { (hi - 1) as u32 } else { f0(j).prev },
            used_base: f0(j).used_base, used_index: f0(j).used_index }),
        forall|j: int| mid <= j < hi ==> #[trigger] f4(j) == fresh_cell(j, mid, hi, f0(h).prev as int, h),
    ensures
        l_vac(f0, lo, mid, h), l_vac(f0, lo, mid, f0(h).prev as int), f0(f0(h).prev as int).next == h,
        forall|j: int| #[trigger] l_vac(f0, lo, mid, j) ==> h <= j <= f0(h).prev,
        forall|j: int| #[trigger] l_vac(f4, lo, hi, j) == (l_vac(f0, lo, mid, j) || mid <= j < hi),
{
    reveal(list_ok);
    let t = f0(h).prev as int;
    assert(l_vac(f0, lo, mid, h));
    assert(l_vac(f0, lo, mid, t) && f0(t).next == h);
    assert forall|j: int| #[trigger] l_vac(f0, lo, mid, j) implies h <= j <= t by { if j > t { assert(t < f0(t).next <= j); } }
    assert forall|j: int| #[trigger] l_vac(f4, lo, hi, j) == (l_vac(f0, lo, mid, j) || mid <= j < hi) by {
        if lo <= j < mid { assert(f4(j).used_index == f0(j).used_index); } else if mid <= j < hi { assert(f4(j) == fresh_cell(j, mid, hi, t, h)); }
    }
}

proof fn lemma_append_links(f0: spec_fn(int) -> ListItem, f4: spec_fn(int) -> ListItem, h: int, lo: int, mid: int, hi: int)
    requires list_ok(f0, Some(h as u32), lo, mid), 0 <= lo <= mid < hi <= u32::MAX, 0 <= h <= u32::MAX,
        forall|j: int| lo <= j < mid ==> #[trigger] f4(j) == (ListItem {
            next: if j == f0(h).prev { mid as u32 } else { f0(j).next }, prev: if j == h { (hi - 1) as u32 } else { f0(j).prev },
            used_base: f0(j).used_base, used_index: f0(j).used_index }),
        forall|j: int| mid <= j < hi ==> #[trigger] f4(j) == fresh_cell(j, mid, hi, f0(h).prev as int, h),
    ensures forall|i: int| #[trigger] l_vac(f4, lo, hi, i) ==>
        in_vac(f4, lo, hi, f4(i).next as int) && f4(f4(i).next as int).prev == i && in_vac(f4, lo, hi, f4(i).prev as int) && f4(f4(i).prev as int).next == i,
{
    lemma_append_setup(f0, f4, h, lo, mid, hi);
    let t = f0(h).prev as int;
    assert(f4(mid) == fresh_cell(mid, mid, hi, t, h)); assert(f4(hi - 1) == fresh_cell(hi - 1, mid, hi, t, h));
    assert(f4(t).next == mid && f4(h).prev == hi - 1);
    assert forall|i: int| #[trigger] l_vac(f4, lo, hi, i) implies
        in_vac(f4, lo, hi, f4(i).next as int) && f4(f4(i).next as int).prev == i && in_vac(f4, lo, hi, f4(i).prev as int) && f4(f4(i).prev as int).next == i by {
        if i < mid {
            assert(l_vac(f0, lo, mid, i));
            let n0 = f0(i).next as int; let p0 = f0(i).prev as int;
            assert(l_vac(f0, lo, mid, n0) && l_vac(f0, lo, mid, p0) && f0(n0).prev == i && f0(p0).next == i) by { reveal(list_ok); }
            assert(lo <= n0 < mid && lo <= p0 < mid);
            if i != t { assert(n0 != h) by { if n0 == h { assert(f0(h).prev == i); } } assert(f4(i).next == n0); assert(f4(n0).prev == f0(n0).prev); }
            if i != h { assert(p0 != t) by { if p0 == t { assert(f0(t).next == i); } } assert(f4(i).prev == p0); assert(f4(p0).next == f0(p0).next); }
        } else {
            assert(f4(i) == fresh_cell(i, mid, hi, t, h));
            if i + 1 < hi { assert(f4(i + 1) == fresh_cell(i + 1, mid, hi, t, h)); }
            if i > mid { assert(f4(i - 1) == fresh_cell(i - 1, mid, hi, t, h)); }
        }
    }
}

proof fn lemma_append_order(f0: spec_fn(int) -> ListItem, f4: spec_fn(int) -> ListItem, h: int, lo: int, mid: int, hi: int)
    requires list_ok(f0, Some(h as u32), lo, mid), 0 <= lo <= mid < hi <= u32::MAX, 0 <= h <= u32::MAX,
        forall|j: int| lo <= j < mid ==> #[trigger] f4(j) == (ListItem {
            next: if j == f0(h).prev { mid as u32 } else { f0(j).next }, prev: if j == h { (hi - 1) as u32 } else { f0(j).prev },
            used_base: f0(j).used_base, used_index: f0(j).used_index }),
        forall|j: int| mid <= j < hi ==> #[trigger] f4(j) == fresh_cell(j, mid, hi, f0(h).prev as int, h),
    ensures
        forall|i: int, j: int| #[trigger] l_vac(f4, lo, hi, i) && #[trigger] l_vac(f4, lo, hi, j) && i < j ==> i < f4(i).next <= j,
        forall|i: int| #[trigger] l_vac(f4, lo, hi, i) && f4(i).next <= i ==> Some(h as u32) == Some(f4(i).next),
        l_vac(f4, lo, hi, h), forall|j: int| #[trigger] l_vac(f4, lo, hi, j) ==> j >= h,
{
    lemma_append_setup(f0, f4, h, lo, mid, hi);
    let t = f0(h).prev as int;
    assert forall|i: int, j: int| #[trigger] l_vac(f4, lo, hi, i) && #[trigger] l_vac(f4, lo, hi, j) && i < j implies i < f4(i).next <= j by {
        if i < mid {
            assert(l_vac(f0, lo, mid, i));
            if i == t { if j < mid { assert(l_vac(f0, lo, mid, j)); } }
            else { assert(i < t); assert(i < f0(i).next <= t) by { reveal(list_ok); } if j < mid { assert(l_vac(f0, lo, mid, j)); assert(i < f0(i).next <= j) by { reveal(list_ok); } } }
        } else { assert(f4(i) == fresh_cell(i, mid, hi, t, h)); }
    }
    assert forall|i: int| #[trigger] l_vac(f4, lo, hi, i) && f4(i).next <= i implies Some(h as u32) == Some(f4(i).next) by {
        if i < mid { assert(l_vac(f0, lo, mid, i)); if i != t { assert(Some(h as u32) == Some(f0(i).next)) by { reveal(list_ok); } } }
        else { assert(f4(i) == fresh_cell(i, mid, hi, t, h)); }
    }
    assert forall|j: int| #[trigger] l_vac(f4, lo, hi, j) implies j >= h by { if j < mid { assert(l_vac(f0, lo, mid, j)); } }
}

proof fn lemma_append(f0: spec_fn(int) -> ListItem, f4: spec_fn(int) -> ListItem, h: int, lo: int, mid: int, hi: int)
    requires list_ok(f0, Some(h as u32), lo, mid), 0 <= lo <= mid < hi <= u32::MAX, 0 <= h <= u32::MAX,
        forall|j: int| lo <= j < mid ==> #[trigger] f4(j) == (ListItem {
            next: if j == f0(h).prev { mid as u32 } else { f0(j).next }, prev: if j == h { (hi - 1) as u32 } else { f0(j).prev },
            used_base: f0(j).used_base, used_index: f0(j).used_index }),
        forall|j: int| mid <= j < hi ==> #[trigger] f4(j) == fresh_cell(j, mid, hi, f0(h).prev as int, h),
    ensures list_ok(f4, Some(h as u32), lo, hi),
{
    lemma_append_links(f0, f4, h, lo, mid, hi);
    lemma_append_order(f0, f4, h, lo, mid, hi);
    reveal(list_ok);
}

// a fresh block [mid, hi) when the old window [lo, mid) has no vacancy
proof fn lemma_fresh(f4: spec_fn(int) -> ListItem, lo: int, mid: int, hi: int)
    requires 0 <= lo <= mid < hi <= u32::MAX,
        forall|j: int| lo <= j < mid ==> #[trigger] f4(j).used_index,
        forall|j: int| mid <= j < hi ==> #[trigger] f4(j) == fresh_cell(j, mid, hi, hi - 1, mid),
    ensures list_ok(f4, Some(mid as u32), lo, hi),
{
    reveal(list_ok);
    assert forall|j: int| l_vac(f4, lo, hi, j) == (mid <= j < hi) by {
        if lo <= j < mid { assert(f4(j).used_index); } else if mid <= j < hi { assert(f4(j) == fresh_cell(j, mid, hi, hi - 1, mid)); }
    }
    assert forall|i: int| #[trigger] l_vac(f4, lo, hi, i) implies
        in_vac(f4, lo, hi, f4(i).next as int) && f4(f4(i).next as int).prev == i && in_vac(f4, lo, hi, f4(i).prev as int) && f4(f4(i).prev as int).next == i by {
        assert(f4(i) == fresh_cell(i, mid, hi, hi - 1, mid));
        assert(f4(mid) == fresh_cell(mid, mid, hi, hi - 1, mid)); assert(f4(hi - 1) == fresh_cell(hi - 1, mid, hi, hi - 1, mid));
        if i + 1 < hi { assert(f4(i + 1) == fresh_cell(i + 1, mid, hi, hi - 1, mid)); }
        if i > mid { assert(f4(i - 1) == fresh_cell(i - 1, mid, hi, hi - 1, mid)); }
    }
    assert forall|i: int, j: int| #[trigger] l_vac(f4, lo, hi, i) && #[trigger] l_vac(f4, lo, hi, j) && i < j implies i < f4(i).next <= j by {
        assert(f4(i) == fresh_cell(i, mid, hi, hi - 1, mid));
    }
    assert forall|i: int| #[trigger] l_vac(f4, lo, hi, i) && f4(i).next <= i implies Some(mid as u32) == Some(f4(i).next) by {
        assert(f4(i) == fresh_cell(i, mid, hi, hi - 1, mid));
    }
    assert(f4(mid) == fresh_cell(mid, mid, hi, hi - 1, mid));
}

spec fn h_wf(h: BuildHelper) -> bool { h_basic(h) && h_list(h, h_lo(h), h_hi(h)) }

spec fn h_active(h: BuildHelper, i: int) -> bool { h_lo(h) <= i < h_hi(h) }
spec fn h_used_index(h: BuildHelper, i: int) -> bool { h_it(h, i).used_index }
spec fn h_used_base(h: BuildHelper, i: int) -> bool { h_it(h, i).used_base }

// the ring offset is injective on any window of at most `cap` consecutive indices
proof fn lemma_ring_inj(cap: int, a: int, b: int)
    requires cap > 0, 0 <= a, 0 <= b, a - b < cap, b - a < cap, a % cap == b % cap,
    ensures a == b,
{
    vstd::arithmetic::div_mod::lemma_fundamental_div_mod(a, cap);
    vstd::arithmetic::div_mod::lemma_fundamental_div_mod(b, cap);
    let qa = a / cap; let qb = b / cap;
    assert(a - b == cap * (qa - qb)) by (nonlinear_arith)
        requires a == cap * qa + a % cap, b == cap * qb + b % cap, a % cap == b % cap;
    if qa > qb { assert(cap * (qa - qb) >= cap) by (nonlinear_arith) requires qa - qb >= 1, cap > 0; }
    if qa < qb { assert(cap * (qa - qb) <= -cap) by (nonlinear_arith) requires qa - qb <= -1, cap > 0; }
}

proof fn lemma_window(h: BuildHelper)
    requires h_basic(h),
    ensures 0 <= h_lo(h) <= h_hi(h), h_hi(h) - h_lo(h) <= h_cap(h), h_cap(h) > 0,
        h_lo(h) % (h.block_len as int) == 0, h_hi(h) % (h.block_len as int) == 0,
{
    let bl = h.block_len as int; let nb = h.num_blocks as int; let nf = h.num_free_blocks as int;
    assert(bl * nf > 0) by (nonlinear_arith) requires bl > 0, nf > 0;
    if nb >= nf {
        assert(nb * bl - (nb - nf) * bl == bl * nf) by (nonlinear_arith);
        assert((nb - nf) * bl >= 0) by (nonlinear_arith) requires nb - nf >= 0, bl > 0;
        assert((nb - nf) * bl <= nb * bl) by (nonlinear_arith) requires nf > 0, bl > 0;
    } else {
        assert(nb * bl <= bl * nf) by (nonlinear_arith) requires nb < nf, bl > 0;
        assert(nb * bl >= 0) by (nonlinear_arith) requires nb >= 0, bl > 0;
    }
    vstd::arithmetic::div_mod::lemma_mod_multiples_basic(nb, bl);
    vstd::arithmetic::div_mod::lemma_mod_multiples_basic(if nb >= nf { nb - nf } else { 0 }, bl);
}

spec fn h_same_params(a: BuildHelper, b: BuildHelper) -> bool {
    a.block_len == b.block_len && a.num_free_blocks == b.num_free_blocks && a.num_blocks == b.num_blocks
        && a.items@.len() == b.items@.len()
}

// writing one ring cell changes exactly one element of the window
proof fn lemma_update_frame(h: BuildHelper, h2: BuildHelper, lo: int, hi: int, i: int, v: ListItem)
    requires h_cap(h) > 0, 0 <= lo <= i < hi, hi - lo <= h_cap(h),
        h2.items@ =~= h.items@.update(i % h_cap(h), v),
    ensures h_it(h2, i) == v,
        forall|j: int| lo <= j < hi && j != i ==> #[trigger] h_it(h2, j) == h_it(h, j),
{
    reveal(h_it);
    let cap = h_cap(h);
    assert(h2.items@.len() == h.items@.len());
    assert(0 <= i % cap < cap) by { vstd::arithmetic::div_mod::lemma_mod_pos_bound(i, cap); }
    assert forall|j: int| lo <= j < hi && j != i implies #[trigger] h_it(h2, j) == h_it(h, j) by {
        vstd::arithmetic::div_mod::lemma_mod_pos_bound(j, cap);
        if j % cap == i % cap { lemma_ring_inj(cap, j, i); }
    }
}

proof fn lemma_cells_same(a: BuildHelper, b: BuildHelper)
    requires a.items@ =~= b.items@,
    ensures h_cells(a) == h_cells(b), forall|j: int| #[trigger] h_it(b, j) == h_it(a, j),
{
    reveal(h_it);
    assert(a.items@ == b.items@);
    assert(h_cells(a) =~= h_cells(b));
}

// cell of the new block as written by the `for idx in old_len..new_len` loop of push_block
spec fn loop_cell(j: int) -> ListItem {
    ListItem { next: (j + 1) as u32, prev: (j as u32).wrapping_sub(1), used_base: false, used_index: false }
}

spec fn upd(a: BuildHelper, b: BuildHelper, i: int, v: ListItem) -> bool {
    b.items@ =~= a.items@.update(i % h_cap(a), v)
}

// push_block, non-empty list: the four pointer writes splice the new block behind the tail
proof fn lemma_splice_some(hl: BuildHelper, s1: BuildHelper, s2: BuildHelper, s3: BuildHelper, s4: BuildHelper,
                           lo: int, mid: int, hi: int, head: int, tail: int)
    requires
        h_cap(hl) > 0, 0 <= lo <= mid < hi <= u32::MAX, hi - lo <= h_cap(hl), mid + 1 < hi || mid + 1 == hi,
        list_ok(h_cells(hl), Some(head as u32), lo, mid), 0 <= head <= u32::MAX, tail == h_it(hl, head).prev,
        forall|j: int| mid <= j < hi ==> h_it(hl, j) == loop_cell(j),
        upd(hl, s1, mid, ListItem { prev: tail as u32, ..h_it(hl, mid) }),
        upd(s1, s2, tail, ListItem { next: mid as u32, ..h_it(s1, tail) }),
        upd(s2, s3, hi - 1, ListItem { next: head as u32, ..h_it(s2, hi - 1) }),
        upd(s3, s4, head, ListItem { prev: (hi - 1) as u32, ..h_it(s3, head) }),
    ensures
        list_ok(h_cells(s4), Some(head as u32), lo, hi),
        forall|j: int| lo <= j < hi ==> h_it(s4, j).used_index == h_it(hl, j).used_index && h_it(s4, j).used_base == h_it(hl, j).used_base,
{
    assert(l_vac(h_cells(hl), lo, mid, head)) by { reveal(list_ok); }
    lemma_neighbours(h_cells(hl), Some(head as u32), lo, mid, head);
    assert(lo <= tail < mid && lo <= head < mid);
    lemma_update_frame(hl, s1, lo, hi, mid, ListItem { prev: tail as u32, ..h_it(hl, mid) });
    lemma_update_frame(s1, s2, lo, hi, tail, ListItem { next: mid as u32, ..h_it(s1, tail) });
    lemma_update_frame(s2, s3, lo, hi, hi - 1, ListItem { next: head as u32, ..h_it(s2, hi - 1) });
    lemma_update_frame(s3, s4, lo, hi, head, ListItem { prev: (hi - 1) as u32, ..h_it(s3, head) });
    let f0 = h_cells(hl); let f4 = h_cells(s4);
    assert forall|j: int| lo <= j < mid implies #[trigger] f4(j) == (ListItem {
        next: if j == f0(head).prev { mid as u32 } else { f0(j).next }, prev: if j == head { (hi - 1) as u32 } else { f0(j).prev },
        used_base: f0(j).used_base, used_index: f0(j).used_index }) by {
        assert(h_it(s4, j) == (if j == head { ListItem { prev: (hi - 1) as u32, ..h_it(s3, head) } } else { h_it(s3, j) }));
        assert(h_it(s3, j) == h_it(s2, j));
        assert(h_it(s2, j) == (if j == tail { ListItem { next: mid as u32, ..h_it(s1, tail) } } else { h_it(s1, j) }));
        assert(h_it(s1, j) == h_it(hl, j));
    }
    assert forall|j: int| mid <= j < hi implies #[trigger] f4(j) == fresh_cell(j, mid, hi, f0(head).prev as int, head) by {
        assert(h_it(hl, j) == loop_cell(j));
        assert(h_it(s4, j) == h_it(s3, j));
        assert(h_it(s3, j) == (if j == hi - 1 { ListItem { next: head as u32, ..h_it(s2, hi - 1) } } else { h_it(s2, j) }));
        assert(h_it(s2, j) == h_it(s1, j));
        assert(h_it(s1, j) == (if j == mid { ListItem { prev: tail as u32, ..h_it(hl, mid) } } else { h_it(hl, j) }));
        if j > mid { assert((j as u32).wrapping_sub(1) == (j - 1) as u32); }
    }
    lemma_append(f0, f4, head, lo, mid, hi);
    assert forall|j: int| lo <= j < hi implies h_it(s4, j).used_index == h_it(hl, j).used_index && h_it(s4, j).used_base == h_it(hl, j).used_base by {
        if j < mid { assert(f4(j).used_index == f0(j).used_index); } else { assert(f4(j) == fresh_cell(j, mid, hi, f0(head).prev as int, head)); assert(h_it(hl, j) == loop_cell(j)); }
    }
}

// push_block, empty list: the new block becomes the whole list
proof fn lemma_splice_none(hl: BuildHelper, t1: BuildHelper, t2: BuildHelper, lo: int, mid: int, hi: int)
    requires
        h_cap(hl) > 0, 0 <= lo <= mid < hi <= u32::MAX, hi - lo <= h_cap(hl),
        list_ok(h_cells(hl), None, lo, mid),
        forall|j: int| mid <= j < hi ==> h_it(hl, j) == loop_cell(j),
        upd(hl, t1, mid, ListItem { prev: (hi - 1) as u32, ..h_it(hl, mid) }),
        upd(t1, t2, hi - 1, ListItem { next: mid as u32, ..h_it(t1, hi - 1) }),
    ensures
        list_ok(h_cells(t2), Some(mid as u32), lo, hi),
        forall|j: int| lo <= j < hi ==> h_it(t2, j).used_index == h_it(hl, j).used_index && h_it(t2, j).used_base == h_it(hl, j).used_base,
{
    lemma_update_frame(hl, t1, lo, hi, mid, ListItem { prev: (hi - 1) as u32, ..h_it(hl, mid) });
    lemma_update_frame(t1, t2, lo, hi, hi - 1, ListItem { next: mid as u32, ..h_it(t1, hi - 1) });
    let f0 = h_cells(hl); let f4 = h_cells(t2);
    assert forall|j: int| lo <= j < mid implies #[trigger] f4(j).used_index by {
        reveal(list_ok);
        assert(!l_vac(f0, lo, mid, j));
        assert(h_it(t2, j) == h_it(t1, j)); assert(h_it(t1, j) == h_it(hl, j));
    }
    assert forall|j: int| mid <= j < hi implies #[trigger] f4(j) == fresh_cell(j, mid, hi, hi - 1, mid) by {
        assert(h_it(hl, j) == loop_cell(j));
        assert(h_it(t2, j) == (if j == hi - 1 { ListItem { next: mid as u32, ..h_it(t1, hi - 1) } } else { h_it(t1, j) }));
        assert(h_it(t1, j) == (if j == mid { ListItem { prev: (hi - 1) as u32, ..h_it(hl, mid) } } else { h_it(hl, j) }));
        if j > mid { assert((j as u32).wrapping_sub(1) == (j - 1) as u32); }
    }
    lemma_fresh(f4, lo, mid, hi);
    assert forall|j: int| lo <= j < hi implies h_it(t2, j).used_index == h_it(hl, j).used_index && h_it(t2, j).used_base == h_it(hl, j).used_base by {
        if j < mid { assert(h_it(t2, j) == h_it(t1, j)); assert(h_it(t1, j) == h_it(hl, j)); }
        else { assert(f4(j) == fresh_cell(j, mid, hi, hi - 1, mid)); assert(h_it(hl, j) == loop_cell(j)); }
    }
}
