// ---- ghost vocabulary for BuildHelper (src/build_helper.rs) ----
// hi = one past the last element, lo = first element of the active blocks; the ring buffer `items`
// holds element i at i % cap.  The vacant list is characterised by its successor function, which is
// determined by the flags: next(i) is the least vacant index above i, or the least vacant index of
// all when i is the greatest (circular); head is the least vacant index.
spec fn h_cap(h: BuildHelper) -> int { h.items@.len() as int }
spec fn h_hi(h: BuildHelper) -> int { h.num_blocks as int * h.block_len as int }
spec fn h_lo(h: BuildHelper) -> int {
    (if h.num_blocks >= h.num_free_blocks { h.num_blocks - h.num_free_blocks } else { 0 }) * h.block_len as int
}
spec fn h_it(h: BuildHelper, i: int) -> ListItem { h.items@[i % h_cap(h)] }

spec fn h_basic(h: BuildHelper) -> bool {
    &&& h.block_len > 0
    &&& h.num_free_blocks > 0
    &&& h_cap(h) == h.block_len as int * h.num_free_blocks as int
    &&& h_cap(h) <= u32::MAX
    &&& h_hi(h) <= u32::MAX
}

// list structure over the index range [lo, hi), stated over an abstract cell function so that the
// list lemmas are free of ring arithmetic
spec fn l_vac(f: spec_fn(int) -> ListItem, lo: int, hi: int, i: int) -> bool { lo <= i < hi && !f(i).used_index }

#[verifier::opaque]
spec fn list_ok(f: spec_fn(int) -> ListItem, head: Option<u32>, lo: int, hi: int) -> bool {
    // (a,b) head is the least vacant index
    &&& (match head {
            None => forall|j: int| !l_vac(f, lo, hi, j),
            Some(hd) => l_vac(f, lo, hi, hd as int) && forall|j: int| #[trigger] l_vac(f, lo, hi, j) ==> j >= hd,
        })
    // (c) next/prev are mutually inverse on the vacant indices
    &&& forall|i: int| #[trigger] l_vac(f, lo, hi, i) ==> {
            &&& l_vac(f, lo, hi, f(i).next as int)
            &&& f(f(i).next as int).prev == i
            &&& l_vac(f, lo, hi, f(i).prev as int)
            &&& f(f(i).prev as int).next == i
        }
    // (e) next(i) is the least vacant index above i, if there is one
    &&& forall|i: int, j: int| #[trigger] l_vac(f, lo, hi, i) && #[trigger] l_vac(f, lo, hi, j) && i < j ==> i < f(i).next <= j
    // (f) otherwise the list wraps around to the head
    &&& forall|i: int| #[trigger] l_vac(f, lo, hi, i) && f(i).next <= i ==> head == Some(f(i).next)
}

spec fn h_cells(h: BuildHelper) -> spec_fn(int) -> ListItem { |i: int| h_it(h, i) }
spec fn h_list(h: BuildHelper, lo: int, hi: int) -> bool { list_ok(h_cells(h), h.head_idx, lo, hi) }
spec fn h_vac(h: BuildHelper, lo: int, hi: int, i: int) -> bool { l_vac(h_cells(h), lo, hi, i) }

// cell j after use_index(idx) where p, n are idx's list neighbours
spec fn cell_after_remove(c: ListItem, j: int, idx: int, p: int, n: int) -> ListItem {
    ListItem {
        next: if j == p { n as u32 } else { c.next },
        prev: if j == n { p as u32 } else { c.prev },
        used_base: c.used_base,
        used_index: c.used_index || j == idx,
    }
}

proof fn lemma_neighbours(f: spec_fn(int) -> ListItem, head: Option<u32>, lo: int, hi: int, idx: int)
    requires list_ok(f, head, lo, hi), l_vac(f, lo, hi, idx),
    ensures l_vac(f, lo, hi, f(idx).next as int), l_vac(f, lo, hi, f(idx).prev as int), head.is_some(), head.unwrap() <= idx,
        f(idx).next <= idx ==> head == Some(f(idx).next),
{
    reveal(list_ok);
}

proof fn lemma_remove(f0: spec_fn(int) -> ListItem, f3: spec_fn(int) -> ListItem, head0: Option<u32>, head3: Option<u32>,
                      lo: int, hi: int, idx: int, p: int, n: int)
    requires
        list_ok(f0, head0, lo, hi), l_vac(f0, lo, hi, idx), p == f0(idx).prev, n == f0(idx).next,
        forall|j: int| lo <= j < hi ==> #[trigger] f3(j) == cell_after_remove(f0(j), j, idx, p, n),
        head3 == (if head0 == Some(idx as u32) { if n != idx { Some(n as u32) } else { None } } else { head0 }),
        0 <= lo, hi <= u32::MAX,
    ensures
        list_ok(f3, head3, lo, hi),
        match head3 { None => true, Some(x) => head0.is_some() && x >= head0.unwrap() && (head0.unwrap() == idx ==> x > idx) },
{
    reveal(list_ok);
    assert(l_vac(f0, lo, hi, n) && l_vac(f0, lo, hi, p));
    assert forall|j: int| l_vac(f3, lo, hi, j) == (l_vac(f0, lo, hi, j) && j != idx) by { if lo <= j < hi { assert(f3(j) == cell_after_remove(f0(j), j, idx, p, n)); } }
    assert(head0.is_some());
    let h0 = head0.unwrap() as int;
    if p == idx {
        assert(n == idx);
        assert forall|j: int| !l_vac(f3, lo, hi, j) by {
            if l_vac(f0, lo, hi, j) && j != idx {
                if j > idx { assert(idx < f0(idx).next <= j); }
                else { assert(j < f0(j).next <= idx); let m = f0(j).next as int; assert(l_vac(f0, lo, hi, m)); assert(f0(m).prev == j);
                       if m != idx { assert(m < f0(m).next <= idx); } }
            }
        }
    } else {
        assert(n != idx) by { if n == idx { assert(f0(n).prev == idx); } }
        // pointers of the surviving cells
        assert forall|i: int| l_vac(f3, lo, hi, i) implies f3(i).next == (if i == p { n as u32 } else { f0(i).next }) && f3(i).prev == (if i == n { p as u32 } else { f0(i).prev }) by {
            assert(f3(i) == cell_after_remove(f0(i), i, idx, p, n));
        }
        // no surviving cell other than p points to idx with next; none other than n with prev
        assert forall|i: int| l_vac(f3, lo, hi, i) && i != p implies f0(i).next != idx by { if f0(i).next == idx { assert(f0(f0(i).next as int).prev == i); } }
        assert forall|i: int| l_vac(f3, lo, hi, i) && i != n implies f0(i).prev != idx by { if f0(i).prev == idx { assert(f0(f0(i).prev as int).next == i); } }
        // (c)
        assert forall|i: int| #[trigger] l_vac(f3, lo, hi, i) implies
            l_vac(f3, lo, hi, f3(i).next as int) && f3(f3(i).next as int).prev == i && l_vac(f3, lo, hi, f3(i).prev as int) && f3(f3(i).prev as int).next == i by {
            let nn = f3(i).next as int; let pp = f3(i).prev as int;
            assert(l_vac(f0, lo, hi, i));
            if i == p { assert(nn == n); } else { assert(nn == f0(i).next && nn != idx); assert(l_vac(f0, lo, hi, nn)); assert(f0(nn).prev == i); assert(nn != n) by { if nn == n { assert(f0(n).prev == idx); } } }
            if i == n { assert(pp == p); } else { assert(pp == f0(i).prev && pp != idx); assert(l_vac(f0, lo, hi, pp)); assert(f0(pp).next == i); assert(pp != p) by { if pp == p { assert(f0(p).next == idx); } } }
            assert(l_vac(f3, lo, hi, nn)); assert(l_vac(f3, lo, hi, pp));
        }
        // (e)
        assert forall|i: int, j: int| #[trigger] l_vac(f3, lo, hi, i) && #[trigger] l_vac(f3, lo, hi, j) && i < j implies i < f3(i).next <= j by {
            assert(l_vac(f0, lo, hi, i) && l_vac(f0, lo, hi, j));
            assert(i < f0(i).next <= j);
            if i == p { assert(f0(p).next == idx); assert(idx < j); assert(idx < f0(idx).next <= j); }
        }
        // (f) and the head
        if h0 == idx {
            assert forall|j: int| #[trigger] l_vac(f3, lo, hi, j) implies j >= n by { assert(j >= idx); assert(idx < f0(idx).next <= j); }
            assert forall|i: int| #[trigger] l_vac(f3, lo, hi, i) && f3(i).next <= i implies head3 == Some(f3(i).next) by {
                if i != p { assert(head0 == Some(f0(i).next)); }
            }
        } else {
            assert(l_vac(f3, lo, hi, h0));
            assert forall|i: int| #[trigger] l_vac(f3, lo, hi, i) && f3(i).next <= i implies head3 == Some(f3(i).next) by {
                if i == p {
                    if idx > p { assert(f0(idx).next <= idx); } else { assert(f0(p).next <= p); assert(head0 == Some(idx as u32)); }
                }
            }
        }
    }
}

spec fn h_wf(h: BuildHelper) -> bool { h_basic(h) && h_list(h, h_lo(h), h_hi(h)) }

spec fn h_active(h: BuildHelper, i: int) -> bool { h_lo(h) <= i < h_hi(h) }
spec fn h_used_index(h: BuildHelper, i: int) -> bool { h_it(h, i).used_index }
spec fn h_used_base(h: BuildHelper, i: int) -> bool { h_it(h, i).used_base }

// the ring offset is injective on any window of at most `cap` consecutive indices
proof fn lemma_ring_inj(cap: int, a: int, b: int)
    requires cap > 0, 0 <= a, 0 <= b, a - b < cap, b - a < cap, a % cap == b % cap,
    ensures a == b,
{
    vstd::arithmetic::div_mod::lemma_fundamental_div_mod(a, cap);
    vstd::arithmetic::div_mod::lemma_fundamental_div_mod(b, cap);
    let qa = a / cap; let qb = b / cap;
    assert(a - b == cap * (qa - qb)) by (nonlinear_arith)
        requires a == cap * qa + a % cap, b == cap * qb + b % cap, a % cap == b % cap;
    if qa > qb { assert(cap * (qa - qb) >= cap) by (nonlinear_arith) requires qa - qb >= 1, cap > 0; }
    if qa < qb { assert(cap * (qa - qb) <= -cap) by (nonlinear_arith) requires qa - qb <= -1, cap > 0; }
}

proof fn lemma_window(h: BuildHelper)
    requires h_basic(h),
    ensures 0 <= h_lo(h) <= h_hi(h), h_hi(h) - h_lo(h) <= h_cap(h), h_cap(h) > 0,
        h_lo(h) % (h.block_len as int) == 0, h_hi(h) % (h.block_len as int) == 0,
{
    let bl = h.block_len as int; let nb = h.num_blocks as int; let nf = h.num_free_blocks as int;
    assert(bl * nf > 0) by (nonlinear_arith) requires bl > 0, nf > 0;
    if nb >= nf {
        assert(nb * bl - (nb - nf) * bl == bl * nf) by (nonlinear_arith);
        assert((nb - nf) * bl >= 0) by (nonlinear_arith) requires nb - nf >= 0, bl > 0;
        assert((nb - nf) * bl <= nb * bl) by (nonlinear_arith) requires nf > 0, bl > 0;
    } else {
        assert(nb * bl <= bl * nf) by (nonlinear_arith) requires nb < nf, bl > 0;
        assert(nb * bl >= 0) by (nonlinear_arith) requires nb >= 0, bl > 0;
    }
    vstd::arithmetic::div_mod::lemma_mod_multiples_basic(nb, bl);
    vstd::arithmetic::div_mod::lemma_mod_multiples_basic(if nb >= nf { nb - nf } else { 0 }, bl);
}

spec fn h_same_params(a: BuildHelper, b: BuildHelper) -> bool {
    a.block_len == b.block_len && a.num_free_blocks == b.num_free_blocks && a.num_blocks == b.num_blocks
        && a.items@.len() == b.items@.len()
}

// writing one ring cell changes exactly one element of the window
proof fn lemma_update_frame(h: BuildHelper, h2: BuildHelper, lo: int, hi: int, i: int, v: ListItem)
    requires h_cap(h) > 0, 0 <= lo <= i < hi, hi - lo <= h_cap(h),
        h2.items@ =~= h.items@.update(i % h_cap(h), v),
    ensures h_it(h2, i) == v,
        forall|j: int| lo <= j < hi && j != i ==> #[trigger] h_it(h2, j) == h_it(h, j),
{
    let cap = h_cap(h);
    assert(0 <= i % cap < cap) by { vstd::arithmetic::div_mod::lemma_mod_pos_bound(i, cap); }
    assert forall|j: int| lo <= j < hi && j != i implies #[trigger] h_it(h2, j) == h_it(h, j) by {
        vstd::arithmetic::div_mod::lemma_mod_pos_bound(j, cap);
        if j % cap == i % cap { lemma_ring_inj(cap, j, i); }
    }
}
