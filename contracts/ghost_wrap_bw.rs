// ---- the byte-wise build wrappers: from pattern/value pairs to an automaton the search code may run on ----
spec fn lm_of(k: MatchKind) -> bool { !(k is Standard) }
spec fn pat_at<P: AsRef<[u8]>, V>(items: Seq<(P, V)>, i: int) -> Seq<u8> { items[i].0.as_ref_spec()@ }

// the property-level notion of a valid collection: non-empty, no empty pattern, no two equal patterns
spec fn pats_valid<P: AsRef<[u8]>, V>(items: Seq<(P, V)>) -> bool {
    &&& items.len() > 0
    &&& forall|i: int| 0 <= i < items.len() ==> (#[trigger] pat_at(items, i)).len() > 0
    &&& forall|i: int, j: int| 0 <= i < j < items.len() ==> #[trigger] pat_at(items, i) != #[trigger] pat_at(items, j)
}
spec fn has_empty<P: AsRef<[u8]>, V>(items: Seq<(P, V)>) -> bool { exists|i: int| 0 <= i < items.len() && (#[trigger] pat_at(items, i)).len() == 0 }
spec fn has_dup<P: AsRef<[u8]>, V>(items: Seq<(P, V)>) -> bool {
    exists|i: int, j: int| 0 <= i < j < items.len() && #[trigger] pat_at(items, i) == #[trigger] pat_at(items, j)
}
spec fn has_huge<P: AsRef<[u8]>, V>(items: Seq<(P, V)>) -> bool { exists|i: int| 0 <= i < items.len() && (#[trigger] pat_at(items, i)).len() > u32::MAX }

// patterns the trie has seen == the first k patterns of the input
spec fn seen_is<P: AsRef<[u8]>, V, W>(n: NfaBuilder<u8, W>, items: Seq<(P, V)>, k: int) -> bool {
    forall|q: Seq<u8>| #[trigger] seen(n, q) <==> exists|j: int| 0 <= j < k && #[trigger] pat_at(items, j) == q
}

// ---- assumed contract of the fail/output passes (nfa_builder.rs build_fails, build_fails_leftmost, build_outputs) ----
// They mutate states through RefCell from &self, which Verus cannot express; under R9 the stubs take &mut self.
// The bounded stand-in evaluates exactly these clauses (and the stronger Aho-Corasick ones) on every NFA it builds.
//@include ghost_pass.rs
//@include ghost_lf.rs
impl<V: Copy> NfaBuilder<u8, V> {
    // contracts proved on the real functions by the unit pass_bw (same text: pass_heads.inc)
    #[verifier::external_body]
    fn build_fails(&mut self) -> (q: Vec<u32>)
//@includeblock pass_heads.inc build_fails
    { unimplemented!() }

    #[verifier::external_body]
    fn build_fails_leftmost(&mut self) -> (q: Vec<u32>)
//@includeblock pass_heads.inc build_fails_leftmost
    { unimplemented!() }

    #[verifier::external_body]
    fn build_outputs(&mut self, q: &[u32])
//@includeblock pass_heads.inc build_outputs
    { unimplemented!() }
}


// walks and registrations do not look at fail / output_pos
proof fn lemma_frame_keeps_trie<V>(a: NfaBuilder<u8, V>, b: NfaBuilder<u8, V>)
    requires passes_frame(a, b), add_inv(a), reach_ok(a),
    ensures trie_ok(b), reach_ok(b), forall|q: Seq<u8>| #[trigger] seen(b, q) == seen(a, q),
        forall|q: Seq<u8>| walk(b, q) == walk(a, q),
{
    assert forall|t: int| 0 <= t < a.states@.len() implies #[trigger] t_edges(b, t) == t_edges(a, t) by { }
    assert forall|q: Seq<u8>| walk(b, q) == walk(a, q) by { lemma_walk_same_edges(b, a, q); }
    assert forall|q: Seq<u8>| #[trigger] seen(b, q) == seen(a, q) by {
        if walk(a, q).is_some() { lemma_walk_range(a, q); }
    }
    assert(trie_ok(b)) by {
        assert forall|s1: int, c1: u8, s2: int, c2: u8| 0 <= s1 < b.states@.len() && 0 <= s2 < b.states@.len() && #[trigger] t_edges(b, s1).contains_key(c1) && #[trigger] t_edges(b, s2).contains_key(c2)
            && t_edges(b, s1)[c1] == t_edges(b, s2)[c2] implies s1 == s2 && c1 == c2 by {
            assert(t_edges(a, s1).contains_key(c1) && t_edges(a, s2).contains_key(c2));
        }
        assert forall|s: int, c: u8| 0 <= s < b.states@.len() && #[trigger] t_edges(b, s).contains_key(c) implies 2 <= t_edges(b, s)[c] < b.states@.len() && s < t_edges(b, s)[c] by {
            assert(t_edges(a, s).contains_key(c));
        }
        assert forall|c: u8| !t_edges(b, 1).contains_key(c) by { assert(!t_edges(a, 1).contains_key(c)); }
    }
    reveal(reach_ok);
    assert forall|t: int| 2 <= t < b.states@.len() implies #[trigger] has_reach(b, t) by {
        assert(has_reach(a, t));
        let (q, k) = choose|q: Seq<u8>, k: int| reach_wit(a, t, q, k);
        lemma_walk_range(a, q);
        assert(reach_wit(b, t, q, k));
    }
}

// what the search code needs from the finished automaton (this is pma_ok of the iterator units, unfolded)
spec fn automaton_ok<V>(pma: DoubleArrayAhoCorasick<V>, lm: bool) -> bool {
    bw_wf(pma.states@, lm) && outs_ok(pma.states@, pma.outputs@)
}

proof fn lemma_built_outs_ok<V>(st: Seq<State>, n: NfaBuilder<u8, V>, idmap: Seq<u32>)
    requires bw_built(st, n, idmap), nfa_outs_ok(n),
    ensures outs_ok(st, n.outputs@),
{
    assert forall|i: int| 0 <= i < st.len() implies st_opos(#[trigger] st[i]) <= n.outputs@.len() by {
        if st_opos(st[i]) != 0 {
            assert(slot_used(n, idmap, i));
            let s = choose|s: int| 0 <= s < n.states@.len() && s != 1 && #[trigger] idmap[s] == i;
            lemma_benc_basic(st, n, idmap, s);
        }
    }
}

proof fn lemma_byte_len_u8(p: Seq<u8>)
    ensures byte_len(p) == p.len(),
    decreases p.len(),
{
    if p.len() > 0 { lemma_byte_len_u8(p.drop_last()); }
}

// a seen pattern has a state below the root (it is non-empty and walks somewhere), or is skipped behind one that does
proof fn lemma_seen_has_state<V>(n: NfaBuilder<u8, V>, p: Seq<u8>)
    requires add_inv(n), seen(n, p),
    ensures n.states@.len() > 2,
{
    if is_registered(n, p) {
        lemma_walk_range(n, p);
        if p.len() == 0 { assert(walk(n, p) == Some(0int)); }
    } else {
        let k = choose|k: int| 0 <= k < p.len() && is_registered(n, p.take(k));
        lemma_walk_range(n, p.take(k));
        if p.take(k).len() == 0 { assert(walk(n, p.take(k)) == Some(0int)); }
    }
}

// nfa_links only reads edges and fail
proof fn lemma_links_same_fail<V>(a: NfaBuilder<u8, V>, b: NfaBuilder<u8, V>, lm: bool)
    requires fails_ok(a, lm), passes_frame(a, b), trie_ok(a), reach_ok(a), forall|s: int| 0 <= s < a.states@.len() ==> (#[trigger] b.states@[s]).fail == a.states@[s].fail,
    ensures fails_ok(b, lm),
{
    assert forall|t: int| 0 <= t < a.states@.len() implies nfa_depth(b, t) == nfa_depth(a, t) by { lemma_depth_same(a, b, t); }
    assert forall|s: int| 0 <= s < b.states@.len() && s != 1 && s != 0 implies ({
        let f = (#[trigger] b.states@[s]).fail as int;
        (f != 1 && 0 <= f < b.states@.len() && nfa_depth(b, f) < nfa_depth(b, s)) || (lm && f == 1)
    }) by {
        assert(b.states@[s].fail == a.states@[s].fail);
    }
}
proof fn lemma_depth_same<V>(a: NfaBuilder<u8, V>, b: NfaBuilder<u8, V>, t: int)
    requires passes_frame(a, b), trie_ok(a), reach_ok(a), 0 <= t < a.states@.len(),
    ensures nfa_depth(b, t) == nfa_depth(a, t),
    decreases t,
{
    if t >= 2 {
        // both parents are the unique edge into t
        let pa = nfa_parent(a, t);
        assert(nfa_parent_ok(a, t, pa)) by {
            reveal(reach_ok);
            assert(has_reach(a, t));
            let (q, k) = choose|q: Seq<u8>, k: int| reach_wit(a, t, q, k);
            let p = q.take(k);
            lemma_walk_range(a, p);
            let s = walk(a, p.drop_last()).unwrap();
            lemma_walk_range(a, p.drop_last());
            assert(t_edges(a, s).contains_key(p.last()) && t_edges(a, s)[p.last()] == t);
            assert(nfa_parent_ok(a, t, (s, p.last())));
        }
        assert(b.states@[pa.0].edges@ == a.states@[pa.0].edges@);
        assert(nfa_parent_ok(b, t, pa));
        let pb = nfa_parent(b, t);
        assert(nfa_parent_ok(b, t, pb));
        assert(b.states@[pb.0].edges@ == a.states@[pb.0].edges@);
        assert(t_edges(a, pa.0).contains_key(pa.1) && t_edges(a, pb.0).contains_key(pb.1));
        assert(pa == pb);
        lemma_depth_same(a, b, pa.0);
    }
}

// an injective placement needs at least as many slots as there are states (slot 1 is never used, state 1 is never placed)
proof fn lemma_slots_at_least_states<V>(st: Seq<State>, n: NfaBuilder<u8, V>, idmap: Seq<u32>)
    requires bw_built(st, n, idmap), n.states@.len() >= 2, st.len() >= 2,
    ensures st.len() >= n.states@.len(),
{
    let len = n.states@.len() as int;
    // f: state ids 0..len -> slots, with state 1 sent to slot 1
    let f = |t: int| if t == 1 { 1int } else { idmap[t] as int };
    let a = vstd::set_lib::set_int_range(0, len);
    let b = vstd::set_lib::set_int_range(0, st.len() as int);
    vstd::set_lib::lemma_int_range(0, len);
    vstd::set_lib::lemma_int_range(0, st.len() as int);
    lemma_benc_basic(st, n, idmap, 0);
    let im = a.map(f);
    assert forall|u: int, v: int| a.contains(u) && a.contains(v) && f(u) == f(v) implies u == v by {
        if u != 1 { lemma_benc_basic(st, n, idmap, u); }
        if v != 1 { lemma_benc_basic(st, n, idmap, v); }
        if u != 1 && v != 1 { lemma_benc_inj(st, n, idmap, u, v); }
    }
    vstd::set_lib::lemma_map_size(a, im, f);
    assert(im.subset_of(b)) by {
        assert forall|y: int| im.contains(y) implies b.contains(y) by {
            let u = choose|u: int| a.contains(u) && f(u) == y;
            if u != 1 { lemma_benc_basic(st, n, idmap, u); }
        }
    }
    vstd::set_lib::lemma_len_subset(im, b);
}

// ---- values and the end-to-end statements ----
// a registered pattern carries the value of the pair it came from
spec fn values_are<P: AsRef<[u8]>, V, >(n: NfaBuilder<u8, V>, items: Seq<(P, V)>, k: int) -> bool {
    forall|j: int| 0 <= j < k && is_registered(n, #[trigger] pat_at(items, j)) ==> reg_out(n, pat_at(items, j)).unwrap().0 == items[j].1
}
proof fn lemma_frame_keeps_values<P: AsRef<[u8]>, V>(a: NfaBuilder<u8, V>, b: NfaBuilder<u8, V>, items: Seq<(P, V)>, k: int)
    requires passes_frame(a, b), add_inv(a), reach_ok(a), values_are(a, items, k),
    ensures values_are(b, items, k),
{
    lemma_frame_keeps_trie(a, b);
    assert forall|j: int| 0 <= j < k && is_registered(b, #[trigger] pat_at(items, j)) implies reg_out(b, pat_at(items, j)).unwrap().0 == items[j].1 by {
        let q = pat_at(items, j);
        assert(walk(b, q) == walk(a, q));
        lemma_walk_range(a, q);
        assert(is_registered(a, q));
    }
}
// the three standard searches of the finished automaton, as the iterators see them, equal the property-level semantics
spec fn searches_ok<V>(st: Seq<State>, outs: Seq<Output<V>>, n: NfaBuilder<u8, V>) -> bool {
    forall|hay: Seq<u8>|
        #[trigger] ovl_scan(st, outs, 0, hay, 0) == sem_ovl(n, hay, 0)
        && nosuf_scan(st, outs, 0, hay, 0) == sem_nosuf(n, hay, 0)
        && find_stream(st, outs, hay, 0) == sem_find(n, hay, 0)
}
proof fn lemma_searches_ok<V>(n: NfaBuilder<u8, V>, st: Seq<State>, idmap: Seq<u32>)
    requires bw_encodes(st, n, idmap), da_safe(st), nfa_tree(n), trie_ok(n), nfa_links(n, false), nfa_outs_ok(n), ac_fail(n), ac_outs(n),
    ensures searches_ok(st, n.outputs@, n),
{
    assert forall|hay: Seq<u8>|
        #[trigger] ovl_scan(st, n.outputs@, 0, hay, 0) == sem_ovl(n, hay, 0)
        && nosuf_scan(st, n.outputs@, 0, hay, 0) == sem_nosuf(n, hay, 0)
        && find_stream(st, n.outputs@, hay, 0) == sem_find(n, hay, 0) by {
        theorem_c01_bw(n, st, idmap, hay);
        theorem_c05_bw(n, st, idmap, hay);
        theorem_c02_bw(n, st, idmap, hay);
    }
}

// what build_with_values promises about the automaton it returns (as fields, so that the exec function's own obligation is small)
// the passes leave the builder invariant of `add` alone
proof fn lemma_frame_keeps_add_inv<V>(a: NfaBuilder<u8, V>, b: NfaBuilder<u8, V>)
    requires passes_frame(a, b), add_inv(a), reach_ok(a),
    ensures add_inv(b),
{
    lemma_frame_keeps_trie(a, b);
    assert forall|p: Seq<u8>| is_registered(b, p) == is_registered(a, p) && (is_registered(a, p) ==> reg_out(b, p) == reg_out(a, p)) by {
        assert(walk(b, p) == walk(a, p));
        if walk(a, p).is_some() { lemma_walk_range(a, p); }
    }
    assert forall|p: Seq<u8>| #[trigger] skipped_view(b.skipped).contains(p) implies exists|k: int| 0 <= k < p.len() && is_registered(b, p.take(k)) by {
        let k = choose|k: int| 0 <= k < p.len() && is_registered(a, p.take(k));
        assert(is_registered(b, p.take(k)));
    }
}
// the pattern list and the value list of the input pairs
spec fn item_pats<P: AsRef<[u8]>, V>(items: Seq<(P, V)>) -> Seq<Seq<u8>> { Seq::new(items.len(), |j: int| pat_at(items, j)) }
spec fn item_vals<P, V>(items: Seq<(P, V)>) -> Seq<V> { Seq::new(items.len(), |j: int| items[j].1) }
proof fn lemma_regs<P: AsRef<[u8]>, V>(n: NfaBuilder<u8, V>, items: Seq<(P, V)>)
    requires add_inv(n), seen_is(n, items, items.len() as int), values_are(n, items, items.len() as int), !(n.match_kind is LeftmostFirst),
    ensures regs(n, item_pats(items), item_vals(items)),
{
    let ps = item_pats(items); let vs = item_vals(items);
    assert forall|q: Seq<u8>| #[trigger] is_registered(n, q) <==> exists|j: int| 0 <= j < ps.len() && #[trigger] ps[j] == q by {
        assert(seen(n, q) == is_registered(n, q));
        if is_registered(n, q) {
            let j = choose|j: int| 0 <= j < items.len() && #[trigger] pat_at(items, j) == q;
            assert(ps[j] == q);
        }
        if exists|j: int| 0 <= j < ps.len() && #[trigger] ps[j] == q {
            let j = choose|j: int| 0 <= j < ps.len() && #[trigger] ps[j] == q;
            assert(pat_at(items, j) == q);
            assert(seen(n, q));
        }
    }
    assert forall|j: int| 0 <= j < ps.len() implies reg_out(n, #[trigger] ps[j]).unwrap().0 == vs[j] by {
        assert(pat_at(items, j) == ps[j]);
        assert(seen(n, ps[j]));
    }
}
//@include ghost_count.rs
// leftmost kinds: what the leftmost iterator is proved to report is a function of the NFA alone (not of the array layout, hence not of
// num_free_blocks: C11; the NFA stage has no access to that setting, `//@forbid num_free_blocks` on build_sparse_nfa)
spec fn lm_searches_ok<V>(st: Seq<State>, outs: Seq<Output<V>>, n: NfaBuilder<u8, V>) -> bool {
    forall|hay: Seq<u8>, pos: nat| #[trigger] lm_stream(st, outs, hay, pos) == nfa_lm_stream(n, hay, pos)
}
#[verifier::opaque]
spec fn bwv_post<P: AsRef<[u8]>, V>(st: Seq<State>, outs: Seq<Output<V>>, num_states: u32, items: Seq<(P, V)>, kind: MatchKind) -> bool {
    &&& pats_valid(items)
    &&& bw_wf(st, lm_of(kind)) && outs_ok(st, outs)
    &&& exists|n: NfaBuilder<u8, V>| trie_ok(n) && reach_ok(n) && seen_is(n, items, items.len() as int)
            && #[trigger] n.states@.len() == num_states + 1 && st.len() >= n.states@.len()
            // C15: the reported count is one (the root) plus the number of distinct non-empty prefixes of the registered patterns
            && pref_count(n, node_set(n), num_states - 1)
            // C08: exactly the listed patterns are registered, with their values and byte lengths
            && (!(kind is LeftmostFirst) ==> regs(n, item_pats(items), item_vals(items)))
            // all kinds: the trie facts from which the soundness of the leftmost stream follows (units lm_sound_*)
            && add_inv(n) && nfa_tree(n) && nfa_links(n, lm_of(kind)) && sound_facts(n)
            && (!(kind is Standard) ==> lm_opt_facts(n))
            // C04: the registered patterns in terms of the input order (a pattern is not registered only if an earlier, registered proper prefix shadows it)
            && lf_inv(n, item_pats(items), items.len() as int)
            && values_are(n, items, items.len() as int)
            && (kind is Standard ==> searches_ok(st, outs, n))
            && (!(kind is Standard) ==> lm_searches_ok(st, outs, n))
}
proof fn lemma_bwv_post<P: AsRef<[u8]>, V>(nfa: NfaBuilder<u8, V>, st: Seq<State>, num_states: u32, items: Seq<(P, V)>, kind: MatchKind)
    requires
        // from build_sparse_nfa
        pats_valid(items), nfa_tree(nfa), nfa_links(nfa, lm_of(kind)), nfa_outs_ok(nfa), trie_ok(nfa), reach_ok(nfa),
        seen_is(nfa, items, items.len() as int), values_are(nfa, items, items.len() as int), kind is Standard ==> ac_fail(nfa) && ac_outs(nfa),
        // from build_double_array
        da_safe(st), exists|idmap: Seq<u32>| bw_built(st, nfa, idmap),
        // the state count
        nfa.states@.len() == num_states + 1, add_inv(nfa), nfa.match_kind == kind, sound_facts(nfa), !(kind is Standard) ==> lm_opt_facts(nfa), lf_inv(nfa, item_pats(items), items.len() as int),
    ensures bwv_post(st, nfa.outputs@, num_states, items, kind),
{
    reveal(bwv_post);
    let idmap = choose|idmap: Seq<u32>| bw_built(st, nfa, idmap);
    lemma_encodes_gives_wf(nfa, st, idmap, lm_of(kind));
    lemma_built_outs_ok(st, nfa, idmap);
    lemma_slots_at_least_states(st, nfa, idmap);
    if kind is Standard { lemma_searches_ok(nfa, st, idmap); }
    else {
        assert forall|hay: Seq<u8>, pos: nat| #[trigger] lm_stream(st, nfa.outputs@, hay, pos) == nfa_lm_stream(nfa, hay, pos) by {
            theorem_lm_sim(nfa, st, idmap, hay, pos);
        }
    }
    lemma_state_count(nfa);
    if !(kind is LeftmostFirst) { lemma_regs(nfa, items); }
    assert(nfa.states@.len() == num_states + 1 && st.len() >= nfa.states@.len());
}

// ---- `build`: the value of pattern j is the conversion of its position ----
spec fn conv_ok<V: TryFrom<usize>>(j: int) -> bool { <V as vstd::std_specs::convert::TryFromSpec<usize>>::try_from_spec(j as usize).is_ok() }
spec fn conv_val<V: TryFrom<usize>>(j: int) -> V { match <V as vstd::std_specs::convert::TryFromSpec<usize>>::try_from_spec(j as usize) { Ok(v) => v, Err(_) => arbitrary() } }
spec fn indexed<P, V: TryFrom<usize>>(ps: Seq<P>) -> Seq<(P, V)> { Seq::new(ps.len(), |j: int| (ps[j], conv_val::<V>(j))) }
