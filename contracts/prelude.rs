// ---- trusted prelude: std specifications not shipped in vstd (each item is one assumption) ----
pub assume_specification<T, P: FnOnce(&T) -> bool>[Option::<T>::filter](o: Option<T>, p: P) -> (r: Option<T>)
    requires
        o.is_some() ==> p.requires((&o.unwrap(),)),
    ensures
        o.is_none() ==> r.is_none(),
        o.is_some() ==> (r.is_none() || r == o),
        o.is_some() && r.is_some() ==> p.ensures((&o.unwrap(),), true),
        o.is_some() && r.is_none() ==> p.ensures((&o.unwrap(),), false);

pub assume_specification<T>[Option::<T>::replace](o: &mut Option<T>, value: T) -> (r: Option<T>)
    ensures
        r == *old(o),
        *final(o) == Some(value);

pub assume_specification<T, U, F: FnOnce(T) -> U>[Option::<T>::map_or](o: Option<T>, default: U, f: F) -> (r: U)
    requires
        o.is_some() ==> f.requires((o.unwrap(),)),
    ensures
        o.is_none() ==> r == default,
        o.is_some() ==> f.ensures((o.unwrap(),), r);

pub assume_specification<'a, T: Copy>[Option::<&'a T>::copied](o: Option<&'a T>) -> (r: Option<T>)
    ensures
        o.is_none() ==> r.is_none(),
        o.is_some() ==> r == Some(*o.unwrap());

pub assume_specification[<u32 as From<char>>::from](c: char) -> (r: u32)
    ensures r == c as u32;
