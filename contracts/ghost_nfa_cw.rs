// ---- ghost view of the sparse NFA handed to the double-array stage (assumed contract of the NFA stage) ----
spec fn nfa_edges<V>(n: NfaBuilder<char, V>, s: int) -> Map<char, u32> { n.states@[s].edges@ }

// structure: state 0 = root, 1 = dead; ids >= 2 form a tree below the root, children have larger ids than parents
spec fn nfa_tree<V>(n: NfaBuilder<char, V>) -> bool {
    let len = n.states@.len();
    &&& 2 <= len <= u32::MAX
    &&& forall|c: char| !nfa_edges(n, 1).contains_key(c)
    &&& forall|s: int, c: char| 0 <= s < len && #[trigger] nfa_edges(n, s).contains_key(c) ==>
            2 <= nfa_edges(n, s)[c] < len && s < nfa_edges(n, s)[c]
    &&& forall|t: int| 2 <= t < len ==> nfa_parent_ok(n, t, #[trigger] nfa_parent(n, t))
    &&& forall|s: int| 0 <= s < len ==> (#[trigger] n.states@[s]).fail < len
    // the creating edge is the only edge into a state
    &&& forall|s: int, c: char| 0 <= s < len && #[trigger] nfa_edges(n, s).contains_key(c) ==> nfa_parent(n, nfa_edges(n, s)[c] as int) == (s, c)
}
// witness of "every state >= 2 has a parent" (the edge that created it)
spec fn nfa_parent<V>(n: NfaBuilder<char, V>, t: int) -> (int, char) {
    choose|p: (int, char)| nfa_parent_ok(n, t, p)
}
spec fn nfa_parent_ok<V>(n: NfaBuilder<char, V>, t: int, p: (int, char)) -> bool {
    0 <= p.0 < t && p.0 != 1 && nfa_edges(n, p.0).contains_key(p.1) && nfa_edges(n, p.0)[p.1] == t
}

// every state below the root is placed once the work list is empty
proof fn lemma_all_placed<V>(n: NfaBuilder<char, V>, map: Seq<u32>, done: Set<int>, t: int)
    requires
        nfa_tree(n), map.len() == n.states@.len(), map[0] != 1,
        forall|s: int| 0 <= s < map.len() && s != 1 && #[trigger] map[s] != 1 ==> done.contains(s),
        forall|s: int, c: char| done.contains(s) && #[trigger] nfa_edges(n, s).contains_key(c) ==> 0 <= s < map.len() && map[nfa_edges(n, s)[c] as int] != 1,
        0 <= t < map.len(), t != 1,
    ensures map[t] != 1,
    decreases t,
{
    if t >= 2 {
        let p = nfa_parent(n, t);
        assert(nfa_parent_ok(n, t, p));
        lemma_all_placed(n, map, done, p.0);
        assert(done.contains(p.0));
        assert(nfa_edges(n, p.0).contains_key(p.1));
    }
}

// the (key, value) pairs delivered by BTreeMap::iter have pairwise distinct keys
proof fn lemma_iter_keys_distinct(m: Map<char, u32>, rem: Seq<(&char, &u32)>)
    requires rem.no_duplicates(),
        forall|i: int| 0 <= i < rem.len() ==> m.contains_key(*(#[trigger] rem[i]).0) && m[*rem[i].0] == *rem[i].1,
    ensures forall|i: int, j: int| 0 <= i < rem.len() && 0 <= j < rem.len() && i != j ==> *(#[trigger] rem[i]).0 != *(#[trigger] rem[j]).0,
{
    assert forall|i: int, j: int| 0 <= i < rem.len() && 0 <= j < rem.len() && i != j implies *(#[trigger] rem[i]).0 != *(#[trigger] rem[j]).0 by {
        if *rem[i].0 == *rem[j].0 {
            assert(*rem[i].1 == *rem[j].1);
            assert(rem[i] == rem[j]);
        }
    }
}

// the code mapper covers every label of the NFA with a code below the alphabet size, injectively
spec fn mapper_covers<V>(n: NfaBuilder<char, V>, table: Seq<u32>, alphabet_size: u32) -> bool {
    &&& forall|s: int, c: char| 0 <= s < n.states@.len() && #[trigger] nfa_edges(n, s).contains_key(c) ==>
            map_code(table, c as u32).is_some() && map_code(table, c as u32).unwrap() < alphabet_size
    &&& forall|c1: char, c2: char| map_code(table, c1 as u32).is_some() && #[trigger] map_code(table, c1 as u32) == #[trigger] map_code(table, c2 as u32) ==> c1 == c2
}

spec fn pair_ok<V>(n: NfaBuilder<char, V>, sid: int, table: Seq<u32>, p: (u32, u32)) -> bool {
    exists|label: char| pair_of(n, sid, table, label, p)
}
spec fn pair_of<V>(n: NfaBuilder<char, V>, sid: int, table: Seq<u32>, label: char, p: (u32, u32)) -> bool {
    nfa_edges(n, sid).contains_key(label) && nfa_edges(n, sid)[label] == p.1 && map_code(table, label as u32) == Some(p.0)
}

// a permutation has the same elements
proof fn lemma_perm_contains<T>(a: Seq<T>, b: Seq<T>)
    requires a.to_multiset() == b.to_multiset(),
    ensures forall|x: T| a.contains(x) <==> b.contains(x),
        a.no_duplicates() ==> b.no_duplicates(),
{
    a.to_multiset_ensures();
    b.to_multiset_ensures();
    assert forall|x: T| a.contains(x) <==> b.contains(x) by {
        assert(a.contains(x) <==> a.to_multiset().count(x) > 0);
        assert(b.contains(x) <==> b.to_multiset().count(x) > 0);
    }
    if a.no_duplicates() {
        a.lemma_multiset_has_no_duplicates();
        b.lemma_multiset_has_no_duplicates_conv();
    }
}

// trusted: char's Ord is a total order consistent with == (vstd ships this law for the integer types only)
#[verifier::external_body]
proof fn axiom_char_key_model()
    ensures vstd::std_specs::btree::key_obeys_cmp_spec::<char>(),
{
}

// the sorted (code, child id) list of one NFA state: exactly its edges, codes pairwise distinct and below the block length
spec fn mapped_ok<V>(n: NfaBuilder<char, V>, sid: int, table: Seq<u32>, bl: u32, m: Seq<(u32, u32)>) -> bool {
    &&& forall|i: int| 0 <= i < m.len() ==> pair_ok(n, sid, table, #[trigger] m[i]) && m[i].0 < bl && 2 <= m[i].1 < n.states@.len()
    &&& forall|i: int, j: int| 0 <= i < m.len() && 0 <= j < m.len() && i != j ==> (#[trigger] m[i]).0 != (#[trigger] m[j]).0
    &&& forall|label: char| nfa_edges(n, sid).contains_key(label) ==> exists|i: int| 0 <= i < m.len() && pair_of(n, sid, table, label, #[trigger] m[i])
}

proof fn lemma_mapped_ok<V>(n: NfaBuilder<char, V>, sid: int, table: Seq<u32>, asz: u32, bl: u32, m0: Seq<(u32, u32)>, s1: Seq<(u32, u32)>)
    requires
        nfa_tree(n), 0 <= sid < n.states@.len(), mapper_covers(n, table, asz), asz <= bl,
        m0.to_multiset() == s1.to_multiset(), m0.no_duplicates(),
        forall|i: int| 0 <= i < m0.len() ==> pair_ok(n, sid, table, #[trigger] m0[i]),
        forall|label: char| nfa_edges(n, sid).contains_key(label) ==> exists|i: int| 0 <= i < m0.len() && pair_of(n, sid, table, label, #[trigger] m0[i]),
    ensures mapped_ok(n, sid, table, bl, s1),
{
    lemma_perm_contains(m0, s1);
    assert forall|i: int| 0 <= i < s1.len() implies pair_ok(n, sid, table, #[trigger] s1[i]) && s1[i].0 < bl && 2 <= s1[i].1 < n.states@.len() by {
        assert(s1.contains(s1[i]));
        assert(m0.contains(s1[i]));
        let j = choose|j: int| 0 <= j < m0.len() && m0[j] == s1[i];
        assert(pair_ok(n, sid, table, m0[j]));
        let label = choose|label: char| pair_of(n, sid, table, label, s1[i]);
        assert(nfa_edges(n, sid).contains_key(label));
    }
    assert forall|i: int, j: int| 0 <= i < s1.len() && 0 <= j < s1.len() && i != j implies (#[trigger] s1[i]).0 != (#[trigger] s1[j]).0 by {
        if s1[i].0 == s1[j].0 {
            let li = choose|label: char| pair_of(n, sid, table, label, s1[i]);
            let lj = choose|label: char| pair_of(n, sid, table, label, s1[j]);
            assert(map_code(table, li as u32) == map_code(table, lj as u32));
            assert(li == lj);
            assert(s1[i] == s1[j]);
        }
    }
    assert forall|label: char| nfa_edges(n, sid).contains_key(label) implies exists|i: int| 0 <= i < s1.len() && pair_of(n, sid, table, label, #[trigger] s1[i]) by {
        let j = choose|j: int| 0 <= j < m0.len() && pair_of(n, sid, table, label, #[trigger] m0[j]);
        assert(m0.contains(m0[j]));
        assert(s1.contains(m0[j]));
        let i = choose|i: int| 0 <= i < s1.len() && s1[i] == m0[j];
        assert(pair_of(n, sid, table, label, s1[i]));
    }
}

// ---- stage B: the partially built array encodes the placed part of the NFA ----
spec fn code_of(table: Seq<u32>, c: char) -> u32 { map_code(table, c as u32).unwrap() }

// inv: slot -> NFA id, the inverse of the placement map on non-root states
spec fn cwb_inv<V>(n: NfaBuilder<char, V>, map: Seq<u32>, inv: Map<int, int>) -> bool {
    &&& !inv.contains_key(0) && !inv.contains_key(1)
    &&& forall|t: int| 2 <= t < map.len() && #[trigger] map[t] != 1 ==> inv.contains_key(map[t] as int) && inv[map[t] as int] == t
    &&& forall|y: int| #[trigger] inv.contains_key(y) ==> 2 <= inv[y] < map.len() && map[inv[y]] == y
}
// slots that hold no state keep the default CHECK (the dead index), occupied slots carry their parent's slot
spec fn cwb_check<V>(n: NfaBuilder<char, V>, st: Seq<State>, map: Seq<u32>, inv: Map<int, int>) -> bool {
    &&& forall|y: int| 0 <= y < st.len() && !inv.contains_key(y) ==> (#[trigger] st[y]).check == 1
    &&& forall|y: int| #[trigger] inv.contains_key(y) ==> 0 <= y < st.len() && st[y].check == map[nfa_parent(n, inv[y]).0]
}
// states whose children are placed have their BASE; every BASE belongs to such a state (owner: slot -> NFA id)
spec fn cwb_base<V>(n: NfaBuilder<char, V>, st: Seq<State>, table: Seq<u32>, map: Seq<u32>, done: Set<int>, owner: Map<int, int>) -> bool {
    &&& forall|s: int, c: char| done.contains(s) && #[trigger] nfa_edges(n, s).contains_key(c) ==>
            st[map[s] as int].base.is_some() && map[nfa_edges(n, s)[c] as int] == st[map[s] as int].base.unwrap()@ ^ code_of(table, c)
    &&& forall|y: int| 0 <= y < st.len() && (#[trigger] st[y]).base.is_some() ==>
            owner.contains_key(y) && done.contains(owner[y]) && 0 <= owner[y] < map.len() && map[owner[y]] == y
}
spec fn cwb_used(inv: Map<int, int>, h: BuildHelper) -> bool {
    forall|y: int| #[trigger] inv.contains_key(y) && h_active(h, y) ==> h_used_index(h, y)
}
// every placed non-root state has a finished parent (cur: the state being processed, -1 if none)
spec fn cwb_parent<V>(n: NfaBuilder<char, V>, map: Seq<u32>, done: Set<int>, cur: int) -> bool {
    forall|t: int| 2 <= t < map.len() && #[trigger] map[t] != 1 ==> done.contains(nfa_parent(n, t).0) || nfa_parent(n, t).0 == cur
}

// what build_double_array establishes: the array encodes the NFA through the placement map idmap
spec fn cw_encodes<V>(st: Seq<State>, table: Seq<u32>, n: NfaBuilder<char, V>, idmap: Seq<u32>) -> bool {
    let len = n.states@.len();
    &&& idmap.len() == len && idmap[0] == 0
    &&& forall|t: int| 0 <= t < len && t != 1 ==> (#[trigger] idmap[t]) < st.len() && idmap[t] != 1
    &&& forall|t1: int, t2: int| 0 <= t1 < len && 0 <= t2 < len && t1 != 1 && t2 != 1 && #[trigger] idmap[t1] == #[trigger] idmap[t2] ==> t1 == t2
    // every NFA edge is an edge of the array
    &&& forall|s: int, c: char| 0 <= s < len && s != 1 && #[trigger] nfa_edges(n, s).contains_key(c) ==> {
            let x = idmap[nfa_edges(n, s)[c] as int];
            &&& st[idmap[s] as int].base.is_some()
            &&& x == st[idmap[s] as int].base.unwrap()@ ^ code_of(table, c)
            &&& st[x as int].check == idmap[s]
        }
    // and the array has no other edge out of a state slot
    &&& forall|s: int, mc: u32| 0 <= s < len && s != 1 && st[idmap[s] as int].base.is_some()
            && 0 <= #[trigger] (st[idmap[s] as int].base.unwrap()@ ^ mc) < st.len()
            && st[(st[idmap[s] as int].base.unwrap()@ ^ mc) as int].check == idmap[s] ==>
            exists|c: char| nfa_edges(n, s).contains_key(c) && code_of(table, c) == mc
                && idmap[nfa_edges(n, s)[c] as int] == (st[idmap[s] as int].base.unwrap()@ ^ mc)
    // fail links and output positions are copied through idmap
    &&& forall|s: int| 0 <= s < len && s != 1 ==> (#[trigger] st[idmap[s] as int]).fail == (if n.states@[s].fail == 1 { 1u32 } else { idmap[n.states@[s].fail as int] })
            && st[idmap[s] as int].output_pos == n.states@[s].output_pos
}
