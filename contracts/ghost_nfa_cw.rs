// ---- ghost view of the sparse NFA handed to the double-array stage (assumed contract of the NFA stage) ----
spec fn nfa_edges<V>(n: NfaBuilder<char, V>, s: int) -> Map<char, u32> { n.states@[s].edges@ }

// structure: state 0 = root, 1 = dead; ids >= 2 form a tree below the root, children have larger ids than parents
spec fn nfa_tree<V>(n: NfaBuilder<char, V>) -> bool {
    let len = n.states@.len();
    &&& 2 <= len <= u32::MAX as nat + 1
    &&& forall|c: char| !nfa_edges(n, 1).contains_key(c)
    &&& forall|s: int, c: char| 0 <= s < len && #[trigger] nfa_edges(n, s).contains_key(c) ==>
            2 <= nfa_edges(n, s)[c] < len && s < nfa_edges(n, s)[c]
    &&& forall|t: int| 2 <= t < len ==> nfa_parent_ok(n, t, #[trigger] nfa_parent(n, t))
    &&& forall|s: int| 0 <= s < len ==> (#[trigger] n.states@[s]).fail < len
    // the creating edge is the only edge into a state
    &&& forall|s: int, c: char| 0 <= s < len && #[trigger] nfa_edges(n, s).contains_key(c) ==> nfa_parent(n, nfa_edges(n, s)[c] as int) == (s, c)
}
// witness of "every state >= 2 has a parent" (the edge that created it)
spec fn nfa_parent<V>(n: NfaBuilder<char, V>, t: int) -> (int, char) {
    choose|p: (int, char)| nfa_parent_ok(n, t, p)
}
spec fn nfa_parent_ok<V>(n: NfaBuilder<char, V>, t: int, p: (int, char)) -> bool {
    0 <= p.0 < t && p.0 != 1 && nfa_edges(n, p.0).contains_key(p.1) && nfa_edges(n, p.0)[p.1] == t
}

// every state below the root is placed once the work list is empty
proof fn lemma_all_placed<V>(n: NfaBuilder<char, V>, map: Seq<u32>, done: Set<int>, t: int)
    requires
        nfa_tree(n), map.len() == n.states@.len(), map[0] != 1,
        forall|s: int| 0 <= s < map.len() && s != 1 && #[trigger] map[s] != 1 ==> done.contains(s),
        forall|s: int, c: char| done.contains(s) && #[trigger] nfa_edges(n, s).contains_key(c) ==> 0 <= s < map.len() && map[nfa_edges(n, s)[c] as int] != 1,
        0 <= t < map.len(), t != 1,
    ensures map[t] != 1,
    decreases t,
{
    if t >= 2 {
        let p = nfa_parent(n, t);
        assert(nfa_parent_ok(n, t, p));
        lemma_all_placed(n, map, done, p.0);
        assert(done.contains(p.0));
        assert(nfa_edges(n, p.0).contains_key(p.1));
    }
}

// the (key, value) pairs delivered by BTreeMap::iter have pairwise distinct keys
proof fn lemma_iter_keys_distinct(m: Map<char, u32>, rem: Seq<(&char, &u32)>)
    requires rem.no_duplicates(),
        forall|i: int| 0 <= i < rem.len() ==> m.contains_key(*(#[trigger] rem[i]).0) && m[*rem[i].0] == *rem[i].1,
    ensures forall|i: int, j: int| 0 <= i < rem.len() && 0 <= j < rem.len() && i != j ==> *(#[trigger] rem[i]).0 != *(#[trigger] rem[j]).0,
{
    assert forall|i: int, j: int| 0 <= i < rem.len() && 0 <= j < rem.len() && i != j implies *(#[trigger] rem[i]).0 != *(#[trigger] rem[j]).0 by {
        if *rem[i].0 == *rem[j].0 {
            assert(*rem[i].1 == *rem[j].1);
            assert(rem[i] == rem[j]);
        }
    }
}

// the code mapper covers every label of the NFA with a code below the alphabet size, injectively
spec fn mapper_covers<V>(n: NfaBuilder<char, V>, table: Seq<u32>, alphabet_size: u32) -> bool {
    &&& forall|s: int, c: char| 0 <= s < n.states@.len() && #[trigger] nfa_edges(n, s).contains_key(c) ==>
            map_code(table, c as u32).is_some() && map_code(table, c as u32).unwrap() < alphabet_size
    &&& forall|c1: char, c2: char| map_code(table, c1 as u32).is_some() && #[trigger] map_code(table, c1 as u32) == #[trigger] map_code(table, c2 as u32) ==> c1 == c2
}

spec fn pair_ok<V>(n: NfaBuilder<char, V>, sid: int, table: Seq<u32>, p: (u32, u32)) -> bool {
    exists|label: char| pair_of(n, sid, table, label, p)
}
spec fn pair_of<V>(n: NfaBuilder<char, V>, sid: int, table: Seq<u32>, label: char, p: (u32, u32)) -> bool {
    nfa_edges(n, sid).contains_key(label) && nfa_edges(n, sid)[label] == p.1 && map_code(table, label as u32) == Some(p.0)
}

//@include ghost_perm.rs
// trusted: char's Ord is a total order consistent with == (vstd ships this law for the integer types only)
#[verifier::external_body]
proof fn axiom_char_key_model()
    ensures vstd::std_specs::btree::key_obeys_cmp_spec::<char>(),
{
}

// the sorted (code, child id) list of one NFA state: exactly its edges, codes pairwise distinct and below the block length
spec fn mapped_ok<V>(n: NfaBuilder<char, V>, sid: int, table: Seq<u32>, bl: u32, m: Seq<(u32, u32)>) -> bool {
    &&& forall|i: int| 0 <= i < m.len() ==> pair_ok(n, sid, table, #[trigger] m[i]) && m[i].0 < bl && 2 <= m[i].1 < n.states@.len()
    &&& forall|i: int, j: int| 0 <= i < m.len() && 0 <= j < m.len() && i != j ==> (#[trigger] m[i]).0 != (#[trigger] m[j]).0
    &&& forall|label: char| nfa_edges(n, sid).contains_key(label) ==> exists|i: int| 0 <= i < m.len() && pair_of(n, sid, table, label, #[trigger] m[i])
}

proof fn lemma_mapped_ok<V>(n: NfaBuilder<char, V>, sid: int, table: Seq<u32>, asz: u32, bl: u32, m0: Seq<(u32, u32)>, s1: Seq<(u32, u32)>)
    requires
        nfa_tree(n), 0 <= sid < n.states@.len(), mapper_covers(n, table, asz), asz <= bl,
        m0.to_multiset() == s1.to_multiset(), m0.no_duplicates(),
        forall|i: int| 0 <= i < m0.len() ==> pair_ok(n, sid, table, #[trigger] m0[i]),
        forall|label: char| nfa_edges(n, sid).contains_key(label) ==> exists|i: int| 0 <= i < m0.len() && pair_of(n, sid, table, label, #[trigger] m0[i]),
    ensures mapped_ok(n, sid, table, bl, s1),
{
    lemma_perm_contains(m0, s1);
    assert forall|i: int| 0 <= i < s1.len() implies pair_ok(n, sid, table, #[trigger] s1[i]) && s1[i].0 < bl && 2 <= s1[i].1 < n.states@.len() by {
        assert(s1.contains(s1[i]));
        assert(m0.contains(s1[i]));
        let j = choose|j: int| 0 <= j < m0.len() && m0[j] == s1[i];
        assert(pair_ok(n, sid, table, m0[j]));
        let label = choose|label: char| pair_of(n, sid, table, label, s1[i]);
        assert(nfa_edges(n, sid).contains_key(label));
    }
    assert forall|i: int, j: int| 0 <= i < s1.len() && 0 <= j < s1.len() && i != j implies (#[trigger] s1[i]).0 != (#[trigger] s1[j]).0 by {
        if s1[i].0 == s1[j].0 {
            let li = choose|label: char| pair_of(n, sid, table, label, s1[i]);
            let lj = choose|label: char| pair_of(n, sid, table, label, s1[j]);
            assert(map_code(table, li as u32) == map_code(table, lj as u32));
            assert(li == lj);
            assert(s1[i] == s1[j]);
        }
    }
    assert forall|label: char| nfa_edges(n, sid).contains_key(label) implies exists|i: int| 0 <= i < s1.len() && pair_of(n, sid, table, label, #[trigger] s1[i]) by {
        let j = choose|j: int| 0 <= j < m0.len() && pair_of(n, sid, table, label, #[trigger] m0[j]);
        assert(m0.contains(m0[j]));
        assert(s1.contains(m0[j]));
        let i = choose|i: int| 0 <= i < s1.len() && s1[i] == m0[j];
        assert(pair_of(n, sid, table, label, s1[i]));
    }
}

// ---- stage B: the partially built array encodes the placed part of the NFA ----
spec fn code_of(table: Seq<u32>, c: char) -> u32 { map_code(table, c as u32).unwrap() }
// what build_double_array establishes: the array encodes the NFA through the placement map idmap
#[verifier::opaque]
spec fn cw_encodes<V>(st: Seq<State>, table: Seq<u32>, n: NfaBuilder<char, V>, idmap: Seq<u32>) -> bool {
    let len = n.states@.len();
    &&& idmap.len() == len && idmap[0] == 0
    &&& forall|t: int| 0 <= t < len && t != 1 ==> (#[trigger] idmap[t]) < st.len() && idmap[t] != 1
    &&& forall|t1: int, t2: int| 0 <= t1 < len && 0 <= t2 < len && t1 != 1 && t2 != 1 && #[trigger] idmap[t1] == #[trigger] idmap[t2] ==> t1 == t2
    // every NFA edge is an edge of the array
    &&& forall|s: int, c: char| 0 <= s < len && s != 1 && #[trigger] nfa_edges(n, s).contains_key(c) ==> {
            let x = idmap[nfa_edges(n, s)[c] as int];
            &&& st[idmap[s] as int].base.is_some()
            &&& x == st[idmap[s] as int].base.unwrap()@ ^ code_of(table, c)
            &&& st[x as int].check == idmap[s]
        }
    // and the array has no other edge out of a state slot
    &&& forall|s: int, mc: u32| 0 <= s < len && s != 1 && st[idmap[s] as int].base.is_some()
            && 0 <= #[trigger] (st[idmap[s] as int].base.unwrap()@ ^ mc) < st.len()
            && st[(st[idmap[s] as int].base.unwrap()@ ^ mc) as int].check == idmap[s] ==>
            exists|c: char| nfa_edges(n, s).contains_key(c) && code_of(table, c) == mc
                && idmap[nfa_edges(n, s)[c] as int] == (st[idmap[s] as int].base.unwrap()@ ^ mc)
    // fail links and output positions are copied through idmap
    &&& forall|s: int| 0 <= s < len && s != 1 ==> (#[trigger] st[idmap[s] as int]).fail == (if n.states@[s].fail == 1 { 1u32 } else { idmap[n.states@[s].fail as int] })
            && st[idmap[s] as int].output_pos == n.states@[s].output_pos
}

// pointwise accessors of the opaque cw_encodes
proof fn lemma_enc_basic<V>(st: Seq<State>, table: Seq<u32>, n: NfaBuilder<char, V>, idmap: Seq<u32>, t: int)
    requires cw_encodes(st, table, n, idmap), 0 <= t < n.states@.len(), t != 1,
    ensures idmap.len() == n.states@.len(), idmap[0] == 0, idmap[t] < st.len(), idmap[t] != 1,
        st[idmap[t] as int].fail == (if n.states@[t].fail == 1 { 1u32 } else { idmap[n.states@[t].fail as int] }),
        st[idmap[t] as int].output_pos == n.states@[t].output_pos,
{ reveal(cw_encodes); }

proof fn lemma_enc_inj<V>(st: Seq<State>, table: Seq<u32>, n: NfaBuilder<char, V>, idmap: Seq<u32>, t1: int, t2: int)
    requires cw_encodes(st, table, n, idmap), 0 <= t1 < n.states@.len(), 0 <= t2 < n.states@.len(), t1 != 1, t2 != 1, idmap[t1] == idmap[t2],
    ensures t1 == t2,
{ reveal(cw_encodes); }

proof fn lemma_enc_edge<V>(st: Seq<State>, table: Seq<u32>, n: NfaBuilder<char, V>, idmap: Seq<u32>, s: int, c: char)
    requires cw_encodes(st, table, n, idmap), 0 <= s < n.states@.len(), s != 1, nfa_edges(n, s).contains_key(c),
    ensures st[idmap[s] as int].base.is_some(),
        idmap[nfa_edges(n, s)[c] as int] == st[idmap[s] as int].base.unwrap()@ ^ code_of(table, c),
        st[idmap[nfa_edges(n, s)[c] as int] as int].check == idmap[s],
{ reveal(cw_encodes); }

proof fn lemma_enc_nospur<V>(st: Seq<State>, table: Seq<u32>, n: NfaBuilder<char, V>, idmap: Seq<u32>, s: int, mc: u32) -> (c: char)
    requires cw_encodes(st, table, n, idmap), 0 <= s < n.states@.len(), s != 1, st[idmap[s] as int].base.is_some(),
        0 <= (st[idmap[s] as int].base.unwrap()@ ^ mc) < st.len(),
        st[(st[idmap[s] as int].base.unwrap()@ ^ mc) as int].check == idmap[s],
    ensures nfa_edges(n, s).contains_key(c), code_of(table, c) == mc,
        idmap[nfa_edges(n, s)[c] as int] == (st[idmap[s] as int].base.unwrap()@ ^ mc),
{
    reveal(cw_encodes);
    choose|c: char| nfa_edges(n, s).contains_key(c) && code_of(table, c) == mc && idmap[nfa_edges(n, s)[c] as int] == (st[idmap[s] as int].base.unwrap()@ ^ mc)
}

// slots that hold no automaton state keep OUTPUT_POS == None
spec fn slot_used_cw<V>(n: NfaBuilder<char, V>, idmap: Seq<u32>, x: int) -> bool {
    exists|s: int| 0 <= s < n.states@.len() && s != 1 && #[trigger] idmap[s] == x
}
spec fn cw_built<V>(st: Seq<State>, table: Seq<u32>, n: NfaBuilder<char, V>, idmap: Seq<u32>) -> bool {
    &&& cw_encodes(st, table, n, idmap)
    &&& forall|x: int| 0 <= x < st.len() ==> (#[trigger] st[x]).output_pos.is_none() || slot_used_cw(n, idmap, x)
}

// termination measure of the placement loop: the set of finished states grows inside 0..n
proof fn lemma_done_grows(done: Set<int>, sid: int, n: int)
    requires done.subset_of(vstd::set_lib::set_int_range(0, n)), 0 <= sid < n, !done.contains(sid),
    ensures done.insert(sid).subset_of(vstd::set_lib::set_int_range(0, n)), done.insert(sid).len() == done.len() + 1, done.insert(sid).len() <= n,
{
    vstd::set_lib::lemma_int_range(0, n);
    vstd::set_lib::lemma_len_subset(done.insert(sid), vstd::set_lib::set_int_range(0, n));
}

