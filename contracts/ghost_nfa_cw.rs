// ---- ghost view of the sparse NFA handed to the double-array stage (assumed contract of the NFA stage) ----
spec fn nfa_edges<V>(n: NfaBuilder<char, V>, s: int) -> Map<char, u32> { n.states@[s].edges@ }

// structure: state 0 = root, 1 = dead; ids >= 2 form a tree below the root, children have larger ids than parents
spec fn nfa_tree<V>(n: NfaBuilder<char, V>) -> bool {
    let len = n.states@.len();
    &&& 2 <= len <= u32::MAX as nat + 1
    &&& forall|c: char| !nfa_edges(n, 1).contains_key(c)
    &&& forall|s: int, c: char| 0 <= s < len && #[trigger] nfa_edges(n, s).contains_key(c) ==>
            2 <= nfa_edges(n, s)[c] < len && s < nfa_edges(n, s)[c]
    &&& forall|t: int| 2 <= t < len ==> nfa_parent_ok(n, t, #[trigger] nfa_parent(n, t))
    &&& forall|s: int| 0 <= s < len ==> (#[trigger] n.states@[s]).fail < len
    // the creating edge is the only edge into a state
    &&& forall|s: int, c: char| 0 <= s < len && #[trigger] nfa_edges(n, s).contains_key(c) ==> nfa_parent(n, nfa_edges(n, s)[c] as int) == (s, c)
}
// witness of "every state >= 2 has a parent" (the edge that created it)
spec fn nfa_parent<V>(n: NfaBuilder<char, V>, t: int) -> (int, char) {
    choose|p: (int, char)| nfa_parent_ok(n, t, p)
}
spec fn nfa_parent_ok<V>(n: NfaBuilder<char, V>, t: int, p: (int, char)) -> bool {
    0 <= p.0 < t && p.0 != 1 && nfa_edges(n, p.0).contains_key(p.1) && nfa_edges(n, p.0)[p.1] == t
}

// every state below the root is placed once the work list is empty
proof fn lemma_all_placed<V>(n: NfaBuilder<char, V>, map: Seq<u32>, done: Set<int>, t: int)
    requires
        nfa_tree(n), map.len() == n.states@.len(), map[0] != 1,
        forall|s: int| 0 <= s < map.len() && s != 1 && #[trigger] map[s] != 1 ==> done.contains(s),
        forall|s: int, c: char| done.contains(s) && #[trigger] nfa_edges(n, s).contains_key(c) ==> 0 <= s < map.len() && map[nfa_edges(n, s)[c] as int] != 1,
        0 <= t < map.len(), t != 1,
    ensures map[t] != 1,
    decreases t,
{
    if t >= 2 {
        let p = nfa_parent(n, t);
        assert(nfa_parent_ok(n, t, p));
        lemma_all_placed(n, map, done, p.0);
        assert(done.contains(p.0));
        assert(nfa_edges(n, p.0).contains_key(p.1));
    }
}

// the (key, value) pairs delivered by BTreeMap::iter have pairwise distinct keys
proof fn lemma_iter_keys_distinct(m: Map<char, u32>, rem: Seq<(&char, &u32)>)
    requires rem.no_duplicates(),
        forall|i: int| 0 <= i < rem.len() ==> m.contains_key(*(#[trigger] rem[i]).0) && m[*rem[i].0] == *rem[i].1,
    ensures forall|i: int, j: int| 0 <= i < rem.len() && 0 <= j < rem.len() && i != j ==> *(#[trigger] rem[i]).0 != *(#[trigger] rem[j]).0,
{
    assert forall|i: int, j: int| 0 <= i < rem.len() && 0 <= j < rem.len() && i != j implies *(#[trigger] rem[i]).0 != *(#[trigger] rem[j]).0 by {
        if *rem[i].0 == *rem[j].0 {
            assert(*rem[i].1 == *rem[j].1);
            assert(rem[i] == rem[j]);
        }
    }
}

// the code mapper covers every label of the NFA with a code below the alphabet size, injectively
spec fn mapper_covers<V>(n: NfaBuilder<char, V>, table: Seq<u32>, alphabet_size: u32) -> bool {
    &&& forall|s: int, c: char| 0 <= s < n.states@.len() && #[trigger] nfa_edges(n, s).contains_key(c) ==>
            map_code(table, c as u32).is_some() && map_code(table, c as u32).unwrap() < alphabet_size
    &&& forall|c1: char, c2: char| map_code(table, c1 as u32).is_some() && #[trigger] map_code(table, c1 as u32) == #[trigger] map_code(table, c2 as u32) ==> c1 == c2
}

spec fn pair_ok<V>(n: NfaBuilder<char, V>, sid: int, table: Seq<u32>, p: (u32, u32)) -> bool {
    exists|label: char| pair_of(n, sid, table, label, p)
}
spec fn pair_of<V>(n: NfaBuilder<char, V>, sid: int, table: Seq<u32>, label: char, p: (u32, u32)) -> bool {
    nfa_edges(n, sid).contains_key(label) && nfa_edges(n, sid)[label] == p.1 && map_code(table, label as u32) == Some(p.0)
}

//@include ghost_perm.rs
// trusted: char's Ord is a total order consistent with == (vstd ships this law for the integer types only)
#[verifier::external_body]
proof fn axiom_char_key_model()
    ensures vstd::std_specs::btree::key_obeys_cmp_spec::<char>(),
{
}

// the sorted (code, child id) list of one NFA state: exactly its edges, codes pairwise distinct and below the block length
spec fn mapped_ok<V>(n: NfaBuilder<char, V>, sid: int, table: Seq<u32>, bl: u32, m: Seq<(u32, u32)>) -> bool {
    &&& forall|i: int| 0 <= i < m.len() ==> pair_ok(n, sid, table, #[trigger] m[i]) && m[i].0 < bl && 2 <= m[i].1 < n.states@.len()
    &&& forall|i: int, j: int| 0 <= i < m.len() && 0 <= j < m.len() && i != j ==> (#[trigger] m[i]).0 != (#[trigger] m[j]).0
    &&& forall|label: char| nfa_edges(n, sid).contains_key(label) ==> exists|i: int| 0 <= i < m.len() && pair_of(n, sid, table, label, #[trigger] m[i])
}

proof fn lemma_mapped_ok<V>(n: NfaBuilder<char, V>, sid: int, table: Seq<u32>, asz: u32, bl: u32, m0: Seq<(u32, u32)>, s1: Seq<(u32, u32)>)
    requires
        nfa_tree(n), 0 <= sid < n.states@.len(), mapper_covers(n, table, asz), asz <= bl,
        m0.to_multiset() == s1.to_multiset(), m0.no_duplicates(),
        forall|i: int| 0 <= i < m0.len() ==> pair_ok(n, sid, table, #[trigger] m0[i]),
        forall|label: char| nfa_edges(n, sid).contains_key(label) ==> exists|i: int| 0 <= i < m0.len() && pair_of(n, sid, table, label, #[trigger] m0[i]),
    ensures mapped_ok(n, sid, table, bl, s1),
{
    lemma_perm_contains(m0, s1);
    assert forall|i: int| 0 <= i < s1.len() implies pair_ok(n, sid, table, #[trigger] s1[i]) && s1[i].0 < bl && 2 <= s1[i].1 < n.states@.len() by {
        assert(s1.contains(s1[i]));
        assert(m0.contains(s1[i]));
        let j = choose|j: int| 0 <= j < m0.len() && m0[j] == s1[i];
        assert(pair_ok(n, sid, table, m0[j]));
        let label = choose|label: char| pair_of(n, sid, table, label, s1[i]);
        assert(nfa_edges(n, sid).contains_key(label));
    }
    assert forall|i: int, j: int| 0 <= i < s1.len() && 0 <= j < s1.len() && i != j implies (#[trigger] s1[i]).0 != (#[trigger] s1[j]).0 by {
        if s1[i].0 == s1[j].0 {
            let li = choose|label: char| pair_of(n, sid, table, label, s1[i]);
            let lj = choose|label: char| pair_of(n, sid, table, label, s1[j]);
            assert(map_code(table, li as u32) == map_code(table, lj as u32));
            assert(li == lj);
            assert(s1[i] == s1[j]);
        }
    }
    assert forall|label: char| nfa_edges(n, sid).contains_key(label) implies exists|i: int| 0 <= i < s1.len() && pair_of(n, sid, table, label, #[trigger] s1[i]) by {
        let j = choose|j: int| 0 <= j < m0.len() && pair_of(n, sid, table, label, #[trigger] m0[j]);
        assert(m0.contains(m0[j]));
        assert(s1.contains(m0[j]));
        let i = choose|i: int| 0 <= i < s1.len() && s1[i] == m0[j];
        assert(pair_of(n, sid, table, label, s1[i]));
    }
}

// ---- stage B: the partially built array encodes the placed part of the NFA ----
spec fn code_of(table: Seq<u32>, c: char) -> u32 { map_code(table, c as u32).unwrap() }


// the array `st` encodes the placed part of the NFA.
//   map: NFA id -> slot (1 = not placed), inv: slot -> NFA id (non-root states), owner: slot with a BASE -> NFA id,
//   done: states whose children are all placed, cur: the state whose children are being placed (-1: none),
//   with BASE `base` and sorted (code, child) list s1 of which the first k are placed.
#[verifier::opaque]
spec fn cwb<V>(n: NfaBuilder<char, V>, st: Seq<State>, tb: Seq<u32>, map: Seq<u32>, inv: Map<int, int>, owner: Map<int, int>,
               done: Set<int>, cur: int, base: u32, s1: Seq<(u32, u32)>, k: int) -> bool {
    let len = n.states@.len();
    // (A) the placement map
    &&& map.len() == len && map[0] == 0 && map[1] == 1
    &&& forall|t: int| 0 <= t < len ==> (#[trigger] map[t]) < st.len()
    // (B) inv is its inverse on the non-root states
    &&& !inv.contains_key(0) && !inv.contains_key(1)
    &&& forall|t: int| 2 <= t < len && #[trigger] map[t] != 1 ==> inv.contains_key(map[t] as int) && inv[map[t] as int] == t
    &&& forall|y: int| #[trigger] inv.contains_key(y) ==> 2 <= inv[y] < len && map[inv[y]] == y && 0 <= y < st.len()
    // (C) CHECK: the parent's slot for occupied slots, the dead index everywhere else
    &&& forall|y: int| 0 <= y < st.len() && !inv.contains_key(y) ==> (#[trigger] st[y]).check == 1
    &&& forall|y: int| #[trigger] inv.contains_key(y) ==> st[y].check == map[nfa_parent(n, inv[y]).0]
    // (D) BASE: finished states have theirs and their children sit at base ^ code; every BASE has an owner
    &&& forall|s: int, c: char| done.contains(s) && #[trigger] nfa_edges(n, s).contains_key(c) ==>
            st[map[s] as int].base.is_some() && map[nfa_edges(n, s)[c] as int] == st[map[s] as int].base.unwrap()@ ^ code_of(tb, c)
    &&& forall|y: int| 0 <= y < st.len() && (#[trigger] st[y]).base.is_some() ==>
            owner.contains_key(y) && done.contains(owner[y]) && 0 <= owner[y] < len && map[owner[y]] == y
    // (E) placed non-root states have a finished (or the current) parent; (F) finished states are placed
    &&& forall|t: int| 2 <= t < len && #[trigger] map[t] != 1 ==> done.contains(nfa_parent(n, t).0) || nfa_parent(n, t).0 == cur
    &&& forall|s: int| #[trigger] done.contains(s) ==> 0 <= s < len && s != 1 && map[s] != 1
    // (G) the state in progress
    &&& (cur >= 0 ==> {
            &&& 0 <= cur < len && cur != 1 && map[cur] != 1 && !done.contains(cur) && 0 <= k <= s1.len()
            &&& forall|j: int| 0 <= j < k ==> map[(#[trigger] s1[j]).1 as int] == base ^ s1[j].0
            &&& forall|j: int| k <= j < s1.len() ==> map[(#[trigger] s1[j]).1 as int] == 1
            &&& forall|t: int| 2 <= t < len && #[trigger] map[t] != 1 && nfa_parent(n, t).0 == cur ==> exists|j: int| 0 <= j < k && s1[j].1 == t
        })
}

spec fn map0(len: nat) -> Seq<u32> { Seq::new(len, |i: int| if i == 0 { 0u32 } else { 1u32 }) }

proof fn lemma_cwb_init<V>(n: NfaBuilder<char, V>, st: Seq<State>, tb: Seq<u32>, map: Seq<u32>)
    requires nfa_tree(n), st.len() >= 2, map.len() == n.states@.len(), map[0] == 0,
        forall|t: int| 1 <= t < map.len() ==> #[trigger] map[t] == 1,
        forall|y: int| 0 <= y < st.len() ==> (#[trigger] st[y]).check == 1 && st[y].base.is_none(),
    ensures cwb(n, st, tb, map, Map::empty(), Map::empty(), Set::empty(), -1, 0, Seq::empty(), 0),
{
    reveal(cwb);
}

proof fn lemma_cwb_facts<V>(n: NfaBuilder<char, V>, st: Seq<State>, tb: Seq<u32>, map: Seq<u32>, inv: Map<int, int>, owner: Map<int, int>,
                            done: Set<int>, cur: int, base: u32, s1: Seq<(u32, u32)>, k: int)
    requires cwb(n, st, tb, map, inv, owner, done, cur, base, s1, k),
    ensures map.len() == n.states@.len(), map[0] == 0, map[1] == 1,
        !inv.contains_key(0) && !inv.contains_key(1),
        forall|y: int| #[trigger] inv.contains_key(y) ==> 0 <= y < st.len(),
        forall|s: int| #[trigger] done.contains(s) ==> 0 <= s < map.len() && s != 1 && map[s] != 1,
{
    reveal(cwb);
}

// a leaf (no edges) is finished without touching the array
proof fn lemma_cwb_leaf<V>(n: NfaBuilder<char, V>, st: Seq<State>, tb: Seq<u32>, map: Seq<u32>, inv: Map<int, int>, owner: Map<int, int>,
                           done: Set<int>, sid: int)
    requires cwb(n, st, tb, map, inv, owner, done, -1, 0, Seq::empty(), 0), 0 <= sid < n.states@.len(), sid != 1, map[sid] != 1,
        forall|c: char| !nfa_edges(n, sid).contains_key(c),
    ensures cwb(n, st, tb, map, inv, owner, done.insert(sid), -1, 0, Seq::empty(), 0),
{
    reveal(cwb);
}

// a new block of default states is appended
proof fn lemma_cwb_extend<V>(n: NfaBuilder<char, V>, st: Seq<State>, st2: Seq<State>, tb: Seq<u32>, map: Seq<u32>, inv: Map<int, int>, owner: Map<int, int>,
                             done: Set<int>, cur: int, base: u32, s1: Seq<(u32, u32)>, k: int)
    requires cwb(n, st, tb, map, inv, owner, done, cur, base, s1, k), st2.len() >= st.len(),
        forall|y: int| 0 <= y < st.len() ==> #[trigger] st2[y] == st[y],
        forall|y: int| st.len() <= y < st2.len() ==> (#[trigger] st2[y]).check == 1 && st2[y].base.is_none(),
    ensures cwb(n, st2, tb, map, inv, owner, done, cur, base, s1, k),
{
    reveal(cwb);
    assert forall|y: int| 0 <= y < st2.len() && !inv.contains_key(y) implies (#[trigger] st2[y]).check == 1 by { if y < st.len() { assert(st2[y] == st[y]); } }
    assert forall|y: int| #[trigger] inv.contains_key(y) implies st2[y].check == map[nfa_parent(n, inv[y]).0] by { assert(st2[y] == st[y]); }
    assert forall|s: int, c: char| done.contains(s) && #[trigger] nfa_edges(n, s).contains_key(c) implies
            st2[map[s] as int].base.is_some() && map[nfa_edges(n, s)[c] as int] == st2[map[s] as int].base.unwrap()@ ^ code_of(tb, c) by {
        assert(st2[map[s] as int] == st[map[s] as int]);
    }
    assert forall|y: int| 0 <= y < st2.len() && (#[trigger] st2[y]).base.is_some() implies
            owner.contains_key(y) && done.contains(owner[y]) && 0 <= owner[y] < n.states@.len() && map[owner[y]] == y by {
        if y < st.len() { assert(st2[y] == st[y]); }
    }
}

// start placing the children of sid: none of them is placed yet
proof fn lemma_cwb_begin<V>(n: NfaBuilder<char, V>, st: Seq<State>, tb: Seq<u32>, map: Seq<u32>, inv: Map<int, int>, owner: Map<int, int>,
                            done: Set<int>, sid: int, base: u32, bl: u32, s1: Seq<(u32, u32)>)
    requires cwb(n, st, tb, map, inv, owner, done, -1, 0, Seq::empty(), 0), nfa_tree(n), 0 <= sid < n.states@.len(), sid != 1, map[sid] != 1, !done.contains(sid),
        mapped_ok(n, sid, tb, bl, s1),
    ensures cwb(n, st, tb, map, inv, owner, done, sid, base, s1, 0),
{
    reveal(cwb);
    assert forall|j: int| 0 <= j < s1.len() implies map[(#[trigger] s1[j]).1 as int] == 1 by {
        let t = s1[j].1 as int;
        let label = choose|label: char| pair_of(n, sid, tb, label, s1[j]);
        assert(nfa_edges(n, sid).contains_key(label));
        assert(nfa_parent(n, t) == (sid, label));
        if map[t] != 1 { assert(done.contains(nfa_parent(n, t).0) || nfa_parent(n, t).0 == -1); }
    }
    assert forall|t: int| 2 <= t < n.states@.len() && #[trigger] map[t] != 1 && nfa_parent(n, t).0 == sid implies exists|j: int| 0 <= j < 0 && s1[j].1 == t by {
        assert(done.contains(nfa_parent(n, t).0) || nfa_parent(n, t).0 == -1);
    }
}

// one child placed: slot y = base ^ code gets CHECK = slot of sid, the child's id is recorded
proof fn lemma_cwb_step<V>(n: NfaBuilder<char, V>, st: Seq<State>, st2: Seq<State>, tb: Seq<u32>, map: Seq<u32>, map2: Seq<u32>, inv: Map<int, int>, owner: Map<int, int>,
                           done: Set<int>, sid: int, base: u32, bl: u32, s1: Seq<(u32, u32)>, k: int)
    requires cwb(n, st, tb, map, inv, owner, done, sid, base, s1, k), nfa_tree(n), mapped_ok(n, sid, tb, bl, s1), 0 <= k < s1.len(), 0 <= sid,
        ({ let y = (base ^ s1[k].0) as int; let child = s1[k].1 as int;
           &&& 2 <= y < st.len() && !inv.contains_key(y)
           &&& st2.len() == st.len() && st2[y] == (State { check: map[sid], ..st[y] })
           &&& forall|z: int| 0 <= z < st.len() && z != y ==> #[trigger] st2[z] == st[z]
           &&& map2 == map.update(child, y as u32) }),
    ensures cwb(n, st2, tb, map2, inv.insert((base ^ s1[k].0) as int, s1[k].1 as int), owner, done, sid, base, s1, k + 1),
{
    let len = n.states@.len();
    let y = (base ^ s1[k].0) as int; let child = s1[k].1 as int;
    let inv2 = inv.insert(y, child);
    assert(pair_ok(n, sid, tb, s1[k]));
    let label = choose|label: char| pair_of(n, sid, tb, label, s1[k]);
    assert(nfa_edges(n, sid).contains_key(label) && nfa_edges(n, sid)[label] == child);
    assert(0 <= sid < len) by { reveal(cwb); }
    assert(nfa_parent(n, nfa_edges(n, sid)[label] as int) == (sid, label));
    assert(nfa_parent(n, child) == (sid, label));
    reveal(cwb);
    assert(map[child] == 1);
    assert(2 <= child < len);
    // no placed state sits at y
    assert forall|t: int| 0 <= t < len && t != child implies #[trigger] map2[t] == map[t] && map[t] != y by {
        if map[t] == y { if t >= 2 { assert(inv.contains_key(map[t] as int)); } }
    }
    assert forall|t: int| 0 <= t < len implies (#[trigger] map2[t]) < st2.len() by { if t != child { assert(map2[t] == map[t]); } }
    assert forall|t: int| 2 <= t < len && #[trigger] map2[t] != 1 implies inv2.contains_key(map2[t] as int) && inv2[map2[t] as int] == t by {
        if t != child { assert(map2[t] == map[t]); assert(inv.contains_key(map[t] as int)); }
    }
    assert forall|z: int| #[trigger] inv2.contains_key(z) implies 2 <= inv2[z] < len && map2[inv2[z]] == z && 0 <= z < st2.len() by {
        if z != y { assert(inv.contains_key(z)); assert(inv[z] != child) by { if inv[z] == child { assert(map[inv[z]] == z); } } }
    }
    assert forall|z: int| 0 <= z < st2.len() && !inv2.contains_key(z) implies (#[trigger] st2[z]).check == 1 by { assert(z != y); assert(st2[z] == st[z]); }
    assert forall|z: int| #[trigger] inv2.contains_key(z) implies st2[z].check == map2[nfa_parent(n, inv2[z]).0] by {
        if z == y { assert(map2[sid] == map[sid]) by { assert(sid != child); } }
        else {
            assert(inv.contains_key(z)); assert(st2[z] == st[z]);
            let p = nfa_parent(n, inv[z]).0;
            assert(nfa_parent_ok(n, inv[z], nfa_parent(n, inv[z])));
            assert(p != child) by { if p == child { assert(map[inv[z]] != 1); assert(done.contains(p) || p == sid); } }
        }
    }
    assert forall|s: int, c: char| done.contains(s) && #[trigger] nfa_edges(n, s).contains_key(c) implies
            st2[map2[s] as int].base.is_some() && map2[nfa_edges(n, s)[c] as int] == st2[map2[s] as int].base.unwrap()@ ^ code_of(tb, c) by {
        assert(s != child); assert(map2[s] == map[s]); assert(map[s] != y) by { if s >= 2 { assert(inv.contains_key(map[s] as int)); } }
        assert(st2[map[s] as int] == st[map[s] as int]);
        let t = nfa_edges(n, s)[c] as int;
        assert(t != child) by { if t == child { assert(nfa_parent(n, child) == (s, c)); } }
    }
    assert forall|z: int| 0 <= z < st2.len() && (#[trigger] st2[z]).base.is_some() implies
            owner.contains_key(z) && done.contains(owner[z]) && 0 <= owner[z] < len && map2[owner[z]] == z by {
        assert(st[z].base == st2[z].base);
        assert(owner[z] != child);
    }
    assert forall|t: int| 2 <= t < len && #[trigger] map2[t] != 1 implies done.contains(nfa_parent(n, t).0) || nfa_parent(n, t).0 == sid by {
        if t != child { assert(map2[t] == map[t]); }
    }
    assert forall|s: int| #[trigger] done.contains(s) implies 0 <= s < len && s != 1 && map2[s] != 1 by { assert(s != child); }
    assert(map2[sid] == map[sid]);
    assert forall|j: int| 0 <= j < k + 1 implies map2[(#[trigger] s1[j]).1 as int] == base ^ s1[j].0 by {
        if j < k { assert(s1[j].1 != s1[k].1) by { if s1[j].1 == s1[k].1 { let lj = choose|l: char| pair_of(n, sid, tb, l, s1[j]); assert(nfa_parent(n, child) == (sid, lj)); assert(lj == label); } } }
    }
    assert forall|j: int| k + 1 <= j < s1.len() implies map2[(#[trigger] s1[j]).1 as int] == 1 by {
        assert(s1[j].1 != s1[k].1) by { if s1[j].1 == s1[k].1 { let lj = choose|l: char| pair_of(n, sid, tb, l, s1[j]); assert(nfa_parent(n, child) == (sid, lj)); assert(lj == label); } }
    }
    assert forall|t: int| 2 <= t < len && #[trigger] map2[t] != 1 && nfa_parent(n, t).0 == sid implies exists|j: int| 0 <= j < k + 1 && s1[j].1 == t by {
        if t == child { assert(s1[k].1 == t); }
        else { assert(map2[t] == map[t]); let j = choose|j: int| 0 <= j < k && s1[j].1 == t; assert(0 <= j < k + 1 && s1[j].1 == t); }
    }
}

// all children placed: the state receives its BASE and is finished
proof fn lemma_cwb_finish<V>(n: NfaBuilder<char, V>, st: Seq<State>, st2: Seq<State>, tb: Seq<u32>, map: Seq<u32>, inv: Map<int, int>, owner: Map<int, int>,
                             done: Set<int>, sid: int, base: NonZeroU32, bl: u32, s1: Seq<(u32, u32)>)
    requires cwb(n, st, tb, map, inv, owner, done, sid, base@, s1, s1.len() as int), nfa_tree(n), mapped_ok(n, sid, tb, bl, s1),
        ({ let x = map[sid] as int;
           &&& 0 <= sid < map.len() && 0 <= x < st.len()
           &&& st2.len() == st.len() && st2[x] == (State { base: Some(base), ..st[x] })
           &&& forall|z: int| 0 <= z < st.len() && z != x ==> #[trigger] st2[z] == st[z] }),
    ensures cwb(n, st2, tb, map, inv, owner.insert(map[sid] as int, sid), done.insert(sid), -1, 0, Seq::empty(), 0),
{
    reveal(cwb);
    let len = n.states@.len(); let x = map[sid] as int;
    let owner2 = owner.insert(x, sid); let done2 = done.insert(sid);
    assert forall|z: int| 0 <= z < st2.len() && !inv.contains_key(z) implies (#[trigger] st2[z]).check == 1 by { assert(st2[z].check == st[z].check); }
    assert forall|z: int| #[trigger] inv.contains_key(z) implies st2[z].check == map[nfa_parent(n, inv[z]).0] by { assert(st2[z].check == st[z].check); }
    assert forall|s: int, c: char| done2.contains(s) && #[trigger] nfa_edges(n, s).contains_key(c) implies
            st2[map[s] as int].base.is_some() && map[nfa_edges(n, s)[c] as int] == st2[map[s] as int].base.unwrap()@ ^ code_of(tb, c) by {
        if s == sid {
            let j = choose|j: int| 0 <= j < s1.len() && pair_of(n, sid, tb, c, #[trigger] s1[j]);
            assert(map[s1[j].1 as int] == base@ ^ s1[j].0);
        } else {
            // distinct placed states occupy distinct slots
            assert(map[s] != x) by {
                if map[s] == x {
                    if s >= 2 { assert(inv[map[s] as int] == s); if sid >= 2 { assert(inv[map[sid] as int] == sid); } else { assert(!inv.contains_key(0)); } }
                    else { assert(s == 0); if sid >= 2 { assert(inv.contains_key(map[sid] as int)); } }
                }
            }
            assert(st2[map[s] as int] == st[map[s] as int]);
        }
    }
    assert forall|z: int| 0 <= z < st2.len() && (#[trigger] st2[z]).base.is_some() implies
            owner2.contains_key(z) && done2.contains(owner2[z]) && 0 <= owner2[z] < len && map[owner2[z]] == z by {
        if z != x { assert(st2[z] == st[z]); }
    }
    assert forall|t: int| 2 <= t < len && #[trigger] map[t] != 1 implies done2.contains(nfa_parent(n, t).0) || nfa_parent(n, t).0 == -1 by { }
}

// what build_double_array establishes: the array encodes the NFA through the placement map idmap
#[verifier::opaque]
spec fn cw_encodes<V>(st: Seq<State>, table: Seq<u32>, n: NfaBuilder<char, V>, idmap: Seq<u32>) -> bool {
    let len = n.states@.len();
    &&& idmap.len() == len && idmap[0] == 0
    &&& forall|t: int| 0 <= t < len && t != 1 ==> (#[trigger] idmap[t]) < st.len() && idmap[t] != 1
    &&& forall|t1: int, t2: int| 0 <= t1 < len && 0 <= t2 < len && t1 != 1 && t2 != 1 && #[trigger] idmap[t1] == #[trigger] idmap[t2] ==> t1 == t2
    // every NFA edge is an edge of the array
    &&& forall|s: int, c: char| 0 <= s < len && s != 1 && #[trigger] nfa_edges(n, s).contains_key(c) ==> {
            let x = idmap[nfa_edges(n, s)[c] as int];
            &&& st[idmap[s] as int].base.is_some()
            &&& x == st[idmap[s] as int].base.unwrap()@ ^ code_of(table, c)
            &&& st[x as int].check == idmap[s]
        }
    // and the array has no other edge out of a state slot
    &&& forall|s: int, mc: u32| 0 <= s < len && s != 1 && st[idmap[s] as int].base.is_some()
            && 0 <= #[trigger] (st[idmap[s] as int].base.unwrap()@ ^ mc) < st.len()
            && st[(st[idmap[s] as int].base.unwrap()@ ^ mc) as int].check == idmap[s] ==>
            exists|c: char| nfa_edges(n, s).contains_key(c) && code_of(table, c) == mc
                && idmap[nfa_edges(n, s)[c] as int] == (st[idmap[s] as int].base.unwrap()@ ^ mc)
    // fail links and output positions are copied through idmap
    &&& forall|s: int| 0 <= s < len && s != 1 ==> (#[trigger] st[idmap[s] as int]).fail == (if n.states@[s].fail == 1 { 1u32 } else { idmap[n.states@[s].fail as int] })
            && st[idmap[s] as int].output_pos == n.states@[s].output_pos
}

// pointwise accessors of the opaque cwb (cur = -1 form)
proof fn lemma_cwb_basic<V>(n: NfaBuilder<char, V>, st: Seq<State>, tb: Seq<u32>, map: Seq<u32>, inv: Map<int, int>, owner: Map<int, int>, done: Set<int>, t: int)
    requires cwb(n, st, tb, map, inv, owner, done, -1, 0, Seq::empty(), 0), 0 <= t < n.states@.len(),
    ensures map.len() == n.states@.len(), map[0] == 0, map[1] == 1, map[t] < st.len(), !inv.contains_key(0), !inv.contains_key(1),
        t >= 2 && map[t] != 1 ==> inv.contains_key(map[t] as int) && inv[map[t] as int] == t,
{ reveal(cwb); }

proof fn lemma_cwb_slot<V>(n: NfaBuilder<char, V>, st: Seq<State>, tb: Seq<u32>, map: Seq<u32>, inv: Map<int, int>, owner: Map<int, int>, done: Set<int>, y: int)
    requires cwb(n, st, tb, map, inv, owner, done, -1, 0, Seq::empty(), 0), 0 <= y < st.len(),
    ensures !inv.contains_key(y) ==> st[y].check == 1,
        inv.contains_key(y) ==> 2 <= inv[y] < n.states@.len() && map[inv[y]] == y && st[y].check == map[nfa_parent(n, inv[y]).0],
{ reveal(cwb); }

proof fn lemma_cwb_done_edge<V>(n: NfaBuilder<char, V>, st: Seq<State>, tb: Seq<u32>, map: Seq<u32>, inv: Map<int, int>, owner: Map<int, int>, done: Set<int>, s: int, c: char)
    requires cwb(n, st, tb, map, inv, owner, done, -1, 0, Seq::empty(), 0), done.contains(s), nfa_edges(n, s).contains_key(c),
    ensures st[map[s] as int].base.is_some(), map[nfa_edges(n, s)[c] as int] == st[map[s] as int].base.unwrap()@ ^ code_of(tb, c),
{ reveal(cwb); }

proof fn lemma_cwb_map_inj<V>(n: NfaBuilder<char, V>, st: Seq<State>, tb: Seq<u32>, map: Seq<u32>, inv: Map<int, int>, owner: Map<int, int>, done: Set<int>, t1: int, t2: int)
    requires cwb(n, st, tb, map, inv, owner, done, -1, 0, Seq::empty(), 0), 0 <= t1 < n.states@.len(), 0 <= t2 < n.states@.len(), t1 != 1, t2 != 1,
        map[t1] != 1, map[t2] != 1, map[t1] == map[t2],
    ensures t1 == t2,
{
    lemma_cwb_basic(n, st, tb, map, inv, owner, done, t1);
    lemma_cwb_basic(n, st, tb, map, inv, owner, done, t2);
}

proof fn lemma_cwb_final<V>(n: NfaBuilder<char, V>, st: Seq<State>, stf: Seq<State>, tb: Seq<u32>, map: Seq<u32>, inv: Map<int, int>, owner: Map<int, int>, done: Set<int>)
    requires cwb(n, st, tb, map, inv, owner, done, -1, 0, Seq::empty(), 0), nfa_tree(n),
        forall|t: int| 0 <= t < n.states@.len() && t != 1 ==> #[trigger] map[t] != 1 && done.contains(t),
        stf.len() == st.len(),
        forall|y: int| 0 <= y < st.len() ==> (#[trigger] stf[y]).base == st[y].base && stf[y].check == st[y].check,
        forall|s: int| 0 <= s < n.states@.len() && s != 1 ==> (#[trigger] stf[map[s] as int]).fail == (if n.states@[s].fail == 1 { 1u32 } else { map[n.states@[s].fail as int] })
            && stf[map[s] as int].output_pos == n.states@[s].output_pos,
    ensures cw_encodes(stf, tb, n, map),
{
    let len = n.states@.len();
    lemma_cwb_basic(n, st, tb, map, inv, owner, done, 0);
    assert forall|t: int| 0 <= t < len && t != 1 implies (#[trigger] map[t]) < stf.len() && map[t] != 1 by {
        lemma_cwb_basic(n, st, tb, map, inv, owner, done, t);
    }
    assert forall|t1: int, t2: int| 0 <= t1 < len && 0 <= t2 < len && t1 != 1 && t2 != 1 && #[trigger] map[t1] == #[trigger] map[t2] implies t1 == t2 by {
        lemma_cwb_map_inj(n, st, tb, map, inv, owner, done, t1, t2);
    }
    assert forall|s: int, c: char| 0 <= s < len && s != 1 && #[trigger] nfa_edges(n, s).contains_key(c) implies ({
            let x = map[nfa_edges(n, s)[c] as int];
            &&& stf[map[s] as int].base.is_some()
            &&& x == stf[map[s] as int].base.unwrap()@ ^ code_of(tb, c)
            &&& stf[x as int].check == map[s]
        }) by {
        let t = nfa_edges(n, s)[c] as int;
        lemma_cwb_done_edge(n, st, tb, map, inv, owner, done, s, c);
        lemma_cwb_basic(n, st, tb, map, inv, owner, done, s);
        lemma_cwb_basic(n, st, tb, map, inv, owner, done, t);
        assert(nfa_parent(n, t) == (s, c));
        lemma_cwb_slot(n, st, tb, map, inv, owner, done, map[t] as int);
    }
    assert forall|s: int, mc: u32| 0 <= s < len && s != 1 && stf[map[s] as int].base.is_some()
            && 0 <= #[trigger] (stf[map[s] as int].base.unwrap()@ ^ mc) < stf.len()
            && stf[(stf[map[s] as int].base.unwrap()@ ^ mc) as int].check == map[s] implies
            exists|c: char| nfa_edges(n, s).contains_key(c) && code_of(tb, c) == mc
                && map[nfa_edges(n, s)[c] as int] == (stf[map[s] as int].base.unwrap()@ ^ mc) by {
        lemma_cwb_basic(n, st, tb, map, inv, owner, done, s);
        let b = stf[map[s] as int].base.unwrap()@;
        let x = (b ^ mc) as int;
        lemma_cwb_slot(n, st, tb, map, inv, owner, done, x);
        assert(st[x].check == map[s] && map[s] != 1);
        assert(inv.contains_key(x));
        let t = inv[x];
        let p = nfa_parent(n, t);
        assert(nfa_parent_ok(n, t, p));
        lemma_cwb_basic(n, st, tb, map, inv, owner, done, p.0);
        lemma_cwb_map_inj(n, st, tb, map, inv, owner, done, p.0, s);
        let c = p.1;
        lemma_cwb_done_edge(n, st, tb, map, inv, owner, done, s, c);
        lemma_xor_inj_cw(b, mc, code_of(tb, c));
        assert(nfa_edges(n, s).contains_key(c) && code_of(tb, c) == mc && map[nfa_edges(n, s)[c] as int] == (b ^ mc));
    }
    reveal(cw_encodes);
}

// pointwise accessors of the opaque cw_encodes
proof fn lemma_enc_basic<V>(st: Seq<State>, table: Seq<u32>, n: NfaBuilder<char, V>, idmap: Seq<u32>, t: int)
    requires cw_encodes(st, table, n, idmap), 0 <= t < n.states@.len(), t != 1,
    ensures idmap.len() == n.states@.len(), idmap[0] == 0, idmap[t] < st.len(), idmap[t] != 1,
        st[idmap[t] as int].fail == (if n.states@[t].fail == 1 { 1u32 } else { idmap[n.states@[t].fail as int] }),
        st[idmap[t] as int].output_pos == n.states@[t].output_pos,
{ reveal(cw_encodes); }

proof fn lemma_enc_inj<V>(st: Seq<State>, table: Seq<u32>, n: NfaBuilder<char, V>, idmap: Seq<u32>, t1: int, t2: int)
    requires cw_encodes(st, table, n, idmap), 0 <= t1 < n.states@.len(), 0 <= t2 < n.states@.len(), t1 != 1, t2 != 1, idmap[t1] == idmap[t2],
    ensures t1 == t2,
{ reveal(cw_encodes); }

proof fn lemma_enc_edge<V>(st: Seq<State>, table: Seq<u32>, n: NfaBuilder<char, V>, idmap: Seq<u32>, s: int, c: char)
    requires cw_encodes(st, table, n, idmap), 0 <= s < n.states@.len(), s != 1, nfa_edges(n, s).contains_key(c),
    ensures st[idmap[s] as int].base.is_some(),
        idmap[nfa_edges(n, s)[c] as int] == st[idmap[s] as int].base.unwrap()@ ^ code_of(table, c),
        st[idmap[nfa_edges(n, s)[c] as int] as int].check == idmap[s],
{ reveal(cw_encodes); }

proof fn lemma_enc_nospur<V>(st: Seq<State>, table: Seq<u32>, n: NfaBuilder<char, V>, idmap: Seq<u32>, s: int, mc: u32) -> (c: char)
    requires cw_encodes(st, table, n, idmap), 0 <= s < n.states@.len(), s != 1, st[idmap[s] as int].base.is_some(),
        0 <= (st[idmap[s] as int].base.unwrap()@ ^ mc) < st.len(),
        st[(st[idmap[s] as int].base.unwrap()@ ^ mc) as int].check == idmap[s],
    ensures nfa_edges(n, s).contains_key(c), code_of(table, c) == mc,
        idmap[nfa_edges(n, s)[c] as int] == (st[idmap[s] as int].base.unwrap()@ ^ mc),
{
    reveal(cw_encodes);
    choose|c: char| nfa_edges(n, s).contains_key(c) && code_of(table, c) == mc && idmap[nfa_edges(n, s)[c] as int] == (st[idmap[s] as int].base.unwrap()@ ^ mc)
}

// slots that hold no automaton state keep OUTPUT_POS == None
spec fn slot_used_cw<V>(n: NfaBuilder<char, V>, idmap: Seq<u32>, x: int) -> bool {
    exists|s: int| 0 <= s < n.states@.len() && s != 1 && #[trigger] idmap[s] == x
}
spec fn cw_built<V>(st: Seq<State>, table: Seq<u32>, n: NfaBuilder<char, V>, idmap: Seq<u32>) -> bool {
    &&& cw_encodes(st, table, n, idmap)
    &&& forall|x: int| 0 <= x < st.len() ==> (#[trigger] st[x]).output_pos.is_none() || slot_used_cw(n, idmap, x)
}

// termination measure of the placement loop: the set of finished states grows inside 0..n
proof fn lemma_done_grows(done: Set<int>, sid: int, n: int)
    requires done.subset_of(vstd::set_lib::set_int_range(0, n)), 0 <= sid < n, !done.contains(sid),
    ensures done.insert(sid).subset_of(vstd::set_lib::set_int_range(0, n)), done.insert(sid).len() == done.len() + 1, done.insert(sid).len() <= n,
{
    vstd::set_lib::lemma_int_range(0, n);
    vstd::set_lib::lemma_len_subset(done.insert(sid), vstd::set_lib::set_int_range(0, n));
}
