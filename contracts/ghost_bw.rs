// ---- ghost vocabulary for the byte-wise double array (spec/proof only) ----

// what the `// SAFETY`-style comments in bytewise.rs claim about the array
spec fn da_safe(st: Seq<State>) -> bool {
    &&& st.len() > 0
    &&& st.len() % 256 == 0
    &&& st.len() <= u32::MAX
    &&& forall|i: int| 0 <= i < st.len() ==> ((#[trigger] st[i]).base.is_some() ==> st[i].base.unwrap()@ < st.len())
}

spec fn bw_child(st: Seq<State>, s: int, c: u8) -> Option<u32> {
    match st[s].base {
        None => None,
        Some(b) => {
            let x = b@ ^ (c as u32);
            if st_check(st[x as int]) == c { Some(x) } else { None }
        }
    }
}

proof fn lemma_xor_in_block(b: u32, c: u8, len: u64)
    requires b < len, len % 256 == 0,
    ensures (b ^ (c as u32)) < len,
{
    assert(b < len && len % 256 == 0 ==> ((b ^ (c as u32)) as u64) < len) by(bit_vector);
}

// ranking witness: which slots are automaton states and their depth
struct Wit { live: Set<int>, rank: Seq<nat> }

spec fn da_ranked(st: Seq<State>, lm: bool, w: Wit) -> bool {
    &&& w.rank.len() == st.len()
    &&& w.live.contains(0)
    &&& !w.live.contains(1)
    &&& w.rank[0] == 0
    &&& forall|s: int| #[trigger] w.live.contains(s) ==> 0 <= s < st.len()
    &&& forall|s: int, c: u8| w.live.contains(s) && (#[trigger] bw_child(st, s, c)).is_some() ==>
            w.live.contains(bw_child(st, s, c).unwrap() as int)
            && w.rank[bw_child(st, s, c).unwrap() as int] == w.rank[s] + 1
    &&& forall|s: int| #[trigger] w.live.contains(s) && s != 0 ==>
            (w.live.contains(st[s].fail as int) && w.rank[st[s].fail as int] < w.rank[s])
            || (lm && st[s].fail == 1)
}

spec fn bw_wf(st: Seq<State>, lm: bool) -> bool {
    da_safe(st) && exists|w: Wit| da_ranked(st, lm, w)
}
spec fn bw_wit(st: Seq<State>, lm: bool) -> Wit { choose|w: Wit| da_ranked(st, lm, w) }
spec fn bw_live(st: Seq<State>, lm: bool, s: int) -> bool { bw_wit(st, lm).live.contains(s) }
spec fn bw_rank(st: Seq<State>, lm: bool, s: int) -> nat { bw_wit(st, lm).rank[s] }

// goto/fail transition of the standard automaton
spec fn bw_delta(st: Seq<State>, s: int, c: u8) -> int
    decreases bw_rank(st, false, s)
    when bw_wf(st, false) && bw_live(st, false, s)
{
    match bw_child(st, s, c) {
        Some(t) => t as int,
        None => if s == 0 { 0 } else { bw_delta(st, st[s].fail as int, c) },
    }
}

// transition of the leftmost automaton (dead fail => restart at root)
spec fn bw_delta_lm(st: Seq<State>, s: int, c: u8) -> int
    decreases bw_rank(st, true, s)
    when bw_wf(st, true) && bw_live(st, true, s)
{
    match bw_child(st, s, c) {
        Some(t) => t as int,
        None => if s == 0 || st[s].fail == 1 { 0 } else { bw_delta_lm(st, st[s].fail as int, c) },
    }
}

proof fn lemma_root_live(st: Seq<State>, lm: bool)
    requires bw_wf(st, lm),
    ensures bw_live(st, lm, 0), st.len() > 1,
{
    let w = bw_wit(st, lm);
    assert(da_ranked(st, lm, w));
}
