// ---- ghost vocabulary for the byte-wise double array (spec/proof only) ----

// what the `// SAFETY`-style comments in bytewise.rs claim about the array
spec fn da_safe(st: Seq<State>) -> bool {
    &&& st.len() > 0
    &&& st.len() % 256 == 0
    &&& st.len() <= u32::MAX
    &&& forall|i: int| 0 <= i < st.len() ==> ((#[trigger] st[i]).base.is_some() ==> st[i].base.unwrap()@ < st.len())
}

spec fn bw_child(st: Seq<State>, s: int, c: u8) -> Option<u32> {
    match st[s].base {
        None => None,
        Some(b) => {
            let x = b@ ^ (c as u32);
            if st_check(st[x as int]) == c { Some(x) } else { None }
        }
    }
}

proof fn lemma_xor_in_block(b: u32, c: u8, len: u64)
    requires b < len, len % 256 == 0,
    ensures (b ^ (c as u32)) < len,
{
    assert(b < len && len % 256 == 0 ==> ((b ^ (c as u32)) as u64) < len) by(bit_vector);
}

// ranking witness: which slots are automaton states and their depth
struct Wit { live: Set<int>, rank: Seq<nat> }

spec fn da_ranked(st: Seq<State>, lm: bool, w: Wit) -> bool {
    &&& w.rank.len() == st.len()
    &&& w.live.contains(0)
    &&& !w.live.contains(1)
    &&& w.rank[0] == 0
    &&& forall|s: int| #[trigger] w.live.contains(s) ==> 0 <= s < st.len()
    &&& forall|s: int, c: u8| w.live.contains(s) && (#[trigger] bw_child(st, s, c)).is_some() ==>
            w.live.contains(bw_child(st, s, c).unwrap() as int)
            && w.rank[bw_child(st, s, c).unwrap() as int] == w.rank[s] + 1
    &&& forall|s: int| #[trigger] w.live.contains(s) && s != 0 ==>
            (w.live.contains(st[s].fail as int) && w.rank[st[s].fail as int] < w.rank[s])
            || (lm && st[s].fail == 1)
}

spec fn bw_wf(st: Seq<State>, lm: bool) -> bool {
    da_safe(st) && exists|w: Wit| da_ranked(st, lm, w)
}
spec fn bw_wit(st: Seq<State>, lm: bool) -> Wit { choose|w: Wit| da_ranked(st, lm, w) }
spec fn bw_live(st: Seq<State>, lm: bool, s: int) -> bool { bw_wit(st, lm).live.contains(s) }
spec fn bw_rank(st: Seq<State>, lm: bool, s: int) -> nat { bw_wit(st, lm).rank[s] }

// goto/fail transition of the standard automaton
spec fn bw_delta(st: Seq<State>, s: int, c: u8) -> int
    decreases bw_rank(st, false, s)
    when bw_wf(st, false) && bw_live(st, false, s)
{
    match bw_child(st, s, c) {
        Some(t) => t as int,
        None => if s == 0 { 0 } else { bw_delta(st, st[s].fail as int, c) },
    }
}

// transition of the leftmost automaton (dead fail => restart at root)
spec fn bw_delta_lm(st: Seq<State>, s: int, c: u8) -> int
    decreases bw_rank(st, true, s)
    when bw_wf(st, true) && bw_live(st, true, s)
{
    match bw_child(st, s, c) {
        Some(t) => t as int,
        None => if s == 0 || st[s].fail == 1 { 0 } else { bw_delta_lm(st, st[s].fail as int, c) },
    }
}

proof fn lemma_root_live(st: Seq<State>, lm: bool)
    requires bw_wf(st, lm),
    ensures bw_live(st, lm, 0), st.len() > 1,
{
    let w = bw_wit(st, lm);
    assert(da_ranked(st, lm, w));
}

// ---- C13, the 2n bound: fail moves per transition and over a whole scan (standard automaton) ----
// number of fail-link moves next_state_id_unchecked makes from state s on byte c
spec fn bw_fsteps(st: Seq<State>, s: int, c: u8) -> nat
    decreases bw_rank(st, false, s)
    when bw_wf(st, false) && bw_live(st, false, s)
{
    match bw_child(st, s, c) {
        Some(_) => 0,
        None => if s == 0 { 0 } else { 1 + bw_fsteps(st, st[s].fail as int, c) },
    }
}
proof fn lemma_delta_live(st: Seq<State>, s: int, c: u8)
    requires bw_wf(st, false), bw_live(st, false, s),
    ensures bw_live(st, false, bw_delta(st, s, c)),
    decreases bw_rank(st, false, s),
{
    let w = bw_wit(st, false);
    assert(da_ranked(st, false, w));
    match bw_child(st, s, c) {
        Some(t) => { assert(w.live.contains(bw_child(st, s, c).unwrap() as int)); }
        None => { if s != 0 { lemma_delta_live(st, st[s].fail as int, c); } }
    }
}
// potential argument for one transition: fail moves are paid for by depth
proof fn lemma_fsteps_rank(st: Seq<State>, s: int, c: u8)
    requires bw_wf(st, false), bw_live(st, false, s),
    ensures bw_fsteps(st, s, c) + bw_rank(st, false, bw_delta(st, s, c)) <= bw_rank(st, false, s) + 1,
    decreases bw_rank(st, false, s),
{
    let w = bw_wit(st, false);
    assert(da_ranked(st, false, w));
    match bw_child(st, s, c) {
        Some(t) => { assert(w.rank[bw_child(st, s, c).unwrap() as int] == w.rank[s] + 1); }
        None => { if s != 0 { lemma_fsteps_rank(st, st[s].fail as int, c); } }
    }
}
// state after reading hay from s, and the number of automaton transitions (goto, fail or stay-at-root moves) taken on the way
spec fn bw_run(st: Seq<State>, s: int, hay: Seq<u8>) -> int
    decreases hay.len()
{
    if hay.len() == 0 { s } else { bw_run(st, bw_delta(st, s, hay[0]), hay.skip(1)) }
}
spec fn bw_moves(st: Seq<State>, s: int, hay: Seq<u8>) -> nat
    decreases hay.len()
{
    if hay.len() == 0 { 0 } else { bw_fsteps(st, s, hay[0]) + 1 + bw_moves(st, bw_delta(st, s, hay[0]), hay.skip(1)) }
}
// the advertised linear running time: scanning n bytes from any live state s takes at most 2n + depth(s) transitions;
// from the root (depth 0) at most 2n
proof fn lemma_moves_bound(st: Seq<State>, s: int, hay: Seq<u8>)
    requires bw_wf(st, false), bw_live(st, false, s),
    ensures bw_moves(st, s, hay) + bw_rank(st, false, bw_run(st, s, hay)) <= bw_rank(st, false, s) + 2 * hay.len(),
        bw_live(st, false, bw_run(st, s, hay)),
    decreases hay.len(),
{
    if hay.len() > 0 {
        lemma_fsteps_rank(st, s, hay[0]);
        lemma_delta_live(st, s, hay[0]);
        lemma_moves_bound(st, bw_delta(st, s, hay[0]), hay.skip(1));
    }
}
proof fn lemma_moves_from_root(st: Seq<State>, hay: Seq<u8>)
    requires bw_wf(st, false),
    ensures bw_moves(st, 0, hay) <= 2 * hay.len(),
{
    lemma_root_live(st, false);
    let w = bw_wit(st, false);
    assert(da_ranked(st, false, w));
    lemma_moves_bound(st, 0, hay);
}
