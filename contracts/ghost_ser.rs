// ---- ghost vocabulary for serialisation ----
spec fn le_u32(x: u32) -> Seq<u8> {
    seq![(x & 0xff) as u8, ((x >> 8) & 0xff) as u8, ((x >> 16) & 0xff) as u8, ((x >> 24) & 0xff) as u8]
}

proof fn lemma_nz_ext(a: NonZeroU32, b: NonZeroU32)
    requires a@ == b@,
    ensures a == b,
{
    broadcast use vstd::std_specs::nonzero::group_nonzero_axioms;
    assert(vstd::std_specs::nonzero::nonzero_from_primitive::<u32>(a@) == a);
    assert(vstd::std_specs::nonzero::nonzero_from_primitive::<u32>(b@) == b);
}

// serialisation of a sequence of fixed-width items, front to back
spec fn ser_seq<S: Serializable>(s: Seq<S>) -> Seq<u8>
    decreases s.len()
{
    if s.len() == 0 { Seq::empty() } else { s[0].ser_spec() + ser_seq(s.skip(1)) }
}

proof fn lemma_ser_seq_push<S: Serializable>(s: Seq<S>, x: S)
    ensures ser_seq(s.push(x)) =~= ser_seq(s) + x.ser_spec(),
    decreases s.len(),
{
    if s.len() == 0 {
        assert(s.push(x).skip(1) =~= Seq::<S>::empty());
        assert(ser_seq(s.push(x).skip(1)) =~= Seq::<u8>::empty());
    } else {
        assert(s.push(x).skip(1) =~= s.skip(1).push(x));
        lemma_ser_seq_push(s.skip(1), x);
    }
}

proof fn lemma_ser_seq_len<S: Serializable>(s: Seq<S>)
    ensures ser_seq(s).len() == s.len() * S::nbytes(),
    decreases s.len(),
{
    if s.len() > 0 {
        s[0].lemma_ser_len();
        lemma_ser_seq_len(s.skip(1));
        assert(s.len() * S::nbytes() == S::nbytes() + (s.len() - 1) * S::nbytes()) by (nonlinear_arith) requires s.len() >= 1;
    } else {
        assert(0 * S::nbytes() == 0) by (nonlinear_arith);
    }
}

proof fn lemma_le_u32_inj(a: u32, b: u32)
    requires le_u32(a) == le_u32(b),
    ensures a == b,
{
    assert(le_u32(a)[0] == le_u32(b)[0] && le_u32(a)[1] == le_u32(b)[1] && le_u32(a)[2] == le_u32(b)[2] && le_u32(a)[3] == le_u32(b)[3]);
    assert(((a & 0xff) as u8 == (b & 0xff) as u8 && ((a >> 8) & 0xff) as u8 == ((b >> 8) & 0xff) as u8
        && ((a >> 16) & 0xff) as u8 == ((b >> 16) & 0xff) as u8 && ((a >> 24) & 0xff) as u8 == ((b >> 24) & 0xff) as u8) ==> a == b) by (bit_vector);
}
