// ---- ghost view of the sparse NFA handed to the double-array stage (assumed contract of the NFA stage) ----
spec fn nfa_edges<V>(n: NfaBuilder<u8, V>, s: int) -> Map<u8, u32> { n.states@[s].edges@ }

// structure: state 0 = root, 1 = dead; ids >= 2 form a tree below the root, children have larger ids than parents
spec fn nfa_tree<V>(n: NfaBuilder<u8, V>) -> bool {
    let len = n.states@.len();
    &&& 2 <= len <= u32::MAX
    &&& forall|c: u8| !nfa_edges(n, 1).contains_key(c)
    &&& forall|s: int, c: u8| 0 <= s < len && #[trigger] nfa_edges(n, s).contains_key(c) ==>
            2 <= nfa_edges(n, s)[c] < len && s < nfa_edges(n, s)[c]
    &&& forall|t: int| 2 <= t < len ==> nfa_parent_ok(n, t, #[trigger] nfa_parent(n, t))
    &&& forall|s: int| 0 <= s < len ==> (#[trigger] n.states@[s]).fail < len
}
// witness of "every state >= 2 has a parent" (the edge that created it)
spec fn nfa_parent<V>(n: NfaBuilder<u8, V>, t: int) -> (int, u8) {
    choose|p: (int, u8)| nfa_parent_ok(n, t, p)
}
spec fn nfa_parent_ok<V>(n: NfaBuilder<u8, V>, t: int, p: (int, u8)) -> bool {
    0 <= p.0 < t && p.0 != 1 && nfa_edges(n, p.0).contains_key(p.1) && nfa_edges(n, p.0)[p.1] == t
}

// every state below the root is placed once the work list is empty
proof fn lemma_all_placed<V>(n: NfaBuilder<u8, V>, map: Seq<u32>, done: Set<int>, t: int)
    requires
        nfa_tree(n), map.len() == n.states@.len(), map[0] != 1,
        forall|s: int| 0 <= s < map.len() && s != 1 && #[trigger] map[s] != 1 ==> done.contains(s),
        forall|s: int, c: u8| done.contains(s) && #[trigger] nfa_edges(n, s).contains_key(c) ==> 0 <= s < map.len() && map[nfa_edges(n, s)[c] as int] != 1,
        0 <= t < map.len(), t != 1,
    ensures map[t] != 1,
    decreases t,
{
    if t >= 2 {
        let p = nfa_parent(n, t);
        assert(nfa_parent_ok(n, t, p));
        lemma_all_placed(n, map, done, p.0);
        assert(done.contains(p.0));
        assert(nfa_edges(n, p.0).contains_key(p.1));
    }
}

// the (key, value) pairs delivered by BTreeMap::iter have pairwise distinct keys
proof fn lemma_iter_keys_distinct(m: Map<u8, u32>, rem: Seq<(&u8, &u32)>)
    requires rem.no_duplicates(),
        forall|i: int| 0 <= i < rem.len() ==> m.contains_key(*(#[trigger] rem[i]).0) && m[*rem[i].0] == *rem[i].1,
    ensures forall|i: int, j: int| 0 <= i < rem.len() && 0 <= j < rem.len() && i != j ==> *(#[trigger] rem[i]).0 != *(#[trigger] rem[j]).0,
{
    assert forall|i: int, j: int| 0 <= i < rem.len() && 0 <= j < rem.len() && i != j implies *(#[trigger] rem[i]).0 != *(#[trigger] rem[j]).0 by {
        if *rem[i].0 == *rem[j].0 {
            assert(*rem[i].1 == *rem[j].1);
            assert(rem[i] == rem[j]);
        }
    }
}
