// ---- ghost view of the sparse NFA handed to the double-array stage (assumed contract of the NFA stage) ----
spec fn nfa_edges<V>(n: NfaBuilder<u8, V>, s: int) -> Map<u8, u32> { n.states@[s].edges@ }

// structure: state 0 = root, 1 = dead; ids >= 2 form a tree below the root, children have larger ids than parents
spec fn nfa_tree<V>(n: NfaBuilder<u8, V>) -> bool {
    let len = n.states@.len();
    &&& 2 <= len <= u32::MAX as nat + 1
    &&& forall|c: u8| !nfa_edges(n, 1).contains_key(c)
    &&& forall|s: int, c: u8| 0 <= s < len && #[trigger] nfa_edges(n, s).contains_key(c) ==>
            2 <= nfa_edges(n, s)[c] < len && s < nfa_edges(n, s)[c]
    &&& forall|t: int| 2 <= t < len ==> nfa_parent_ok(n, t, #[trigger] nfa_parent(n, t))
    &&& forall|s: int| 0 <= s < len ==> (#[trigger] n.states@[s]).fail < len
    // the creating edge is the only edge into a state
    &&& forall|s: int, c: u8| 0 <= s < len && #[trigger] nfa_edges(n, s).contains_key(c) ==> nfa_parent(n, nfa_edges(n, s)[c] as int) == (s, c)
}
// witness of "every state >= 2 has a parent" (the edge that created it)
spec fn nfa_parent<V>(n: NfaBuilder<u8, V>, t: int) -> (int, u8) {
    choose|p: (int, u8)| nfa_parent_ok(n, t, p)
}
spec fn nfa_parent_ok<V>(n: NfaBuilder<u8, V>, t: int, p: (int, u8)) -> bool {
    0 <= p.0 < t && p.0 != 1 && nfa_edges(n, p.0).contains_key(p.1) && nfa_edges(n, p.0)[p.1] == t
}

// every state below the root is placed once the work list is empty
proof fn lemma_all_placed<V>(n: NfaBuilder<u8, V>, map: Seq<u32>, done: Set<int>, t: int)
    requires
        nfa_tree(n), map.len() == n.states@.len(), map[0] != 1,
        forall|s: int| 0 <= s < map.len() && s != 1 && #[trigger] map[s] != 1 ==> done.contains(s),
        forall|s: int, c: u8| done.contains(s) && #[trigger] nfa_edges(n, s).contains_key(c) ==> 0 <= s < map.len() && map[nfa_edges(n, s)[c] as int] != 1,
        0 <= t < map.len(), t != 1,
    ensures map[t] != 1,
    decreases t,
{
    if t >= 2 {
        let p = nfa_parent(n, t);
        assert(nfa_parent_ok(n, t, p));
        lemma_all_placed(n, map, done, p.0);
        assert(done.contains(p.0));
        assert(nfa_edges(n, p.0).contains_key(p.1));
    }
}

// the (key, value) pairs delivered by BTreeMap::iter have pairwise distinct keys
proof fn lemma_iter_keys_distinct(m: Map<u8, u32>, rem: Seq<(&u8, &u32)>)
    requires rem.no_duplicates(),
        forall|i: int| 0 <= i < rem.len() ==> m.contains_key(*(#[trigger] rem[i]).0) && m[*rem[i].0] == *rem[i].1,
    ensures forall|i: int, j: int| 0 <= i < rem.len() && 0 <= j < rem.len() && i != j ==> *(#[trigger] rem[i]).0 != *(#[trigger] rem[j]).0,
{
    assert forall|i: int, j: int| 0 <= i < rem.len() && 0 <= j < rem.len() && i != j implies *(#[trigger] rem[i]).0 != *(#[trigger] rem[j]).0 by {
        if *rem[i].0 == *rem[j].0 {
            assert(*rem[i].1 == *rem[j].1);
            assert(rem[i] == rem[j]);
        }
    }
}

// an edge of the array: slot x has a BASE and the slot BASE ^ c carries CHECK == c (what child_index_unchecked tests)
spec fn bw_edge(st: Seq<State>, x: int, c: u8) -> bool {
    st[x].base.is_some() && st_check(st[(st[x].base.unwrap()@ ^ (c as u32)) as int]) == c
}

// what build_double_array establishes: the array encodes the NFA through the placement map idmap
#[verifier::opaque]
spec fn bw_encodes<V>(st: Seq<State>, n: NfaBuilder<u8, V>, idmap: Seq<u32>) -> bool {
    let len = n.states@.len();
    &&& idmap.len() == len && idmap[0] == 0
    &&& forall|t: int| 0 <= t < len && t != 1 ==> (#[trigger] idmap[t]) < st.len() && idmap[t] != 1
    &&& forall|t1: int, t2: int| 0 <= t1 < len && 0 <= t2 < len && t1 != 1 && t2 != 1 && #[trigger] idmap[t1] == #[trigger] idmap[t2] ==> t1 == t2
    // every NFA edge is an edge of the array, leading to the child's slot
    &&& forall|s: int, c: u8| 0 <= s < len && s != 1 && #[trigger] nfa_edges(n, s).contains_key(c) ==> {
            &&& bw_edge(st, idmap[s] as int, c)
            &&& idmap[nfa_edges(n, s)[c] as int] == st[idmap[s] as int].base.unwrap()@ ^ (c as u32)
        }
    // and the array has no other edge out of a state slot
    &&& forall|s: int, c: u8| 0 <= s < len && s != 1 && #[trigger] bw_edge(st, idmap[s] as int, c) ==> nfa_edges(n, s).contains_key(c)
    // fail links and output positions are copied through idmap
    &&& forall|s: int| 0 <= s < len && s != 1 ==> (#[trigger] st[idmap[s] as int]).fail == (if n.states@[s].fail == 1 { 1u32 } else { idmap[n.states@[s].fail as int] })
            && st_opos(st[idmap[s] as int]) == opt_u32(n.states@[s].output_pos)
}

proof fn lemma_benc_basic<V>(st: Seq<State>, n: NfaBuilder<u8, V>, idmap: Seq<u32>, t: int)
    requires bw_encodes(st, n, idmap), 0 <= t < n.states@.len(), t != 1,
    ensures idmap.len() == n.states@.len(), idmap[0] == 0, idmap[t] < st.len(), idmap[t] != 1,
        st[idmap[t] as int].fail == (if n.states@[t].fail == 1 { 1u32 } else { idmap[n.states@[t].fail as int] }),
        st_opos(st[idmap[t] as int]) == opt_u32(n.states@[t].output_pos),
{ reveal(bw_encodes); }

proof fn lemma_benc_inj<V>(st: Seq<State>, n: NfaBuilder<u8, V>, idmap: Seq<u32>, t1: int, t2: int)
    requires bw_encodes(st, n, idmap), 0 <= t1 < n.states@.len(), 0 <= t2 < n.states@.len(), t1 != 1, t2 != 1, idmap[t1] == idmap[t2],
    ensures t1 == t2,
{ reveal(bw_encodes); }

proof fn lemma_benc_edge<V>(st: Seq<State>, n: NfaBuilder<u8, V>, idmap: Seq<u32>, s: int, c: u8)
    requires bw_encodes(st, n, idmap), 0 <= s < n.states@.len(), s != 1, nfa_edges(n, s).contains_key(c),
    ensures bw_edge(st, idmap[s] as int, c), idmap[nfa_edges(n, s)[c] as int] == st[idmap[s] as int].base.unwrap()@ ^ (c as u32),
{ reveal(bw_encodes); }

proof fn lemma_benc_nospur<V>(st: Seq<State>, n: NfaBuilder<u8, V>, idmap: Seq<u32>, s: int, c: u8)
    requires bw_encodes(st, n, idmap), 0 <= s < n.states@.len(), s != 1, bw_edge(st, idmap[s] as int, c),
    ensures nfa_edges(n, s).contains_key(c),
{ reveal(bw_encodes); }

// slots that hold no automaton state keep OUTPUT_POS == 0
spec fn slot_used<V>(n: NfaBuilder<u8, V>, idmap: Seq<u32>, x: int) -> bool {
    exists|s: int| 0 <= s < n.states@.len() && s != 1 && #[trigger] idmap[s] == x
}
spec fn bw_built<V>(st: Seq<State>, n: NfaBuilder<u8, V>, idmap: Seq<u32>) -> bool {
    &&& bw_encodes(st, n, idmap)
    &&& forall|x: int| 0 <= x < st.len() ==> st_opos(#[trigger] st[x]) == 0 || slot_used(n, idmap, x)
}

// termination measure of the placement loop: the set of finished states grows inside 0..n
proof fn lemma_done_grows(done: Set<int>, sid: int, n: int)
    requires done.subset_of(vstd::set_lib::set_int_range(0, n)), 0 <= sid < n, !done.contains(sid),
    ensures done.insert(sid).subset_of(vstd::set_lib::set_int_range(0, n)), done.insert(sid).len() == done.len() + 1, done.insert(sid).len() <= n,
{
    vstd::set_lib::lemma_int_range(0, n);
    vstd::set_lib::lemma_len_subset(done.insert(sid), vstd::set_lib::set_int_range(0, n));
}
