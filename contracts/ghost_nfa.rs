// ---- ghost view of the sparse NFA handed to the double-array stage (assumed contract of the NFA stage) ----
spec fn nfa_edges<V>(n: NfaBuilder<u8, V>, s: int) -> Map<u8, u32> { n.states@[s].edges@ }

// structure: state 0 = root, 1 = dead; ids >= 2 form a tree below the root, children have larger ids than parents
spec fn nfa_tree<V>(n: NfaBuilder<u8, V>) -> bool {
    let len = n.states@.len();
    &&& 2 <= len <= u32::MAX
    &&& forall|c: u8| !nfa_edges(n, 1).contains_key(c)
    &&& forall|s: int, c: u8| 0 <= s < len && #[trigger] nfa_edges(n, s).contains_key(c) ==>
            2 <= nfa_edges(n, s)[c] < len && s < nfa_edges(n, s)[c]
    &&& forall|t: int| 2 <= t < len ==> nfa_parent_ok(n, t, #[trigger] nfa_parent(n, t))
    &&& forall|s: int| 0 <= s < len ==> (#[trigger] n.states@[s]).fail < len
    &&& forall|s: int| 0 <= s < len ==> #[trigger] nfa_edges(n, s).dom().finite()
}
// witness of "every state >= 2 has a parent" (the edge that created it)
spec fn nfa_parent<V>(n: NfaBuilder<u8, V>, t: int) -> (int, u8) {
    choose|p: (int, u8)| nfa_parent_ok(n, t, p)
}
spec fn nfa_parent_ok<V>(n: NfaBuilder<u8, V>, t: int, p: (int, u8)) -> bool {
    0 <= p.0 < t && p.0 != 1 && nfa_edges(n, p.0).contains_key(p.1) && nfa_edges(n, p.0)[p.1] == t
}
