//@include ghost_outp.rs
// every OUTPUT_POS points into the output table (or is 0 = none) and output chains run strictly backwards
spec fn outs_ok<V>(st: Seq<State>, outs: Seq<Output<V>>) -> bool {
    &&& forall|i: int| 0 <= i < st.len() ==> st_opos(#[trigger] st[i]) <= outs.len()
    &&& forall|j: int| 0 <= j < outs.len() ==> out_parent(#[trigger] outs[j]) <= j
}
