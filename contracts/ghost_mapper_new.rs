// ---- CodeMapper::new: characters that occur get dense codes 0..alphabet_size, the others INVALID_CODE ----
spec fn cm_ok(freqs: Seq<u32>, table: Seq<u32>, asz: u32) -> bool {
    &&& table.len() == freqs.len()
    &&& asz <= freqs.len()
    &&& forall|c: int| 0 <= c < freqs.len() ==> (freqs[c] == 0 ==> #[trigger] table[c] == u32::MAX) && (freqs[c] != 0 ==> table[c] < asz)
    &&& forall|c1: int, c2: int| 0 <= c1 < freqs.len() && 0 <= c2 < freqs.len() && freqs[c1] != 0 && #[trigger] table[c1] == #[trigger] table[c2] ==> c1 == c2
}

// the list of (character, frequency) pairs with non-zero frequency among the first k characters, in increasing order
spec fn cm_list(freqs: Seq<u32>, s: Seq<(usize, u32)>, k: int) -> bool {
    &&& forall|j: int| 0 <= j < s.len() ==> 0 <= (#[trigger] s[j]).0 < k && freqs[s[j].0 as int] != 0 && s[j].1 == freqs[s[j].0 as int]
    &&& forall|i: int, j: int| 0 <= i < j < s.len() ==> (#[trigger] s[i]).0 < (#[trigger] s[j]).0
    &&& forall|c: int| 0 <= c < k && freqs[c] != 0 ==> exists|j: int| 0 <= j < s.len() && (#[trigger] s[j]).0 == c
    &&& s.len() <= k
}
// after sorting: same pairs, characters still pairwise distinct
spec fn cm_perm(freqs: Seq<u32>, s: Seq<(usize, u32)>) -> bool {
    &&& forall|j: int| 0 <= j < s.len() ==> 0 <= (#[trigger] s[j]).0 < freqs.len() && freqs[s[j].0 as int] != 0
    &&& forall|i: int, j: int| 0 <= i < s.len() && 0 <= j < s.len() && i != j ==> (#[trigger] s[i]).0 != (#[trigger] s[j]).0
    &&& forall|c: int| 0 <= c < freqs.len() && freqs[c] != 0 ==> exists|j: int| 0 <= j < s.len() && (#[trigger] s[j]).0 == c
    &&& s.len() <= freqs.len()
}
proof fn lemma_cm_perm(freqs: Seq<u32>, s1: Seq<(usize, u32)>, s2: Seq<(usize, u32)>)
    requires cm_list(freqs, s1, freqs.len() as int), s1.to_multiset() == s2.to_multiset(), s1.len() == s2.len(),
    ensures cm_perm(freqs, s2),
{
    assert(s1.no_duplicates()) by {
        assert forall|i: int, j: int| 0 <= i < s1.len() && 0 <= j < s1.len() && i != j implies s1[i] != s1[j] by {
            if i < j { assert(s1[i].0 < s1[j].0); } else { assert(s1[j].0 < s1[i].0); }
        }
    }
    lemma_perm_contains(s1, s2);
    assert forall|j: int| 0 <= j < s2.len() implies 0 <= (#[trigger] s2[j]).0 < freqs.len() && freqs[s2[j].0 as int] != 0 && s2[j].1 == freqs[s2[j].0 as int] by {
        assert(s2.contains(s2[j]));
        assert(s1.contains(s2[j]));
        let i = choose|i: int| 0 <= i < s1.len() && s1[i] == s2[j];
    }
    assert forall|i: int, j: int| 0 <= i < s2.len() && 0 <= j < s2.len() && i != j implies (#[trigger] s2[i]).0 != (#[trigger] s2[j]).0 by {
        if s2[i].0 == s2[j].0 {
            assert(s2.contains(s2[i])); assert(s1.contains(s2[i]));
            assert(s2.contains(s2[j])); assert(s1.contains(s2[j]));
            assert(s2[i].1 == freqs[s2[i].0 as int] && s2[j].1 == freqs[s2[j].0 as int]) by {
                let a = choose|a: int| 0 <= a < s1.len() && s1[a] == s2[i];
                let b = choose|b: int| 0 <= b < s1.len() && s1[b] == s2[j];
            }
            assert(s2[i] == s2[j]);
        }
    }
    assert forall|c: int| 0 <= c < freqs.len() && freqs[c] != 0 implies exists|j: int| 0 <= j < s2.len() && (#[trigger] s2[j]).0 == c by {
        let i = choose|i: int| 0 <= i < s1.len() && (#[trigger] s1[i]).0 == c;
        assert(s1.contains(s1[i]));
        assert(s2.contains(s1[i]));
        let j = choose|j: int| 0 <= j < s2.len() && s2[j] == s1[i];
        assert(s2[j].0 == c);
    }
}
