//@item src/charwise.rs struct CharwiseDoubleArrayAhoCorasick
//@item src/lib.rs struct Match
//@include intoiter.rs
//@include ghost_utf8.rs
//@include ghost_iter_cw.rs
//@include ghost_nfa_outs_cw.rs
//@include ghost_ac_cw.rs
//@include ghost_str.rs
//@include ghost_cwl.rs
//@include ghost_lm_sim_cw.rs
//@include ghost_wrap_cw.rs

//@impl src/charwise/builder.rs impl CharwiseDoubleArrayAhoCorasickBuilder
//@fn build_original_nfa_and_mapper
//@forbid num_free_blocks
//@rules R22 R11 R3into R6 R20 R5
//@ret r
//@head{
    requires into_lawful(patvals), into_items(patvals).len() < usize::MAX,
        // no character occurs 2^32 times or more in the collection (the frequency counters are u32)
        total_chars(into_items(patvals), into_items(patvals).len() as int) < u32::MAX
    ensures final(self).match_kind == old(self).match_kind, final(self).num_free_blocks == old(self).num_free_blocks,
        final(self).states == old(self).states, final(self).block_len == old(self).block_len,
      match r {
        Ok(nfa) => {
            &&& pats_valid(into_items(patvals))
            &&& nfa.match_kind == old(self).match_kind
            &&& nfa_tree(nfa) && nfa_links(nfa, lm_of(old(self).match_kind)) && nfa_outs_ok(nfa) && nfa.states@.len() > 2
            &&& sound_facts(nfa)
            // leftmost kinds: the link / output-position facts from which the optimality of the leftmost stream follows (unit lm_opt_bw)
            &&& !(old(self).match_kind is Standard) ==> lm_opt_facts(nfa)
            &&& lf_inv(nfa, item_pats(into_items(patvals)), into_items(patvals).len() as int)
            &&& trie_ok(nfa) && reach_ok(nfa) && add_inv(nfa) && seen_is(nfa, into_items(patvals), into_items(patvals).len() as int)
            // the mapper covers every label of the NFA with a distinct code below alphabet_size
            &&& mapper_covers(nfa, final(self).mapper.table@, final(self).mapper.alphabet_size)
            &&& cw_table_ok(final(self).mapper.table@, final(self).mapper.alphabet_size) && final(self).mapper.alphabet_size <= 0x110000
            // C06: registered patterns carry the value of their pair; standard kind: the (assumed) Aho-Corasick contract of the passes
            &&& values_are(nfa, into_items(patvals), into_items(patvals).len() as int)
            &&& old(self).match_kind is Standard ==> ac_fail(nfa) && ac_outs(nfa)
        },
        Err(e) => match e {
            DaachorseError::InvalidArgument => into_items(patvals).len() == 0 || has_empty(into_items(patvals)) || has_huge(into_items(patvals)),
            DaachorseError::DuplicatePattern => has_dup(into_items(patvals)),
            DaachorseError::AutomatonScale => true,
            DaachorseError::InvalidConversion => false,
        },
      }
//@}
//@start{
    broadcast use vstd::std_specs::btree::group_btree_axioms;
    let ghost items = into_items(patvals);
    let ghost mut k: int = 0;
    proof { axiom_char_key_model(); }
//@}
//@loop 1{
    invariant items == into_items(patvals), items.len() < usize::MAX, 0 <= k <= items.len(),
        total_chars(items, items.len() as int) < u32::MAX,
        self.match_kind == old(self).match_kind, self.num_free_blocks == old(self).num_free_blocks, self.states == old(self).states, self.block_len == old(self).block_len,
        verif_it1.obeys_prophetic_iter_laws(), verif_it1.decrease().is_some(), verif_it1.remaining() == items.skip(k),
        add_inv(nfa), reach_ok(nfa), nfa.match_kind == self.match_kind, nfa.len <= k, nfa.states@.len() <= u32::MAX as nat + 1,
        fresh_links(nfa), nfa.outputs@.len() == 0,
        k > 0 ==> nfa.len > 0,
        seen_is(nfa, items, k), values_are(nfa, items, k), lf_inv(nfa, item_pats(items), k),
        forall|i: int| 0 <= i < k ==> (#[trigger] pat_at(items, i)).len() > 0,
        forall|i: int, j: int| 0 <= i < j < k ==> #[trigger] pat_at(items, i) != #[trigger] pat_at(items, j),
        // frequencies
        freqs@.len() <= 0x110000, freqs_cover(items, k, freqs@),
        forall|c: int| 0 <= c < freqs@.len() ==> #[trigger] freqs@[c] <= total_chars(items, k),
        vstd::std_specs::btree::key_obeys_cmp_spec::<char>(),
    ensures k == items.len(),
    decreases verif_it1.decrease().unwrap(),
//@}
//@before 1 chars.clear();{
    let ghost n_b = nfa;
    let ghost pk = pattern.as_ref_spec()@;
    proof {
        assert(items.skip(k)[0] == items[k]);
        assert(pk == pat_at(items, k));
        axiom_str_len_bound(pattern.as_ref_spec());
        lemma_byte_len_chars(pk);
        lemma_total_mono(items, k + 1, items.len() as int);
        lemma_total_mono(items, 0, k);
    }
//@}
//@loopiter 2 it2
//@loop 2{
    invariant chars@ == pk.take(it2.index@ as int), it2.snapshot@.remaining() == pk,
//@}
//@before 1 nfa.add(&chars, value)?;{
    proof { assert(chars@ =~= pk); }
//@}
//@after 1 nfa.add(&chars, value)?;{
    proof {
        assert(!seen(n_b, pk));
        assert forall|i: int| 0 <= i < k implies #[trigger] pat_at(items, i) != pat_at(items, k) by {
            if pat_at(items, i) == pk { assert(seen(n_b, pk)); }
        }
        assert forall|q: Seq<char>| #[trigger] seen(nfa, q) <==> exists|j: int| 0 <= j < k + 1 && #[trigger] pat_at(items, j) == q by {
            if seen(nfa, q) {
                if q == pk { assert(pat_at(items, k) == q); }
                else { assert(seen(n_b, q)); let j = choose|j: int| 0 <= j < k && #[trigger] pat_at(items, j) == q; assert(0 <= j < k + 1 && pat_at(items, j) == q); }
            }
            if exists|j: int| 0 <= j < k + 1 && #[trigger] pat_at(items, j) == q {
                let j = choose|j: int| 0 <= j < k + 1 && #[trigger] pat_at(items, j) == q;
                if j < k { assert(seen(n_b, q)); }
            }
        }
        if k == 0 { assert(!add_shadowed(n_b, pk)) by {
            if add_shadowed(n_b, pk) { let kk = choose|kk: int| 0 <= kk < pk.len() && is_registered(n_b, pk.take(kk)); assert(seen(n_b, pk.take(kk))); }
        } }
        // C04: registered patterns in terms of the input order
        assert(item_pats(items)[k] == pk);
        assert(ps_distinct(item_pats(items), k + 1)) by {
            assert forall|i: int, j: int| 0 <= i < j < k + 1 implies #[trigger] item_pats(items)[i] != #[trigger] item_pats(items)[j] by {
                assert(item_pats(items)[i] == pat_at(items, i) && item_pats(items)[j] == pat_at(items, j));
            }
        }
        lemma_lf_inv_step(n_b, nfa, item_pats(items), k);
        // values
        assert forall|j: int| 0 <= j < k + 1 && is_registered(nfa, #[trigger] pat_at(items, j)) implies reg_out(nfa, pat_at(items, j)).unwrap().0 == items[j].1 by {
            if j < k { assert(pat_at(items, j) != pk); assert(is_registered(n_b, pat_at(items, j))); }
            else { assert(items[k] == (pattern, value)); }
        }
    }
    let ghost f_b = freqs@;
//@}
//@loopiter 3 it3
//@loop 3{
    invariant chars@ == pk, pk == pat_at(items, k), 0 <= k < items.len(), total_chars(items, k + 1) < u32::MAX,
        freqs@.len() <= 0x110000, freqs_cover(items, k, freqs@),
        forall|i: int| 0 <= i < it3.index@ ==> chr(#[trigger] pk[i]) < freqs@.len() && freqs@[chr(pk[i])] != 0,
        forall|c: int| 0 <= c < freqs@.len() ==> #[trigger] freqs@[c] <= total_chars(items, k) + it3.index@,
//@}
//@before 1 let c = usize::from_u32(u32::from(c));{
    let ghost fq = freqs@;
    let ghost i3 = it3.index@ as int;
    proof { assert(total_chars(items, k + 1) == total_chars(items, k) + pk.len()); }
//@}
//@before 1 freqs[c] += 1;{
    let ghost fr2 = freqs@;
    proof {
        assert(forall|cc: int| 0 <= cc < fq.len() ==> fr2[cc] == fq[cc]);
        assert(forall|cc: int| fq.len() <= cc < fr2.len() ==> fr2[cc] == 0);
        lemma_total_nonneg(items, k);
        if (c as int) < fq.len() { assert(fq[c as int] <= total_chars(items, k) + i3); }
        assert(fr2[c as int] <= total_chars(items, k) + i3);
    }
//@}
//@after 1 freqs[c] += 1;{
    proof {
        assert(freqs@ == fr2.update(c as int, (fr2[c as int] + 1) as u32));
        assert forall|cc: int| 0 <= cc < freqs@.len() implies #[trigger] freqs@[cc] <= total_chars(items, k) + i3 + 1 by {
            if cc != c as int { assert(freqs@[cc] == fr2[cc]); if cc < fq.len() { assert(fq[cc] <= total_chars(items, k) + i3); } }
        }
        assert forall|j: int, i: int| 0 <= j < k && 0 <= i < pat_at(items, j).len() implies chr(#[trigger] pat_at(items, j)[i]) < freqs@.len() && freqs@[chr(pat_at(items, j)[i])] != 0 by {
            assert(chr(pat_at(items, j)[i]) < fq.len() && fq[chr(pat_at(items, j)[i])] != 0);
        }
        assert forall|i: int| 0 <= i < i3 + 1 implies chr(#[trigger] pk[i]) < freqs@.len() && freqs@[chr(pk[i])] != 0 by {
            if i < i3 { assert(chr(pk[i]) < fq.len() && fq[chr(pk[i])] != 0); }
        }
    }
//@}
//@after 1 for verif_ref1 in chars.iter(){
    proof {
        assert(total_chars(items, k + 1) == total_chars(items, k) + pk.len());
        assert forall|j: int, i: int| 0 <= j < k + 1 && 0 <= i < pat_at(items, j).len() implies chr(#[trigger] pat_at(items, j)[i]) < freqs@.len() && freqs@[chr(pat_at(items, j)[i])] != 0 by {
            if j == k { assert(pat_at(items, j) == pk); }
        }
        assert(items.skip(k).skip(1) =~= items.skip(k + 1));
        k = k + 1;
    }
//@}
//@before 1 self.mapper = CodeMapper::new(&freqs);{
    let ghost fr = freqs@;
//@}
//@before 1 let q = match self.match_kind {{
    let ghost n_a = nfa;
    proof {
        assert(items.len() > 0);
        assert(pats_valid(items));
        assert(n_a.states@.len() > 2) by {
            assert(seen(n_a, pat_at(items, 0)));
            lemma_seen_has_state(n_a, pat_at(items, 0));
        }
        lemma_mapper_covers(n_a, items, fr, self.mapper.table@, self.mapper.alphabet_size);
    }
//@}
//@after 1 let q = match self.match_kind {{
    let ghost n_f = nfa;
    proof {
        lemma_frame_keeps_trie(n_a, n_f);
        // the output pass accepts both kinds of fail links
        assert(fails_ok(n_f, true));
    }
//@}
//@before 1 Ok(nfa){
    proof {
        assert(passes_frame(n_f, nfa));
        assert(passes_frame(n_a, nfa));
        lemma_frame_keeps_trie(n_a, nfa);
        lemma_lf_inv_frame(n_a, nfa, item_pats(items), items.len() as int);
        lemma_frame_keeps_add_inv(n_a, nfa);
        lemma_sound_facts_intro(nfa);
        if !(self.match_kind is Standard) { lemma_lm_opt_facts_intro(nfa); }
        lemma_frame_keeps_values(n_a, nfa, items, items.len() as int);
        assert(fails_ok(nfa, lm_of(self.match_kind))) by { lemma_links_same_fail(n_f, nfa, lm_of(self.match_kind)); }
        lemma_trie_gives_tree(nfa);
        assert(seen_is(nfa, items, items.len() as int));
        lemma_covers_frame(n_a, nfa, self.mapper.table@, self.mapper.alphabet_size);
    }
//@}
//@fn build_with_values
//@rules R11 R23
//@ret r
//@head{
    requires verif_self.states@.len() == 0, verif_self.num_free_blocks >= 1, into_lawful(patvals), into_items(patvals).len() < usize::MAX,
        total_chars(into_items(patvals), into_items(patvals).len() as int) < u32::MAX
    ensures match r {
        // Ok: as for the byte-wise wrapper (cwv_post): valid collection; the automaton satisfies the precondition of every search
        // entry point; num_states / array length against the trie; values; standard kind: the three streams on well-formed UTF-8
        // equal the semantics over the decoded characters (relative to the assumed contract of the fail/output passes)
        Ok(pma) => pma.match_kind == verif_self.match_kind
            && cwv_post(pma.states@, pma.mapper.table@, pma.outputs@, pma.num_states, into_items(patvals), verif_self.match_kind),
        Err(e) => match e {
            DaachorseError::InvalidArgument => into_items(patvals).len() == 0 || has_empty(into_items(patvals)) || has_huge(into_items(patvals)),
            DaachorseError::DuplicatePattern => has_dup(into_items(patvals)),
            DaachorseError::AutomatonScale => true,
            DaachorseError::InvalidConversion => false,
        },
    }
//@}
//@closure 1 |_| => |verif_e: core::num::TryFromIntError| -> (e: DaachorseError){
    ensures e is AutomatonScale
//@}
//@before 1 Ok(CharwiseDoubleArrayAhoCorasick {{
    proof {
        assert(verif_me.match_kind == verif_self.match_kind);
        // guarded: with a different count the postcondition (not this hint) is what fails
        if nfa.states@.len() == num_states + 1 {
            lemma_cwv_post(nfa, verif_me.states@, verif_me.mapper.table@, verif_me.mapper.alphabet_size, verif_me.block_len, num_states, into_items(patvals), verif_self.match_kind);
        }
    }
//@}
//@fn build
//@rules R27 R22 R3into R11 R23b
//@ret r
//@head{
    requires self.states@.len() == 0, self.num_free_blocks >= 1, into_lawful(patterns), into_items(patterns).len() < usize::MAX,
        <V as vstd::std_specs::convert::TryFromSpec<usize>>::obeys_try_from_spec(),
        total_chars(indexed::<P, V>(into_items(patterns)), into_items(patterns).len() as int) < u32::MAX
    ensures match r {
        Ok(pma) => (forall|j: int| 0 <= j < into_items(patterns).len() ==> conv_ok::<V>(j)) && pma.match_kind == self.match_kind
            && cwv_post(pma.states@, pma.mapper.table@, pma.outputs@, pma.num_states, indexed::<P, V>(into_items(patterns)), self.match_kind),
        Err(e) => match e {
            DaachorseError::InvalidConversion => exists|j: int| 0 <= j < into_items(patterns).len() && !conv_ok::<V>(j),
            DaachorseError::InvalidArgument => into_items(patterns).len() == 0 || has_empty(indexed::<P, V>(into_items(patterns))) || has_huge(indexed::<P, V>(into_items(patterns))),
            DaachorseError::DuplicatePattern => has_dup(indexed::<P, V>(into_items(patterns))),
            DaachorseError::AutomatonScale => true,
        },
    }
//@}
//@start{
    let ghost ps = into_items(patterns);
//@}
//@loop 1{
    invariant ps == into_items(patterns), ps.len() < usize::MAX, 0 <= verif_i <= ps.len(),
        <V as vstd::std_specs::convert::TryFromSpec<usize>>::obeys_try_from_spec(),
        verif_it1.obeys_prophetic_iter_laws(), verif_it1.decrease().is_some(), verif_it1.remaining() == ps.skip(verif_i as int),
        patvals@.len() == verif_i,
        forall|j: int| 0 <= j < verif_i ==> #[trigger] conv_ok::<V>(j),
        forall|j: int| 0 <= j < verif_i ==> #[trigger] patvals@[j] == (ps[j], conv_val::<V>(j)),
    ensures verif_i == ps.len(),
    decreases verif_it1.decrease().unwrap(),
//@}
//@before 1 match V::try_from({
    let ghost pv0 = patvals@;
    proof { assert(ps.skip(verif_i as int)[0] == ps[verif_i as int]); assert(p == ps[verif_i as int]); }
//@}
//@before 1 return Err(DaachorseError::{
    // names the witness of the error clause (no assertion: a wrong error path fails the postcondition, not this hint)
    let ghost verif_w = conv_ok::<V>(verif_i as int);
//@}
//@after 1 verif_i += 1;{
    proof {
        let i0 = verif_i as int - 1;
        assert(ps.skip(i0).skip(1) =~= ps.skip(verif_i as int));
        // guarded: if the step is not the expected one the loop invariant (not this hint) is what fails
        if conv_ok::<V>(i0) && patvals@ == pv0.push((ps[i0], conv_val::<V>(i0))) {
            assert forall|j: int| 0 <= j < verif_i implies #[trigger] patvals@[j] == (ps[j], conv_val::<V>(j)) by {
                if j < i0 { assert(patvals@[j] == pv0[j]); }
            }
        }
    }
//@}
//@before 1 Self::build_with_values(self, patvals){
    let ghost pv = patvals@;
    proof {
        assert(verif_i == ps.len());
        assert(pv =~= indexed::<P, V>(ps));
        axiom_vec_into_items(patvals);
        assert(into_items(patvals) == indexed::<P, V>(ps));
        assert(forall|j: int| 0 <= j < ps.len() ==> conv_ok::<V>(j));
    }
//@}
//@endimpl
