//@item src/lib.rs enum MatchKind
//@rules keeppub
//@end
pub open spec fn mk_u8(k: MatchKind) -> u8 { match k { MatchKind::Standard => 0, MatchKind::LeftmostLongest => 1, MatchKind::LeftmostFirst => 2 } }
pub open spec fn u8_mk(src: u8) -> MatchKind { if src == 1 { MatchKind::LeftmostLongest } else if src == 2 { MatchKind::LeftmostFirst } else { MatchKind::Standard } }
impl vstd::std_specs::convert::FromSpecImpl<u8> for MatchKind {
    open spec fn obeys_from_spec() -> bool { true }
    open spec fn from_spec(src: u8) -> MatchKind { u8_mk(src) }
}
impl vstd::std_specs::convert::FromSpecImpl<MatchKind> for u8 {
    open spec fn obeys_from_spec() -> bool { true }
    open spec fn from_spec(src: MatchKind) -> u8 { mk_u8(src) }
}
//@impl src/lib.rs impl From<u8> for MatchKind
//@keeptrait
//@fn from
//@endimpl
//@impl src/lib.rs impl From<MatchKind> for u8
//@keeptrait
//@fn from
//@endimpl
//@impl src/lib.rs impl Serializable for MatchKind
//@keeptrait
    spec fn ser_spec(&self) -> Seq<u8> { seq![mk_u8(*self)] }
    spec fn nbytes() -> nat { 1 }
    spec fn width_ok() -> bool { true }
    proof fn lemma_ser_len(&self) {}
//@fn serialize_to_vec
//@fn deserialize_from_slice
//@ret r
//@start{
    proof {
        assert forall|o: MatchKind| src@.take(1) == o.ser_spec() implies src@[0] == mk_u8(o) by { assert(src@.take(1)[0] == o.ser_spec()[0]); }
    }
//@}
//@fn serialized_bytes
//@ret r
//@endimpl

