//@include prelude.rs
//@include from_u32.rs
//@include ghost_ser.rs

//@trait src/serializer.rs Serializable
    // ---- ghost additions: the byte-level contract every implementation is held to ----
    spec fn ser_spec(&self) -> Seq<u8>;
    spec fn nbytes() -> nat;
    proof fn lemma_ser_len(&self)
        ensures self.ser_spec().len() == Self::nbytes();
    // size sanity of the implementation (true for all built-in types); surfaces as a precondition of serialize()
    spec fn width_ok() -> bool;
//@fn serialize_to_vec
//@head{
        ensures final(dst)@ =~= old(dst)@ + self.ser_spec()
//@}
//@fn deserialize_from_slice
//@ret r
//@head{
        requires src@.len() >= Self::nbytes()
        ensures r.1@ == src@.skip(Self::nbytes() as int),
            forall|x: Self| src@.take(Self::nbytes() as int) == x.ser_spec() ==> r.0 == x
//@}
//@fn serialized_bytes
//@ret r
//@head{
        requires Self::width_ok()
        ensures r == Self::nbytes()
//@}
//@endtrait

// u32: macro-generated impl (define_serializable_primitive!(u32, 4)); contract assumed here, proved complete
// on the real code by the Kani harness ser_u32 (full domain, loop-free)
impl Serializable for u32 {
    spec fn ser_spec(&self) -> Seq<u8> { le_u32(*self) }
    spec fn nbytes() -> nat { 4 }
    spec fn width_ok() -> bool { true }
    proof fn lemma_ser_len(&self) {}
    #[verifier::external_body]
    fn serialize_to_vec(&self, dst: &mut Vec<u8>) { dst.extend_from_slice(&self.to_le_bytes()); }
    #[verifier::external_body]
    fn deserialize_from_slice(src: &[u8]) -> (r: (Self, &[u8])) { let x = Self::from_le_bytes(src[..4].try_into().unwrap()); (x, &src[4..]) }
    #[verifier::external_body]
    fn serialized_bytes() -> (r: usize) { 4 }
}

//@impl src/serializer.rs impl Serializable for Option<NonZeroU32>
//@keeptrait
    spec fn ser_spec(&self) -> Seq<u8> { le_u32(match *self { None => 0u32, Some(x) => x@ }) }
    spec fn nbytes() -> nat { 4 }
    spec fn width_ok() -> bool { true }
    proof fn lemma_ser_len(&self) {}
//@fn serialize_to_vec
//@fn deserialize_from_slice
//@ret r
//@start{
    let ghost src0 = src@;
//@}
//@before 1 (NonZeroU32::new(x), src){
    proof {
        assert forall|o: Option<NonZeroU32>| src0.take(4) == o.ser_spec() implies x == (match o { None => 0u32, Some(v) => v@ }) by {
            let y: u32 = match o { None => 0u32, Some(v) => v@ };
            assert(y.ser_spec() == o.ser_spec());
        }
        assert forall|a: NonZeroU32, b: NonZeroU32| a@ == b@ implies a == b by { lemma_nz_ext(a, b); }
    }
//@}
//@fn serialized_bytes
//@ret r
//@endimpl

