//@item src/charwise/builder.rs type CharwiseNfaBuilder
//@item src/charwise/builder.rs struct CharwiseDoubleArrayAhoCorasickBuilder
//@include ghost_bits_cw.rs
//@include ghost_build_cw.rs
//@include ghost_nfa_cw.rs
//@include ghost_cwb.rs

// R19: the sort of the (code, child id) pairs is redirected here; body = the original call.  Only "same elements" is
// assumed (the order matters for determinism, C14, not for correctness)
#[verifier::external_body]
fn verif_sort_pairs(v: &mut Vec<(u32, u32)>)
    ensures final(v)@.to_multiset() == old(v)@.to_multiset(), final(v)@.len() == old(v)@.len(),
{
    v.sort_by(|(c1, _), (c2, _)| c1.cmp(c2));
}

pub assume_specification[u32::next_power_of_two](x: u32) -> (r: u32)
    requires x <= 0x8000_0000,
    ensures r > 0 && r & sub(r, 1) == 0, r >= x;

//@impl src/charwise/builder.rs impl CharwiseDoubleArrayAhoCorasickBuilder
//@fn init_array
//@ret r
//@head{
    requires old(self).states@.len() == 0, old(self).num_free_blocks >= 1, old(self).mapper.alphabet_size <= 0x8000_0000
    ensures final(self).num_free_blocks == old(self).num_free_blocks, final(self).match_kind == old(self).match_kind,
        final(self).mapper == old(self).mapper,
        match r {
            Ok(h) => cb_inv(*final(self), h) && final(self).states@.len() == final(self).block_len && h.num_free_blocks == old(self).num_free_blocks
                && (forall|i: int| 0 <= i < final(self).states@.len() ==> (#[trigger] final(self).states@[i]).base.is_none()
                        && final(self).states@[i].check == 1 && final(self).states@[i].fail == 1 && final(self).states@[i].output_pos.is_none()),
            Err(e) => e is AutomatonScale,
        }
//@}
//@after 1 self.block_len = self.mapper.alphabet_size().next_power_of_two().max(2);{
    proof { assert(2u32 > 0 && 2u32 & sub(2u32, 1) == 0) by(bit_vector); }
//@}
//@after 1 let mut helper = BuildHelper::new(self.block_len, self.num_free_blocks)?;{
    let ghost hn = helper;
    proof { lemma_window(hn); }
//@}
//@after 1 helper.push_block().unwrap();{
    let ghost hp = helper;
    proof {
        lemma_window(hp);
        let bl = self.block_len as int;
        assert(h_hi(hn) == 0) by (nonlinear_arith) requires hn.num_blocks == 0, h_hi(hn) == hn.num_blocks as int * hn.block_len as int;
        assert(h_hi(hp) == bl) by (nonlinear_arith) requires hp.num_blocks == 1, hp.block_len == bl, h_hi(hp) == hp.num_blocks as int * hp.block_len as int;
        assert(h_lo(hp) == 0) by {
            if hp.num_blocks >= hp.num_free_blocks { assert(hp.num_free_blocks == 1); }
            assert(0 * bl == 0);
        }
        assert(!h_used_index(hp, 0) && !h_used_index(hp, 1));
        assert(l_vac(h_cells(hp), 0, bl, 0) && l_vac(h_cells(hp), 0, bl, 1));
    }
//@}
//@after 1 helper.use_index(ROOT_STATE_IDX);{
    proof { assert(l_vac(h_cells(helper), 0, self.block_len as int, 1)); }
//@}
//@fn verify_base
//@rules R5
//@ret r
//@head{
    requires h_wf(*helper), pow2(helper.block_len),
        forall|i: int| 0 <= i < edges@.len() ==> h_active(*helper, (base ^ (#[trigger] edges@[i]).0) as int)
    ensures r.is_some() ==> r.unwrap()@ == base && base != 0
        && forall|i: int| 0 <= i < edges@.len() ==> !h_used_index(*helper, (base ^ (#[trigger] edges@[i]).0) as int)
//@}
//@loopiter 1 it
//@loop 1{
    invariant h_wf(*helper),
        forall|i: int| 0 <= i < edges@.len() ==> h_active(*helper, (base ^ (#[trigger] edges@[i]).0) as int),
        forall|i: int| 0 <= i < it.index@ ==> !h_used_index(*helper, (base ^ (#[trigger] edges@[i]).0) as int),
//@}
//@fn find_base
//@rules R3own
//@ret r
//@head{
    requires cb_inv(*self, *helper), edges@.len() > 0,
        forall|i: int| 0 <= i < edges@.len() ==> (#[trigger] edges@[i]).0 < self.block_len
    ensures
        (r@ >= self.states@.len() && r@ == (self.states@.len() as u32) ^ edges@[0].0)
        || (r@ < self.states@.len()
            && forall|i: int| 0 <= i < edges@.len() ==> h_active(*helper, (r@ ^ (#[trigger] edges@[i]).0) as int)
                && !h_used_index(*helper, (r@ ^ edges@[i].0) as int))
//@}
//@start{
    proof { lemma_window(*helper); lemma_head(h_cells(*helper), helper.head_idx, h_lo(*helper), h_hi(*helper)); }
//@}
//@loop 1{
    invariant vi_ok(verif_it1), verif_it1.list == helper, cb_inv(*self, *helper), edges@.len() > 0,
        forall|i: int| 0 <= i < edges@.len() ==> (#[trigger] edges@[i]).0 < self.block_len,
        h_lo(*helper) % (self.block_len as int) == 0, h_hi(*helper) % (self.block_len as int) == 0, 0 <= h_lo(*helper), h_hi(*helper) <= u32::MAX,
    decreases (match verif_it1.idx { Some(x) => h_hi(*helper) - x, None => 0 })
//@}
//@before 1 let base = idx ^ edges[0].0;{
    proof {
        let bl = self.block_len; let lo = h_lo(*helper); let hi = h_hi(*helper);
        lemma_same_block_cw(idx, edges@[0].0, bl, lo, hi);
        assert forall|i: int| 0 <= i < edges@.len() implies h_active(*helper, ((idx ^ edges@[0].0) ^ (#[trigger] edges@[i]).0) as int) by {
            let c0 = edges@[0].0; let c = edges@[i].0;
            assert(bl > 0 && bl & sub(bl, 1) == 0 && c0 < bl && c < bl ==> (c0 ^ c) < bl) by(bit_vector);
            assert((idx ^ c0) ^ c == idx ^ (c0 ^ c)) by(bit_vector);
            lemma_same_block_cw(idx, c0 ^ c, bl, lo, hi);
        }
        // the base itself lies below the array length
        assert((idx ^ edges@[0].0) < hi);
    }
//@}
//@before 1 NonZeroU32::new(u32::try_from(self.states.len()).unwrap() ^ edges[0].0).unwrap(){
    proof {
        lemma_window(*helper);
        let bl = self.block_len as int;
        assert(self.states@.len() >= bl) by { assert(helper.num_blocks as int * bl >= bl) by (nonlinear_arith) requires helper.num_blocks >= 1, bl > 0; }
        lemma_len_xor_nonzero(self.states@.len() as u32, edges@[0].0, self.block_len);
    }
//@}
//@fn extend_array
//@ret r
//@head{
    requires cb_inv(*old(self), *old(helper))
    ensures final(self).num_free_blocks == old(self).num_free_blocks, final(self).match_kind == old(self).match_kind,
        final(self).mapper == old(self).mapper, final(self).block_len == old(self).block_len,
        match r {
            Ok(_) => {
                &&& cb_inv(*final(self), *final(helper))
                &&& final(self).states@.len() == old(self).states@.len() + old(self).block_len
                &&& final(helper).num_free_blocks == old(helper).num_free_blocks
                &&& h_lo(*old(helper)) <= h_lo(*final(helper)) <= h_hi(*old(helper))
                &&& forall|j: int| h_lo(*final(helper)) <= j < h_hi(*old(helper)) ==> h_used_index(*final(helper), j) == h_used_index(*old(helper), j)
                &&& forall|j: int| h_hi(*old(helper)) <= j < h_hi(*final(helper)) ==> !h_used_index(*final(helper), j)
                &&& forall|i: int| 0 <= i < old(self).states@.len() ==> (#[trigger] final(self).states@[i]) == old(self).states@[i]
                &&& forall|i: int| old(self).states@.len() <= i < final(self).states@.len() ==> (#[trigger] final(self).states@[i]).base.is_none()
                        && final(self).states@[i].check == 1 && final(self).states@[i].fail == 1 && final(self).states@[i].output_pos.is_none()
            },
            Err(e) => e is AutomatonScale,
        }
//@}
//@start{
    let ghost h0 = *helper;
    proof { lemma_window(h0); }
//@}
//@after 1 helper.push_block()?;{
    let ghost s1 = self.states@;
    proof {
        lemma_window(*helper);
        let nb = h0.num_blocks as int; let bl = self.block_len as int;
        assert((nb + 1) * bl == nb * bl + bl) by (nonlinear_arith);
        assert(h_hi(*helper) == h_hi(h0) + bl);
    }
//@}
//@before 1 Ok(()){
    proof {
        let bl = self.block_len as int;
        assert(forall|i: int| 0 <= i < s1.len() ==> self.states@[i] == s1[i]);
        assert(h_hi(h0) >= bl) by { assert(h0.num_blocks as int * bl >= bl) by (nonlinear_arith) requires h0.num_blocks >= 1, bl > 0; }
        assert forall|j: int| (j == 0 || j == 1) && h_active(*helper, j) implies h_used_index(*helper, j) by {
            assert(h_active(h0, j));
        }
        assert forall|i: int| 0 <= i < self.states@.len() implies ((#[trigger] self.states@[i]).base.is_some() ==> self.states@[i].base.unwrap()@ < self.states@.len()) by {
            if i < s1.len() { assert(self.states@[i] == s1[i]); }
        }
    }
//@}
//@fn build_double_array
//@rules R9 R13b R7 R5 R18 R19 R20
//@ret r
//@head{
    requires old(self).states@.len() == 0, old(self).num_free_blocks >= 1, nfa_tree(*nfa),
        old(self).mapper.alphabet_size <= 0x8000_0000,
        mapper_covers(*nfa, old(self).mapper.table@, old(self).mapper.alphabet_size)
    ensures final(self).mapper == old(self).mapper, final(self).match_kind == old(self).match_kind,
      match r {
        Ok(_) => {
            &&& final(self).states@.len() > 0 && final(self).states@.len() as int % (final(self).block_len as int) == 0 && final(self).states@.len() <= u32::MAX
            &&& pow2(final(self).block_len) && final(self).mapper.alphabet_size <= final(self).block_len
            &&& forall|i: int| 0 <= i < final(self).states@.len() ==> ((#[trigger] final(self).states@[i]).base.is_some() ==> final(self).states@[i].base.unwrap()@ < final(self).states@.len())
            &&& forall|i: int| 0 <= i < final(self).states@.len() ==> (#[trigger] final(self).states@[i]).fail < final(self).states@.len()
            // stage B: the array encodes the NFA (edges present, no spurious edge, fail/output_pos copied)
            &&& exists|idmap: Seq<u32>| cw_built(final(self).states@, final(self).mapper.table@, *nfa, idmap)
        },
        Err(e) => e is AutomatonScale,
      }
//@}
//@start{
    broadcast use vstd::std_specs::btree::group_btree_axioms;
    let ghost n = nfa.states@.len() as int;
    let ghost tb = self.mapper.table@;
    let ghost asz = self.mapper.alphabet_size;
    let ghost mut done: Set<int> = Set::empty();
    let ghost mut gstack: Seq<u32> = seq![0u32];
    let ghost mut inv: Map<int, int> = Map::empty();
    let ghost mut owner: Map<int, int> = Map::empty();
    proof { axiom_char_key_model(); }
//@}
//@after 1 let mut mapped = vec![];{
    proof {
        assert(stack@ =~= seq![0u32]);
        assert(stack@.contains(0u32)) by { assert(stack@[0] == 0u32); }
        lemma_window(helper);
        let bl = self.block_len as int;
        assert(self.states@.len() >= 2);
        lemma_cwb_init(*nfa, self.states@, tb, state_id_map@);
    }
//@}
//@loop 1{
    invariant
        gstack == stack@, self.mapper.table@ == tb, self.mapper.alphabet_size == asz, self.mapper == old(self).mapper,
        mapper_covers(*nfa, tb, asz),
        cb_inv(*self, helper), nfa_tree(*nfa), n == nfa.states@.len(),
        state_id_map@.len() == n,
        forall|i: int| 0 <= i < n ==> (#[trigger] state_id_map@[i]) < self.states@.len(),
        state_id_map@[0] == 0, state_id_map@[1] == 1,
        forall|x: int| 0 <= x < self.states@.len() ==> (#[trigger] self.states@[x]).fail == 1 && self.states@[x].output_pos.is_none(),
        self.match_kind == old(self).match_kind,
        forall|k: int| 0 <= k < stack@.len() ==> (#[trigger] stack@[k]) < n && stack@[k] != 1 && state_id_map@[stack@[k] as int] != 1,
        forall|s: int, c: char| done.contains(s) && #[trigger] nfa_edges(*nfa, s).contains_key(c) ==> 0 <= s < n && state_id_map@[nfa_edges(*nfa, s)[c] as int] != 1,
        forall|s: int| 0 <= s < n && s != 1 && #[trigger] state_id_map@[s] != 1 ==> done.contains(s) || stack@.contains(s as u32),
        // stage B
        cwb(*nfa, self.states@, tb, state_id_map@, inv, owner, done, -1, 0, Seq::empty(), 0), cwb_used(inv, helper),
        stack@.no_duplicates(), forall|k: int| 0 <= k < stack@.len() ==> !done.contains(#[trigger] stack@[k] as int),
        // termination: every iteration finishes one more NFA state
        done.subset_of(vstd::set_lib::set_int_range(0, n)), done.len() <= n,
    ensures stack@.len() == 0,
    decreases n - done.len(),
//@}
//@before 1 assert!(state_id != DEAD_STATE_ID);{
    let ghost sid = state_id as int;
    let ghost edges = nfa_edges(*nfa, sid);
    proof {
        axiom_char_key_model();
        assert(stack@ == gstack.drop_last() && state_id == gstack.last());
        assert forall|x: u32| gstack.contains(x) && x != state_id implies stack@.contains(x) by {
            let k = choose|k: int| 0 <= k < gstack.len() && gstack[k] == x;
            assert(stack@[k] == x);
        }
        assert forall|k: int| 0 <= k < stack@.len() implies #[trigger] stack@[k] != state_id by {
            assert(gstack[k] == stack@[k] && gstack[gstack.len() - 1] == state_id);
        }
        assert(stack@.no_duplicates());
        assert(!done.contains(sid)) by { assert(gstack[gstack.len() - 1] == state_id); }
        assert(state_id < n && state_id != 1 && state_id_map@[sid] != 1) by { assert(gstack[gstack.len() - 1] == state_id); }
    }
//@}
//@before 1 continue;{
    proof {
        lemma_cwb_leaf(*nfa, self.states@, tb, state_id_map@, inv, owner, done, sid);
        lemma_done_grows(done, sid, n);
        done = done.insert(sid);
        assert(forall|c: char| !edges.contains_key(c)) by { assert(edges.dom().len() == 0); assert(edges.dom() =~= Set::<char>::empty()); }
        gstack = stack@;
    }
//@}
//@before 1 for verif_ref1 in verif_iter2{
    let ghost rem0 = verif_iter2.remaining();
    proof {
        assert(rem0.no_duplicates());
        assert(forall|i: int| 0 <= i < rem0.len() ==> edges.contains_key(*(#[trigger] rem0[i]).0) && edges[*rem0[i].0] == *rem0[i].1);
        assert(forall|c: char| edges.contains_key(c) ==> rem0.contains((&c, &edges[c])));
    }
//@}
//@loopiter 2 it2
//@loop 2{
    invariant self.mapper.table@ == tb, self.mapper.alphabet_size == asz, mapper_covers(*nfa, tb, asz), 0 <= sid < n, edges == nfa_edges(*nfa, sid),
        n == nfa.states@.len(), it2.snapshot@.remaining() == rem0,
        ({ let rem = it2.snapshot@.remaining();
           &&& rem.no_duplicates()
           &&& forall|i: int| 0 <= i < rem.len() ==> edges.contains_key(*(#[trigger] rem[i]).0) && edges[*rem[i].0] == *rem[i].1
           &&& mapped@.len() == it2.index@
           &&& forall|i: int| 0 <= i < mapped@.len() ==> pair_of(*nfa, sid, tb, *rem[i].0, #[trigger] mapped@[i])
        }),
//@}
//@after 1 mapped.clear();{
    let ghost mut m0: Seq<(u32, u32)> = Seq::empty();
//@}
//@after 1 for verif_ref1 in verif_iter2{
    proof {
        m0 = mapped@;
        let rem = rem0;
        assert(m0.len() == rem.len());
        lemma_iter_keys_distinct(edges, rem);
        // every edge is represented, and the pairs are pairwise distinct
        assert forall|label: char| edges.contains_key(label) implies exists|i: int| 0 <= i < m0.len() && pair_of(*nfa, sid, tb, label, #[trigger] m0[i]) by {
            assert(rem.contains((&label, &edges[label])));
            let i = choose|i: int| 0 <= i < rem.len() && rem[i] == (&label, &edges[label]);
            assert(pair_of(*nfa, sid, tb, *rem[i].0, m0[i]));
        }
        assert(m0.no_duplicates()) by {
            assert forall|i: int, j: int| 0 <= i < m0.len() && 0 <= j < m0.len() && i != j implies m0[i] != m0[j] by {
                assert(pair_of(*nfa, sid, tb, *rem[i].0, m0[i]) && pair_of(*nfa, sid, tb, *rem[j].0, m0[j]));
                if m0[i] == m0[j] { assert(map_code(tb, *rem[i].0 as u32) == map_code(tb, *rem[j].0 as u32)); }
            }
        }
        assert forall|i: int| 0 <= i < m0.len() implies pair_ok(*nfa, sid, tb, #[trigger] m0[i]) by {
            assert(pair_of(*nfa, sid, tb, *rem0[i].0, m0[i]));
        }
    }
//@}
//@after 1 verif_sort_pairs(&mut mapped);{
    let ghost s1 = mapped@;
    proof {
        lemma_mapped_ok(*nfa, sid, tb, asz, self.block_len, m0, s1);
        assert(s1.len() > 0) by { assert(edges.dom().len() > 0); }
    }
    let ghost len0 = self.states@.len();
    let ghost h0 = helper;
    let ghost st0 = self.states@;
//@}
//@before 1 for verif_ref2 in mapped.iter(){
    proof {
        // stage B: a possibly appended block does not disturb the encoding; then open the state
        lemma_cwb_extend(*nfa, st0, self.states@, tb, state_id_map@, inv, owner, done, -1, 0, Seq::empty(), 0);
        lemma_cwb_facts(*nfa, self.states@, tb, state_id_map@, inv, owner, done, -1, 0, Seq::empty(), 0);
        assert(cwb_used(inv, helper)) by {
            lemma_cwb_facts(*nfa, st0, tb, state_id_map@, inv, owner, done, -1, 0, Seq::empty(), 0);
            assert forall|y: int| #[trigger] inv.contains_key(y) && h_active(helper, y) implies h_used_index(helper, y) by {
                assert(0 <= y < st0.len());
                if base@ >= len0 { lemma_window(h0); assert(h_active(h0, y)); }
            }
        }
        lemma_cwb_begin(*nfa, self.states@, tb, state_id_map@, inv, owner, done, sid, base@, self.block_len, s1);
        lemma_window(helper);
        lemma_window(h0);
        let bl = self.block_len;
        if base@ >= len0 { lemma_same_block_cw(len0 as u32, s1[0].0, bl, len0 as int, len0 as int + bl as int); }
        assert(base@ < self.states@.len());
        assert forall|j: int| 0 <= j < s1.len() implies h_active(helper, (base@ ^ (#[trigger] s1[j]).0) as int) && !h_used_index(helper, (base@ ^ s1[j].0) as int) by {
            if base@ >= len0 {
                // fresh block: base = len0 ^ c0, child = len0 ^ (c0 ^ c)
                let c0 = s1[0].0; let c = s1[j].0; let l0 = len0 as u32;
                assert(bl > 0 && bl & sub(bl, 1) == 0 && c0 < bl && c < bl ==> (c0 ^ c) < bl) by(bit_vector);
                assert((l0 ^ c0) ^ c == l0 ^ (c0 ^ c)) by(bit_vector);
                lemma_same_block_cw(l0, c0 ^ c, bl, len0 as int, len0 as int + bl as int);
            }
        }
    }
    let ghost stack0 = stack@;
//@}
//@loopiter 3 it3
//@loop 3{
    invariant
        self.mapper.table@ == tb, self.mapper.alphabet_size == asz, self.mapper == old(self).mapper,
        cb_inv(*self, helper), nfa_tree(*nfa), n == nfa.states@.len(), 0 <= sid < n, sid != 1, edges == nfa_edges(*nfa, sid),
        mapped@ == s1, mapped_ok(*nfa, sid, tb, self.block_len, s1),
        state_id_map@.len() == n,
        forall|i: int| 0 <= i < n ==> (#[trigger] state_id_map@[i]) < self.states@.len(),
        state_id_map@[0] == 0, state_id_map@[1] == 1,
        forall|x: int| 0 <= x < self.states@.len() ==> (#[trigger] self.states@[x]).fail == 1 && self.states@[x].output_pos.is_none(),
        self.match_kind == old(self).match_kind,
        base@ < self.states@.len(), state_idx < self.states@.len(), state_idx == state_id_map@[sid], state_idx != 1,
        forall|j: int| it3.index@ <= j < s1.len() ==> h_active(helper, (base@ ^ (#[trigger] s1[j]).0) as int) && !h_used_index(helper, (base@ ^ s1[j].0) as int),
        forall|j: int| 0 <= j < it3.index@ ==> state_id_map@[(#[trigger] s1[j]).1 as int] != 1,
        forall|k: int| 0 <= k < stack@.len() ==> (#[trigger] stack@[k]) < n && stack@[k] != 1 && state_id_map@[stack@[k] as int] != 1,
        forall|s: int, c: char| done.contains(s) && #[trigger] nfa_edges(*nfa, s).contains_key(c) ==> 0 <= s < n && state_id_map@[nfa_edges(*nfa, s)[c] as int] != 1,
        forall|s: int| 0 <= s < n && s != 1 && s != sid && #[trigger] state_id_map@[s] != 1 ==> done.contains(s) || stack@.contains(s as u32),
        state_id_map@[sid] != 1,
        // stage B
        cwb(*nfa, self.states@, tb, state_id_map@, inv, owner, done, sid, base@, s1, it3.index@ as int), cwb_used(inv, helper),
        stack@.no_duplicates(), forall|k: int| 0 <= k < stack@.len() ==> !done.contains(#[trigger] stack@[k] as int) && stack@[k] != sid,
        !done.contains(sid),
//@}
//@loopbody 3{
    // snapshots at the start of the body, all reasoning at its end (order-insensitive placement)
    let ghost j0 = it3.index@ as int;
    let ghost st_before = stack@;
    let ghost h_before = helper;
    let ghost states_before = self.states@;
    let ghost map_before = state_id_map@;
//@}
//@loopend 3{
    proof {
        assert((c, child_id) == s1[j0]);
        assert(stack@ == st_before.push(child_id));
        assert(stack@[stack@.len() - 1] == child_id);
        assert forall|x: u32| st_before.contains(x) implies stack@.contains(x) by {
            let k = choose|k: int| 0 <= k < st_before.len() && st_before[k] == x;
            assert(stack@[k] == x);
        }
        assert forall|j: int| j0 + 1 <= j < s1.len() implies h_active(helper, (base@ ^ (#[trigger] s1[j]).0) as int)
                   && !h_used_index(helper, (base@ ^ s1[j].0) as int) by {
            assert(s1[j].0 != s1[j0].0);
            if (base@ ^ s1[j].0) == (base@ ^ c) { lemma_xor_inj_cw(base@, s1[j].0, c); }
            assert(h_active(h_before, (base@ ^ s1[j].0) as int));
        }
        // stage B: one more child placed
        let y = child_idx as int;
        assert(!inv.contains_key(y)) by { if inv.contains_key(y) { assert(h_used_index(h_before, y)); } }
        assert(y >= 2) by { if y == 0 || y == 1 { assert(h_used_index(h_before, y)); } }
        // guarded: if the placement is not the expected one the loop invariant (not this hint) is what fails
        if cwb_step_rel(states_before, self.states@, map_before, state_id_map@, inv, sid, base@, s1, j0) {
            lemma_cwb_step(*nfa, states_before, self.states@, tb, map_before, state_id_map@, inv, owner, done, sid, base@, self.block_len, s1, j0);
        }
        lemma_cwb_facts(*nfa, states_before, tb, map_before, inv, owner, done, sid, base@, s1, j0);
        assert forall|z: int| #[trigger] inv.insert(y, child_id as int).contains_key(z) && h_active(helper, z) implies h_used_index(helper, z) by {
            if z != y { assert(inv.contains_key(z)); assert(h_active(h_before, z)); }
        }
        inv = inv.insert(y, child_id as int);
        // the child was not placed before, so it is neither on the stack nor finished
        reveal(cwb);
        assert(map_before[child_id as int] == 1);
        assert forall|k: int| 0 <= k < st_before.len() implies #[trigger] st_before[k] != child_id by { if st_before[k] == child_id { assert(map_before[st_before[k] as int] != 1); } }
        assert(stack@.no_duplicates());
        assert(!done.contains(child_id as int));
        assert(child_id as int != sid);
    }
//@}
//@before 1 self.states[usize::from_u32(state_idx)].set_base(base);{
    let ghost states_b = self.states@;
//@}
//@after 1 self.states[usize::from_u32(state_idx)].set_base(base);{
    proof {
        lemma_cwb_finish(*nfa, states_b, self.states@, tb, state_id_map@, inv, owner, done, sid, base, self.block_len, s1);
        owner = owner.insert(state_id_map@[sid] as int, sid);
        assert forall|label: char| edges.contains_key(label) implies state_id_map@[edges[label] as int] != 1 by {
            let i = choose|i: int| 0 <= i < s1.len() && pair_of(*nfa, sid, tb, label, #[trigger] s1[i]);
            assert(s1[i].1 == edges[label]);
        }
        lemma_done_grows(done, sid, n);
        done = done.insert(sid);
        gstack = stack@;
    }
//@}
//@before 1 for i in 0..nfa.states.len(){
    proof {
        assert(stack@.len() == 0);
        assert forall|t: int| 0 <= t < n && t != 1 implies state_id_map@[t] != 1 by {
            lemma_all_placed(*nfa, state_id_map@, done, t);
        }
        let bl = self.block_len as int;
        assert(self.states@.len() >= 2) by { assert(helper.num_blocks as int * bl >= bl) by (nonlinear_arith) requires helper.num_blocks >= 1, bl >= 2; }
        // stage B: everything is placed and finished
        assert forall|t: int| 0 <= t < n && t != 1 implies #[trigger] state_id_map@[t] != 1 && done.contains(t) by {
            lemma_all_placed(*nfa, state_id_map@, done, t);
            if !done.contains(t) { assert(stack@.contains(t as u32)); }
        }
    }
    let ghost stl = self.states@;
    let ghost idm = state_id_map@;
    proof {
        // distinct NFA states have distinct slots (needed so that the fail/output_pos writes do not interfere)
        reveal(cwb);
        assert forall|t1: int, t2: int| 0 <= t1 < n && 0 <= t2 < n && t1 != 1 && t2 != 1 && #[trigger] idm[t1] == #[trigger] idm[t2] implies t1 == t2 by {
            if t1 >= 2 { assert(inv[idm[t1] as int] == t1); }
            if t2 >= 2 { assert(inv[idm[t2] as int] == t2); }
            if t1 == 0 && t2 >= 2 { assert(inv.contains_key(idm[t2] as int)); }
            if t2 == 0 && t1 >= 2 { assert(inv.contains_key(idm[t1] as int)); }
        }
    }
//@}
//@loop 4{
    invariant
        self.mapper == old(self).mapper, self.states@.len() >= 2, state_id_map@ == idm, self.states@.len() == stl.len(),
        forall|t1: int, t2: int| 0 <= t1 < n && 0 <= t2 < n && t1 != 1 && t2 != 1 && #[trigger] idm[t1] == #[trigger] idm[t2] ==> t1 == t2,
        forall|y: int| 0 <= y < stl.len() ==> (#[trigger] self.states@[y]).base == stl[y].base && self.states@[y].check == stl[y].check,
        forall|s: int| 0 <= s < i && s != 1 ==> (#[trigger] self.states@[idm[s] as int]).fail == (if nfa.states@[s].fail == 1 { 1u32 } else { idm[nfa.states@[s].fail as int] })
            && self.states@[idm[s] as int].output_pos == nfa.states@[s].output_pos,
        forall|x: int| 0 <= x < self.states@.len() ==> (#[trigger] self.states@[x]).output_pos.is_none() || slot_used_cw(*nfa, idm, x),
        self.match_kind == old(self).match_kind,
        cb_inv(*self, helper), nfa_tree(*nfa), n == nfa.states@.len(), state_id_map@.len() == n,
        forall|i: int| 0 <= i < n ==> (#[trigger] state_id_map@[i]) < self.states@.len(),
        forall|t: int| 0 <= t < n && t != 1 ==> #[trigger] state_id_map@[t] != 1,
        forall|x: int| 0 <= x < self.states@.len() ==> (#[trigger] self.states@[x]).fail < self.states@.len(),
//@}
//@before 1 let idx = usize::from_u32(state_id_map[i]);{
    let ghost st_i = self.states@;
//@}
//@before 1 self.states.shrink_to_fit();{
    proof {
        lemma_cwb_final(*nfa, stl, self.states@, tb, idm, inv, owner, done);
    }
//@}
//@before 1 Ok(()){
    proof {
        lemma_window(helper);
        assert(cw_built(self.states@, self.mapper.table@, *nfa, idm));
    }
//@}
//@endimpl
