// ---- nfa_builder.rs: the fail / output passes over the finished trie, instantiated for the byte-wise label type (R30) ----
// R28: the map of a cell that is borrowed for the whole loop is iterated through a snapshot (BTreeMap::clone: same map)
#[verifier::external_body]
fn verif_edges_snapshot<L: Copy + Ord>(m: &EdgeMap<L>) -> (r: EdgeMap<L>)
    ensures r@ == m@,
{
    m.clone()
}

// std: Option::and (not specified by vstd)
pub assume_specification<T, U>[Option::<T>::and::<U>](a: Option<T>, b: Option<U>) -> (r: Option<U>)
    ensures r == (if a.is_some() { b } else { None::<U> });

//@include ghost_pass_bfs.rs
//@include ghost_lm_dead.rs

//@impl src/nfa_builder.rs impl<L, V> NfaBuilder<L, V>
//@mono L=u8
//@fn build_fails
//@pre{
#[verifier::loop_isolation(false)]
#[verifier::allow_complex_invariants]
//@}
//@rules R28 R29 R9 R5 R13b
//@ret q
//@head{
//@includeblock pass_heads.inc build_fails
//@}
//@start{
    broadcast use vstd::std_specs::btree::group_btree_axioms;
    let ghost n0 = *self;
    let ghost mut ps: Set<u8> = Set::empty();
    proof {
        label_key_model();
        lemma_trie_gives_tree(n0);
        assert(pctx(n0)) by { reveal(pctx); }
        lemma_fails_start(n0);
    }
//@}
//@loopiter 1 it1
//@loop 1{
    invariant *self == n0, pctx(n0), fresh_links(n0), n0.states@.len() > 2, vstd::std_specs::btree::key_obeys_cmp_spec::<u8>(),
        q@.len() == it1.index@, fails_inv(n0, n0, q@),
        ({ let rem = it1.snapshot@.remaining(); let e0 = nfa_edges(n0, 0);
           &&& rem.len() == e0.len()
           &&& exists|ks: Seq<u8>| ks.no_duplicates() && ks.len() == rem.len()
                  && (forall|i: int| 0 <= i < ks.len() ==> e0.contains_key(#[trigger] ks[i]) && e0[ks[i]] == *rem[i])
           &&& forall|i: int| 0 <= i < q@.len() ==> #[trigger] q@[i] == *rem[i]
        }),
//@}
//@loopbody 1{
    let ghost qa = q@;
//@}
//@loopend 1{
    proof {
        assert(q@.drop_last() =~= qa);
        let rem = it1.snapshot@.remaining(); let e0 = nfa_edges(n0, 0);
        let ks = choose|ks: Seq<u8>| ks.no_duplicates() && ks.len() == rem.len()
                  && (forall|i: int| 0 <= i < ks.len() ==> e0.contains_key(#[trigger] ks[i]) && e0[ks[i]] == *rem[i]);
        let k = q@.len() - 1;
        assert(e0.contains_key(ks[k]));
        lemma_fails_push_root_child(n0, q@.drop_last(), ks[k]);
        assert(q@ =~= q@.drop_last().push(e0[ks[k]]));
    }
//@}
//@loop 2{
    invariant pctx(n0), 2 < n0.states@.len() <= u32::MAX as nat + 1, vstd::std_specs::btree::key_obeys_cmp_spec::<u8>(), 0 <= qi <= q@.len(),
        bfs_inv(n0, q@, qi as int, Set::<u8>::empty()), fails_inv(n0, *self, q@),
    decreases n0.states@.len() - qi,
//@}
//@loopbody 2{
    proof {
        reveal(q_basic);
        lemma_q_len_bound(n0, q@);
        lemma_fails_frame(n0, *self, q@);
        ps = Set::empty();
    }
//@}
//@before 1 let verif_snap1{
    // the link of the state being handled does not change while its children are handled
    let ghost sf = self.states@[state_id as int].fail;
//@}
//@loopiter 3 it3
//@loop 3{
    invariant pctx(n0), 2 < n0.states@.len() <= u32::MAX as nat + 1, vstd::std_specs::btree::key_obeys_cmp_spec::<u8>(), 1 <= qi <= q@.len(), state_id == q@[qi - 1], 2 <= state_id < n0.states@.len(),
        fails_inv(n0, *self, q@), bfs_inv(n0, q@, qi - 1, ps), self.states@[state_id as int].fail == sf,
        ({ let rem = it3.snapshot@.remaining(); let e = nfa_edges(n0, state_id as int);
           &&& rem.no_duplicates()
           &&& forall|i: int| 0 <= i < rem.len() ==> e.contains_key(*(#[trigger] rem[i]).0) && e[*rem[i].0] == *rem[i].1
           &&& forall|c: u8| e.contains_key(c) ==> rem.contains((&c, &e[c]))
           &&& forall|j: int| 0 <= j < it3.index@ ==> ps.contains(*(#[trigger] rem[j]).0)
           &&& forall|c: u8| ps.contains(c) ==> exists|j: int| 0 <= j < it3.index@ && *(#[trigger] rem[j]).0 == c
        }),
//@}
//@loopbody 3{
    let ghost b0 = *self;
    let ghost q0 = q@;
    proof {
        let rem = it3.snapshot@.remaining(); let e = nfa_edges(n0, state_id as int);
        let j0 = it3.index@ as int;
        assert(e.contains_key(c) && e[c] == child_id);
        assert(!ps.contains(c)) by {
            if ps.contains(c) {
                let j = choose|j: int| 0 <= j < it3.index@ && *(#[trigger] rem[j]).0 == c;
                assert(rem[j] == rem[j0]);
            }
        }
        lemma_bfs_push(n0, q@, qi - 1, ps, c);
        lemma_fails_frame(n0, *self, q@);
        assert(in_q(q@, state_id as int));
        lemma_fails_get(n0, *self, q@, state_id as int);
        let f = self.states@[state_id as int].fail as int;
        lemma_fail_ok_facts(n0, state_id as int, f);
        if f >= 2 { lemma_shallow_in_q(n0, q@, qi - 1, ps, f); }
        assert forall|r: int| #[trigger] nd_ok(n0, f, c, r) implies fail_ok(n0, child_id as int, r) by {
            lemma_fail_from_nd(n0, state_id as int, c, f, r);
        }
    }
//@}
//@loop 4{
    invariant pctx(n0), 2 < n0.states@.len() <= u32::MAX as nat + 1, vstd::std_specs::btree::key_obeys_cmp_spec::<u8>(), 1 <= qi <= q@.len(), state_id == q@[qi - 1], 2 <= state_id < n0.states@.len(),
        fails_inv(n0, *self, q@), bfs_inv(n0, q@, qi - 1, ps), self.states@[state_id as int].fail == sf,
        0 <= fail_id < n0.states@.len(), fail_id != 1,
        fail_id == 0 || (in_q(q@, fail_id as int) && nfa_depth(n0, fail_id as int) < nfa_depth(n0, state_id as int)),
        forall|r: int| #[trigger] nd_ok(n0, fail_id as int, c, r) ==> fail_ok(n0, child_id as int, r),
    ensures fail_ok(n0, child_id as int, new_fail_id as int),
    decreases nfa_depth(n0, fail_id as int),
//@}
//@loopbody 4{
    proof {
        lemma_fails_frame(n0, *self, q@);
        let f = fail_id as int;
        if nfa_edges(n0, f).contains_key(c) {
            lemma_chase_edge(n0, f, c);
        } else if f == 0 {
            lemma_chase_root(n0, c);
        } else {
            lemma_fails_get(n0, *self, q@, f);
            let g = self.states@[f].fail as int;
            lemma_fail_ok_facts(n0, f, g);
            if g >= 2 { lemma_shallow_in_q(n0, q@, qi - 1, ps, g); }
            assert forall|r: int| #[trigger] nd_ok(n0, g, c, r) implies fail_ok(n0, child_id as int, r) by {
                lemma_chase_step(n0, f, c, g, r);
            }
        }
    }
//@}
//@loopend 3{
    proof {
        // guarded: if the step is not the expected one the loop invariant (not this hint) is what fails
        if set_fail(b0, *self, child_id as int, new_fail_id) && fail_ok(n0, child_id as int, new_fail_id as int) && q@ == q0.push(child_id) {
            lemma_fails_set(n0, b0, *self, q0, child_id, new_fail_id);
        }
        ps = ps.insert(c);
    }
//@}
//@loopend 2{
    proof {
        lemma_bfs_next(n0, q@, qi - 1, ps);
    }
//@}
//@before 1 let mut qi{
    proof {
        let e0 = nfa_edges(n0, 0);
        assert(q@.len() == e0.len());
        let ks = choose|ks: Seq<u8>| ks.no_duplicates() && ks.len() == q@.len()
                  && (forall|i: int| 0 <= i < ks.len() ==> e0.contains_key(#[trigger] ks[i]) && e0[ks[i]] == q@[i]);
        lemma_bfs_start(n0, q@, ks);
    }
//@}
//@after 1 while qi{
    proof { lemma_fails_finish(n0, *self, q@); }
//@}
//@fn build_fails_leftmost
//@pre{
#[verifier::loop_isolation(false)]
#[verifier::allow_complex_invariants]
//@}
//@rules R28 R29 R9 R5 R13b
//@ret q
//@head{
//@includeblock pass_heads.inc build_fails_leftmost
//@}
//@start{
    broadcast use vstd::std_specs::btree::group_btree_axioms;
    let ghost n0 = *self;
    let ghost mut ps: Set<u8> = Set::empty();
    proof {
        label_key_model();
        lemma_trie_gives_tree(n0);
        assert(pctx(n0)) by { reveal(pctx); }
        lemma_lm_start(n0);
        lemma_sem_start(n0);
    }
//@}
//@loopiter 1 it1
//@loop 1{
    invariant *self == n0, pctx(n0), fresh_links(n0), n0.states@.len() > 2, vstd::std_specs::btree::key_obeys_cmp_spec::<u8>(),
        q@.len() == it1.index@, lm_inv(n0, n0, q@), lm_sem(n0, n0, q@), lm_marked(n0, n0, q@, 0),
        ({ let rem = it1.snapshot@.remaining(); let e0 = nfa_edges(n0, 0);
           &&& rem.len() == e0.len()
           &&& exists|ks: Seq<u8>| ks.no_duplicates() && ks.len() == rem.len()
                  && (forall|i: int| 0 <= i < ks.len() ==> e0.contains_key(#[trigger] ks[i]) && e0[ks[i]] == *rem[i])
           &&& forall|i: int| 0 <= i < q@.len() ==> #[trigger] q@[i] == *rem[i]
        }),
//@}
//@loopbody 1{
    let ghost qa = q@;
//@}
//@loopend 1{
    proof {
        assert(q@.drop_last() =~= qa);
        let rem = it1.snapshot@.remaining(); let e0 = nfa_edges(n0, 0);
        let ks = choose|ks: Seq<u8>| ks.no_duplicates() && ks.len() == rem.len()
                  && (forall|i: int| 0 <= i < ks.len() ==> e0.contains_key(#[trigger] ks[i]) && e0[ks[i]] == *rem[i]);
        let k = q@.len() - 1;
        assert(e0.contains_key(ks[k]));
        lemma_lm_push_root_child(n0, q@.drop_last(), ks[k]);
        lemma_sem_push_root_child(n0, q@.drop_last(), ks[k]);
        assert(q@ =~= q@.drop_last().push(e0[ks[k]]));
    }
//@}
//@before 1 let mut qi{
    proof {
        let e0 = nfa_edges(n0, 0);
        assert(q@.len() == e0.len());
        let ks = choose|ks: Seq<u8>| ks.no_duplicates() && ks.len() == q@.len()
                  && (forall|i: int| 0 <= i < ks.len() ==> e0.contains_key(#[trigger] ks[i]) && e0[ks[i]] == q@[i]);
        lemma_bfs_start(n0, q@, ks);
    }
//@}
//@loop 2{
    invariant pctx(n0), 2 < n0.states@.len() <= u32::MAX as nat + 1, vstd::std_specs::btree::key_obeys_cmp_spec::<u8>(), 0 <= qi <= q@.len(),
        bfs_inv(n0, q@, qi as int, Set::<u8>::empty()), lm_inv(n0, *self, q@), lm_sem(n0, *self, q@), lm_marked(n0, *self, q@, qi as int),
    decreases n0.states@.len() - qi,
//@}
//@loopbody 2{
    let ghost ba = *self;
    proof {
        reveal(q_basic);
        lemma_q_len_bound(n0, q@);
        lemma_lm_frame(n0, *self, q@);
        ps = Set::empty();
    }
//@}
//@before 1 let verif_snap1{
    proof {
        if ba.states@[state_id as int].output.is_some() && set_fail(ba, *self, state_id as int, 1) {
            lemma_lm_mark(n0, ba, *self, q@, state_id as int);
        }
        // the dead link of a state that carries an output is its final link; a state without output keeps the link its parent gave it
        if n0.states@[state_id as int].output.is_some() {
            if set_fail(ba, *self, state_id as int, 1) { lemma_sem_mark(n0, ba, *self, q@, qi - 1); }
        } else if *self == ba {
            lemma_sem_nomark(n0, ba, q@, qi - 1);
        }
        lemma_lm_frame(n0, *self, q@);
    }
    // the link of the state being handled does not change while its children are handled
    let ghost sf = self.states@[state_id as int].fail;
//@}
//@loopiter 3 it3
//@loop 3{
    invariant pctx(n0), 2 < n0.states@.len() <= u32::MAX as nat + 1, vstd::std_specs::btree::key_obeys_cmp_spec::<u8>(), 1 <= qi <= q@.len(), state_id == q@[qi - 1], 2 <= state_id < n0.states@.len(),
        lm_inv(n0, *self, q@), bfs_inv(n0, q@, qi - 1, ps), self.states@[state_id as int].fail == sf, lm_sem(n0, *self, q@), lm_marked(n0, *self, q@, qi as int),
        ({ let rem = it3.snapshot@.remaining(); let e = nfa_edges(n0, state_id as int);
           &&& rem.no_duplicates()
           &&& forall|i: int| 0 <= i < rem.len() ==> e.contains_key(*(#[trigger] rem[i]).0) && e[*rem[i].0] == *rem[i].1
           &&& forall|c: u8| e.contains_key(c) ==> rem.contains((&c, &e[c]))
           &&& forall|j: int| 0 <= j < it3.index@ ==> ps.contains(*(#[trigger] rem[j]).0)
           &&& forall|c: u8| ps.contains(c) ==> exists|j: int| 0 <= j < it3.index@ && *(#[trigger] rem[j]).0 == c
        }),
//@}
//@loopbody 3{
    let ghost b0 = *self;
    let ghost q0 = q@;
    proof {
        let rem = it3.snapshot@.remaining(); let e = nfa_edges(n0, state_id as int);
        let j0 = it3.index@ as int;
        assert(e.contains_key(c) && e[c] == child_id);
        assert(!ps.contains(c)) by {
            if ps.contains(c) {
                let j = choose|j: int| 0 <= j < it3.index@ && *(#[trigger] rem[j]).0 == c;
                assert(rem[j] == rem[j0]);
            }
        }
        lemma_bfs_push(n0, q@, qi - 1, ps, c);
        lemma_path_child(n0, state_id as int, c);
        lemma_lm_frame(n0, *self, q@);
        assert(in_q(q@, state_id as int));
        lemma_lm_get(n0, *self, q@, state_id as int);
        let f = self.states@[state_id as int].fail as int;
        if f != 1 { lemma_link_facts(n0, state_id as int, f); }
        if f >= 2 { lemma_shallow_in_q(n0, q@, qi - 1, ps, f); }
        if f != 1 {
            assert forall|r: int| #[trigger] nd_ok(n0, f, c, r) implies fail_ok(n0, child_id as int, r) by {
                lemma_fail_from_nd(n0, state_id as int, c, f, r);
            }
        }
        // the link of the state being handled is final: dead exactly if dead_sem
        lemma_sem_final(n0, *self, q@, qi as int, qi - 1);
        if f == 1 { lemma_dead_child(n0, state_id as int, c); }
        else { lemma_within_init(n0, state_id as int, f); lemma_max_init(n0, state_id as int, c, f); lemma_depth_is_path_len(n0, f); lemma_depth_is_path_len(n0, state_id as int); }
    }
//@}
//@loop 4{
    invariant pctx(n0), 2 < n0.states@.len() <= u32::MAX as nat + 1, vstd::std_specs::btree::key_obeys_cmp_spec::<u8>(), 1 <= qi <= q@.len(), state_id == q@[qi - 1], 2 <= state_id < n0.states@.len(),
        lm_inv(n0, *self, q@), bfs_inv(n0, q@, qi - 1, ps), self.states@[state_id as int].fail == sf, lm_sem(n0, *self, q@), lm_marked(n0, *self, q@, qi as int),
        2 <= child_id < n0.states@.len(), nfa_depth(n0, child_id as int) == nfa_depth(n0, state_id as int) + 1,
        0 <= fail_id < n0.states@.len(), fail_id != 1, nfa_depth(n0, fail_id as int) < nfa_depth(n0, state_id as int),
        fail_id == 0 || in_q(q@, fail_id as int),
        nfa_edges(n0, state_id as int).contains_key(c), nfa_edges(n0, state_id as int)[c] == child_id,
        forall|r: int| #[trigger] nd_ok(n0, fail_id as int, c, r) ==> fail_ok(n0, child_id as int, r),
        // every registered occurrence inside the parent's path lies inside the suffix the chase is at; no longer proper suffix continues with c
        is_suffix(path(n0, fail_id as int), path(n0, state_id as int)),
        within(n0, path(n0, state_id as int), path(n0, fail_id as int).len() as int), chase_max(n0, state_id as int, c, path(n0, fail_id as int).len() as int),
    ensures link_ok(n0, child_id as int, new_fail_id as int), lm_dead_link(n0, child_id as int, new_fail_id as int),
    decreases nfa_depth(n0, fail_id as int),
//@}
//@loopbody 4{
    proof {
        lemma_lm_frame(n0, *self, q@);
        let f = fail_id as int;
        if nfa_edges(n0, f).contains_key(c) {
            lemma_path_child(n0, f, c);
            lemma_chase_edge(n0, f, c);
            lemma_link_from_fail_ok(n0, child_id as int, nfa_edges(n0, f)[c] as int);
            lemma_depth_is_path_len(n0, f); lemma_depth_is_path_len(n0, state_id as int);
            lemma_sem_edge(n0, state_id as int, c, f);
        } else if f == 0 {
            lemma_chase_root(n0, c);
            lemma_link_from_fail_ok(n0, child_id as int, 0);
            assert(path(n0, 0).len() == 0);
            lemma_sem_root(n0, state_id as int, c);
        } else {
            lemma_lm_get(n0, *self, q@, f);
            let g = self.states@[f].fail as int;
            // f is strictly shallower than the state being handled: its link is final
            assert(q_basic(n0, q@));
            lemma_sem_final_shallow(n0, *self, q@, qi as int, f);
            if g == 1 { lemma_sem_dead(n0, state_id as int, c, f); }
            if g != 1 {
                lemma_link_facts(n0, f, g);
                lemma_within_step(n0, path(n0, state_id as int), f, g); lemma_max_step(n0, state_id as int, c, f, g);
                lemma_suffix_trans(path(n0, g), path(n0, f), path(n0, state_id as int));
                if g >= 2 { lemma_shallow_in_q(n0, q@, qi - 1, ps, g); }
                assert forall|r: int| #[trigger] nd_ok(n0, g, c, r) implies fail_ok(n0, child_id as int, r) by {
                    lemma_chase_step(n0, f, c, g, r);
                }
            }
        }
    }
//@}
//@loopend 3{
    proof {
        // guarded: if the step is not the expected one the loop invariant (not this hint) is what fails
        if set_fail(b0, *self, child_id as int, new_fail_id) && link_ok(n0, child_id as int, new_fail_id as int) && q@ == q0.push(child_id) {
            lemma_lm_set(n0, b0, *self, q0, child_id, new_fail_id);
        }
        if set_fail(b0, *self, child_id as int, new_fail_id) && lm_dead_link(n0, child_id as int, new_fail_id as int) && q@ == q0.push(child_id) {
            lemma_sem_set(n0, b0, *self, q0, qi as int, child_id, new_fail_id);
        }
        ps = ps.insert(c);
    }
//@}
//@loopend 2{
    proof {
        lemma_bfs_next(n0, q@, qi - 1, ps);
    }
//@}
//@after 1 while qi{
    proof { lemma_lm_finish(n0, *self, q@); lemma_sem_finish(n0, *self, q@); }
//@}
//@fn build_outputs
//@rules R28 R9 R5
//@head{
//@includeblock pass_heads.inc build_outputs
//@}
//@start{
    let ghost n0 = *self;
    proof {
        lemma_trie_gives_tree(n0);
        assert(pctx(n0)) by { reveal(pctx); }
        assert(octx(n0, q@)) by { reveal(octx); }
        lemma_outs_start(n0, q@);
        lemma_outs_sound_start(n0, q@);
        lemma_outs_inh_start(n0, q@);
        lemma_octx_entry(n0, q@, 0);
    }
//@}
//@loopiter 1 it1
//@loop 1{
    invariant octx(n0, q@), 0 <= it1.index@ <= q@.len(),
        it1.snapshot@.remaining().len() == q@.len(), forall|i: int| 0 <= i < q@.len() ==> *(#[trigger] it1.snapshot@.remaining()[i]) == q@[i],
        outs_inv(n0, *self, q@, it1.index@ as int), outs_sound(n0, *self, q@, it1.index@ as int), outs_inh(n0, *self, q@, it1.index@ as int),
        ac_fail(n0) ==> outs_ac(n0, *self, q@, it1.index@ as int),
//@}
//@loopbody 1{
    let ghost b0 = *self;
    let ghost i0 = it1.index@ as int;
    proof {
        assert(state_id == q@[i0]);
        lemma_outs_frame(n0, b0, q@, i0);
        lemma_octx_entry(n0, q@, i0);
    }
//@}
//@loopend 1{
    proof {
        // guarded: if the step is not the expected one the loop invariant (not this hint) is what fails
        if outs_step_rel(n0, b0, *self, q@, i0) {
            lemma_outs_step(n0, b0, *self, q@, i0);
            lemma_outs_sound_step(n0, b0, *self, q@, i0);
            lemma_outs_inh_step(n0, b0, *self, q@, i0);
            if ac_fail(n0) { lemma_outs_ac_step(n0, b0, *self, q@, i0); }
        }
    }
//@}
//@after 1 for verif_ref1{
    proof { lemma_outs_finish(n0, *self, q@); lemma_outs_sound_finish(n0, *self, q@); lemma_outs_inh_finish(n0, *self, q@); if lm_dead_ok(n0) { lemma_dead_ok_frame(n0, *self); } if lm_fail_ok(n0) { lemma_lm_fail_ok_frame(n0, *self); } }
//@}
//@endimpl

//@impl src/lib.rs impl<V> Output<V>
//@fn new
//@ret r
//@head{
    ensures r == (Output { value, length, parent })
//@}
//@endimpl
