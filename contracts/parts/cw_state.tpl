//@item src/charwise.rs const ROOT_STATE_IDX
//@item src/charwise.rs const DEAD_STATE_IDX
//@item src/charwise/mapper.rs const INVALID_CODE
//@item src/charwise.rs struct State
//@item src/charwise/mapper.rs struct CodeMapper

//@include ghost_mapcode.rs

//@impl src/charwise.rs impl Default for State
//@fn default
//@ret r
//@head{
    ensures r.base.is_none(), r.check == 1, r.fail == 1, r.output_pos.is_none()
//@}
//@endimpl

//@impl src/charwise.rs impl State
//@fn base
//@ret r
//@head{
    ensures r == self.base
//@}
//@fn check
//@ret r
//@head{
    ensures r == self.check
//@}
//@fn fail
//@ret r
//@head{
    ensures r == self.fail
//@}
//@fn output_pos
//@ret r
//@head{
    ensures r == self.output_pos
//@}
//@fn set_base
//@head{
    ensures *final(self) == (State { base: Some(x), ..*old(self) })
//@}
//@fn set_check
//@head{
    ensures *final(self) == (State { check: x, ..*old(self) })
//@}
//@fn set_fail
//@head{
    ensures *final(self) == (State { fail: x, ..*old(self) })
//@}
//@fn set_output_pos
//@head{
    ensures *final(self) == (State { output_pos: x, ..*old(self) })
//@}
//@endimpl

//@impl src/charwise/mapper.rs impl CodeMapper
//@fn get
//@ret r
//@head{
    ensures r == map_code(self.table@, c as u32)
//@}
//@closure 1 |&code| => |code_: &u32| -> (b: bool){
    ensures b == (*code_ != u32::MAX)
//@}
//@fn alphabet_size
//@ret r
//@head{
    ensures r == self.alphabet_size
//@}
//@endimpl
