//@item src/bytewise/iter.rs struct FindIterator
//@item src/bytewise/iter.rs struct FindOverlappingIterator
//@item src/bytewise/iter.rs struct FindOverlappingNoSuffixIterator
//@item src/bytewise/iter.rs struct LestmostFindIterator
