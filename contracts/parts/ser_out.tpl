//@item src/lib.rs struct Output
//@impl src/lib.rs Serializable for Output<V>
//@keeptrait
    spec fn ser_spec(&self) -> Seq<u8> { self.value.ser_spec() + self.length.ser_spec() + self.parent.ser_spec() }
    spec fn nbytes() -> nat { V::nbytes() + 8 }
    spec fn width_ok() -> bool { V::width_ok() && V::nbytes() < 0x1000_0000 }
    proof fn lemma_ser_len(&self) { self.value.lemma_ser_len(); }
//@fn serialize_to_vec
//@start{
    let ghost d0 = dst@;
//@}
//@fn deserialize_from_slice
//@ret r
//@start{
    let ghost src0 = src@;
    let ghost n = V::nbytes() as int;
//@}
//@before 1 Self {{
    proof {
        assert forall|o: Output<V>| src0.take(n + 8) == o.ser_spec() implies value == o.value && length == o.length && parent == o.parent by {
            let s = o.ser_spec();
            o.value.lemma_ser_len();
            assert(src0.take(n) =~= s.take(n) && s.take(n) =~= o.value.ser_spec());
            assert(src0.skip(n).take(4) =~= s.skip(n).take(4) && s.skip(n).take(4) =~= o.length.ser_spec());
            assert(src0.skip(n).skip(4).take(4) =~= s.skip(n + 4).take(4) && s.skip(n + 4).take(4) =~= o.parent.ser_spec());
        }
        assert(src@ =~= src0.skip(n + 8));
    }
//@}
//@fn serialized_bytes
//@ret r
//@endimpl

