//@item src/bytewise/builder.rs const BLOCK_LEN
//@item src/bytewise/builder.rs type BytewiseNfaBuilder
//@item src/bytewise/builder.rs struct DoubleArrayAhoCorasickBuilder
//@include ghost_build_bw.rs
//@include ghost_nfa.rs

//@impl src/bytewise/builder.rs impl DoubleArrayAhoCorasickBuilder
//@fn init_array
//@rules R12x
//@ret r
//@head{
    requires old(self).states@.len() == 0, old(self).num_free_blocks >= 1
    ensures final(self).num_free_blocks == old(self).num_free_blocks, final(self).match_kind == old(self).match_kind,
        match r {
            Ok(h) => b_inv(*final(self), h) && final(self).states@.len() == 256 && h.num_free_blocks == old(self).num_free_blocks
                && h_lo(h) == 0 && h_hi(h) == 256
                && (forall|i: int| 0 <= i < 256 ==> (#[trigger] final(self).states@[i]).base.is_none())
                && (forall|j: int| 2 <= j < 256 ==> !h_used_index(h, j))
                && (forall|j: int| 0 <= j < 256 ==> !h_used_base(h, j)),
            Err(e) => e is AutomatonScale,
        }
//@}
//@after 1 let mut helper = BuildHelper::new(BLOCK_LEN, self.num_free_blocks)?;{
    let ghost hn = helper;
    proof { lemma_window(hn); }
//@}
//@after 1 helper.push_block().unwrap();{
    let ghost hp = helper;
    proof {
        lemma_window(hp);
        assert(h_hi(hp) == 256) by (nonlinear_arith) requires hp.num_blocks == 1, hp.block_len == 256, h_hi(hp) == hp.num_blocks as int * hp.block_len as int;
        assert(h_lo(hp) == 0) by {
            if hp.num_blocks >= hp.num_free_blocks { assert(hp.num_free_blocks == 1); }
            assert(0 * 256 == 0);
        }
        assert(h_hi(hn) == 0) by (nonlinear_arith) requires hn.num_blocks == 0, h_hi(hn) == hn.num_blocks as int * hn.block_len as int;
        assert(!h_used_index(hp, 0) && !h_used_index(hp, 1));
        assert(l_vac(h_cells(hp), 0, 256, 0) && l_vac(h_cells(hp), 0, 256, 1));
    }
//@}
//@after 1 helper.use_index(ROOT_STATE_IDX);{
    proof { assert(l_vac(h_cells(helper), 0, 256, 1)); }
//@}
//@fn check_valid_base
//@rules R5
//@ret r
//@head{
    requires h_wf(*helper), helper.block_len == 256, h_active(*helper, base as int)
    ensures r.is_some() ==> r.unwrap()@ == base && base != 0 && !h_used_base(*helper, base as int)
        && forall|i: int| 0 <= i < labels@.len() ==> !h_used_index(*helper, (base ^ (#[trigger] labels@[i]) as u32) as int)
//@}
//@start{
    proof { lemma_window(*helper); }
//@}
//@loopiter 1 it
//@loop 1{
    invariant h_wf(*helper), helper.block_len == 256, h_active(*helper, base as int),
        h_lo(*helper) % 256 == 0, h_hi(*helper) % 256 == 0, 0 <= h_lo(*helper), h_hi(*helper) <= u32::MAX,
        forall|i: int| 0 <= i < it.index@ ==> !h_used_index(*helper, (base ^ (#[trigger] labels@[i]) as u32) as int),
//@}
//@before 1 let idx = base ^ u32::from(c);{
    proof { lemma_same_block(base, c, h_lo(*helper), h_hi(*helper)); }
//@}
//@fn remove_invalid_checks
//@head{
    requires b_inv(*old(self), *helper), h_lo(*helper) <= block_idx as int * 256, block_idx < helper.num_blocks
    ensures b_inv(*final(self), *helper), final(self).states@.len() == old(self).states@.len(),
        final(self).num_free_blocks == old(self).num_free_blocks, final(self).match_kind == old(self).match_kind,
        forall|i: int| 0 <= i < old(self).states@.len() ==> (#[trigger] final(self).states@[i]).base == old(self).states@[i].base
            && final(self).states@[i].fail == old(self).states@[i].fail && st_opos(final(self).states@[i]) == st_opos(old(self).states@[i])
//@}
//@start{
    proof {
        lemma_window(*helper);
        let k = block_idx as int; let nb = helper.num_blocks as int;
        assert((k + 1) * 256 <= nb * 256) by (nonlinear_arith) requires k + 1 <= nb;
    }
//@}
//@loop 1{
    invariant b_inv(*self, *helper), self.states@.len() == old(self).states@.len(),
        self.num_free_blocks == old(self).num_free_blocks, self.match_kind == old(self).match_kind,
        h_lo(*helper) % 256 == 0, h_hi(*helper) % 256 == 0, 0 <= h_lo(*helper), h_hi(*helper) <= u32::MAX,
        h_active(*helper, unused_base as int),
        forall|i: int| 0 <= i < old(self).states@.len() ==> (#[trigger] self.states@[i]).base == old(self).states@[i].base
            && self.states@[i].fail == old(self).states@[i].fail && st_opos(self.states@[i]) == st_opos(old(self).states@[i])
//@}
//@before 1 let idx = unused_base ^ u32::from(c);{
    proof { lemma_same_block(unused_base, c, h_lo(*helper), h_hi(*helper)); }
//@}
//@fn find_base
//@rules R3own
//@ret r
//@head{
    requires b_inv(*self, *helper), labels@.len() > 0
    ensures r@ == self.states@.len()
        || (h_active(*helper, r@ as int) && !h_used_base(*helper, r@ as int)
            && forall|i: int| 0 <= i < labels@.len() ==> !h_used_index(*helper, (r@ ^ (#[trigger] labels@[i]) as u32) as int))
//@}
//@start{
    proof { lemma_window(*helper); lemma_head(h_cells(*helper), helper.head_idx, h_lo(*helper), h_hi(*helper)); }
//@}
//@loop 1{
    invariant vi_ok(verif_it1), verif_it1.list == helper, b_inv(*self, *helper), labels@.len() > 0,
        h_lo(*helper) % 256 == 0, h_hi(*helper) % 256 == 0, 0 <= h_lo(*helper), h_hi(*helper) <= u32::MAX,
    decreases (match verif_it1.idx { Some(x) => h_hi(*helper) - x, None => 0 })
//@}
//@before 1 let base = idx ^ u32::from(labels[0]);{
    proof { lemma_same_block(idx, labels@[0], h_lo(*helper), h_hi(*helper)); }
//@}
//@fn extend_array
//@rules R12x
//@ret r
//@head{
    requires b_inv(*old(self), *old(helper))
    ensures final(self).num_free_blocks == old(self).num_free_blocks, final(self).match_kind == old(self).match_kind,
        match r {
            Ok(_) => {
                &&& b_inv(*final(self), *final(helper))
                &&& final(self).states@.len() == old(self).states@.len() + 256
                &&& final(helper).num_free_blocks == old(helper).num_free_blocks
                &&& h_lo(*old(helper)) <= h_lo(*final(helper)) <= h_hi(*old(helper))
                &&& forall|j: int| h_lo(*final(helper)) <= j < h_hi(*old(helper)) ==>
                        h_used_index(*final(helper), j) == h_used_index(*old(helper), j) && h_used_base(*final(helper), j) == h_used_base(*old(helper), j)
                &&& forall|j: int| h_hi(*old(helper)) <= j < h_hi(*final(helper)) ==> !h_used_index(*final(helper), j) && !h_used_base(*final(helper), j)
                &&& forall|i: int| 0 <= i < old(self).states@.len() ==> (#[trigger] final(self).states@[i]).base == old(self).states@[i].base
                        && final(self).states@[i].fail == old(self).states@[i].fail && st_opos(final(self).states@[i]) == st_opos(old(self).states@[i])
                &&& forall|i: int| old(self).states@.len() <= i < final(self).states@.len() ==> (#[trigger] final(self).states@[i]).base.is_none()
            },
            Err(e) => e is AutomatonScale,
        }
//@}
//@start{
    let ghost h0 = *helper;
    proof { lemma_window(h0); }
//@}
//@before 1 self.remove_invalid_checks(closed_block_idx, helper);{
    proof { assert(closed_block_idx as int * 256 == h_lo(h0)); }
//@}
//@after 1 helper.push_block()?;{
    let ghost s1 = self.states@;
    proof {
        lemma_window(*helper);
        let nb = h0.num_blocks as int;
        assert((nb + 1) * 256 == nb * 256 + 256) by (nonlinear_arith);
        assert(h_hi(*helper) == h_hi(h0) + 256);
    }
//@}
//@before 1 Ok(()){
    proof {
        assert(self.states@.len() == s1.len() + 256);
        assert(forall|i: int| 0 <= i < s1.len() ==> self.states@[i] == s1[i]);
        assert(forall|i: int| s1.len() <= i < self.states@.len() ==> (#[trigger] self.states@[i]).base.is_none());
        assert(h_hi(h0) >= 256) by { assert(h0.num_blocks as int * 256 >= 256) by (nonlinear_arith) requires h0.num_blocks >= 1; }
        assert forall|j: int| (j == 0 || j == 1) && h_active(*helper, j) implies h_used_index(*helper, j) by {
            assert(h_active(h0, j));
        }
        assert(forall|i: int| 0 <= i < s1.len() ==> (#[trigger] s1[i]).base == old(self).states@[i].base);
        assert(forall|i: int| 0 <= i < s1.len() ==> (#[trigger] s1[i]).base.is_some() ==> s1[i].base.unwrap()@ < s1.len());
        assert(h_wf(*helper));
        assert(self.states@.len() == h_hi(*helper));
        assert forall|i: int| 0 <= i < self.states@.len() implies ((#[trigger] self.states@[i]).base.is_some() ==> self.states@[i].base.unwrap()@ < self.states@.len()) by {
            if i < s1.len() { assert(self.states@[i] == s1[i]); }
        }
        assert(b_inv(*self, *helper));
        assert(h_lo(h0) <= h_lo(*helper) <= h_hi(h0));
        assert(forall|j: int| h_lo(*helper) <= j < h_hi(h0) ==>
                        h_used_index(*helper, j) == h_used_index(h0, j) && h_used_base(*helper, j) == h_used_base(h0, j));
        assert(forall|j: int| h_hi(h0) <= j < h_hi(*helper) ==> !h_used_index(*helper, j) && !h_used_base(*helper, j));
        assert forall|i: int| 0 <= i < old(self).states@.len() implies (#[trigger] self.states@[i]).base == old(self).states@[i].base
                        && self.states@[i].fail == old(self).states@[i].fail && st_opos(self.states@[i]) == st_opos(old(self).states@[i]) by {
            assert(self.states@[i] == s1[i]);
        }
    }
//@}
//@fn build_double_array
//@rules R9 R6b R13 R7 R5
//@ret r
//@head{
    requires old(self).states@.len() == 0, old(self).num_free_blocks >= 1, nfa_tree(*nfa)
//@}
//@endimpl
