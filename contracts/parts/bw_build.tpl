//@item src/bytewise/builder.rs const BLOCK_LEN
//@item src/bytewise/builder.rs type BytewiseNfaBuilder
//@item src/bytewise/builder.rs struct DoubleArrayAhoCorasickBuilder
//@include ghost_build_bw.rs
//@include ghost_nfa.rs
//@include ghost_bwb.rs

//@impl src/bytewise/builder.rs impl DoubleArrayAhoCorasickBuilder
//@fn init_array
//@rules R12x
//@ret r
//@head{
    requires old(self).states@.len() == 0, old(self).num_free_blocks >= 1
    ensures final(self).num_free_blocks == old(self).num_free_blocks, final(self).match_kind == old(self).match_kind,
        match r {
            Ok(h) => b_inv(*final(self), h) && final(self).states@.len() == 256 && h.num_free_blocks == old(self).num_free_blocks
                && h_lo(h) == 0 && h_hi(h) == 256
                && (forall|i: int| 0 <= i < 256 ==> (#[trigger] final(self).states@[i]).base.is_none() && final(self).states@[i].fail == 0 && final(self).states@[i].opos_ch.0 == 0)
                && (forall|j: int| 2 <= j < 256 ==> !h_used_index(h, j))
                && (forall|j: int| 0 <= j < 256 ==> !h_used_base(h, j)),
            Err(e) => e is AutomatonScale,
        }
//@}
//@after 1 let mut helper = BuildHelper::new(BLOCK_LEN, self.num_free_blocks)?;{
    let ghost hn = helper;
    proof { lemma_window(hn); }
//@}
//@after 1 helper.push_block().unwrap();{
    let ghost hp = helper;
    proof {
        lemma_window(hp);
        assert(h_hi(hp) == 256) by (nonlinear_arith) requires hp.num_blocks == 1, hp.block_len == 256, h_hi(hp) == hp.num_blocks as int * hp.block_len as int;
        assert(h_lo(hp) == 0) by {
            if hp.num_blocks >= hp.num_free_blocks { assert(hp.num_free_blocks == 1); }
            assert(0 * 256 == 0);
        }
        assert(h_hi(hn) == 0) by (nonlinear_arith) requires hn.num_blocks == 0, h_hi(hn) == hn.num_blocks as int * hn.block_len as int;
        assert(!h_used_index(hp, 0) && !h_used_index(hp, 1));
        assert(l_vac(h_cells(hp), 0, 256, 0) && l_vac(h_cells(hp), 0, 256, 1));
    }
//@}
//@after 1 helper.use_index(ROOT_STATE_IDX);{
    proof { assert(l_vac(h_cells(helper), 0, 256, 1)); }
//@}
//@fn check_valid_base
//@rules R5
//@pre{
#[verifier::loop_isolation(false)]
//@}
//@ret r
//@head{
    requires h_wf(*helper), helper.block_len == 256, h_active(*helper, base as int)
    ensures r.is_some() ==> r.unwrap()@ == base && base != 0 && !h_used_base(*helper, base as int)
        && forall|i: int| 0 <= i < labels@.len() ==> !h_used_index(*helper, (base ^ (#[trigger] labels@[i]) as u32) as int)
//@}
//@start{
    proof { lemma_window(*helper); }
//@}
//@loopiter 1 it
//@loop 1{
    invariant h_wf(*helper), helper.block_len == 256, h_active(*helper, base as int),
        h_lo(*helper) % 256 == 0, h_hi(*helper) % 256 == 0, 0 <= h_lo(*helper), h_hi(*helper) <= u32::MAX,
        forall|i: int| 0 <= i < it.index@ ==> !h_used_index(*helper, (base ^ (#[trigger] labels@[i]) as u32) as int),
//@}
//@before 1 let idx = base ^ u32::from(c);{
    proof { lemma_same_block(base, c, h_lo(*helper), h_hi(*helper)); }
//@}
//@fn remove_invalid_checks
//@pre{
#[verifier::loop_isolation(false)]
//@}
//@head{
    requires b_inv(*old(self), *helper), h_lo(*helper) <= block_idx as int * helper.block_len as int, block_idx < helper.num_blocks
    ensures b_inv(*final(self), *helper), final(self).states@.len() == old(self).states@.len(),
        final(self).num_free_blocks == old(self).num_free_blocks, final(self).match_kind == old(self).match_kind,
        forall|i: int| 0 <= i < old(self).states@.len() ==> (#[trigger] final(self).states@[i]).base == old(self).states@[i].base
            && final(self).states@[i].fail == old(self).states@[i].fail && st_opos(final(self).states@[i]) == st_opos(old(self).states@[i]),
        // stage B: only the CHECK of free slots of this block changes, and afterwards the block is sane
        forall|x: int| 0 <= x < old(self).states@.len() && !(in_block(x, block_idx as int) && hfree(*helper, x)) ==>
            st_check(#[trigger] final(self).states@[x]) == st_check(old(self).states@[x]),
        hb_sane(final(self).states@, *helper, block_idx as int),
//@}
//@start{
    let ghost kb = block_idx as int;
    proof {
        lemma_window(*helper);
        let k = block_idx as int; let nb = helper.num_blocks as int;
        assert((k + 1) * 256 <= nb * 256) by (nonlinear_arith) requires k + 1 <= nb;
        assert((k + 1) * 256 == k * 256 + 256) by (nonlinear_arith);
    }
//@}
//@loopiter 1 it
//@loop 1{
    invariant b_inv(*self, *helper), self.states@.len() == old(self).states@.len(),
        self.num_free_blocks == old(self).num_free_blocks, self.match_kind == old(self).match_kind,
        h_lo(*helper) % 256 == 0, h_hi(*helper) % 256 == 0, 0 <= h_lo(*helper), h_hi(*helper) <= u32::MAX,
        h_active(*helper, unused_base as int),
        forall|i: int| 0 <= i < old(self).states@.len() ==> (#[trigger] self.states@[i]).base == old(self).states@[i].base
            && self.states@[i].fail == old(self).states@[i].fail && st_opos(self.states@[i]) == st_opos(old(self).states@[i]),
        kb == block_idx as int, in_block(unused_base as int, kb), !h_used_base(*helper, unused_base as int),
        h_lo(*helper) <= kb * 256, kb * 256 + 256 <= h_hi(*helper),
        it.snapshot@.remaining().len() == 256,
        forall|d: int| 0 <= d < 256 ==> it.snapshot@.remaining()[d] == d as u8,
        forall|x: u32| in_block(x as int, kb) && hfree(*helper, x as int) && ((unused_base ^ x) as u8 as int) < it.index@ ==>
            st_check(#[trigger] self.states@[x as int]) == (unused_base ^ x) as u8,
        forall|x: int| 0 <= x < old(self).states@.len() && !(in_block(x, kb) && hfree(*helper, x)) ==>
            st_check(#[trigger] self.states@[x]) == st_check(old(self).states@[x]),
//@}
//@loopbody 1{
    let ghost st_b = self.states@;
    proof { lemma_same_block(unused_base, c, h_lo(*helper), h_hi(*helper)); lemma_same_block(unused_base, c, kb * 256, kb * 256 + 256); }
//@}
//@loopend 1{
    proof {
        assert(c as int == it.index@);
        // guarded: if the slot of this label is free and did not get its CHECK, the loop invariant (not this hint) is what fails
        if hfree(*helper, idx as int) ==> st_check(self.states@[idx as int]) == c {
            assert forall|x: u32| in_block(x as int, kb) && hfree(*helper, x as int) && ((unused_base ^ x) as u8 as int) < it.index@ + 1 implies
                st_check(#[trigger] self.states@[x as int]) == (unused_base ^ x) as u8 by {
                lemma_sanitise_bits(unused_base, x, c);
                assert(x as int / 256 == kb && unused_base as int / 256 == kb);
                if (unused_base ^ x) as u8 == c { assert(x == idx); } else { assert(x != idx); assert(self.states@[x as int] == st_b[x as int]); }
            }
        }
        assert forall|x: int| 0 <= x < old(self).states@.len() && !(in_block(x, kb) && hfree(*helper, x)) implies
            st_check(#[trigger] self.states@[x]) == st_check(old(self).states@[x]) by {
            if x != idx as int { assert(self.states@[x] == st_b[x]); }
        }
        assert forall|i: int| 0 <= i < old(self).states@.len() implies (#[trigger] self.states@[i]).base == old(self).states@[i].base
            && self.states@[i].fail == old(self).states@[i].fail && st_opos(self.states@[i]) == st_opos(old(self).states@[i]) by {
            if i != idx as int { assert(self.states@[i] == st_b[i]); }
        }
    }
//@}
//@after 1 for c in{
    proof { assert(hb_wit(self.states@, *helper, kb, unused_base)); }
//@}
//@fn find_base
//@rules R3own
//@pre{
#[verifier::loop_isolation(false)]
//@}
//@ret r
//@head{
    requires b_inv(*self, *helper), labels@.len() > 0
    ensures r@ > 0, r@ == self.states@.len()
        || (h_active(*helper, r@ as int) && !h_used_base(*helper, r@ as int)
            && forall|i: int| 0 <= i < labels@.len() ==> !h_used_index(*helper, (r@ ^ (#[trigger] labels@[i]) as u32) as int))
//@}
//@start{
    proof { lemma_window(*helper); lemma_head(h_cells(*helper), helper.head_idx, h_lo(*helper), h_hi(*helper)); }
//@}
//@loop 1{
    invariant vi_ok(verif_it1), verif_it1.list == helper, b_inv(*self, *helper), labels@.len() > 0,
        h_lo(*helper) % 256 == 0, h_hi(*helper) % 256 == 0, 0 <= h_lo(*helper), h_hi(*helper) <= u32::MAX,
    decreases (match verif_it1.idx { Some(x) => h_hi(*helper) - x, None => 0 })
//@}
//@before 1 let base = idx ^ u32::from(labels[0]);{
    proof { lemma_same_block(idx, labels@[0], h_lo(*helper), h_hi(*helper)); }
//@}
//@fn extend_array
//@rules R12x
//@ret r
//@head{
    requires b_inv(*old(self), *old(helper))
    ensures final(self).num_free_blocks == old(self).num_free_blocks, final(self).match_kind == old(self).match_kind,
        match r {
            Ok(_) => {
                &&& b_inv(*final(self), *final(helper))
                &&& final(self).states@.len() == old(self).states@.len() + 256
                &&& final(helper).num_free_blocks == old(helper).num_free_blocks
                &&& h_lo(*old(helper)) <= h_lo(*final(helper)) <= h_hi(*old(helper))
                &&& forall|j: int| h_lo(*final(helper)) <= j < h_hi(*old(helper)) ==>
                        h_used_index(*final(helper), j) == h_used_index(*old(helper), j) && h_used_base(*final(helper), j) == h_used_base(*old(helper), j)
                &&& forall|j: int| h_hi(*old(helper)) <= j < h_hi(*final(helper)) ==> !h_used_index(*final(helper), j) && !h_used_base(*final(helper), j)
                &&& forall|i: int| 0 <= i < old(self).states@.len() ==> (#[trigger] final(self).states@[i]).base == old(self).states@[i].base
                        && final(self).states@[i].fail == old(self).states@[i].fail && st_opos(final(self).states@[i]) == st_opos(old(self).states@[i])
                &&& forall|i: int| old(self).states@.len() <= i < final(self).states@.len() ==> (#[trigger] final(self).states@[i]).base.is_none()
                        && final(self).states@[i].fail == 0 && final(self).states@[i].opos_ch.0 == 0
                // stage B: at most one block leaves the window, and it is sanitised on the way out
                &&& h_lo(*final(helper)) == h_lo(*old(helper)) || h_lo(*final(helper)) == h_lo(*old(helper)) + 256
                &&& h_hi(*final(helper)) == h_hi(*old(helper)) + 256
                &&& forall|x: int| 0 <= x < old(self).states@.len() && !(h_lo(*final(helper)) > h_lo(*old(helper)) && in_block(x, h_lo(*old(helper)) / 256) && hfree(*old(helper), x)) ==>
                        st_check(#[trigger] final(self).states@[x]) == st_check(old(self).states@[x])
                &&& h_lo(*final(helper)) > h_lo(*old(helper)) ==> hb_sane(final(self).states@, *old(helper), h_lo(*old(helper)) / 256)
            },
            Err(e) => e is AutomatonScale,
        }
//@}
//@start{
    let ghost h0 = *helper;
    let ghost kbd: int = if h0.num_blocks >= h0.num_free_blocks { h0.num_blocks - h0.num_free_blocks } else { -1 };
    proof { lemma_window(h0); }
//@}
//@before 1 helper.push_block()?;{
    let ghost sr = self.states@;
    proof {
        // the block that is about to leave the window (if any) has just been sanitised; the hook does not name the
        // variable of the `if let`, the facts come from the contracts of dropped_block and remove_invalid_checks
        if kbd >= 0 {
            assert(h_lo(h0) == kbd * 256 && h_lo(h0) / 256 == kbd) by {
                assert(((h0.num_blocks - h0.num_free_blocks) * 256) / 256 == h0.num_blocks - h0.num_free_blocks) by (nonlinear_arith);
            }
            assert(hb_sane(sr, h0, kbd));
        }
        else { assert(sr == old(self).states@); }
    }
//@}
//@after 1 helper.push_block()?;{
    let ghost s1 = self.states@;
    proof {
        lemma_window(*helper);
        lemma_lo_step(h0, *helper);
        assert(h_hi(*helper) == h_hi(h0) + 256);
    }
//@}
//@before 1 Ok(()){
    proof {
        assert(self.states@.len() == s1.len() + 256);
        assert(forall|i: int| 0 <= i < s1.len() ==> self.states@[i] == s1[i]);
        assert(forall|i: int| s1.len() <= i < self.states@.len() ==> (#[trigger] self.states@[i]).base.is_none() && self.states@[i].fail == 0 && self.states@[i].opos_ch.0 == 0);
        assert(h_hi(h0) >= 256) by { assert(h0.num_blocks as int * 256 >= 256) by (nonlinear_arith) requires h0.num_blocks >= 1; }
        assert forall|j: int| (j == 0 || j == 1) && h_active(*helper, j) implies h_used_index(*helper, j) by {
            assert(h_active(h0, j));
        }
        assert(forall|i: int| 0 <= i < s1.len() ==> (#[trigger] s1[i]).base == old(self).states@[i].base);
        assert(forall|i: int| 0 <= i < s1.len() ==> (#[trigger] s1[i]).base.is_some() ==> s1[i].base.unwrap()@ < s1.len());
        assert(h_wf(*helper));
        assert(self.states@.len() == h_hi(*helper));
        assert forall|i: int| 0 <= i < self.states@.len() implies ((#[trigger] self.states@[i]).base.is_some() ==> self.states@[i].base.unwrap()@ < self.states@.len()) by {
            if i < s1.len() { assert(self.states@[i] == s1[i]); }
        }
        assert(b_inv(*self, *helper));
        assert(h_lo(h0) <= h_lo(*helper) <= h_hi(h0));
        assert(forall|j: int| h_lo(*helper) <= j < h_hi(h0) ==>
                        h_used_index(*helper, j) == h_used_index(h0, j) && h_used_base(*helper, j) == h_used_base(h0, j));
        assert(forall|j: int| h_hi(h0) <= j < h_hi(*helper) ==> !h_used_index(*helper, j) && !h_used_base(*helper, j));
        assert forall|i: int| 0 <= i < old(self).states@.len() implies (#[trigger] self.states@[i]).base == old(self).states@[i].base
                        && self.states@[i].fail == old(self).states@[i].fail && st_opos(self.states@[i]) == st_opos(old(self).states@[i]) by {
            assert(self.states@[i] == s1[i]);
        }
        // stage B
        let nb = h0.num_blocks as int; let nf = h0.num_free_blocks as int;
        assert(s1 == sr);
        lemma_lo_step(h0, *helper);
        if nb >= nf { assert(kbd == nb - nf && h_lo(h0) / 256 == kbd); }
        assert forall|x: int| 0 <= x < old(self).states@.len() && !(h_lo(*helper) > h_lo(h0) && in_block(x, h_lo(h0) / 256) && hfree(h0, x)) implies
                st_check(#[trigger] self.states@[x]) == st_check(old(self).states@[x]) by {
            assert(self.states@[x] == sr[x]);
        }
        if h_lo(*helper) > h_lo(h0) {
            let kb = h_lo(h0) / 256;
            assert(hb_sane(sr, h0, kb));
            assert(kb * 256 + 256 <= sr.len());
            if exists|u: u32| hb_wit(sr, h0, kb, u) {
                let u = choose|u: u32| hb_wit(sr, h0, kb, u);
                assert forall|x: u32| in_block(x as int, kb) && hfree(h0, x as int) implies st_check(#[trigger] self.states@[x as int]) == (u ^ x) as u8 by {
                    assert(self.states@[x as int] == sr[x as int]);
                }
                assert(hb_wit(self.states@, h0, kb, u));
            } else {
                assert(forall|u: int| in_block(u, kb) ==> h_used_base(h0, u));
            }
            assert(hb_sane(self.states@, h0, kb));
        }
        assert(h_lo(*helper) == h_lo(h0) || h_lo(*helper) == h_lo(h0) + 256);
        assert(h_hi(*helper) == h_hi(h0) + 256);
    }
//@}
//@fn build_double_array
//@rules R9 R6b R13b R7 R5 R18
//@ret r
//@head{
    requires old(self).states@.len() == 0, old(self).num_free_blocks >= 1, nfa_tree(*nfa)
    ensures final(self).match_kind == old(self).match_kind, final(self).num_free_blocks == old(self).num_free_blocks,
      match r {
        Ok(_) => {
            // da_safe: what the unchecked search code relies on
            &&& final(self).states@.len() > 0 && final(self).states@.len() % 256 == 0 && final(self).states@.len() <= u32::MAX
            &&& forall|i: int| 0 <= i < final(self).states@.len() ==> ((#[trigger] final(self).states@[i]).base.is_some() ==> final(self).states@[i].base.unwrap()@ < final(self).states@.len())
            &&& forall|i: int| 0 <= i < final(self).states@.len() ==> (#[trigger] final(self).states@[i]).fail < final(self).states@.len()
            // stage B: the array encodes the NFA (edges present, no spurious edge, fail/output_pos copied)
            &&& exists|idmap: Seq<u32>| bw_built(final(self).states@, *nfa, idmap)
        },
        Err(e) => e is AutomatonScale,
    }
//@}
//@start{
    broadcast use vstd::std_specs::btree::group_btree_axioms;
    let ghost n = nfa.states@.len() as int;
    let ghost mut done: Set<int> = Set::empty();
    let ghost mut gstack: Seq<u32> = seq![0u32];
    let ghost mut inv: Map<int, int> = Map::empty();
    let ghost mut bowner: Map<int, int> = Map::empty();
    let ghost mut placed: Set<u8> = Set::empty();
//@}
//@after 1 let mut labels = vec![];{
    proof {
        assert(stack@ =~= seq![0u32]);
        assert(stack@.contains(0u32)) by { assert(stack@[0] == 0u32); }
        lemma_bwb_init(*nfa, self.states@, state_id_map@);
        assert forall|x: int| 0 <= x < self.states@.len() implies st_opos(#[trigger] self.states@[x]) == 0 by { lemma_opos_zero(self.states@[x]); }
        assert(glue(helper, inv, bowner));
        assert(closed_sane(self.states@, inv, bowner, h_lo(helper)));
    }
//@}
//@loop 1{
    invariant
        gstack == stack@, self.match_kind == old(self).match_kind, self.num_free_blocks == old(self).num_free_blocks,
        b_inv(*self, helper), nfa_tree(*nfa), n == nfa.states@.len(),
        state_id_map@.len() == n,
        forall|i: int| 0 <= i < n ==> (#[trigger] state_id_map@[i]) < self.states@.len(),
        state_id_map@[0] == 0, state_id_map@[1] == 1,
        forall|x: int| 0 <= x < self.states@.len() ==> (#[trigger] self.states@[x]).fail == 0 && st_opos(self.states@[x]) == 0,
        forall|k: int| 0 <= k < stack@.len() ==> (#[trigger] stack@[k]) < n && stack@[k] != 1 && state_id_map@[stack@[k] as int] != 1,
        forall|s: int, c: u8| done.contains(s) && #[trigger] nfa_edges(*nfa, s).contains_key(c) ==> 0 <= s < n && state_id_map@[nfa_edges(*nfa, s)[c] as int] != 1,
        forall|s: int| 0 <= s < n && s != 1 && #[trigger] state_id_map@[s] != 1 ==> done.contains(s) || stack@.contains(s as u32),
        // stage B
        bwb(*nfa, self.states@, state_id_map@, inv, bowner, done, -1, 0, Set::empty()), glue(helper, inv, bowner),
        closed_sane(self.states@, inv, bowner, h_lo(helper)),
        stack@.no_duplicates(), forall|k: int| 0 <= k < stack@.len() ==> !done.contains(#[trigger] stack@[k] as int),
        // termination: every iteration finishes one more NFA state
        done.subset_of(vstd::set_lib::set_int_range(0, n)), done.len() <= n,
    ensures stack@.len() == 0,
    decreases n - done.len(),
//@}
//@before 1 assert!(state_id != DEAD_STATE_ID);{
    let ghost sid = state_id as int;
    let ghost edges = nfa_edges(*nfa, sid);
    proof {
        assert(stack@ == gstack.drop_last() && state_id == gstack.last());
        assert forall|x: u32| gstack.contains(x) && x != state_id implies stack@.contains(x) by {
            let k = choose|k: int| 0 <= k < gstack.len() && gstack[k] == x;
            assert(stack@[k] == x);
        }
        assert forall|k: int| 0 <= k < stack@.len() implies #[trigger] stack@[k] != state_id by {
            assert(gstack[k] == stack@[k] && gstack[gstack.len() - 1] == state_id);
        }
        assert(stack@.no_duplicates());
        assert(!done.contains(sid)) by { assert(gstack[gstack.len() - 1] == state_id); }
        assert(state_id < n && state_id != 1 && state_id_map@[sid] != 1) by { assert(gstack[gstack.len() - 1] == state_id); }
    }
//@}
//@before 1 continue;{
    proof {
        // a leaf: nothing to place, the state is done
        assert(forall|c: u8| !edges.contains_key(c)) by { assert(edges.dom().len() == 0); assert(edges.dom() =~= Set::<u8>::empty()); }
        lemma_bwb_leaf(*nfa, self.states@, state_id_map@, inv, bowner, done, sid);
        lemma_done_grows(done, sid, n);
        done = done.insert(sid);
        gstack = stack@;
    }
//@}
//@before 1 self.states[state_idx].set_base(base);{
    let ghost states_b = self.states@;
    let ghost h_b = helper;
//@}
//@after 1 self.states[state_idx].set_base(base);{
    proof {
        // stage B: all children placed, the state gets its BASE
        assert(forall|c: u8| edges.contains_key(c) ==> placed.contains(c));
        lemma_window(h_b);
        lemma_bwb_finish(*nfa, states_b, self.states@, state_id_map@, inv, bowner, done, sid, base, placed, labels@[0]);
        lemma_closed_frame(states_b, self.states@, inv, inv, bowner, bowner.insert(base@ as int, sid), h_lo(helper));
        bowner = bowner.insert(base@ as int, sid);
        lemma_done_grows(done, sid, n);
        done = done.insert(sid);
        gstack = stack@;
    }
//@}
//@before 1 for verif_ref1 in{
    let ghost kseq = verif_iter.remaining().unref();
//@}
//@loopiter 2 it
//@loop 2{
    invariant labels@.len() == it.index@, it.snapshot@.remaining().unref() == kseq,
        forall|i: int| 0 <= i < labels@.len() ==> labels@[i] == kseq[i],
//@}
//@after 1 for verif_ref1 in{
    proof {
        assert(labels@ =~= kseq);
        assert(labels@.to_set() == edges.dom());
        assert(labels@.len() == edges.dom().len());
    }
//@}
//@before 1 let base = self.find_base(&labels, &helper);{
    proof {
        assert(labels@.len() > 0);
        assert(edges.contains_key(labels@[0])) by { assert(labels@.to_set().contains(labels@[0])); }
    }
    let ghost len0 = self.states@.len();
    let ghost h0 = helper;
    let ghost st0 = self.states@;
//@}
//@before 1 let verif_iter2 = s.edges.iter();{
    proof {
        lemma_window(helper);
        lemma_window(h0);
        assert(base@ < self.states@.len());
        // every child slot is vacant and active
        assert forall|c: u8| edges.contains_key(c) implies h_active(helper, (base@ ^ (c as u32)) as int) && !h_used_index(helper, (base@ ^ (c as u32)) as int) by {
            assert(labels@.to_set().contains(c));
            let i = choose|i: int| 0 <= i < labels@.len() && labels@[i] == c;
            if base@ == len0 {
                lemma_same_block(base@, c, len0 as int, len0 as int + 256);
            } else {
                lemma_same_block(base@, c, h_lo(h0), h_hi(h0));
            }
        }
        // stage B: a possibly appended block keeps the encoding; then open the state at `base`
        assert forall|x: int| 0 <= x < self.states@.len() implies st_opos(#[trigger] self.states@[x]) == 0 by {
            if x >= len0 { lemma_opos_zero(self.states@[x]); }
        }
        if base@ == len0 {
            lemma_bwb_after_extend(*nfa, st0, self.states@, state_id_map@, inv, bowner, done, h0, helper);
        }
        lemma_bwb_facts(*nfa, self.states@, state_id_map@, inv, bowner, done, -1, 0, Set::empty());
        assert(h_active(helper, base@ as int) && !h_used_base(helper, base@ as int));
        assert(!bowner.contains_key(base@ as int));
        lemma_bwb_begin(*nfa, self.states@, state_id_map@, inv, bowner, done, sid, base@);
        placed = Set::empty();
    }
    let ghost stack0 = stack@;
//@}
//@before 1 for verif_ref2 in verif_iter2{
    proof {
        let rem = verif_iter2.remaining();
        assert(rem.no_duplicates());
        assert(forall|i: int| 0 <= i < rem.len() ==> edges.contains_key(*(#[trigger] rem[i]).0) && edges[*rem[i].0] == *rem[i].1);
        assert(forall|c: u8| edges.contains_key(c) ==> rem.contains((&c, &edges[c])));
        assert forall|j: int| 0 <= j < rem.len() implies h_active(helper, (base@ ^ (*(#[trigger] rem[j]).0 as u32)) as int)
                   && !h_used_index(helper, (base@ ^ (*rem[j].0 as u32)) as int) by {
            assert(edges.contains_key(*rem[j].0));
        }
    }
//@}
//@loopbody 3{
    // snapshots at the start of the body, all reasoning at its end: the placement of the hooks does not depend on the order of
    // the statements in between
    let ghost rem = it3.snapshot@.remaining();
    let ghost j0 = it3.index@ as int;
    let ghost st_before = stack@;
    let ghost h_before = helper;
    let ghost states_before = self.states@;
    let ghost map_before = state_id_map@;
//@}
//@loopend 3{
    proof {
        assert(edges.contains_key(c) && edges[c] == child_id);
        lemma_iter_keys_distinct(edges, rem);
        assert(*rem[j0].0 == c);
        assert(stack@ == st_before.push(child_id));
        assert(stack@[stack@.len() - 1] == child_id);
        assert forall|x: u32| st_before.contains(x) implies stack@.contains(x) by {
            let k = choose|k: int| 0 <= k < st_before.len() && st_before[k] == x;
            assert(stack@[k] == x);
        }
        assert forall|j: int| j0 + 1 <= j < rem.len() implies h_active(helper, (base@ ^ (*(#[trigger] rem[j]).0 as u32)) as int)
                   && !h_used_index(helper, (base@ ^ (*rem[j].0 as u32)) as int) by {
            assert(*rem[j].0 != c);
            if (base@ ^ (*rem[j].0 as u32)) == (base@ ^ (c as u32)) { lemma_xor_inj(base@, *rem[j].0, c); }
            assert(h_active(h_before, (base@ ^ (*rem[j].0 as u32)) as int));
        }
        // stage B: one more child placed
        let y = child_idx as int;
        lemma_window(h_before);
        assert(h_active(h_before, y) && !h_used_index(h_before, y));
        assert(!inv.contains_key(y) && y >= 2);
        assert(!placed.contains(c)) by {
            if placed.contains(c) { let j = choose|j: int| 0 <= j < j0 && *rem[j].0 == c; assert(*rem[j].0 != *rem[j0].0); }
        }
        lemma_step_child(*nfa, states_before, map_before, inv, bowner, done, sid, base@, placed, c);
        // guarded: if the placement is not the expected one the loop invariant (not this hint) is what fails
        if bwb_step_rel(*nfa, states_before, self.states@, map_before, state_id_map@, inv, sid, base@, c) {
            lemma_bwb_step(*nfa, states_before, self.states@, map_before, state_id_map@, inv, bowner, done, sid, base@, placed, c);
        }
        lemma_glue_index(h_before, helper, inv, bowner, y, child_id as int);
        lemma_closed_frame(states_before, self.states@, inv, inv.insert(y, child_id as int), bowner, bowner, h_lo(helper));
        inv = inv.insert(y, child_id as int);
        placed = placed.insert(c);
        // the child was not placed before, so it is neither on the stack nor finished
        assert(map_before[child_id as int] == 1);
        assert forall|k: int| 0 <= k < st_before.len() implies #[trigger] st_before[k] != child_id by { if st_before[k] == child_id { assert(map_before[st_before[k] as int] != 1); } }
        assert(stack@.no_duplicates());
        assert(!done.contains(child_id as int));
        assert(child_id as int != sid);
    }
//@}
//@loopiter 3 it3
//@loop 3{
    invariant
        self.match_kind == old(self).match_kind, self.num_free_blocks == old(self).num_free_blocks,
        b_inv(*self, helper), nfa_tree(*nfa), n == nfa.states@.len(), 0 <= sid < n, sid != 1, edges == nfa_edges(*nfa, sid),
        state_id_map@.len() == n,
        forall|i: int| 0 <= i < n ==> (#[trigger] state_id_map@[i]) < self.states@.len(),
        state_id_map@[0] == 0, state_id_map@[1] == 1,
        forall|x: int| 0 <= x < self.states@.len() ==> (#[trigger] self.states@[x]).fail == 0 && st_opos(self.states@[x]) == 0,
        base@ < self.states@.len(), h_active(helper, base@ as int), state_idx < self.states@.len(), state_idx == state_id_map@[sid],
        ({ let rem = it3.snapshot@.remaining();
           &&& rem.no_duplicates()
           &&& forall|i: int| 0 <= i < rem.len() ==> edges.contains_key(*(#[trigger] rem[i]).0) && edges[*rem[i].0] == *rem[i].1
           &&& forall|c: u8| edges.contains_key(c) ==> rem.contains((&c, &edges[c]))
           &&& forall|j: int| it3.index@ <= j < rem.len() ==> h_active(helper, (base@ ^ (*(#[trigger] rem[j]).0 as u32)) as int)
                   && !h_used_index(helper, (base@ ^ (*rem[j].0 as u32)) as int)
           &&& forall|j: int| 0 <= j < it3.index@ ==> state_id_map@[*(#[trigger] rem[j]).1 as int] != 1
           &&& stack@.len() == stack0.len() + it3.index@
           &&& forall|j: int| 0 <= j < it3.index@ ==> stack@[stack0.len() + j] == *(#[trigger] rem[j]).1
           // stage B: `placed` is the set of labels handled so far
           &&& forall|j: int| 0 <= j < it3.index@ ==> placed.contains(*(#[trigger] rem[j]).0)
           &&& forall|c: u8| placed.contains(c) ==> exists|j: int| 0 <= j < it3.index@ && *(#[trigger] rem[j]).0 == c
        }),
        forall|k: int| 0 <= k < stack0.len() ==> stack@[k] == stack0[k],
        forall|k: int| 0 <= k < stack@.len() ==> (#[trigger] stack@[k]) < n && stack@[k] != 1 && state_id_map@[stack@[k] as int] != 1,
        forall|s: int, c: u8| done.contains(s) && #[trigger] nfa_edges(*nfa, s).contains_key(c) ==> 0 <= s < n && state_id_map@[nfa_edges(*nfa, s)[c] as int] != 1,
        forall|s: int| 0 <= s < n && s != 1 && s != sid && #[trigger] state_id_map@[s] != 1 ==> done.contains(s) || stack@.contains(s as u32),
        state_id_map@[sid] != 1,
        // stage B
        bwb(*nfa, self.states@, state_id_map@, inv, bowner, done, sid, base@, placed), glue(helper, inv, bowner),
        closed_sane(self.states@, inv, bowner, h_lo(helper)),
        stack@.no_duplicates(), forall|k: int| 0 <= k < stack@.len() ==> !done.contains(#[trigger] stack@[k] as int) && stack@[k] != sid,
        !done.contains(sid),
//@}
//@before 1 for i in 0..nfa.states.len(){
    proof {
        assert(stack@.len() == 0);
        assert forall|t: int| 0 <= t < n && t != 1 implies #[trigger] state_id_map@[t] != 1 && done.contains(t) by {
            lemma_all_placed(*nfa, state_id_map@, done, t);
            if !done.contains(t) { assert(stack@.contains(t as u32)); }
        }
    }
    let ghost idm = state_id_map@;
    proof {
        // distinct NFA states have distinct slots (so the fail/output_pos writes do not interfere)
        assert forall|t1: int, t2: int| 0 <= t1 < n && 0 <= t2 < n && t1 != 1 && t2 != 1 && #[trigger] idm[t1] == #[trigger] idm[t2] implies t1 == t2 by {
            lemma_bwb_map_inj(*nfa, self.states@, idm, inv, bowner, done, t1, t2);
        }
    }
//@}
//@loop 4{
    invariant
        self.match_kind == old(self).match_kind, self.num_free_blocks == old(self).num_free_blocks,
        b_inv(*self, helper), nfa_tree(*nfa), n == nfa.states@.len(), state_id_map@.len() == n, state_id_map@ == idm,
        forall|i: int| 0 <= i < n ==> (#[trigger] state_id_map@[i]) < self.states@.len(),
        forall|t: int| 0 <= t < n && t != 1 ==> #[trigger] state_id_map@[t] != 1 && done.contains(t),
        forall|x: int| 0 <= x < self.states@.len() ==> (#[trigger] self.states@[x]).fail < self.states@.len(),
        // stage B
        forall|t1: int, t2: int| 0 <= t1 < n && 0 <= t2 < n && t1 != 1 && t2 != 1 && #[trigger] idm[t1] == #[trigger] idm[t2] ==> t1 == t2,
        forall|s: int| 0 <= s < i && s != 1 ==> (#[trigger] self.states@[idm[s] as int]).fail == (if nfa.states@[s].fail == 1 { 1u32 } else { idm[nfa.states@[s].fail as int] })
            && st_opos(self.states@[idm[s] as int]) == opt_u32(nfa.states@[s].output_pos),
        bwb(*nfa, self.states@, idm, inv, bowner, done, -1, 0, Set::empty()), glue(helper, inv, bowner),
        closed_sane(self.states@, inv, bowner, h_lo(helper)),
        forall|x: int| 0 <= x < self.states@.len() ==> st_opos(#[trigger] self.states@[x]) == 0 || slot_used(*nfa, idm, x),
//@}
//@before 1 let idx = usize::from_u32(state_id_map[i]);{
    let ghost st_i = self.states@;
//@}
//@after 1 if fail_id == DEAD_STATE_ID {{
    proof {
        // only fail / output_pos of one slot changed
        assert forall|y: int| 0 <= y < st_i.len() implies (#[trigger] self.states@[y]).base == st_i[y].base && st_check(self.states@[y]) == st_check(st_i[y]) by { }
        lemma_bwb_congr(*nfa, st_i, self.states@, idm, inv, bowner, done, -1, 0, Set::empty());
        lemma_closed_frame(st_i, self.states@, inv, inv, bowner, bowner, h_lo(helper));
    }
//@}
//@before 1 for closed_block_idx in helper.active_block_range(){
    let ghost rs: int = if helper.num_blocks >= helper.num_free_blocks { helper.num_blocks - helper.num_free_blocks } else { 0 };
    proof { lemma_window(helper); }
//@}
//@loopiter 5 it5
//@loop 5{
    invariant
        self.match_kind == old(self).match_kind, self.num_free_blocks == old(self).num_free_blocks,
        b_inv(*self, helper), rs * 256 == h_lo(helper), rs <= closed_block_idx, closed_block_idx < helper.num_blocks || closed_block_idx == helper.num_blocks,
        forall|x: int| 0 <= x < self.states@.len() ==> (#[trigger] self.states@[x]).fail < self.states@.len(),
        // stage B
        nfa_tree(*nfa), n == nfa.states@.len(), state_id_map@ == idm,
        forall|t: int| 0 <= t < n && t != 1 ==> #[trigger] idm[t] != 1 && done.contains(t),
        forall|s: int| 0 <= s < n && s != 1 ==> (#[trigger] self.states@[idm[s] as int]).fail == (if nfa.states@[s].fail == 1 { 1u32 } else { idm[nfa.states@[s].fail as int] })
            && st_opos(self.states@[idm[s] as int]) == opt_u32(nfa.states@[s].output_pos),
        bwb(*nfa, self.states@, idm, inv, bowner, done, -1, 0, Set::empty()), glue(helper, inv, bowner),
        closed_sane(self.states@, inv, bowner, h_lo(helper)),
        closed_block_idx == rs + it5.index@, it5.snapshot@.remaining().len() == helper.num_blocks - rs,
        forall|x: int| 0 <= x < self.states@.len() ==> st_opos(#[trigger] self.states@[x]) == 0 || slot_used(*nfa, idm, x),
        forall|kb: int| rs <= kb < rs + it5.index@ ==> #[trigger] sane_block(self.states@, inv, bowner, kb),
//@}
//@before 1 self.remove_invalid_checks(closed_block_idx, &helper);{
    let ghost st_r = self.states@;
    proof { assert(rs * 256 <= closed_block_idx as int * 256) by (nonlinear_arith) requires rs <= closed_block_idx; }
//@}
//@after 1 self.remove_invalid_checks(closed_block_idx, &helper);{
    proof {
        let kb0 = closed_block_idx as int;
        lemma_window(helper);
        assert((kb0 + 1) * 256 <= helper.num_blocks as int * 256) by (nonlinear_arith) requires kb0 + 1 <= helper.num_blocks as int;
        lemma_bwb_facts(*nfa, st_r, idm, inv, bowner, done, -1, 0, Set::empty());
        assert forall|y: int| 0 <= y < st_r.len() implies (#[trigger] self.states@[y]).base == st_r[y].base && (inv.contains_key(y) ==> st_check(self.states@[y]) == st_check(st_r[y])) by {
            if inv.contains_key(y) && in_block(y, kb0) { assert(h_active(helper, y)); assert(h_used_index(helper, y)); }
        }
        lemma_bwb_congr(*nfa, st_r, self.states@, idm, inv, bowner, done, -1, 0, Set::empty());
        assert forall|x: int| 0 <= x < h_lo(helper) implies st_check(#[trigger] self.states@[x]) == st_check(st_r[x]) by { assert(!in_block(x, kb0)); }
        lemma_closed_frame(st_r, self.states@, inv, inv, bowner, bowner, h_lo(helper));
        assert forall|kb: int| rs <= kb < rs + it5.index@ + 1 implies #[trigger] sane_block(self.states@, inv, bowner, kb) by {
            if kb == kb0 {
                lemma_hb_to_sane(self.states@, helper, inv, bowner, kb);
            } else {
                assert(sane_block(st_r, inv, bowner, kb));
                assert forall|x: u32| in_block(x as int, kb) implies st_check(#[trigger] self.states@[x as int]) == st_check(st_r[x as int]) by {
                    assert(!in_block(x as int, kb0));
                    assert((kb + 1) * 256 <= helper.num_blocks as int * 256) by (nonlinear_arith) requires kb + 1 <= helper.num_blocks as int;
                }
                lemma_sane_frame(st_r, self.states@, inv, inv, bowner, bowner, kb);
            }
        }
        assert forall|s: int| 0 <= s < n && s != 1 implies (#[trigger] self.states@[idm[s] as int]).fail == (if nfa.states@[s].fail == 1 { 1u32 } else { idm[nfa.states@[s].fail as int] })
            && st_opos(self.states@[idm[s] as int]) == opt_u32(nfa.states@[s].output_pos) by {
            assert(st_r[idm[s] as int].fail == (if nfa.states@[s].fail == 1 { 1u32 } else { idm[nfa.states@[s].fail as int] }));
        }
    }
//@}
//@before 1 self.states.shrink_to_fit();{
    proof {
        lemma_window(helper);
        assert(self.states@.len() % 256 == 0);
        assert forall|kb: int| 0 <= kb && kb * 256 + 256 <= self.states@.len() implies #[trigger] sane_block(self.states@, inv, bowner, kb) by {
            if kb < rs { assert(kb * 256 + 256 <= rs * 256); }
            else { assert(kb < helper.num_blocks) by { if kb >= helper.num_blocks as int { assert(kb * 256 >= helper.num_blocks as int * 256) by (nonlinear_arith) requires kb >= helper.num_blocks as int; } } }
        }
        lemma_bwb_final(*nfa, self.states@, idm, inv, bowner, done);
    }
//@}
//@before 1 Ok(()){
    proof {
        assert(bw_built(self.states@, *nfa, idm));
    }
//@}
//@endimpl
