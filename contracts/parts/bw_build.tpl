//@item src/bytewise/builder.rs const BLOCK_LEN
//@item src/bytewise/builder.rs type BytewiseNfaBuilder
//@item src/bytewise/builder.rs struct DoubleArrayAhoCorasickBuilder
//@include ghost_build_bw.rs
//@include ghost_nfa.rs

//@impl src/bytewise/builder.rs impl DoubleArrayAhoCorasickBuilder
//@fn init_array
//@rules R12x
//@ret r
//@head{
    requires old(self).states@.len() == 0, old(self).num_free_blocks >= 1
    ensures final(self).num_free_blocks == old(self).num_free_blocks, final(self).match_kind == old(self).match_kind,
        match r {
            Ok(h) => b_inv(*final(self), h) && final(self).states@.len() == 256 && h.num_free_blocks == old(self).num_free_blocks
                && h_lo(h) == 0 && h_hi(h) == 256
                && (forall|i: int| 0 <= i < 256 ==> (#[trigger] final(self).states@[i]).base.is_none() && final(self).states@[i].fail == 0 && final(self).states@[i].opos_ch.0 == 0)
                && (forall|j: int| 2 <= j < 256 ==> !h_used_index(h, j))
                && (forall|j: int| 0 <= j < 256 ==> !h_used_base(h, j)),
            Err(e) => e is AutomatonScale,
        }
//@}
//@after 1 let mut helper = BuildHelper::new(BLOCK_LEN, self.num_free_blocks)?;{
    let ghost hn = helper;
    proof { lemma_window(hn); }
//@}
//@after 1 helper.push_block().unwrap();{
    let ghost hp = helper;
    proof {
        lemma_window(hp);
        assert(h_hi(hp) == 256) by (nonlinear_arith) requires hp.num_blocks == 1, hp.block_len == 256, h_hi(hp) == hp.num_blocks as int * hp.block_len as int;
        assert(h_lo(hp) == 0) by {
            if hp.num_blocks >= hp.num_free_blocks { assert(hp.num_free_blocks == 1); }
            assert(0 * 256 == 0);
        }
        assert(h_hi(hn) == 0) by (nonlinear_arith) requires hn.num_blocks == 0, h_hi(hn) == hn.num_blocks as int * hn.block_len as int;
        assert(!h_used_index(hp, 0) && !h_used_index(hp, 1));
        assert(l_vac(h_cells(hp), 0, 256, 0) && l_vac(h_cells(hp), 0, 256, 1));
    }
//@}
//@after 1 helper.use_index(ROOT_STATE_IDX);{
    proof { assert(l_vac(h_cells(helper), 0, 256, 1)); }
//@}
//@fn check_valid_base
//@rules R5
//@ret r
//@head{
    requires h_wf(*helper), helper.block_len == 256, h_active(*helper, base as int)
    ensures r.is_some() ==> r.unwrap()@ == base && base != 0 && !h_used_base(*helper, base as int)
        && forall|i: int| 0 <= i < labels@.len() ==> !h_used_index(*helper, (base ^ (#[trigger] labels@[i]) as u32) as int)
//@}
//@start{
    proof { lemma_window(*helper); }
//@}
//@loopiter 1 it
//@loop 1{
    invariant h_wf(*helper), helper.block_len == 256, h_active(*helper, base as int),
        h_lo(*helper) % 256 == 0, h_hi(*helper) % 256 == 0, 0 <= h_lo(*helper), h_hi(*helper) <= u32::MAX,
        forall|i: int| 0 <= i < it.index@ ==> !h_used_index(*helper, (base ^ (#[trigger] labels@[i]) as u32) as int),
//@}
//@before 1 let idx = base ^ u32::from(c);{
    proof { lemma_same_block(base, c, h_lo(*helper), h_hi(*helper)); }
//@}
//@fn remove_invalid_checks
//@head{
    requires b_inv(*old(self), *helper), h_lo(*helper) <= block_idx as int * 256, block_idx < helper.num_blocks
    ensures b_inv(*final(self), *helper), final(self).states@.len() == old(self).states@.len(),
        final(self).num_free_blocks == old(self).num_free_blocks, final(self).match_kind == old(self).match_kind,
        forall|i: int| 0 <= i < old(self).states@.len() ==> (#[trigger] final(self).states@[i]).base == old(self).states@[i].base
            && final(self).states@[i].fail == old(self).states@[i].fail && st_opos(final(self).states@[i]) == st_opos(old(self).states@[i])
//@}
//@start{
    proof {
        lemma_window(*helper);
        let k = block_idx as int; let nb = helper.num_blocks as int;
        assert((k + 1) * 256 <= nb * 256) by (nonlinear_arith) requires k + 1 <= nb;
    }
//@}
//@loop 1{
    invariant b_inv(*self, *helper), self.states@.len() == old(self).states@.len(),
        self.num_free_blocks == old(self).num_free_blocks, self.match_kind == old(self).match_kind,
        h_lo(*helper) % 256 == 0, h_hi(*helper) % 256 == 0, 0 <= h_lo(*helper), h_hi(*helper) <= u32::MAX,
        h_active(*helper, unused_base as int),
        forall|i: int| 0 <= i < old(self).states@.len() ==> (#[trigger] self.states@[i]).base == old(self).states@[i].base
            && self.states@[i].fail == old(self).states@[i].fail && st_opos(self.states@[i]) == st_opos(old(self).states@[i])
//@}
//@before 1 let idx = unused_base ^ u32::from(c);{
    proof { lemma_same_block(unused_base, c, h_lo(*helper), h_hi(*helper)); }
//@}
//@fn find_base
//@rules R3own
//@ret r
//@head{
    requires b_inv(*self, *helper), labels@.len() > 0
    ensures r@ == self.states@.len()
        || (h_active(*helper, r@ as int) && !h_used_base(*helper, r@ as int)
            && forall|i: int| 0 <= i < labels@.len() ==> !h_used_index(*helper, (r@ ^ (#[trigger] labels@[i]) as u32) as int))
//@}
//@start{
    proof { lemma_window(*helper); lemma_head(h_cells(*helper), helper.head_idx, h_lo(*helper), h_hi(*helper)); }
//@}
//@loop 1{
    invariant vi_ok(verif_it1), verif_it1.list == helper, b_inv(*self, *helper), labels@.len() > 0,
        h_lo(*helper) % 256 == 0, h_hi(*helper) % 256 == 0, 0 <= h_lo(*helper), h_hi(*helper) <= u32::MAX,
    decreases (match verif_it1.idx { Some(x) => h_hi(*helper) - x, None => 0 })
//@}
//@before 1 let base = idx ^ u32::from(labels[0]);{
    proof { lemma_same_block(idx, labels@[0], h_lo(*helper), h_hi(*helper)); }
//@}
//@fn extend_array
//@rules R12x
//@ret r
//@head{
    requires b_inv(*old(self), *old(helper))
    ensures final(self).num_free_blocks == old(self).num_free_blocks, final(self).match_kind == old(self).match_kind,
        match r {
            Ok(_) => {
                &&& b_inv(*final(self), *final(helper))
                &&& final(self).states@.len() == old(self).states@.len() + 256
                &&& final(helper).num_free_blocks == old(helper).num_free_blocks
                &&& h_lo(*old(helper)) <= h_lo(*final(helper)) <= h_hi(*old(helper))
                &&& forall|j: int| h_lo(*final(helper)) <= j < h_hi(*old(helper)) ==>
                        h_used_index(*final(helper), j) == h_used_index(*old(helper), j) && h_used_base(*final(helper), j) == h_used_base(*old(helper), j)
                &&& forall|j: int| h_hi(*old(helper)) <= j < h_hi(*final(helper)) ==> !h_used_index(*final(helper), j) && !h_used_base(*final(helper), j)
                &&& forall|i: int| 0 <= i < old(self).states@.len() ==> (#[trigger] final(self).states@[i]).base == old(self).states@[i].base
                        && final(self).states@[i].fail == old(self).states@[i].fail && st_opos(final(self).states@[i]) == st_opos(old(self).states@[i])
                &&& forall|i: int| old(self).states@.len() <= i < final(self).states@.len() ==> (#[trigger] final(self).states@[i]).base.is_none()
                        && final(self).states@[i].fail == 0 && final(self).states@[i].opos_ch.0 == 0
            },
            Err(e) => e is AutomatonScale,
        }
//@}
//@start{
    let ghost h0 = *helper;
    proof { lemma_window(h0); }
//@}
//@before 1 self.remove_invalid_checks(closed_block_idx, helper);{
    proof { assert(closed_block_idx as int * 256 == h_lo(h0)); }
//@}
//@after 1 helper.push_block()?;{
    let ghost s1 = self.states@;
    proof {
        lemma_window(*helper);
        let nb = h0.num_blocks as int;
        assert((nb + 1) * 256 == nb * 256 + 256) by (nonlinear_arith);
        assert(h_hi(*helper) == h_hi(h0) + 256);
    }
//@}
//@before 1 Ok(()){
    proof {
        assert(self.states@.len() == s1.len() + 256);
        assert(forall|i: int| 0 <= i < s1.len() ==> self.states@[i] == s1[i]);
        assert(forall|i: int| s1.len() <= i < self.states@.len() ==> (#[trigger] self.states@[i]).base.is_none() && self.states@[i].fail == 0 && self.states@[i].opos_ch.0 == 0);
        assert(h_hi(h0) >= 256) by { assert(h0.num_blocks as int * 256 >= 256) by (nonlinear_arith) requires h0.num_blocks >= 1; }
        assert forall|j: int| (j == 0 || j == 1) && h_active(*helper, j) implies h_used_index(*helper, j) by {
            assert(h_active(h0, j));
        }
        assert(forall|i: int| 0 <= i < s1.len() ==> (#[trigger] s1[i]).base == old(self).states@[i].base);
        assert(forall|i: int| 0 <= i < s1.len() ==> (#[trigger] s1[i]).base.is_some() ==> s1[i].base.unwrap()@ < s1.len());
        assert(h_wf(*helper));
        assert(self.states@.len() == h_hi(*helper));
        assert forall|i: int| 0 <= i < self.states@.len() implies ((#[trigger] self.states@[i]).base.is_some() ==> self.states@[i].base.unwrap()@ < self.states@.len()) by {
            if i < s1.len() { assert(self.states@[i] == s1[i]); }
        }
        assert(b_inv(*self, *helper));
        assert(h_lo(h0) <= h_lo(*helper) <= h_hi(h0));
        assert(forall|j: int| h_lo(*helper) <= j < h_hi(h0) ==>
                        h_used_index(*helper, j) == h_used_index(h0, j) && h_used_base(*helper, j) == h_used_base(h0, j));
        assert(forall|j: int| h_hi(h0) <= j < h_hi(*helper) ==> !h_used_index(*helper, j) && !h_used_base(*helper, j));
        assert forall|i: int| 0 <= i < old(self).states@.len() implies (#[trigger] self.states@[i]).base == old(self).states@[i].base
                        && self.states@[i].fail == old(self).states@[i].fail && st_opos(self.states@[i]) == st_opos(old(self).states@[i]) by {
            assert(self.states@[i] == s1[i]);
        }
    }
//@}
//@fn build_double_array
//@rules R9 R6b R13b R7 R5 R18
//@pre{
#[verifier::exec_allows_no_decreases_clause]
//@}
//@ret r
//@head{
    requires old(self).states@.len() == 0, old(self).num_free_blocks >= 1, nfa_tree(*nfa)
    ensures match r {
        Ok(_) => {
            // da_safe: what the unchecked search code relies on
            &&& final(self).states@.len() > 0 && final(self).states@.len() % 256 == 0 && final(self).states@.len() <= u32::MAX
            &&& forall|i: int| 0 <= i < final(self).states@.len() ==> ((#[trigger] final(self).states@[i]).base.is_some() ==> final(self).states@[i].base.unwrap()@ < final(self).states@.len())
            &&& forall|i: int| 0 <= i < final(self).states@.len() ==> (#[trigger] final(self).states@[i]).fail < final(self).states@.len()
        },
        Err(e) => e is AutomatonScale,
    }
//@}
//@start{
    broadcast use vstd::std_specs::btree::group_btree_axioms;
    let ghost n = nfa.states@.len() as int;
    let ghost mut done: Set<int> = Set::empty();
    let ghost mut gstack: Seq<u32> = seq![0u32];
//@}
//@after 1 let mut labels = vec![];{
    proof {
        assert(stack@ =~= seq![0u32]);
        assert(stack@.contains(0u32)) by { assert(stack@[0] == 0u32); }
    }
//@}
//@loop 1{
    invariant
        gstack == stack@,
        b_inv(*self, helper), nfa_tree(*nfa), n == nfa.states@.len(),
        state_id_map@.len() == n,
        forall|i: int| 0 <= i < n ==> (#[trigger] state_id_map@[i]) < self.states@.len(),
        state_id_map@[0] == 0, state_id_map@[1] == 1,
        forall|x: int| 0 <= x < self.states@.len() ==> (#[trigger] self.states@[x]).fail == 0,
        forall|k: int| 0 <= k < stack@.len() ==> (#[trigger] stack@[k]) < n && stack@[k] != 1 && state_id_map@[stack@[k] as int] != 1,
        forall|s: int, c: u8| done.contains(s) && #[trigger] nfa_edges(*nfa, s).contains_key(c) ==> 0 <= s < n && state_id_map@[nfa_edges(*nfa, s)[c] as int] != 1,
        forall|s: int| 0 <= s < n && s != 1 && #[trigger] state_id_map@[s] != 1 ==> done.contains(s) || stack@.contains(s as u32),
    ensures stack@.len() == 0,
//@}
//@before 1 assert!(state_id != DEAD_STATE_ID);{
    let ghost sid = state_id as int;
    let ghost edges = nfa_edges(*nfa, sid);
    proof {
        assert(stack@ == gstack.drop_last() && state_id == gstack.last());
        assert forall|x: u32| gstack.contains(x) && x != state_id implies stack@.contains(x) by {
            let k = choose|k: int| 0 <= k < gstack.len() && gstack[k] == x;
            assert(stack@[k] == x);
        }
    }
//@}
//@before 1 continue;{
    proof {
        // a leaf: nothing to place, the state is done
        done = done.insert(sid);
        assert(forall|c: u8| !edges.contains_key(c)) by { assert(edges.dom().len() == 0); assert(edges.dom() =~= Set::<u8>::empty()); }
        gstack = stack@;
    }
//@}
//@after 1 helper.use_base(base);{
    proof {
        done = done.insert(sid);
        gstack = stack@;
    }
//@}
//@before 1 for verif_ref1 in{
    let ghost kseq = verif_iter.remaining().unref();
//@}
//@loopiter 2 it
//@loop 2{
    invariant labels@.len() == it.index@, it.snapshot@.remaining().unref() == kseq,
        forall|i: int| 0 <= i < labels@.len() ==> labels@[i] == kseq[i],
//@}
//@after 1 for verif_ref1 in{
    proof {
        assert(labels@ =~= kseq);
        assert(labels@.to_set() == edges.dom());
        assert(labels@.len() == edges.dom().len());
    }
//@}
//@before 1 let base = self.find_base(&labels, &helper);{
    proof {
        assert(labels@.len() > 0);
    }
    let ghost len0 = self.states@.len();
    let ghost h0 = helper;
//@}
//@before 1 let verif_iter2 = s.edges.iter();{
    proof {
        lemma_window(helper);
        assert(base@ < self.states@.len());
        // every child slot is vacant and active
        assert forall|c: u8| edges.contains_key(c) implies h_active(helper, (base@ ^ (c as u32)) as int) && !h_used_index(helper, (base@ ^ (c as u32)) as int) by {
            assert(labels@.to_set().contains(c));
            let i = choose|i: int| 0 <= i < labels@.len() && labels@[i] == c;
            if base@ == len0 {
                lemma_same_block(base@, c, len0 as int, len0 as int + 256);
            } else {
                lemma_window(h0);
                lemma_same_block(base@, c, h_lo(h0), h_hi(h0));
            }
        }
    }
    let ghost stack0 = stack@;
//@}
//@before 1 for verif_ref2 in verif_iter2{
    proof {
        let rem = verif_iter2.remaining();
        assert(rem.no_duplicates());
        assert(forall|i: int| 0 <= i < rem.len() ==> edges.contains_key(*(#[trigger] rem[i]).0) && edges[*rem[i].0] == *rem[i].1);
        assert(forall|c: u8| edges.contains_key(c) ==> rem.contains((&c, &edges[c])));
        assert forall|j: int| 0 <= j < rem.len() implies h_active(helper, (base@ ^ (*(#[trigger] rem[j]).0 as u32)) as int)
                   && !h_used_index(helper, (base@ ^ (*rem[j].0 as u32)) as int) by {
            assert(edges.contains_key(*rem[j].0));
        }
    }
//@}
//@before 1 let child_idx = base.get() ^ u32::from(c);{
    let ghost rem = it3.snapshot@.remaining();
    let ghost j0 = it3.index@ as int;
    let ghost st_before = stack@;
    let ghost h_before = helper;
    proof {
        assert(edges.contains_key(c) && edges[c] == child_id);
        lemma_iter_keys_distinct(edges, rem);
        assert(*rem[j0].0 == c);
    }
//@}
//@after 1 stack.push(child_id);{
    proof {
        assert(stack@ == st_before.push(child_id));
        assert(stack@[stack@.len() - 1] == child_id);
        assert forall|x: u32| st_before.contains(x) implies stack@.contains(x) by {
            let k = choose|k: int| 0 <= k < st_before.len() && st_before[k] == x;
            assert(stack@[k] == x);
        }
        assert forall|j: int| j0 + 1 <= j < rem.len() implies h_active(helper, (base@ ^ (*(#[trigger] rem[j]).0 as u32)) as int)
                   && !h_used_index(helper, (base@ ^ (*rem[j].0 as u32)) as int) by {
            assert(*rem[j].0 != c);
            if (base@ ^ (*rem[j].0 as u32)) == (base@ ^ (c as u32)) { lemma_xor_inj(base@, *rem[j].0, c); }
            assert(h_active(h_before, (base@ ^ (*rem[j].0 as u32)) as int));
        }
    }
//@}
//@loopiter 3 it3
//@loop 3{
    invariant
        b_inv(*self, helper), nfa_tree(*nfa), n == nfa.states@.len(), 0 <= sid < n, sid != 1, edges == nfa_edges(*nfa, sid),
        state_id_map@.len() == n,
        forall|i: int| 0 <= i < n ==> (#[trigger] state_id_map@[i]) < self.states@.len(),
        state_id_map@[0] == 0, state_id_map@[1] == 1,
        forall|x: int| 0 <= x < self.states@.len() ==> (#[trigger] self.states@[x]).fail == 0,
        base@ < self.states@.len(), h_active(helper, base@ as int), state_idx < self.states@.len(),
        ({ let rem = it3.snapshot@.remaining();
           &&& rem.no_duplicates()
           &&& forall|i: int| 0 <= i < rem.len() ==> edges.contains_key(*(#[trigger] rem[i]).0) && edges[*rem[i].0] == *rem[i].1
           &&& forall|c: u8| edges.contains_key(c) ==> rem.contains((&c, &edges[c]))
           &&& forall|j: int| it3.index@ <= j < rem.len() ==> h_active(helper, (base@ ^ (*(#[trigger] rem[j]).0 as u32)) as int)
                   && !h_used_index(helper, (base@ ^ (*rem[j].0 as u32)) as int)
           &&& forall|j: int| 0 <= j < it3.index@ ==> state_id_map@[*(#[trigger] rem[j]).1 as int] != 1
           &&& stack@.len() == stack0.len() + it3.index@
           &&& forall|j: int| 0 <= j < it3.index@ ==> stack@[stack0.len() + j] == *(#[trigger] rem[j]).1
        }),
        forall|k: int| 0 <= k < stack0.len() ==> stack@[k] == stack0[k],
        forall|k: int| 0 <= k < stack@.len() ==> (#[trigger] stack@[k]) < n && stack@[k] != 1 && state_id_map@[stack@[k] as int] != 1,
        forall|s: int, c: u8| done.contains(s) && #[trigger] nfa_edges(*nfa, s).contains_key(c) ==> 0 <= s < n && state_id_map@[nfa_edges(*nfa, s)[c] as int] != 1,
        forall|s: int| 0 <= s < n && s != 1 && s != sid && #[trigger] state_id_map@[s] != 1 ==> done.contains(s) || stack@.contains(s as u32),
        state_id_map@[sid] != 1,
//@}
//@before 1 for i in 0..nfa.states.len(){
    proof {
        assert(stack@.len() == 0);
        assert forall|t: int| 0 <= t < n && t != 1 implies state_id_map@[t] != 1 by {
            lemma_all_placed(*nfa, state_id_map@, done, t);
        }
    }
//@}
//@loop 4{
    invariant
        b_inv(*self, helper), nfa_tree(*nfa), n == nfa.states@.len(), state_id_map@.len() == n,
        forall|i: int| 0 <= i < n ==> (#[trigger] state_id_map@[i]) < self.states@.len(),
        forall|t: int| 0 <= t < n && t != 1 ==> #[trigger] state_id_map@[t] != 1,
        forall|x: int| 0 <= x < self.states@.len() ==> (#[trigger] self.states@[x]).fail < self.states@.len(),
//@}
//@before 1 for closed_block_idx in helper.active_block_range(){
    let ghost rs: int = if helper.num_blocks >= helper.num_free_blocks { helper.num_blocks - helper.num_free_blocks } else { 0 };
    proof { lemma_window(helper); }
//@}
//@loop 5{
    invariant
        b_inv(*self, helper), rs * 256 == h_lo(helper), rs <= closed_block_idx, closed_block_idx < helper.num_blocks || closed_block_idx == helper.num_blocks,
        forall|x: int| 0 <= x < self.states@.len() ==> (#[trigger] self.states@[x]).fail < self.states@.len(),
//@}
//@before 1 self.remove_invalid_checks(closed_block_idx, &helper);{
    proof { assert(rs * 256 <= closed_block_idx as int * 256) by (nonlinear_arith) requires rs <= closed_block_idx; }
//@}
//@before 1 Ok(()){
    proof {
        lemma_window(helper);
        assert(self.states@.len() % 256 == 0);
    }
//@}
//@endimpl
