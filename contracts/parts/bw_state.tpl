//@item src/bytewise.rs const ROOT_STATE_IDX
//@item src/bytewise.rs const DEAD_STATE_IDX
//@item src/intpack.rs struct U24
//@item src/intpack.rs struct U24nU8
//@item src/bytewise.rs struct State
//@include ghost_stbits.rs

proof fn lemma_pack(raw: u32, a: u32, b: u8)
    requires a <= 0xff_ffff,
    ensures
        ((a << 8) | (b as u32)) >> 8 == a,
        (((a << 8) | (b as u32)) & 0xff) as u8 == b,
        (raw >> 8) <= 0xff_ffff,
        (raw & 0xff) <= 0xff,
{
    assert(a <= 0xff_ffff ==> ((a << 8) | (b as u32)) >> 8 == a) by(bit_vector);
    assert(a <= 0xff_ffff ==> (((a << 8) | (b as u32)) & 0xff) as u8 == b) by(bit_vector);
    assert((raw >> 8) <= 0xff_ffff) by(bit_vector);
    assert((raw & 0xff) <= 0xff) by(bit_vector);
}

//@impl src/intpack.rs impl U24
//@assoc const MAX
//@fn get
//@ret r
//@head{
    ensures r == self.0
//@}
//@endimpl
//@impl src/intpack.rs impl TryFrom<u32> for U24
//@fn try_from
//@ret r
//@head{
    ensures r.is_ok() == (value <= 0xff_ffff), r.is_ok() ==> r.unwrap().0 == value
//@}
//@endimpl
//@impl src/intpack.rs impl U24nU8
//@fn a
//@ret r
//@head{
    ensures r.0 == self.0 >> 8, r.0 <= 0xff_ffff
//@}
//@start{
    proof { lemma_pack(self.0, 0, 0); }
//@}
//@fn b
//@ret r
//@head{
    ensures r == (self.0 & 0xff) as u8
//@}
//@start{
    proof { lemma_pack(self.0, 0, 0); }
//@}
//@fn set_a
//@head{
    requires a.0 <= 0xff_ffff
    ensures final(self).0 >> 8 == a.0, (final(self).0 & 0xff) as u8 == (old(self).0 & 0xff) as u8
//@}
//@start{
    proof { lemma_pack(self.0, a.0, (self.0 & 0xff) as u8); }
//@}
//@fn set_b
//@head{
    ensures final(self).0 >> 8 == old(self).0 >> 8, (final(self).0 & 0xff) as u8 == b
//@}
//@start{
    proof { lemma_pack(self.0, 0, 0); lemma_pack(self.0, self.0 >> 8, b); }
//@}
//@endimpl

//@impl src/bytewise.rs impl State
//@fn base
//@ret r
//@head{
    ensures r == self.base
//@}
//@fn check
//@ret r
//@head{
    ensures r == st_check(*self)
//@}
//@fn fail
//@ret r
//@head{
    ensures r == self.fail
//@}
//@fn output_pos
//@ret r
//@head{
    ensures r.is_some() <==> st_opos(*self) != 0,
            r.is_some() ==> r.unwrap()@ == st_opos(*self)
//@}
//@fn set_base
//@head{
    ensures final(self).base == Some(x), final(self).fail == old(self).fail, final(self).opos_ch == old(self).opos_ch
//@}
//@fn set_check
//@head{
    ensures final(self).base == old(self).base, final(self).fail == old(self).fail,
        st_check(*final(self)) == x, st_opos(*final(self)) == st_opos(*old(self))
//@}
//@fn set_fail
//@head{
    ensures final(self).base == old(self).base, final(self).fail == x, final(self).opos_ch == old(self).opos_ch
//@}
//@fn set_output_pos
//@ret r
//@head{
    ensures final(self).base == old(self).base, final(self).fail == old(self).fail,
        st_check(*final(self)) == st_check(*old(self)),
        r.is_ok() == (opt_u32(x) <= 0xff_ffff),
        r.is_ok() ==> st_opos(*final(self)) == opt_u32(x),
        r.is_err() ==> *final(self) == *old(self) && r.unwrap_err() is AutomatonScale,
//@}
//@endimpl
// R12x: `#[derive(Default)]` on State expanded by hand into an inherent fn (field-wise defaults); trusted expansion
impl State {
    fn verif_default() -> (r: Self)
        ensures r.base.is_none(), r.fail == 0, r.opos_ch.0 == 0
    { State { base: None, fail: 0, opos_ch: U24nU8(0) } }
}
