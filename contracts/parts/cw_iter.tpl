//@include enumerate.rs
//@include ghost_utf8.rs

pub assume_specification<T>[Option::<T>::unwrap_unchecked](o: Option<T>) -> (r: T)
    requires o.is_some(),          // the safety precondition of unwrap_unchecked
    ensures r == o.unwrap();

pub assume_specification[char::from_u32_unchecked](i: u32) -> (r: char)
    requires is_scalar(i),         // the safety precondition of from_u32_unchecked
    ensures r as u32 == i;

//@item src/charwise/iter.rs struct CharWithEndOffsetIterator

spec fn dec_ok<I: Iterator<Item = u8>>(it: CharWithEndOffsetIterator<I>) -> bool {
    utf8_ok(enum_rest(it.inner)) && enum_count(it.inner) + enum_rest(it.inner).len() < usize::MAX
}

//@impl src/charwise/iter.rs Iterator for CharWithEndOffsetIterator
//@fn next
//@ret r
//@head{
    requires dec_ok(*old(self))
    ensures dec_ok(*final(self)),
        match r {
            None => enum_rest(old(self).inner).len() == 0 && enum_rest(final(self).inner).len() == 0
                    && enum_count(final(self).inner) == enum_count(old(self).inner),
            Some(p) => {
                let rest = enum_rest(old(self).inner);
                &&& rest.len() > 0
                &&& p.0 == enum_count(old(self).inner) + u8len(rest[0])
                &&& p.1 as u32 == u8code(rest)
                &&& enum_rest(final(self).inner) == rest.skip(u8len(rest[0]) as int)
                &&& enum_count(final(self).inner) == p.0     // exactly the character's bytes have been pulled
            },
        }
//@}
//@start{
    let ghost rest0 = enum_rest(self.inner);
    let ghost cnt0 = enum_count(self.inner);
//@}
//@before 1 Some((end_offset,{
    proof {
        let b0 = rest0[0];
        assert(u8first_ok(rest0));
        if b0 >= 0x80 {
            let b1 = rest0[1];
            assert(rest0.skip(1)[0] == b1);
            if b0 < 0xe0 {
                assert(enum_rest(self.inner) =~= rest0.skip(2));
            } else {
                let b2 = rest0[2];
                assert(rest0.skip(1).skip(1)[0] == b2);
                if b0 < 0xf0 {
                    assert(enum_rest(self.inner) =~= rest0.skip(3));
                    assert((((b0 & 0x0f) as u32) << 12) | ((((b1 & 0x3f) as u32) << 6) | ((b2 & 0x3f) as u32))
                        == ((b0 & 0x0f) as u32) << 12 | ((b1 & 0x3f) as u32) << 6 | (b2 & 0x3f) as u32) by(bit_vector);
                } else {
                    let b3 = rest0[3];
                    assert(rest0.skip(1).skip(1).skip(1)[0] == b3);
                    assert(enum_rest(self.inner) =~= rest0.skip(4));
                    assert((((b0 & 0x07) as u32) << 18) | ((((((b1 & 0x3f) as u32) << 6) | ((b2 & 0x3f) as u32)) << 6) | ((b3 & 0x3f) as u32))
                        == ((b0 & 0x07) as u32) << 18 | ((b1 & 0x3f) as u32) << 12 | ((b2 & 0x3f) as u32) << 6 | (b3 & 0x3f) as u32) by(bit_vector);
                }
            }
        } else {
            assert(enum_rest(self.inner) =~= rest0.skip(1));
        }
    }
//@}
//@endimpl
