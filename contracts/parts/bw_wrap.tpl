//@item src/bytewise.rs struct DoubleArrayAhoCorasick
//@item src/lib.rs struct Match
//@include intoiter.rs
//@include ghost_iter_bw.rs
//@include ghost_ac.rs
//@include ghost_lm_bw.rs
//@include ghost_wrap_bw.rs

//@impl src/bytewise/builder.rs impl DoubleArrayAhoCorasickBuilder
//@fn build_sparse_nfa
//@forbid num_free_blocks
//@rules R22 R11 R3all
//@ret r
//@head{
    requires into_lawful(patvals), into_items(patvals).len() < usize::MAX
    ensures match r {
        Ok(nfa) => {
            &&& pats_valid(into_items(patvals))
            &&& nfa.match_kind == self.match_kind
            &&& nfa_tree(nfa) && nfa_links(nfa, lm_of(self.match_kind)) && nfa_outs_ok(nfa)
            // C15: the states >= 2 are exactly the non-empty prefixes of the registered patterns
            &&& sound_facts(nfa)
            // leftmost kinds: the link / output-position facts from which the optimality of the leftmost stream follows (unit lm_opt_bw)
            &&& !(self.match_kind is Standard) ==> lm_opt_facts(nfa)
            &&& lf_inv(nfa, item_pats(into_items(patvals)), into_items(patvals).len() as int)
            &&& trie_ok(nfa) && reach_ok(nfa) && add_inv(nfa) && seen_is(nfa, into_items(patvals), into_items(patvals).len() as int)
            // C06: registered patterns carry the value of their pair; standard kind: the (assumed) Aho-Corasick contract of the passes
            &&& values_are(nfa, into_items(patvals), into_items(patvals).len() as int)
            &&& self.match_kind is Standard ==> ac_fail(nfa) && ac_outs(nfa)
        },
        Err(e) => match e {
            DaachorseError::InvalidArgument => into_items(patvals).len() == 0 || has_empty(into_items(patvals)) || has_huge(into_items(patvals)),
            DaachorseError::DuplicatePattern => has_dup(into_items(patvals)),
            DaachorseError::AutomatonScale => true,
            DaachorseError::InvalidConversion => false,
        },
    }
//@}
//@start{
    broadcast use vstd::std_specs::btree::group_btree_axioms;
    let ghost items = into_items(patvals);
    let ghost mut k: int = 0;
//@}
//@loop 1{
    invariant items == into_items(patvals), items.len() < usize::MAX, 0 <= k <= items.len(),
        verif_it1.obeys_prophetic_iter_laws(), verif_it1.decrease().is_some(), verif_it1.remaining() == items.skip(k),
        add_inv(nfa), reach_ok(nfa), nfa.match_kind == self.match_kind, nfa.len <= k, nfa.states@.len() <= u32::MAX as nat + 1,
        fresh_links(nfa), nfa.outputs@.len() == 0,
        k > 0 ==> nfa.len > 0,
        seen_is(nfa, items, k), values_are(nfa, items, k), lf_inv(nfa, item_pats(items), k),
        forall|i: int| 0 <= i < k ==> (#[trigger] pat_at(items, i)).len() > 0,
        forall|i: int, j: int| 0 <= i < j < k ==> #[trigger] pat_at(items, i) != #[trigger] pat_at(items, j),
    ensures k == items.len(),
    decreases verif_it1.decrease().unwrap(),
//@}
//@before 1 nfa.add(pattern.as_ref(), value)?;{
    let ghost n_b = nfa;
    let ghost pk = pattern.as_ref_spec()@;
    proof {
        assert(items.skip(k)[0] == items[k]);
        assert(pk == pat_at(items, k));
        axiom_slice_len_bound(pattern.as_ref_spec());
        lemma_byte_len_u8(pk);
    }
//@}
//@after 1 nfa.add(pattern.as_ref(), value)?;{
    proof {
        assert(!seen(n_b, pk));
        assert forall|i: int| 0 <= i < k implies #[trigger] pat_at(items, i) != pat_at(items, k) by {
            if pat_at(items, i) == pk { assert(seen(n_b, pk)); }
        }
        assert forall|q: Seq<u8>| #[trigger] seen(nfa, q) <==> exists|j: int| 0 <= j < k + 1 && #[trigger] pat_at(items, j) == q by {
            if seen(nfa, q) {
                if q == pk { assert(pat_at(items, k) == q); }
                else { assert(seen(n_b, q)); let j = choose|j: int| 0 <= j < k && #[trigger] pat_at(items, j) == q; assert(0 <= j < k + 1 && pat_at(items, j) == q); }
            }
            if exists|j: int| 0 <= j < k + 1 && #[trigger] pat_at(items, j) == q {
                let j = choose|j: int| 0 <= j < k + 1 && #[trigger] pat_at(items, j) == q;
                if j < k { assert(seen(n_b, q)); }
            }
        }
        if k == 0 { assert(!add_shadowed(n_b, pk)) by {
            if add_shadowed(n_b, pk) { let kk = choose|kk: int| 0 <= kk < pk.len() && is_registered(n_b, pk.take(kk)); assert(seen(n_b, pk.take(kk))); }
        } }
        // C04: registered patterns in terms of the input order
        assert(item_pats(items)[k] == pk);
        assert(ps_distinct(item_pats(items), k + 1)) by {
            assert forall|i: int, j: int| 0 <= i < j < k + 1 implies #[trigger] item_pats(items)[i] != #[trigger] item_pats(items)[j] by {
                assert(item_pats(items)[i] == pat_at(items, i) && item_pats(items)[j] == pat_at(items, j));
            }
        }
        lemma_lf_inv_step(n_b, nfa, item_pats(items), k);
        // values
        assert forall|j: int| 0 <= j < k + 1 && is_registered(nfa, #[trigger] pat_at(items, j)) implies reg_out(nfa, pat_at(items, j)).unwrap().0 == items[j].1 by {
            if j < k { assert(pat_at(items, j) != pk); assert(is_registered(n_b, pat_at(items, j))); }
            else { assert(items[k] == (pattern, value)); }
        }
        assert(items.skip(k).skip(1) =~= items.skip(k + 1));
        k = k + 1;
    }
//@}
//@before 1 let q = match self.match_kind {{
    let ghost n_a = nfa;
    proof {
        assert(items.len() > 0);
        assert(pats_valid(items));
        // at least one pattern is registered, so there is at least one state below the root
        assert(n_a.states@.len() > 2) by {
            assert(seen(n_a, pat_at(items, 0)));
            lemma_seen_has_state(n_a, pat_at(items, 0));
        }
    }
//@}
//@after 1 let q = match self.match_kind {{
    let ghost n_f = nfa;
    proof {
        lemma_frame_keeps_trie(n_a, n_f);
        // the output pass accepts both kinds of fail links
        assert(fails_ok(n_f, true));
    }
//@}
//@before 1 Ok(nfa){
    proof {
        assert(passes_frame(n_f, nfa));
        assert(passes_frame(n_a, nfa));
        lemma_frame_keeps_trie(n_a, nfa);
        lemma_lf_inv_frame(n_a, nfa, item_pats(items), items.len() as int);
        lemma_frame_keeps_add_inv(n_a, nfa);
        lemma_sound_facts_intro(nfa);
        if !(self.match_kind is Standard) { lemma_lm_opt_facts_intro(nfa); }
        lemma_frame_keeps_values(n_a, nfa, items, items.len() as int);
        assert(fails_ok(nfa, lm_of(self.match_kind))) by { lemma_links_same_fail(n_f, nfa, lm_of(self.match_kind)); }
        lemma_trie_gives_tree(nfa);
        assert(seen_is(nfa, items, items.len() as int));
    }
//@}
//@fn build_with_values
//@rules R11 R23
//@ret r
//@head{
    requires verif_self.states@.len() == 0, verif_self.num_free_blocks >= 1, into_lawful(patvals), into_items(patvals).len() < usize::MAX
    ensures match r {
        // Ok: the collection is valid; the automaton satisfies the precondition of every search entry point (bw_wf + outs_ok:
        // C07, C13 ranking, refinement chain of C01-C05); num_states + 1 == number of states of a trie n whose states >= 2 are
        // exactly the non-empty prefixes of the registered patterns, and the array is at least that long (C15); registered
        // patterns carry the value of their pair (C06); standard kind: the streams the three standard iterators refine equal
        // the property-level semantics over n (C01, C02, C05; relative to the assumed contract of the fail/output passes)
        Ok(pma) => pma.match_kind == verif_self.match_kind
            && bwv_post(pma.states@, pma.outputs@, pma.num_states, into_items(patvals), verif_self.match_kind),
        Err(e) => match e {
            DaachorseError::InvalidArgument => into_items(patvals).len() == 0 || has_empty(into_items(patvals)) || has_huge(into_items(patvals)),
            DaachorseError::DuplicatePattern => has_dup(into_items(patvals)),
            DaachorseError::AutomatonScale => true,
            DaachorseError::InvalidConversion => false,
        },
    }
//@}
//@closure 1 |_| => |verif_e: core::num::TryFromIntError| -> (e: DaachorseError){
    ensures e is AutomatonScale
//@}
//@before 1 Ok(DoubleArrayAhoCorasick {{
    proof {
        assert(da_safe(verif_me.states@));
        assert(verif_me.match_kind == verif_self.match_kind);
        // guarded: with a different count the postcondition (not this hint) is what fails
        if nfa.states@.len() == num_states + 1 {
            lemma_bwv_post(nfa, verif_me.states@, num_states, into_items(patvals), verif_self.match_kind);
        }
    }
//@}
//@fn build
//@rules R27 R22 R3into R11 R23b
//@ret r
//@head{
    requires self.states@.len() == 0, self.num_free_blocks >= 1, into_lawful(patterns), into_items(patterns).len() < usize::MAX,
        <V as vstd::std_specs::convert::TryFromSpec<usize>>::obeys_try_from_spec()
    ensures match r {
        // Ok: every position converts to V, and the automaton is the one build_with_values promises for the pairs (pattern_j, V::try_from(j))
        Ok(pma) => (forall|j: int| 0 <= j < into_items(patterns).len() ==> conv_ok::<V>(j)) && pma.match_kind == self.match_kind
            && bwv_post(pma.states@, pma.outputs@, pma.num_states, indexed::<P, V>(into_items(patterns)), self.match_kind),
        Err(e) => match e {
            // the documented error for a position that does not convert
            DaachorseError::InvalidConversion => exists|j: int| 0 <= j < into_items(patterns).len() && !conv_ok::<V>(j),
            DaachorseError::InvalidArgument => into_items(patterns).len() == 0 || has_empty(indexed::<P, V>(into_items(patterns))) || has_huge(indexed::<P, V>(into_items(patterns))),
            DaachorseError::DuplicatePattern => has_dup(indexed::<P, V>(into_items(patterns))),
            DaachorseError::AutomatonScale => true,
        },
    }
//@}
//@start{
    let ghost ps = into_items(patterns);
//@}
//@loop 1{
    invariant ps == into_items(patterns), ps.len() < usize::MAX, 0 <= verif_i <= ps.len(),
        <V as vstd::std_specs::convert::TryFromSpec<usize>>::obeys_try_from_spec(),
        verif_it1.obeys_prophetic_iter_laws(), verif_it1.decrease().is_some(), verif_it1.remaining() == ps.skip(verif_i as int),
        patvals@.len() == verif_i,
        forall|j: int| 0 <= j < verif_i ==> #[trigger] conv_ok::<V>(j),
        forall|j: int| 0 <= j < verif_i ==> #[trigger] patvals@[j] == (ps[j], conv_val::<V>(j)),
    ensures verif_i == ps.len(),
    decreases verif_it1.decrease().unwrap(),
//@}
//@before 1 match V::try_from({
    let ghost pv0 = patvals@;
    proof { assert(ps.skip(verif_i as int)[0] == ps[verif_i as int]); assert(p == ps[verif_i as int]); }
//@}
//@before 1 return Err(DaachorseError::{
    // names the witness of the error clause (no assertion: a wrong error path fails the postcondition, not this hint)
    let ghost verif_w = conv_ok::<V>(verif_i as int);
//@}
//@after 1 verif_i += 1;{
    proof {
        let i0 = verif_i as int - 1;
        assert(ps.skip(i0).skip(1) =~= ps.skip(verif_i as int));
        // guarded: if the step is not the expected one the loop invariant (not this hint) is what fails
        if conv_ok::<V>(i0) && patvals@ == pv0.push((ps[i0], conv_val::<V>(i0))) {
            assert forall|j: int| 0 <= j < verif_i implies #[trigger] patvals@[j] == (ps[j], conv_val::<V>(j)) by {
                if j < i0 { assert(patvals@[j] == pv0[j]); }
            }
        }
    }
//@}
//@before 1 Self::build_with_values(self, patvals){
    let ghost pv = patvals@;
    proof {
        assert(verif_i == ps.len());
        assert(pv =~= indexed::<P, V>(ps));
        axiom_vec_into_items(patvals);
        assert(into_items(patvals) == indexed::<P, V>(ps));
        assert(forall|j: int| 0 <= j < ps.len() ==> conv_ok::<V>(j));
    }
//@}
//@endimpl
