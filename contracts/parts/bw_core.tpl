//@include prelude.rs
//@include from_u32.rs
//@include ghost_stbits.rs
//@include ghost_bw.rs

//@item src/bytewise.rs const ROOT_STATE_IDX
//@item src/bytewise.rs const DEAD_STATE_IDX
//@item src/intpack.rs struct U24
//@item src/intpack.rs struct U24nU8
//@item src/bytewise.rs struct State
//@item src/lib.rs struct Output
//@item src/lib.rs enum MatchKind
//@rules keepeq
//@pre{
#[derive(Structural)]
//@}
//@end
//@item src/bytewise.rs struct DoubleArrayAhoCorasick

//@impl src/intpack.rs impl U24
//@fn get
//@ret r
//@head{
    ensures r == self.0
//@}
//@endimpl

//@impl src/intpack.rs impl U24nU8
//@fn a
//@ret r
//@head{
    ensures r.0 == self.0 >> 8, r.0 <= 0xff_ffff
//@}
//@start{
    proof { let x = self.0; assert(x >> 8 <= 0xff_ffff) by(bit_vector); }
//@}
//@fn b
//@ret r
//@head{
    ensures r == (self.0 & 0xff) as u8
//@}
//@start{
    proof { let x = self.0; assert(x & 0xff <= 0xff) by(bit_vector); }
//@}
//@endimpl

//@impl src/bytewise.rs impl State
//@fn base
//@ret r
//@head{
    ensures r == self.base
//@}
//@fn check
//@ret r
//@head{
    ensures r == st_check(*self)
//@}
//@fn fail
//@ret r
//@head{
    ensures r == self.fail
//@}
//@fn output_pos
//@ret r
//@head{
    ensures r.is_some() <==> st_opos(*self) != 0,
            r.is_some() ==> r.unwrap()@ == st_opos(*self)
//@}
//@endimpl

//@impl src/bytewise.rs impl<V> DoubleArrayAhoCorasick<V>
//@fn child_index_unchecked
//@ret r
//@head{
    requires da_safe(self.states@), state_id < self.states.len()
    ensures r == bw_child(self.states@, state_id as int, c),
            r.is_some() ==> r.unwrap() < self.states.len()
//@}
//@closure 1 |base| => |base: NonZeroU32| -> (q: Option<u32>){
    requires da_safe(self.states@), base@ < self.states.len()
    ensures q == (if st_check(self.states@[(base@ ^ (c as u32)) as int]) == c { Some(base@ ^ (c as u32)) } else { None::<u32> }),
            (base@ ^ (c as u32)) < self.states.len()
//@}
//@closure 1 |&x| => |x_: &u32| -> (b: bool){
    requires *x_ < self.states.len()
    ensures b == (st_check(self.states@[*x_ as int]) == c)
//@}
//@before 1 Some(child_idx){
    proof { lemma_xor_in_block(base@, c, self.states.len() as u64); }
//@}
//@fn next_state_id_unchecked
//@pre{
#[verifier::loop_isolation(false)]
//@}
//@ret r
//@head{
    requires bw_wf(self.states@, false), bw_live(self.states@, false, state_id as int)
    ensures r as int == bw_delta(self.states@, state_id as int, c),
            bw_live(self.states@, false, r as int)
//@}
//@start{
    let ghost s0 = state_id;
    let ghost mut fmoves: nat = 0;   // C13: fail moves made so far by this call
//@}
//@loop 1{
    invariant bw_wf(self.states@, false), bw_live(self.states@, false, state_id as int),
              bw_delta(self.states@, state_id as int, c) == bw_delta(self.states@, s0 as int, c),
              fmoves + bw_fsteps(self.states@, state_id as int, c) == bw_fsteps(self.states@, s0 as int, c),
    decreases bw_rank(self.states@, false, state_id as int)
//@}
//@before 1 return{
    // the loop made exactly bw_fsteps fail moves (lemma_moves_from_root: at most 2n transitions over n bytes)
    proof { assert(fmoves == bw_fsteps(self.states@, s0 as int, c)); }
//@}
//@before 2 return{
    proof { assert(fmoves == bw_fsteps(self.states@, s0 as int, c)); }
//@}
//@before 1 state_id = (&self.states{
    proof { fmoves = fmoves + 1; }
//@}
//@fn next_state_id_leftmost_unchecked
//@pre{
#[verifier::loop_isolation(false)]
//@}
//@ret r
//@head{
    requires bw_wf(self.states@, true), bw_live(self.states@, true, state_id as int)
    ensures r as int == bw_delta_lm(self.states@, state_id as int, c),
            bw_live(self.states@, true, r as int)
//@}
//@start{
    let ghost s0 = state_id;
//@}
//@loop 1{
    invariant bw_wf(self.states@, true), bw_live(self.states@, true, state_id as int),
              bw_delta_lm(self.states@, state_id as int, c) == bw_delta_lm(self.states@, s0 as int, c)
    decreases bw_rank(self.states@, true, state_id as int)
//@}
//@endimpl

