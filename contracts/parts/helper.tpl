//@include prelude.rs
//@include from_u32.rs
//@include errors.rs
//@item src/build_helper.rs struct ListItem
// R12x: `#[derive(Default)]` on ListItem expanded by hand into an inherent fn (derive(Default) is field-wise by
// the Rust reference); call sites `ListItem::default()` are redirected to it. The expansion is the trusted part.
impl ListItem {
    fn verif_default() -> (r: Self)
        ensures r == (ListItem { next: 0, prev: 0, used_base: false, used_index: false })
    { ListItem { next: 0, prev: 0, used_base: false, used_index: false } }
}
//@item src/build_helper.rs struct BuildHelper
//@item src/build_helper.rs struct VacantIter

//@impl src/build_helper.rs impl ListItem
//@fn next
//@ret r
//@head{
    ensures r == self.next
//@}
//@fn prev
//@ret r
//@head{
    ensures r == self.prev
//@}
//@fn next_mut
//@ret r
//@head{
    ensures *r == old(self).next, *final(self) == (ListItem { next: *final(r), ..*old(self) })
//@}
//@fn prev_mut
//@ret r
//@head{
    ensures *r == old(self).prev, *final(self) == (ListItem { prev: *final(r), ..*old(self) })
//@}
//@fn is_used_base
//@ret r
//@head{
    ensures r == self.used_base
//@}
//@fn is_used_index
//@ret r
//@head{
    ensures r == self.used_index
//@}
//@fn use_base
//@head{
    ensures *final(self) == (ListItem { used_base: true, ..*old(self) })
//@}
//@fn use_index
//@head{
    ensures *final(self) == (ListItem { used_index: true, ..*old(self) })
//@}
//@endimpl
//@include ghost_helper.rs

//@impl src/build_helper.rs impl BuildHelper
//@fn num_elements
//@ret r
//@head{
    requires h_basic(*self)
    ensures r == h_hi(*self)
//@}
//@fn active_block_range
//@ret r
//@head{
    ensures r.start == (if self.num_blocks >= self.num_free_blocks { self.num_blocks - self.num_free_blocks } else { 0 }) as u32,
            r.end == self.num_blocks
//@}
//@fn active_index_range
//@ret r
//@head{
    requires h_basic(*self)
    ensures r.start == h_lo(*self), r.end == h_hi(*self)
//@}
//@start{
    proof { lemma_window(*self); }
//@}
//@fn capacity
//@ret r
//@head{
    requires h_basic(*self)
    ensures r == h_cap(*self)
//@}
//@fn offset
//@ret r
//@head{
    requires h_basic(*self), h_active(*self, idx as int)
    ensures r == idx as int % h_cap(*self), r < self.items@.len()
//@}
//@start{
    proof { lemma_window(*self); }
//@}
//@fn get_ref
//@ret r
//@head{
    requires h_basic(*self), h_active(*self, idx as int)
    ensures *r == h_it(*self, idx as int)
//@}
//@fn get_mut
//@ret r
//@head{
    requires h_basic(*old(self)), h_active(*old(self), idx as int)
    ensures *r == h_it(*old(self), idx as int),
        final(self).items@ == old(self).items@.update(idx as int % h_cap(*old(self)), *final(r)),
        final(self).block_len == old(self).block_len, final(self).num_free_blocks == old(self).num_free_blocks,
        final(self).num_blocks == old(self).num_blocks, final(self).head_idx == old(self).head_idx,
//@}
//@fn is_used_base
//@ret r
//@head{
    requires h_basic(*self), h_active(*self, base as int)
    ensures r == h_used_base(*self, base as int)
//@}
//@fn is_used_index
//@ret r
//@head{
    requires h_basic(*self), h_active(*self, idx as int)
    ensures r == h_used_index(*self, idx as int)
//@}
//@fn use_base
//@head{
    requires h_basic(*old(self)), h_active(*old(self), base@ as int)
    ensures h_same_params(*old(self), *final(self)), final(self).head_idx == old(self).head_idx,
        final(self).items@ == old(self).items@.update(base@ as int % h_cap(*old(self)), ListItem { used_base: true, ..h_it(*old(self), base@ as int) }),
//@}
//@fn use_index
//@head{
    requires h_wf(*old(self)), h_vac(*old(self), h_lo(*old(self)), h_hi(*old(self)), idx as int)
    ensures h_wf(*final(self)), h_same_params(*old(self), *final(self)),
        forall|j: int| h_active(*old(self), j) ==> h_used_base(*final(self), j) == h_used_base(*old(self), j)
            && h_used_index(*final(self), j) == (h_used_index(*old(self), j) || j == idx),
        // the head only moves forward
        match final(self).head_idx { None => true, Some(n) => old(self).head_idx.is_some() && n >= old(self).head_idx.unwrap() && (old(self).head_idx.unwrap() == idx ==> n > idx) },
//@}
//@start{
    let ghost h0 = *self;
    let ghost lo = h_lo(h0);
    let ghost hi = h_hi(h0);
    proof { lemma_window(h0); lemma_neighbours(h_cells(h0), h0.head_idx, lo, hi, idx as int); }
//@}
//@after 1 self.get_mut(idx).use_index();{
    let ghost h1 = *self;
    proof { lemma_update_frame(h0, h1, lo, hi, idx as int, ListItem { used_index: true, ..h_it(h0, idx as int) }); }
//@}
//@after 1 *self.get_mut(prev).next_mut() = next;{
    let ghost h2 = *self;
    proof { lemma_update_frame(h1, h2, lo, hi, prev as int, ListItem { next: next, ..h_it(h1, prev as int) }); }
//@}
//@after 1 *self.get_mut(next).prev_mut() = prev;{
    let ghost h3 = *self;
    proof { lemma_update_frame(h2, h3, lo, hi, next as int, ListItem { prev: prev, ..h_it(h2, next as int) }); }
//@}
//@closure 1 |&x| => |x_: &u32| -> (b: bool){
    ensures b == (*x_ != idx)
//@}
//@after 1 if self.head_idx.unwrap() == idx{
    proof {
        let f0 = h_cells(h0);
        let f3 = h_cells(*self);
        assert(l_vac(f0, lo, hi, idx as int));
        assert(l_vac(f0, lo, hi, prev as int) && l_vac(f0, lo, hi, next as int));
        assert forall|j: int| lo <= j < hi implies #[trigger] f3(j) == cell_after_remove(f0(j), j, idx as int, prev as int, next as int) by {
            assert(h_it(*self, j) == h_it(h3, j));
        }
        lemma_remove(f0, f3, h0.head_idx, self.head_idx, lo, hi, idx as int, prev as int, next as int);
        assert forall|j: int| h_active(h0, j) implies h_used_base(*self, j) == h_used_base(h0, j)
            && h_used_index(*self, j) == (h_used_index(h0, j) || j == idx) by {
            assert(f3(j) == cell_after_remove(f0(j), j, idx as int, prev as int, next as int));
        }
    }
//@}
//@fn dropped_block
//@ret r
//@head{
    requires h_basic(*self)
    ensures r.is_some() == (h_cap(*self) <= h_hi(*self)),
        r.is_some() ==> self.num_blocks >= self.num_free_blocks && r.unwrap() == self.num_blocks - self.num_free_blocks
            && r.unwrap() as int * self.block_len as int == h_lo(*self),
//@}
//@closure 1 || => || -> (q: u32){
    ensures q == (if self.num_blocks >= self.num_free_blocks { self.num_blocks - self.num_free_blocks } else { 0 }) as u32
//@}
//@start{
    proof {
        lemma_window(*self);
        let bl = self.block_len as int; let nb = self.num_blocks as int; let nf = self.num_free_blocks as int;
        if nb < nf { assert(nb * bl < bl * nf) by (nonlinear_arith) requires nb < nf, bl > 0; }
        else { assert(nb * bl >= bl * nf) by (nonlinear_arith) requires nb >= nf, bl > 0; }
    }
//@}
//@fn reset
//@rules R12x
//@head{
    requires h_basic(*old(self)), h_active(*old(self), idx as int)
    ensures h_same_params(*old(self), *final(self)), final(self).head_idx == old(self).head_idx,
        final(self).items@ == old(self).items@.update(idx as int % h_cap(*old(self)), ListItem { next: 0, prev: 0, used_base: false, used_index: false }),
//@}
//@fn vacant_iter
//@ret r
//@head{
    ensures r.list == self, r.idx == self.head_idx
//@}
//@fn unused_base_in_block
//@ret r
//@head{
    requires h_basic(*self), h_lo(*self) <= block_idx as int * self.block_len as int, block_idx < self.num_blocks
    ensures match r {
            Some(b) => block_idx as int * self.block_len as int <= b < (block_idx as int + 1) * self.block_len as int && !h_used_base(*self, b as int),
            None => forall|b: int| block_idx as int * self.block_len as int <= b < (block_idx as int + 1) * self.block_len as int ==> h_used_base(*self, b),
        }
//@}
//@start{
    proof {
        lemma_window(*self);
        let bl = self.block_len as int; let nb = self.num_blocks as int; let k = block_idx as int;
        assert((k + 1) * bl <= nb * bl) by (nonlinear_arith) requires k + 1 <= nb, bl > 0;
        assert((k + 1) * bl == k * bl + bl) by (nonlinear_arith);
        assert(k * bl >= 0) by (nonlinear_arith) requires k >= 0, bl > 0;
    }
//@}
//@rules R16
//@loop 1{
    invariant_except_break verif_r.is_none(),
    invariant h_basic(*self), start <= verif_i <= end,
        h_lo(*self) <= start as int, end as int <= h_hi(*self),
        forall|b: int| start <= b < verif_i ==> h_used_base(*self, b),
    ensures
        match verif_r { Some(b) => start <= b < end && !h_used_base(*self, b as int), None => verif_i == end },
        forall|b: int| start <= b < verif_i ==> h_used_base(*self, b), start <= verif_i <= end,
    decreases end - verif_i
//@}
//@endimpl
