//@include prelude.rs
//@include from_u32.rs
//@include errors.rs
//@item src/build_helper.rs struct ListItem
// R12x: `#[derive(Default)]` on ListItem expanded by hand into an inherent fn (derive(Default) is field-wise by
// the Rust reference); call sites `ListItem::default()` are redirected to it. The expansion is the trusted part.
impl ListItem {
    fn verif_default() -> (r: Self)
        ensures r == (ListItem { next: 0, prev: 0, used_base: false, used_index: false })
    { ListItem { next: 0, prev: 0, used_base: false, used_index: false } }
}
//@item src/build_helper.rs struct BuildHelper
//@item src/build_helper.rs struct VacantIter

//@impl src/build_helper.rs impl ListItem
//@fn next
//@ret r
//@head{
    ensures r == self.next
//@}
//@fn prev
//@ret r
//@head{
    ensures r == self.prev
//@}
//@fn next_mut
//@ret r
//@head{
    ensures *r == old(self).next, *final(self) == (ListItem { next: *final(r), ..*old(self) })
//@}
//@fn prev_mut
//@ret r
//@head{
    ensures *r == old(self).prev, *final(self) == (ListItem { prev: *final(r), ..*old(self) })
//@}
//@fn is_used_base
//@ret r
//@head{
    ensures r == self.used_base
//@}
//@fn is_used_index
//@ret r
//@head{
    ensures r == self.used_index
//@}
//@fn use_base
//@head{
    ensures *final(self) == (ListItem { used_base: true, ..*old(self) })
//@}
//@fn use_index
//@head{
    ensures *final(self) == (ListItem { used_index: true, ..*old(self) })
//@}
//@endimpl
//@include ghost_helper.rs

//@impl src/build_helper.rs impl BuildHelper
//@fn new
//@rules R12x
//@ret r
//@head{
    requires block_len > 0, num_free_blocks > 0
    ensures match r {
            Ok(h) => h_wf(h) && h.num_blocks == 0 && h.block_len == block_len && h.num_free_blocks == num_free_blocks && h.head_idx.is_none(),
            Err(e) => e is AutomatonScale && block_len as int * num_free_blocks as int > u32::MAX,
        },
        r.is_ok() == (block_len as int * num_free_blocks as int <= u32::MAX),
//@}
//@closure 1 || => || -> (e: DaachorseError){
    ensures e is AutomatonScale
//@}
//@start{
    proof {
        assert(block_len as int * num_free_blocks as int > 0) by (nonlinear_arith) requires block_len > 0, num_free_blocks > 0;
    }
//@}
//@before 1 Ok(Self {{
    proof {
        assert forall|f: spec_fn(int) -> ListItem| list_ok(f, None, 0, 0) by { lemma_empty_window(f, 0); }
    }
//@}
//@fn num_elements
//@ret r
//@head{
    requires h_basic(*self)
    ensures r == h_hi(*self)
//@}
//@fn active_block_range
//@ret r
//@head{
    ensures r.start == (if self.num_blocks >= self.num_free_blocks { self.num_blocks - self.num_free_blocks } else { 0 }) as u32,
            r.end == self.num_blocks
//@}
//@fn active_index_range
//@ret r
//@head{
    requires h_basic(*self)
    ensures r.start == h_lo(*self), r.end == h_hi(*self)
//@}
//@start{
    proof { lemma_window(*self); }
//@}
//@fn capacity
//@ret r
//@head{
    requires h_basic(*self)
    ensures r == h_cap(*self)
//@}
//@fn offset
//@ret r
//@head{
    requires h_basic(*self), h_active(*self, idx as int)
    ensures r == idx as int % h_cap(*self), r < self.items@.len()
//@}
//@start{
    proof { lemma_window(*self); }
//@}
//@fn get_ref
//@ret r
//@head{
    requires h_basic(*self), h_active(*self, idx as int)
    ensures *r == h_it(*self, idx as int)
//@}
//@start{
    proof { reveal(h_it); }
//@}
//@fn get_mut
//@ret r
//@head{
    requires h_basic(*old(self)), h_active(*old(self), idx as int)
    ensures *r == h_it(*old(self), idx as int),
        final(self).items@ == old(self).items@.update(idx as int % h_cap(*old(self)), *final(r)),
        final(self).block_len == old(self).block_len, final(self).num_free_blocks == old(self).num_free_blocks,
        final(self).num_blocks == old(self).num_blocks, final(self).head_idx == old(self).head_idx,
//@}
//@start{
    proof { reveal(h_it); }
//@}
//@fn is_used_base
//@ret r
//@head{
    requires h_basic(*self), h_active(*self, base as int)
    ensures r == h_used_base(*self, base as int)
//@}
//@fn is_used_index
//@ret r
//@head{
    requires h_basic(*self), h_active(*self, idx as int)
    ensures r == h_used_index(*self, idx as int)
//@}
//@fn use_base
//@head{
    requires h_basic(*old(self)), h_active(*old(self), base@ as int)
    ensures h_same_params(*old(self), *final(self)), final(self).head_idx == old(self).head_idx,
        final(self).items@ == old(self).items@.update(base@ as int % h_cap(*old(self)), ListItem { used_base: true, ..h_it(*old(self), base@ as int) }),
        h_wf(*old(self)) ==> h_wf(*final(self)),
        forall|j: int| h_active(*old(self), j) ==> h_used_index(*final(self), j) == h_used_index(*old(self), j)
            && h_used_base(*final(self), j) == (h_used_base(*old(self), j) || j == base@),
//@}
//@start{
    proof { reveal(h_it); }
    let ghost h0 = *self;
//@}
//@after 1 self.get_mut(base.get()).use_base();{
    proof {
        lemma_window(h0);
        lemma_update_frame(h0, *self, h_lo(h0), h_hi(h0), base@ as int, ListItem { used_base: true, ..h_it(h0, base@ as int) });
        if h_wf(h0) {
            let f0 = h_cells(h0); let f1 = h_cells(*self);
            lemma_flag_congr(f0, f1, h0.head_idx, h_lo(h0), h_hi(h0));
        }
    }
//@}
//@fn use_index
//@head{
    requires h_wf(*old(self)), h_vac(*old(self), h_lo(*old(self)), h_hi(*old(self)), idx as int)
    ensures h_wf(*final(self)), h_same_params(*old(self), *final(self)),
        forall|j: int| h_active(*old(self), j) ==> h_used_base(*final(self), j) == h_used_base(*old(self), j)
            && h_used_index(*final(self), j) == (h_used_index(*old(self), j) || j == idx),
        // the head only moves forward
        match final(self).head_idx { None => true, Some(n) => old(self).head_idx.is_some() && n >= old(self).head_idx.unwrap() && (old(self).head_idx.unwrap() == idx ==> n > idx) },
//@}
//@start{
    let ghost h0 = *self;
    let ghost lo = h_lo(h0);
    let ghost hi = h_hi(h0);
    proof { lemma_window(h0); lemma_neighbours(h_cells(h0), h0.head_idx, lo, hi, idx as int); }
//@}
//@after 1 self.get_mut(idx).use_index();{
    let ghost h1 = *self;
    let ghost hr = h1;
    proof { lemma_update_frame(h0, h1, lo, hi, idx as int, ListItem { used_index: true, ..h_it(h0, idx as int) }); }
//@}
//@after 1 let next = self.get_mut(idx).next();{
    // the two reads go through `get_mut` and leave the items as they are; `hr` names the state after the later of the two (in
    // either order: the same ghost name is re-bound)
    let ghost hr0 = hr;
    let ghost hr = *self;
    proof { assert(hr0.items@ =~= hr.items@) by { reveal(h_it); } lemma_cells_same(hr0, hr); assert(h1.items@ =~= hr.items@) by { reveal(h_it); } lemma_cells_same(h1, hr); }
//@}
//@after 1 let prev = self.get_mut(idx).prev();{
    let ghost hr0 = hr;
    let ghost hr = *self;
    proof { assert(hr0.items@ =~= hr.items@) by { reveal(h_it); } lemma_cells_same(hr0, hr); assert(h1.items@ =~= hr.items@) by { reveal(h_it); } lemma_cells_same(h1, hr); }
//@}
//@after 1 *self.get_mut(prev).next_mut() = next;{
    let ghost h2 = *self;
    proof { lemma_update_frame(hr, h2, lo, hi, prev as int, ListItem { next: next, ..h_it(hr, prev as int) }); }
//@}
//@after 1 *self.get_mut(next).prev_mut() = prev;{
    let ghost h3 = *self;
    proof { lemma_update_frame(h2, h3, lo, hi, next as int, ListItem { prev: prev, ..h_it(h2, next as int) }); }
//@}
//@closure 1 |&x| => |x_: &u32| -> (b: bool){
    ensures b == (*x_ != idx)
//@}
//@after 1 if self.head_idx.unwrap() == idx{
    proof {
        let f0 = h_cells(h0);
        let f3 = h_cells(*self);
        lemma_cells_same(h3, *self);
        assert(l_vac(f0, lo, hi, idx as int));
        assert(l_vac(f0, lo, hi, prev as int) && l_vac(f0, lo, hi, next as int));
        assert forall|j: int| lo <= j < hi implies #[trigger] f3(j) == cell_after_remove(f0(j), j, idx as int, prev as int, next as int) by {
            assert(h_it(*self, j) == h_it(h3, j));
            assert(h_it(hr, j) == h_it(h1, j));
        }
        lemma_remove(f0, f3, h0.head_idx, self.head_idx, lo, hi, idx as int, prev as int, next as int);
        assert forall|j: int| h_active(h0, j) implies h_used_base(*self, j) == h_used_base(h0, j)
            && h_used_index(*self, j) == (h_used_index(h0, j) || j == idx) by {
            assert(f3(j) == cell_after_remove(f0(j), j, idx as int, prev as int, next as int));
        }
    }
//@}
//@fn dropped_block
//@ret r
//@head{
    requires h_basic(*self)
    ensures r.is_some() == (h_cap(*self) <= h_hi(*self)), r.is_some() == (self.num_blocks >= self.num_free_blocks),
        r.is_some() ==> self.num_blocks >= self.num_free_blocks && r.unwrap() == self.num_blocks - self.num_free_blocks
            && r.unwrap() as int * self.block_len as int == h_lo(*self),
//@}
//@closure 1 || => || -> (q: u32){
    ensures q == (if self.num_blocks >= self.num_free_blocks { self.num_blocks - self.num_free_blocks } else { 0 }) as u32
//@}
//@start{
    proof {
        lemma_window(*self);
        let bl = self.block_len as int; let nb = self.num_blocks as int; let nf = self.num_free_blocks as int;
        if nb < nf { assert(nb * bl < bl * nf) by (nonlinear_arith) requires nb < nf, bl > 0; }
        else { assert(nb * bl >= bl * nf) by (nonlinear_arith) requires nb >= nf, bl > 0; }
    }
//@}
//@fn reset
//@rules R12x
//@head{
    requires h_basic(*old(self)), h_active(*old(self), idx as int)
    ensures h_same_params(*old(self), *final(self)), final(self).head_idx == old(self).head_idx,
        final(self).items@ == old(self).items@.update(idx as int % h_cap(*old(self)), ListItem { next: 0, prev: 0, used_base: false, used_index: false }),
//@}
//@start{
    proof { reveal(h_it); }
//@}
//@fn vacant_iter
//@ret r
//@head{
    ensures r.list == self, r.idx == self.head_idx
//@}
//@fn unused_base_in_block
//@ret r
//@head{
    requires h_basic(*self), h_lo(*self) <= block_idx as int * self.block_len as int, block_idx < self.num_blocks
    ensures match r {
            Some(b) => block_idx as int * self.block_len as int <= b < (block_idx as int + 1) * self.block_len as int && !h_used_base(*self, b as int),
            None => forall|b: int| block_idx as int * self.block_len as int <= b < (block_idx as int + 1) * self.block_len as int ==> h_used_base(*self, b),
        }
//@}
//@start{
    proof {
        lemma_window(*self);
        let bl = self.block_len as int; let nb = self.num_blocks as int; let k = block_idx as int;
        assert((k + 1) * bl <= nb * bl) by (nonlinear_arith) requires k + 1 <= nb, bl > 0;
        assert((k + 1) * bl == k * bl + bl) by (nonlinear_arith);
        assert(k * bl >= 0) by (nonlinear_arith) requires k >= 0, bl > 0;
    }
//@}
//@rules R16
//@loop 1{
    invariant_except_break verif_r.is_none(),
    invariant h_basic(*self), verif_a <= verif_i <= verif_b,
        verif_a as int == block_idx as int * self.block_len as int, verif_b as int == verif_a as int + self.block_len as int,
        h_lo(*self) <= verif_a as int, verif_b as int <= h_hi(*self),
        forall|b: int| verif_a <= b < verif_i ==> h_used_base(*self, b),
    ensures
        match verif_r { Some(b) => verif_a <= b < verif_b && !h_used_base(*self, b as int), None => verif_i == verif_b },
        forall|b: int| verif_a <= b < verif_i ==> h_used_base(*self, b), verif_a <= verif_i <= verif_b,
        verif_a as int == block_idx as int * self.block_len as int, verif_b as int == verif_a as int + self.block_len as int,
    decreases verif_b - verif_i
//@}
//@fn push_block
//@ret r
//@head{
    requires h_wf(*old(self))
    ensures
        r.is_ok() == (h_hi(*old(self)) <= u32::MAX - old(self).block_len),
        match r {
            Ok(_) => {
                &&& h_wf(*final(self))
                &&& final(self).block_len == old(self).block_len && final(self).num_free_blocks == old(self).num_free_blocks
                &&& final(self).num_blocks == old(self).num_blocks + 1 && final(self).items@.len() == old(self).items@.len()
                &&& h_lo(*old(self)) <= h_lo(*final(self)) <= h_hi(*old(self))
                // flags of the surviving active elements are unchanged; the new block is all vacant / unused
                &&& forall|j: int| h_lo(*final(self)) <= j < h_hi(*old(self)) ==>
                        h_used_index(*final(self), j) == h_used_index(*old(self), j) && h_used_base(*final(self), j) == h_used_base(*old(self), j)
                &&& forall|j: int| h_hi(*old(self)) <= j < h_hi(*final(self)) ==> !h_used_index(*final(self), j) && !h_used_base(*final(self), j)
            },
            Err(e) => e is AutomatonScale && *final(self) == *old(self),
        }
//@}
//@start{
    let ghost h0 = *self;
    let ghost lo0 = h_lo(h0);
    let ghost hi0 = h_hi(h0);
    let ghost bl = self.block_len as int;
    let ghost lo1 = if h_cap(h0) <= hi0 { lo0 + bl } else { lo0 };
    let ghost hi1 = hi0 + bl;
    proof { lemma_window(h0); }
//@}
//@before 1 let end_idx = (closed_block + 1) * self.block_len;{
    proof {
        let nb = self.num_blocks as int; let nf = self.num_free_blocks as int;
        assert((closed_block as int + 1) * bl == lo0 + bl) by (nonlinear_arith) requires closed_block as int * bl == lo0;
        assert((nb - nf + 1) * bl <= nb * bl) by (nonlinear_arith) requires nf >= 1, bl > 0;
    }
//@}
//@loop 1{
    invariant h_wf(*self), h_same_params(h0, *self), end_idx == lo0 + bl, lo0 + bl <= hi0,
        lo0 == h_lo(h0), hi0 == h_hi(h0), bl == h0.block_len,
        forall|j: int| lo0 <= j < hi0 ==> h_used_base(*self, j) == h_used_base(h0, j),
        forall|j: int| end_idx <= j < hi0 ==> h_used_index(*self, j) == h_used_index(h0, j),
    ensures self.head_idx.is_none() || self.head_idx.unwrap() >= end_idx,
    decreases (match self.head_idx { Some(x) => hi0 - x, None => 0 })
//@}
//@before 1 self.use_index(head_idx);{
    proof { lemma_head(h_cells(*self), self.head_idx, lo0, hi0); assert(h_vac(*self, lo0, hi0, head_idx as int)); }
//@}
//@after 1 self.use_index(head_idx);{
    proof { lemma_head(h_cells(*self), self.head_idx, lo0, hi0); }
//@}
//@before 1 let old_len = self.num_elements();{
    let ghost he = *self;
    proof {
        lemma_window(he);
        lemma_head(h_cells(he), he.head_idx, lo0, hi0);
        // no vacancy is left in the dropped block
        assert forall|j: int| lo0 <= j < lo1 implies !l_vac(h_cells(he), lo0, hi0, j) by { }
        lemma_shrink(h_cells(he), he.head_idx, lo0, lo1, hi0);
        assert(forall|j: int| lo1 <= j < hi0 ==> h_used_index(he, j) == h_used_index(h0, j) && h_used_base(he, j) == h_used_base(h0, j));
    }
//@}
//@before 1 self.num_blocks += 1;{
    proof {
        let nb = self.num_blocks as int;
        assert(nb * bl + bl <= u32::MAX);
        assert(nb < u32::MAX) by (nonlinear_arith) requires nb * bl + bl <= u32::MAX, bl >= 1, nb >= 0;
    }
//@}
//@after 1 self.num_blocks += 1;{
    let ghost hn = *self;
    proof {
        let nb = h0.num_blocks as int; let nf = h0.num_free_blocks as int;
        assert((nb + 1) * bl == hi1) by (nonlinear_arith) requires hi0 == nb * bl, hi1 == hi0 + bl;
        if nb >= nf {
            assert(bl * nf <= nb * bl) by (nonlinear_arith) requires nb >= nf, bl > 0;
            assert((nb + 1 - nf) * bl == (nb - nf) * bl + bl) by (nonlinear_arith);
        } else {
            assert(nb * bl < bl * nf) by (nonlinear_arith) requires nb < nf, bl > 0;
        }
        assert(h_lo(hn) == lo1 && h_hi(hn) == hi1);
        assert(h_basic(hn));
        lemma_window(hn);
        lemma_cells_same(hn, he);
        assert(list_ok(h_cells(hn), hn.head_idx, lo1, hi0));
    }
//@}
//@loop 2{
    invariant h_same_params(hn, *self), self.head_idx == hn.head_idx, old_len == hi0, new_len == hi1, h_basic(*self), hi1 == hi0 + bl, bl == self.block_len, hi1 <= u32::MAX,
        h_lo(*self) == lo1, h_hi(*self) == hi1, hi1 - lo1 <= h_cap(*self), 0 <= lo1 <= hi0, h_cap(*self) == h_cap(hn),
        forall|j: int| lo1 <= j < hi0 ==> h_it(*self, j) == h_it(hn, j),
        forall|j: int| hi0 <= j < idx ==> h_it(*self, j) == loop_cell(j),
//@}
//@after 1 self.reset(idx);{
    let ghost ha = *self;
//@}
//@after 1 *self.get_mut(idx).next_mut() = idx + 1;{
    let ghost hb = *self;
//@}
//@after 1 *self.get_mut(idx).prev_mut() = idx.wrapping_sub(1);{
    proof {
        let hs = *self;
        let z = ListItem { next: 0, prev: 0, used_base: false, used_index: false };
        // the three writes hit the same ring cell; every other element of the window is untouched
        assert(hs.items@ =~= hb.items@.update(idx as int % h_cap(hb), ListItem { prev: idx.wrapping_sub(1), ..h_it(hb, idx as int) }));
        lemma_update_frame(hb, hs, lo1, hi1, idx as int, ListItem { prev: idx.wrapping_sub(1), ..h_it(hb, idx as int) });
        assert(hb.items@ =~= ha.items@.update(idx as int % h_cap(ha), ListItem { next: (idx + 1) as u32, ..h_it(ha, idx as int) }));
        lemma_update_frame(ha, hb, lo1, hi1, idx as int, ListItem { next: (idx + 1) as u32, ..h_it(ha, idx as int) });
    }
//@}
//@before 1 self.reset(idx);{
    let ghost hp = *self;
//@}
//@after 1 *self.get_mut(idx).prev_mut() = idx.wrapping_sub(1);{
    proof {
        lemma_update_frame(hp, ha, lo1, hi1, idx as int, ListItem { next: 0, prev: 0, used_base: false, used_index: false });
    }
//@}
//@after 1 for idx in{
    let ghost hl = *self;
    proof {
        lemma_congr(h_cells(hn), h_cells(hl), hn.head_idx, lo1, hi0);
        if self.head_idx.is_some() {
            lemma_head(h_cells(hl), hl.head_idx, lo1, hi0);
            lemma_neighbours(h_cells(hl), hl.head_idx, lo1, hi0, self.head_idx.unwrap() as int);
        }
    }
//@}
//@after 1 *self.get_mut(old_len).prev_mut() = tail_idx;{
    let ghost s1 = *self;
//@}
//@after 1 *self.get_mut(tail_idx).next_mut() = old_len;{
    let ghost s2 = *self;
//@}
//@after 1 *self.get_mut(new_len - 1).next_mut() = head_idx;{
    let ghost s3 = *self;
//@}
//@after 1 *self.get_mut(head_idx).prev_mut() = new_len - 1;{
    proof {
        lemma_splice_some(hl, s1, s2, s3, *self, lo1, hi0, hi1, head_idx as int, tail_idx as int);
        assert(h_list(*self, lo1, hi1));
        assert(forall|j: int| lo1 <= j < hi1 ==> h_it(*self, j).used_index == h_it(hl, j).used_index && h_it(*self, j).used_base == h_it(hl, j).used_base);
    }
//@}
//@after 1 *self.get_mut(old_len).prev_mut() = new_len - 1;{
    let ghost t1 = *self;
//@}
//@after 1 *self.get_mut(new_len - 1).next_mut() = old_len;{
    let ghost t2 = *self;
//@}
//@after 1 self.head_idx = Some(old_len);{
    proof {
        lemma_splice_none(hl, t1, t2, lo1, hi0, hi1);
        lemma_cells_same(t2, *self);
        assert(h_list(*self, lo1, hi1));
        assert(forall|j: int| lo1 <= j < hi1 ==> h_it(*self, j).used_index == h_it(hl, j).used_index && h_it(*self, j).used_base == h_it(hl, j).used_base);
    }
//@}
//@before 1 Ok(()){
    proof {
        assert(h_list(*self, lo1, hi1));
        assert forall|j: int| lo1 <= j < hi0 implies
            h_used_index(*self, j) == h_used_index(h0, j) && h_used_base(*self, j) == h_used_base(h0, j) by {
            assert(h_it(*self, j).used_index == h_it(hl, j).used_index);
            assert(h_it(hl, j) == h_it(hn, j)); assert(h_it(hn, j) == h_it(he, j));
            assert(h_used_index(he, j) == h_used_index(h0, j));
        }
        assert forall|j: int| hi0 <= j < hi1 implies !h_used_index(*self, j) && !h_used_base(*self, j) by {
            assert(h_it(*self, j).used_index == h_it(hl, j).used_index);
            assert(h_it(hl, j) == loop_cell(j));
        }
    }
//@}
//@endimpl

spec fn vi_ok(it: VacantIter<'_>) -> bool {
    h_wf(*it.list) && (it.idx.is_some() ==> h_vac(*it.list, h_lo(*it.list), h_hi(*it.list), it.idx.unwrap() as int))
}

//@impl src/build_helper.rs Iterator for VacantIter
//@fn next
//@ret r
//@head{
    requires vi_ok(*old(self))
    ensures vi_ok(*final(self)), final(self).list == old(self).list, r == old(self).idx,
        final(self).idx.is_some() ==> r.is_some() && final(self).idx.unwrap() > r.unwrap(),
        r.is_none() ==> final(self).idx.is_none(),
//@}
//@closure 1 |&x| => |x_: &u32| -> (b: bool){
    requires self.list.head_idx.is_some()
    ensures b == (*x_ != self.list.head_idx.unwrap())
//@}
//@after 1 let curr = self.idx?;{
    proof { lemma_window(*self.list); lemma_neighbours(h_cells(*self.list), self.list.head_idx, h_lo(*self.list), h_hi(*self.list), curr as int); }
//@}
//@endimpl
