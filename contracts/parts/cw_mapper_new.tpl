//@include ghost_perm.rs
//@include ghost_mapper_new.rs
// R26: the sort of the (character, frequency) pairs is redirected here; body = the original call.  Only "same elements"
// is assumed (the order decides which character gets which code: determinism, C14, not correctness)
#[verifier::external_body]
fn verif_sort_freq(v: &mut Vec<(usize, u32)>)
    ensures final(v)@.to_multiset() == old(v)@.to_multiset(), final(v)@.len() == old(v)@.len(),
{
    v.sort_unstable_by(|(c1, f1), (c2, f2)| f2.cmp(f1).then_with(|| c1.cmp(c2)));
}

//@impl src/charwise/mapper.rs impl CodeMapper
//@fn new
//@rules R25 R26
//@pre{
#[verifier::loop_isolation(false)]
//@}
//@ret r
//@head{
    requires freqs@.len() <= 0x110000
    ensures cm_ok(freqs@, r.table@, r.alphabet_size)
//@}
//@start{
    let ghost fr = freqs@;
//@}
//@loop 1{
    invariant fr == freqs@, cm_list(fr, sorted@, c as int), c <= fr.len(),
//@}
//@before 1 sorted.push((c, f));{
    let ghost s_b = sorted@;
//@}
//@after 1 sorted.push((c, f));{
    proof {
        let s = sorted@;
        assert(s == s_b.push((c, f)));
        assert(forall|j: int| 0 <= j < s_b.len() ==> s[j] == s_b[j]);
        assert forall|cc: int| 0 <= cc < c + 1 && fr[cc] != 0 implies exists|j: int| 0 <= j < s.len() && (#[trigger] s[j]).0 == cc by {
            if cc == c as int { assert(s[s.len() - 1].0 == cc); }
            else { let j = choose|j: int| 0 <= j < s_b.len() && (#[trigger] s_b[j]).0 == cc; assert(s[j].0 == cc); }
        }
    }
//@}
//@before 1 verif_sort_freq(&mut sorted);{
    let ghost s1 = sorted@;
//@}
//@after 1 verif_sort_freq(&mut sorted);{
    proof { lemma_cm_perm(fr, s1, sorted@); }
//@}
//@loop 2{
    invariant fr == freqs@, cm_perm(fr, sorted@), table@.len() == fr.len(), fr.len() <= 0x110000, i <= sorted@.len(),
        forall|j: int| 0 <= j < i ==> table@[(#[trigger] sorted@[j]).0 as int] == j,
        forall|cc: int| 0 <= cc < fr.len() && !(exists|j: int| 0 <= j < i && (#[trigger] sorted@[j]).0 == cc) ==> #[trigger] table@[cc] == u32::MAX,
//@}
//@before 1 table[c] ={
    let ghost t_b = table@;
    let ghost i0 = i as int;
//@}
//@after 1 table[c] ={
    proof {
        let s = sorted@;
        // guarded: if the entry written is not (character i0 -> code i0) the loop invariant (not this hint) is what fails
        if table@ == t_b.update(s[i0].0 as int, i0 as u32) {
            assert forall|j: int| 0 <= j < i0 + 1 implies table@[(#[trigger] s[j]).0 as int] == j by {
                if j < i0 { assert(s[j].0 != s[i0].0); }
            }
        }
        assert forall|cc: int| 0 <= cc < fr.len() && !(exists|j: int| 0 <= j < i0 + 1 && (#[trigger] s[j]).0 == cc) implies #[trigger] table@[cc] == u32::MAX by {
            assert(cc != s[i0].0);
            assert(!(exists|j: int| 0 <= j < i0 && (#[trigger] s[j]).0 == cc)) by {
                if exists|j: int| 0 <= j < i0 && (#[trigger] s[j]).0 == cc { let j = choose|j: int| 0 <= j < i0 && (#[trigger] s[j]).0 == cc; assert(0 <= j < i0 + 1 && s[j].0 == cc); }
            }
            assert(t_b[cc] == u32::MAX);
        }
    }
//@}
//@before 2 Self {{
    proof {
        let s = sorted@; let t = table@;
        assert forall|cc: int| 0 <= cc < fr.len() implies (fr[cc] == 0 ==> #[trigger] t[cc] == u32::MAX) && (fr[cc] != 0 ==> t[cc] < s.len()) by {
            if fr[cc] != 0 {
                let j = choose|j: int| 0 <= j < s.len() && (#[trigger] s[j]).0 == cc;
                assert(t[s[j].0 as int] == j);
            } else {
                if exists|j: int| 0 <= j < s.len() && (#[trigger] s[j]).0 == cc { let j = choose|j: int| 0 <= j < s.len() && (#[trigger] s[j]).0 == cc; assert(fr[s[j].0 as int] != 0); }
            }
        }
        assert forall|c1: int, c2: int| 0 <= c1 < fr.len() && 0 <= c2 < fr.len() && fr[c1] != 0 && #[trigger] t[c1] == #[trigger] t[c2] implies c1 == c2 by {
            let j = choose|j: int| 0 <= j < s.len() && (#[trigger] s[j]).0 == c1;
            assert(t[s[j].0 as int] == j);
            if exists|k: int| 0 <= k < s.len() && (#[trigger] s[k]).0 == c2 {
                let k = choose|k: int| 0 <= k < s.len() && (#[trigger] s[k]).0 == c2;
                assert(t[s[k].0 as int] == k);
            } else {
                assert(t[c2] == u32::MAX);
            }
        }
    }
//@}
//@endimpl
