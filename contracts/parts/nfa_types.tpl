// ---- nfa_builder.rs types as the double-array stage reads them (R9: RefCell erased, read-only use) ----
type VerifErased<T> = T;
//@item src/nfa_builder.rs const ROOT_STATE_ID
//@item src/nfa_builder.rs const DEAD_STATE_ID
//@item src/nfa_builder.rs type EdgeMap
//@item src/nfa_builder.rs type SkippedSet
//@item src/lib.rs struct Output
//@item src/lib.rs enum MatchKind
//@rules keepeq
//@pre{
#[derive(Structural)]
//@}
//@end
//@item src/nfa_builder.rs struct NfaBuilderState
//@item src/nfa_builder.rs struct NfaBuilder
//@rules R9
//@end
