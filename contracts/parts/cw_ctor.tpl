//@impl src/lib.rs impl MatchKind
//@fn is_standard
//@ret r
//@head{
    ensures r == (self is Standard)
//@}
//@fn is_leftmost
//@ret r
//@head{
    ensures r == !(self is Standard)
//@}
//@endimpl

// type invariant of the automaton: well formed w.r.t. its own match kind (established by build_with_values,
// preserved by the serialisation round trip)
spec fn cw_pma_inv<V>(pma: &CharwiseDoubleArrayAhoCorasick<V>) -> bool { cw_pma_ok(pma, !(pma.match_kind is Standard)) }
#[verifier::prophetic]
spec fn src_utf8_ok<P: Iterator<Item = u8>>(h: P) -> bool { iter_lawful(h) && utf8_ok(iter_items(h)) && iter_items(h).len() < usize::MAX }

//@impl src/charwise/iter.rs impl<I> CharWithEndOffsetIterator<I>
//@fn new
//@rules R17
//@ret r
//@head{
    requires iter_lawful(inner)
    ensures enum_count(r.inner) == 0, enum_rest(r.inner) == iter_items(inner)
//@}
//@endimpl

// ---- str entry points: StrIterator feeds the bytes of the str, left to right, each once ----
//@item src/charwise/iter.rs struct StrIterator
//@rules keeppub
//@end
//@impl src/charwise/iter.rs impl<P> StrIterator<P>
//@fn new
//@ret r
//@head{
    ensures r.inner == inner, r.pos == 0
//@}
//@endimpl

// trusted: the bytes of a str are well-formed UTF-8 (in the sense of the table the decoder is verified against) and
// there are at most isize::MAX of them
#[verifier::external_body]
proof fn axiom_str_bytes_utf8(s: &str)
    ensures utf8_ok(vstd::string::StringSliceAdditionalSpecFns::spec_bytes(s)),
        vstd::string::StringSliceAdditionalSpecFns::spec_bytes(s).len() <= isize::MAX,
{
}
spec fn stri_bytes<P: AsRef<str>>(it: StrIterator<P>) -> Seq<u8> { vstd::string::StringSliceAdditionalSpecFns::spec_bytes(it.inner.as_ref_spec()) }
spec fn stri_rem<P: AsRef<str>>(it: StrIterator<P>) -> Seq<u8> {
    if it.pos <= stri_bytes(it).len() { stri_bytes(it).skip(it.pos as int) } else { Seq::empty() }
}
// StrIterator obeys vstd's prophetic iterator laws with remaining() == the unread bytes of the str: the trait impl
// below is checked against those laws
impl<P: AsRef<str>> vstd::std_specs::iter::IteratorSpecImpl for StrIterator<P> {
    closed spec fn obeys_prophetic_iter_laws(&self) -> bool { true }
    closed spec fn remaining(&self) -> Seq<u8> { stri_rem(*self) }
    closed spec fn will_return_none(&self) -> bool { true }
    closed spec fn decrease(&self) -> Option<nat> { Some(stri_rem(*self).len()) }
    closed spec fn peek(&self, i: int) -> Option<u8> { if 0 <= i < stri_rem(*self).len() { Some(stri_rem(*self)[i]) } else { None } }
}
//@impl src/charwise/iter.rs impl<P> Iterator for StrIterator<P>
//@keeptrait
//@fn next
//@start{
    proof { axiom_str_bytes_utf8(self.inner.as_ref_spec()); }
//@}
//@endimpl

//@impl src/charwise.rs impl<V> CharwiseDoubleArrayAhoCorasick<V>
//@fn find_iter
//@rules R8c
//@ret r
//@head{
    requires cw_pma_inv(self)
    ensures cw_find_inv(r), r.pma == self, enum_count(r.haystack.inner) == 0,
        enum_rest(r.haystack.inner) == vstd::string::StringSliceAdditionalSpecFns::spec_bytes(haystack.as_ref_spec()),
//@}
//@start{
    proof {
        let b = vstd::string::StringSliceAdditionalSpecFns::spec_bytes(haystack.as_ref_spec());
        axiom_str_bytes_utf8(haystack.as_ref_spec());
        assert(b.skip(0) =~= b);
    }
//@}
//@fn find_overlapping_iter
//@rules R8c
//@ret r
//@head{
    requires cw_pma_inv(self)
    ensures cw_ovl_inv(r), r.pma == self, enum_count(r.haystack.inner) == 0,
        enum_rest(r.haystack.inner) == vstd::string::StringSliceAdditionalSpecFns::spec_bytes(haystack.as_ref_spec()),
        r.state_id == 0, r.output_pos.is_none(),
//@}
//@start{
    proof {
        let b = vstd::string::StringSliceAdditionalSpecFns::spec_bytes(haystack.as_ref_spec());
        axiom_str_bytes_utf8(haystack.as_ref_spec());
        assert(b.skip(0) =~= b);
        if self.match_kind is Standard { lemma_root_live_cw(self.states@, self.mapper.table@, false); }
    }
//@}
//@fn find_overlapping_no_suffix_iter
//@rules R8c
//@ret r
//@head{
    requires cw_pma_inv(self)
    ensures cw_nosuf_inv(r), r.pma == self, enum_count(r.haystack.inner) == 0,
        enum_rest(r.haystack.inner) == vstd::string::StringSliceAdditionalSpecFns::spec_bytes(haystack.as_ref_spec()),
        r.state_id == 0,
//@}
//@start{
    proof {
        let b = vstd::string::StringSliceAdditionalSpecFns::spec_bytes(haystack.as_ref_spec());
        axiom_str_bytes_utf8(haystack.as_ref_spec());
        assert(b.skip(0) =~= b);
        if self.match_kind is Standard { lemma_root_live_cw(self.states@, self.mapper.table@, false); }
    }
//@}
//@fn find_iter_from_iter
//@rules R8c
//@ret r
//@head{
    requires cw_pma_inv(self), src_utf8_ok(haystack)
    ensures cw_find_inv(r), r.pma == self, enum_count(r.haystack.inner) == 0, enum_rest(r.haystack.inner) == iter_items(haystack),
//@}
//@fn find_overlapping_iter_from_iter
//@rules R8c
//@ret r
//@head{
    requires cw_pma_inv(self), src_utf8_ok(haystack)
    ensures cw_ovl_inv(r), r.pma == self, enum_count(r.haystack.inner) == 0, enum_rest(r.haystack.inner) == iter_items(haystack),
        r.state_id == 0, r.output_pos.is_none(),
//@}
//@start{
    proof { if self.match_kind is Standard { lemma_root_live_cw(self.states@, self.mapper.table@, false); } }
//@}
//@fn find_overlapping_no_suffix_iter_from_iter
//@rules R8c
//@ret r
//@head{
    requires cw_pma_inv(self), src_utf8_ok(haystack)
    ensures cw_nosuf_inv(r), r.pma == self, enum_count(r.haystack.inner) == 0, enum_rest(r.haystack.inner) == iter_items(haystack),
        r.state_id == 0,
//@}
//@start{
    proof { if self.match_kind is Standard { lemma_root_live_cw(self.states@, self.mapper.table@, false); } }
//@}
//@endimpl
