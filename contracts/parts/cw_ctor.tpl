//@impl src/lib.rs impl MatchKind
//@fn is_standard
//@ret r
//@head{
    ensures r == (self is Standard)
//@}
//@fn is_leftmost
//@ret r
//@head{
    ensures r == !(self is Standard)
//@}
//@endimpl

// type invariant of the automaton: well formed w.r.t. its own match kind (established by build_with_values,
// preserved by the serialisation round trip)
spec fn cw_pma_inv<V>(pma: &CharwiseDoubleArrayAhoCorasick<V>) -> bool { cw_pma_ok(pma, !(pma.match_kind is Standard)) }
#[verifier::prophetic]
spec fn src_utf8_ok<P: Iterator<Item = u8>>(h: P) -> bool { iter_lawful(h) && utf8_ok(iter_items(h)) && iter_items(h).len() < usize::MAX }

//@impl src/charwise/iter.rs impl<I> CharWithEndOffsetIterator<I>
//@fn new
//@rules R17
//@ret r
//@head{
    requires iter_lawful(inner)
    ensures enum_count(r.inner) == 0, enum_rest(r.inner) == iter_items(inner)
//@}
//@endimpl

//@impl src/charwise.rs impl<V> CharwiseDoubleArrayAhoCorasick<V>
//@fn find_iter_from_iter
//@rules R8c
//@ret r
//@head{
    requires cw_pma_inv(self), src_utf8_ok(haystack)
    ensures cw_find_inv(r), r.pma == self, enum_count(r.haystack.inner) == 0, enum_rest(r.haystack.inner) == iter_items(haystack),
//@}
//@fn find_overlapping_iter_from_iter
//@rules R8c
//@ret r
//@head{
    requires cw_pma_inv(self), src_utf8_ok(haystack)
    ensures cw_ovl_inv(r), r.pma == self, enum_count(r.haystack.inner) == 0, enum_rest(r.haystack.inner) == iter_items(haystack),
        r.state_id == 0, r.output_pos.is_none(),
//@}
//@start{
    proof { if self.match_kind is Standard { lemma_root_live_cw(self.states@, self.mapper.table@, false); } }
//@}
//@fn find_overlapping_no_suffix_iter_from_iter
//@rules R8c
//@ret r
//@head{
    requires cw_pma_inv(self), src_utf8_ok(haystack)
    ensures cw_nosuf_inv(r), r.pma == self, enum_count(r.haystack.inner) == 0, enum_rest(r.haystack.inner) == iter_items(haystack),
        r.state_id == 0,
//@}
//@start{
    proof { if self.match_kind is Standard { lemma_root_live_cw(self.states@, self.mapper.table@, false); } }
//@}
//@endimpl
