//@trait src/nfa_builder.rs EdgeLabel
    // ghost addition: the number of bytes of a label as a specification value
    spec fn nb(&self) -> nat;
    proof fn lemma_nb(c: Self) ensures 1 <= c.nb() <= 4;
//@fn num_bytes
//@ret r
//@head{
        ensures r == self.nb(), 1 <= r <= 4
//@}
//@endtrait

//@impl src/lib.rs impl MatchKind
//@fn is_leftmost_first
//@ret r
//@head{
    ensures r == (self is LeftmostFirst)
//@}
//@endimpl

//@impl src/nfa_builder.rs impl<L, V> Default for NfaBuilderState<L, V>
//@fn default
//@ret r
//@head{
    ensures r.edges@ == Map::<L, u32>::empty(), r.fail == 0, r.output.is_none(), r.output_pos.is_none()
//@}
//@endimpl

// R21: the set of patterns skipped under leftmost-first (a BTreeSet<Vec<L>>) is modelled by an uninterpreted view;
// vstd's BTreeSet specification needs an order law for the key type that it does not ship for Vec<L>
pub uninterp spec fn skipped_view<L>(s: SkippedSet<L>) -> Set<Seq<L>>;
#[verifier::external_body]
fn verif_skipped_new<L: Ord>() -> (r: SkippedSet<L>)
    ensures skipped_view(r) == Set::<Seq<L>>::empty(),
{
    SkippedSet::<L>::new()
}
#[verifier::external_body]
fn verif_skipped_insert<L: Clone + Ord>(set: &mut SkippedSet<L>, pattern: &[L]) -> (r: bool)
    ensures skipped_view(*final(set)) == skipped_view(*old(set)).insert(pattern@),
        r == !skipped_view(*old(set)).contains(pattern@),
{
    set.insert(pattern.to_vec())
}

//@impl src/nfa_builder.rs impl EdgeLabel for u8
//@keeptrait
    spec fn nb(&self) -> nat { 1 }
    proof fn lemma_nb(c: Self) {}
//@fn num_bytes
//@ret r
//@endimpl

// char: contract assumed here, proved complete on the real code by the Kani harness num_bytes_labels (all chars)
impl EdgeLabel for char {
    spec fn nb(&self) -> nat { let v = *self as u32; if v < 0x80 { 1 } else if v < 0x800 { 2 } else if v < 0x10000 { 3 } else { 4 } }
    proof fn lemma_nb(c: Self) {}
    #[verifier::external_body]
    fn num_bytes(&self) -> (r: usize) { self.len_utf8() }
}

//@include ghost_trie.rs
//@include ghost_reach.rs

//@impl src/nfa_builder.rs impl<L, V> NfaBuilder<L, V>
//@fn child_id
//@rules R9
//@ret r
//@head{
    requires state_id < self.states@.len(), vstd::std_specs::btree::key_obeys_cmp_spec::<L>()
    ensures r == (if t_edges(*self, state_id as int).contains_key(c) { Some(t_edges(*self, state_id as int)[c]) } else { None })
//@}
//@start{
    broadcast use vstd::std_specs::btree::group_btree_axioms;
//@}
//@fn new
//@rules R9 R12x R21
//@ret r
//@head{
    ensures add_inv(r), reach_ok(r), r.len == 0, r.match_kind == match_kind, r.states@.len() == 2,
        forall|q: Seq<L>| !seen(r, q), fresh_links(r), r.outputs@.len() == 0,
//@}
//@start{
    proof { reveal(reach_ok); }
//@}
//@fn add
//@rules R9 R11 R14 R5
//@pre{
#[verifier::loop_isolation(false)]
//@}
//@ret r
//@head{
    requires add_inv(*old(self)), reach_ok(*old(self)), vstd::std_specs::btree::key_obeys_cmp_spec::<L>(),
        byte_len(pattern@) <= isize::MAX, old(self).len < usize::MAX, old(self).states@.len() <= u32::MAX as nat + 1
    ensures final(self).match_kind == old(self).match_kind,
        match r {
            Ok(_) => {
                &&& add_inv(*final(self)) && final(self).states@.len() <= u32::MAX as nat + 1
                &&& reach_ok(*final(self))
                // shadowed patterns (leftmost-first, an earlier-registered proper prefix) are recorded but not counted
                &&& final(self).len == old(self).len + (if add_shadowed(*old(self), pattern@) { 0int } else { 1int })
                &&& pattern@.len() > 0 && !seen(*old(self), pattern@)
                &&& forall|q: Seq<L>| #[trigger] seen(*final(self), q) <==> (seen(*old(self), q) || q == pattern@)
                &&& forall|q: Seq<L>| #[trigger] is_registered(*final(self), q) <==> (is_registered(*old(self), q) || (q == pattern@ && !add_shadowed(*old(self), pattern@)))
                // values (C06): the new pattern carries the value passed in, earlier ones keep theirs
                &&& !add_shadowed(*old(self), pattern@) ==> is_registered(*final(self), pattern@) && reg_out(*final(self), pattern@).unwrap().0 == value
                &&& forall|q: Seq<L>| is_registered(*old(self), q) ==> #[trigger] reg_out(*final(self), q) == reg_out(*old(self), q)
                // add leaves fail links, output positions and the output vector alone
                &&& final(self).outputs@ == old(self).outputs@ && (fresh_links(*old(self)) ==> fresh_links(*final(self)))
            },
            Err(e) => match e {
                DaachorseError::InvalidArgument => pattern@.len() == 0 || byte_len(pattern@) > u32::MAX,
                DaachorseError::DuplicatePattern => pattern@.len() > 0 && seen(*old(self), pattern@),
                DaachorseError::AutomatonScale => true,
                DaachorseError::InvalidConversion => false,
            },
        }
//@}
//@closure 1 |_| => |verif_e: core::num::TryFromIntError| -> (e: DaachorseError){
    ensures e is InvalidArgument
//@}
//@closure 1 || => || -> (e: DaachorseError){
    ensures e is InvalidArgument
//@}
//@start{
    broadcast use vstd::std_specs::btree::group_btree_axioms;
    let ghost n0 = *self;
    let ghost pat = pattern@;
    proof { lemma_byte_len_mono(pat, 0); assert(pat.take(0) =~= Seq::<L>::empty()); }
//@}
//@loopiter 1 it
//@loop 1{
    invariant acc == byte_len(pat.take(it.index@ as int)), pat == pattern@, byte_len(pat) <= isize::MAX,
//@}
//@before 1 acc = acc + c.num_bytes();{
    proof { lemma_byte_len_mono(pat, it.index@ as int); lemma_byte_len_mono(pat, it.index@ as int + 1); L::lemma_nb(*c); }
//@}
//@after 1 for c in{
    proof {
        assert(pat.take(pat.len() as int) =~= pat);
        lemma_byte_len_mono(pat, 0);
    }
//@}
//@before 1 let mut state_id = ROOT_STATE_ID;{
    proof {
        assert(pat.take(pat.len() as int) =~= pat);
        lemma_byte_len_mono(pat, 0);
        assert(pattern_len@ == byte_len(pat));
        assert(pat.len() > 0) by { if pat.len() == 0 { assert(byte_len(pat) == 0); } }
        lemma_add_mid_init(n0, pat);
        lemma_reach_mid_init(n0, pat);
    }
//@}
//@loopiter 2 it2
//@loop 2{
    invariant pat == pattern@, add_inv(n0), n0 == *old(self), vstd::std_specs::btree::key_obeys_cmp_spec::<L>(),
        add_mid(n0, *self, pat, it2.index@ as int, state_id as int), reach_mid(n0, *self, pat, it2.index@ as int), reach_ok(n0),
        self.match_kind == n0.match_kind, self.len == n0.len, self.skipped == n0.skipped,
        (state_id as int) < n0.states@.len() ==> *self == n0,
        self.outputs@ == n0.outputs@, fresh_links(n0) ==> fresh_links(*self),
        n0.match_kind is LeftmostFirst ==> forall|k: int| 0 <= k < it2.index@ ==> !#[trigger] is_registered(n0, pat.take(k)),
//@}
//@loopbody 2{
    let ghost i = it2.index@ as int;
    proof { lemma_add_mid_facts(n0, *self, pat, i, state_id as int); }
//@}
//@before 1 return self.skip_shadowed(pattern);{
    proof {
        // a state with an output is an old one, so nothing has been added yet: the builder is unchanged
        assert((state_id as int) < n0.states@.len());
        assert(is_registered(n0, pat.take(i)));
    }
//@}
//@before 1 if let Some(next_state_id) = self.child_id(state_id, c) {{
    proof {
        if n0.match_kind is LeftmostFirst {
            // the state for pat.take(i) carries no output
            assert(!is_registered(n0, pat.take(i))) by {
                if walk(n0, pat.take(i)).is_some() { lemma_walk_range(n0, pat.take(i)); reveal(add_mid); }
            }
        }
    }
    let ghost cur = *self;
    let ghost sid0 = state_id as int;
//@}
//@after 1 state_id = next_state_id;{
    proof {
        assert(*self == cur);
        lemma_add_mid_follow(n0, cur, pat, i, sid0, next_state_id as int);
        lemma_reach_mid_follow(n0, cur, pat, i);
        reveal(add_mid);
    }
//@}
//@after 2 state_id = next_state_id;{
    proof {
        assert(extended(cur, *self, sid0, c));
        assert(same_rest(cur, *self));
        lemma_add_mid_extend(n0, cur, *self, pat, i, sid0);
        lemma_reach_mid_extend(n0, cur, *self, pat, i, sid0);
    }
//@}
//@before 1 let output = &mut self.states[usize::from_u32(state_id)].output;{
    let ghost cur = *self;
    let ghost sid = state_id as int;
    proof {
        lemma_add_mid_facts(n0, cur, pat, pat.len() as int, sid);
        assert(pat.take(pat.len() as int) =~= pat);
    }
//@}
//@before 1 return Err(DaachorseError::duplicate_pattern(verif_opaque_string()));{
    proof { lemma_add_finish_dup(n0, cur, pat, sid); }
//@}
//@before 1 Ok(()){
    proof {
        reveal(add_mid);
        assert(with_output(cur, *self, sid, (value, pattern_len)));
        assert forall|k: int| 0 <= k < pat.len() implies !skipped_view(n0.skipped).contains(pat) || !#[trigger] is_registered(n0, pat.take(k)) by {
            if !(n0.match_kind is LeftmostFirst) { }
        }
        lemma_add_finish_ok(n0, cur, *self, pat, sid, (value, pattern_len));
        lemma_add_values(n0, cur, *self, pat, sid, (value, pattern_len));
        lemma_reach_finish(n0, cur, *self, pat, sid, (value, pattern_len));
    }
//@}
//@fn skip_shadowed
//@rules R9 R11 R5 R21
//@pre{
#[verifier::loop_isolation(false)]
//@}
//@ret r
//@head{
    requires add_inv(*old(self)), reach_ok(*old(self)), vstd::std_specs::btree::key_obeys_cmp_spec::<L>(), old(self).match_kind is LeftmostFirst,
        pattern@.len() > 0,
        exists|k: int| 0 <= k < pattern@.len() && is_registered(*old(self), pattern@.take(k))
    ensures final(self).match_kind == old(self).match_kind, final(self).states@ == old(self).states@, final(self).len == old(self).len,
        final(self).outputs@ == old(self).outputs@,
        match r {
            Ok(_) => {
                &&& add_inv(*final(self)) && reach_ok(*final(self)) && !seen(*old(self), pattern@)
                &&& forall|q: Seq<L>| #[trigger] seen(*final(self), q) <==> (seen(*old(self), q) || q == pattern@)
                &&& forall|q: Seq<L>| #[trigger] reg_out(*final(self), q) == reg_out(*old(self), q)
                &&& forall|q: Seq<L>| #[trigger] is_registered(*final(self), q) == is_registered(*old(self), q)
            },
            Err(e) => e is DuplicatePattern && seen(*old(self), pattern@),
        }
//@}
//@start{
    broadcast use vstd::std_specs::btree::group_btree_axioms;
    let ghost n0 = *self;
    let ghost pat = pattern@;
    proof { assert(pat.take(0) =~= Seq::<L>::empty()); }
//@}
//@loopiter 1 it
//@loop 1{
    invariant *self == n0, pat == pattern@, trie_ok(n0), vstd::std_specs::btree::key_obeys_cmp_spec::<L>(),
        walk(n0, pat.take(it.index@ as int)) == (match state_id { Some(x) => Some(x as int), None => None::<int> }),
//@}
//@closure 1 |state_id| => |state_id: u32| -> (q: Option<u32>){
    requires state_id < self.states@.len(), vstd::std_specs::btree::key_obeys_cmp_spec::<L>()
    ensures q == (if t_edges(*self, state_id as int).contains_key(c) { Some(t_edges(*self, state_id as int)[c]) } else { None })
//@}
//@before 1 state_id = state_id.and_then({
    let ghost i = it.index@ as int;
    proof {
        if state_id.is_some() { lemma_walk_range(n0, pat.take(i)); }
        assert(pat.take(i + 1).drop_last() =~= pat.take(i));
        assert(pat.take(i + 1).last() == c);
    }
//@}
//@closure 1 |state_id| => |state_id: u32| -> (b: bool){
    requires state_id < self.states@.len()
    ensures b == self.states@[state_id as int].output.is_some()
//@}
//@before 1 let registered = state_id.map_or({
    proof {
        assert(pat.take(pat.len() as int) =~= pat);
        if state_id.is_some() { lemma_walk_range(n0, pat); }
    }
//@}
//@before 1 Ok(()){
    proof {
        let fin = *self;
        assert forall|q: Seq<L>| walk(fin, q) == walk(n0, q) by {
            assert forall|t: int| 0 <= t < n0.states@.len() implies #[trigger] t_edges(fin, t) == t_edges(n0, t) by { }
            lemma_walk_same_edges(fin, n0, q);
        }
        assert forall|q: Seq<L>| #[trigger] is_registered(fin, q) == is_registered(n0, q) by { }
        assert forall|p: Seq<L>| #[trigger] skipped_view(fin.skipped).contains(p) implies exists|k: int| 0 <= k < p.len() && is_registered(fin, p.take(k)) by {
            if p == pat {
                let k = choose|k: int| 0 <= k < pat.len() && is_registered(n0, pat.take(k));
                assert(is_registered(fin, p.take(k)));
            } else {
                let k = choose|k: int| 0 <= k < p.len() && is_registered(n0, p.take(k));
                assert(is_registered(fin, p.take(k)));
            }
        }
        assert forall|p: Seq<L>| #[trigger] is_registered(fin, p) implies fin.states@[walk(fin, p).unwrap()].output.unwrap().1@ == byte_len(p) by { assert(is_registered(n0, p)); }
        assert(fin.states@ == n0.states@);
        assert forall|t: int| 0 <= t < n0.states@.len() implies #[trigger] t_edges(fin, t) == t_edges(n0, t) by { }
        assert(trie_ok(n0));
        assert(trie_ok(fin));
        lemma_reach_same_states(n0, fin);
        lemma_same_states_values(n0, fin);
    }
//@}
//@endimpl
