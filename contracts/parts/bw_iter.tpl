//@impl src/lib.rs impl<V> Output<V>
//@fn value
//@ret r
//@head{
    ensures r == self.value
//@}
//@fn length
//@ret r
//@head{
    ensures r == self.length
//@}
//@fn parent
//@ret r
//@head{
    ensures r == self.parent
//@}
//@endimpl



//@impl src/bytewise/iter.rs Iterator for FindOverlappingNoSuffixIterator
//@fn next
//@pre{
#[verifier::loop_isolation(false)]
//@}
//@ret r
//@head{
    requires nosuf_inv(*old(self))
    ensures nosuf_inv(*final(self)), final(self).pma == old(self).pma,
        nosuf_stream(*old(self)) =~= (match r { Some(m) => seq![m] + nosuf_stream(*final(self)), None => Seq::empty() }),
        // laziness (C12): exactly m.end bytes have been pulled when m is returned; the source is drained on None
        r.is_some() ==> r.unwrap().end == enum_count(final(self).haystack),
        r.is_none() ==> enum_rest(final(self).haystack).len() == 0,
        enum_count(final(self).haystack) >= enum_count(old(self).haystack),
//@}
//@loop 1{
    invariant nosuf_inv(*self), self.pma == old(self).pma,
        nosuf_stream(*self) =~= nosuf_stream(*old(self)),
        enum_count(self.haystack) >= enum_count(old(self).haystack),
    decreases enum_rest(self.haystack).len()
//@}
//@endimpl


//@impl src/bytewise/iter.rs Iterator for FindIterator
//@fn next
//@pre{
#[verifier::loop_isolation(false)]
//@}
//@ret r
//@head{
    requires find_inv(*old(self))
    ensures find_inv(*final(self)), final(self).pma == old(self).pma,
        find_stream_of(*old(self)) =~= (match r { Some(m) => seq![m] + find_stream_of(*final(self)), None => Seq::empty() }),
        r.is_some() ==> r.unwrap().end == enum_count(final(self).haystack),
        r.is_none() ==> enum_rest(final(self).haystack).len() == 0,
        enum_count(final(self).haystack) >= enum_count(old(self).haystack),
//@}
//@start{
    proof { lemma_root_live(self.pma.states@, false); }
//@}
//@loop 1{
    invariant find_inv(*self), self.pma == old(self).pma,
        bw_live(self.pma.states@, false, state_id as int),
        enum_count(self.haystack) >= enum_count(old(self).haystack),
        enum_count(self.haystack) - enum_count(old(self).haystack) + enum_rest(self.haystack).len() == enum_rest(old(self).haystack).len(),
        enum_rest(self.haystack) =~= enum_rest(old(self).haystack).skip(enum_count(self.haystack) - enum_count(old(self).haystack)),
        find_first(self.pma.states@, 0, enum_rest(old(self).haystack), 0)
            == find_first(self.pma.states@, state_id as int, enum_rest(self.haystack), (enum_count(self.haystack) - enum_count(old(self).haystack)) as nat),
    decreases enum_rest(self.haystack).len()
//@}
//@before 1 return Some(Match{
    proof {
        let ro = enum_rest(old(self).haystack);
        let n = enum_count(self.haystack) - enum_count(old(self).haystack);
        assert(enum_rest(self.haystack) =~= ro.skip(n));
    }
//@}
//@endimpl


//@impl src/bytewise/iter.rs Iterator for FindOverlappingIterator
//@fn next
//@pre{
#[verifier::loop_isolation(false)]
//@}
//@ret r
//@head{
    requires ovl_inv(*old(self))
    ensures ovl_inv(*final(self)), final(self).pma == old(self).pma,
        ovl_stream(*old(self)) =~= (match r { Some(m) => seq![m] + ovl_stream(*final(self)), None => Seq::empty() }),
        r.is_some() ==> r.unwrap().end == enum_count(final(self).haystack),
        r.is_none() ==> enum_rest(final(self).haystack).len() == 0,
        enum_count(final(self).haystack) >= enum_count(old(self).haystack),
//@}
//@loop 1{
    invariant ovl_inv(*self), self.pma == old(self).pma, self.output_pos.is_none(),
        ovl_stream(*self) =~= ovl_stream(*old(self)),
        enum_count(self.haystack) >= enum_count(old(self).haystack),
    decreases enum_rest(self.haystack).len()
//@}
//@endimpl



//@impl src/bytewise/iter.rs Iterator for LestmostFindIterator
//@fn next
//@rules R7
//@pre{
#[verifier::loop_isolation(false)]
//@}
//@ret r
//@head{
    requires lm_inv(*old(self))
    ensures lm_inv(*final(self)), final(self).pma == old(self).pma, final(self).haystack == old(self).haystack,
        lm_stream_of(*old(self)) =~= (match r { Some(m) => seq![m] + lm_stream_of(*final(self)), None => Seq::empty() }),
        r.is_some() ==> r.unwrap().end == final(self).pos && final(self).pos > old(self).pos,
//@}
//@start{
    proof {
        lemma_root_live(self.pma.states@, true);
        let sl = self.haystack.as_ref_spec(); assert(sl@.len() == sl.len());
    }
//@}
//@loop 1{
    invariant lm_inv(*self), self.pma == old(self).pma, self.haystack == old(self).haystack,
        haystack == self.haystack.as_ref_spec(), haystack@.len() == haystack.len(),
        bw_live(self.pma.states@, true, state_id as int),
        old(self).pos <= self.pos <= pos,
        last_output_pos.is_some() ==> 0 < last_output_pos.unwrap()@ <= self.pma.outputs@.len() && self.pos > old(self).pos,
        last_output_pos.is_none() ==> self.pos == old(self).pos,
        lm_scan(self.pma.states@, 0, None, haystack@, old(self).pos as nat)
            == lm_scan(self.pma.states@, state_id as int, lm_cand(last_output_pos, self.pos), haystack@, pos as nat),
//@}
//@closure 1 |output_pos| => |output_pos: NonZeroU32| -> (m: Match<V>){
    requires 0 < output_pos@ <= self.pma.outputs@.len()
    ensures m == mk_match(self.pma.outputs@[output_pos@ - 1], self.pos as nat)
//@}
//@endimpl
