//@trait src/serializer.rs SerializableVec
    // ---- ghost additions ----
    spec fn vser_spec(&self) -> Seq<u8>;
    spec fn vvalid(&self) -> bool;              // within the documented size limits (lengths fit u32)
    spec fn veq(&self, other: &Self) -> bool;   // equality of contents
//@fn serialize_to_vec
//@head{
        requires self.vvalid()
        ensures final(dst)@ =~= old(dst)@ + self.vser_spec()
//@}
//@fn deserialize_from_slice
//@ret r
//@head{
        requires exists|x: Self, t: Seq<u8>| x.vvalid() && src@ == x.vser_spec() + t
        ensures forall|x: Self, t: Seq<u8>| x.vvalid() && src@ == x.vser_spec() + t ==> r.0.veq(&x) && r.1@ == t && r.0.vvalid()
//@}
//@fn serialized_bytes
//@ret r
//@head{
        requires self.vvalid()
        ensures r == self.vser_spec().len()
//@}
//@endtrait

//@impl src/serializer.rs SerializableVec for Vec<S>
//@keeptrait
    spec fn vser_spec(&self) -> Seq<u8> { le_u32(self@.len() as u32) + ser_seq(self@) }
    spec fn vvalid(&self) -> bool { self@.len() <= u32::MAX && S::width_ok() && self@.len() * S::nbytes() + 4 <= usize::MAX }
    spec fn veq(&self, other: &Self) -> bool { self@ == other@ }
//@fn serialize_to_vec
//@rules R6
//@start{
    let ghost d0 = dst@;
//@}
//@loopiter 1 it
//@loop 1{
        invariant dst@ =~= d0 + le_u32(self@.len() as u32) + ser_seq(self@.take(it.index@ as int)),
//@}
//@after 1 x.serialize_to_vec(dst);{
        proof {
            let k = it.index@ as int;
            assert(self@.take(k + 1) =~= self@.take(k).push(*x));
            lemma_ser_seq_push(self@.take(k), *x);
        }
//@}
//@before 1 for x in{
    proof { assert(self@.take(0) =~= Seq::<S>::empty()); }
//@}
//@after 1 for x in{
    proof { assert(self@.take(self@.len() as int) =~= self@); }
//@}
//@fn deserialize_from_slice
//@ret r
//@start{
    let ghost src0 = src@;
//@}
//@loopiter 1 it
//@loop 1{
        invariant
            forall|x: Vec<S>, t: Seq<u8>| x.vvalid() && src0 == x.vser_spec() + t ==>
                x@.len() == len && dst@ == x@.take(it.index@ as int) && src@ == ser_seq(x@.skip(it.index@ as int)) + t,
            exists|x: Vec<S>, t: Seq<u8>| x.vvalid() && src0 == x.vser_spec() + t,
//@}
//@before 1 let mut dst = Self::with_capacity{
    proof {
        assert forall|x: Vec<S>, t: Seq<u8>| x.vvalid() && src0 == x.vser_spec() + t implies
            x@.len() == len && src@ == ser_seq(x@.skip(0)) + t by {
            let y = x@.len() as u32;
            assert(src0.take(4) =~= y.ser_spec());
            assert(x@.skip(0) =~= x@);
            assert(src0.skip(4) =~= ser_seq(x@) + t);
        }
    }
//@}
//@before 1 let (x, rest) = S::deserialize_from_slice(src);{
    let ghost sb = src@;
    let ghost db = dst@;
    let ghost i = it.index@ as int;
    proof {
        let (x0, t0) = choose|x: Vec<S>, t: Seq<u8>| x.vvalid() && src0 == x.vser_spec() + t;
        assert(x0@.skip(i).len() > 0);
        x0@[i].lemma_ser_len();
        assert(ser_seq(x0@.skip(i)) == x0@.skip(i)[0].ser_spec() + ser_seq(x0@.skip(i).skip(1)));
    }
//@}
//@after 1 src = rest;{
    proof {
        let n = S::nbytes() as int;
        assert forall|x: Vec<S>, t: Seq<u8>| x.vvalid() && src0 == x.vser_spec() + t implies
            x@.len() == len && dst@ == x@.take(i + 1) && src@ == ser_seq(x@.skip(i + 1)) + t by {
            let xs = x@.skip(i);
            assert(xs.len() > 0);
            x@[i].lemma_ser_len();
            assert(ser_seq(xs) == xs[0].ser_spec() + ser_seq(xs.skip(1)));
            assert(sb.take(n) =~= x@[i].ser_spec());
            assert(xs.skip(1) =~= x@.skip(i + 1));
            assert(x@.take(i + 1) =~= x@.take(i).push(x@[i]));
            assert(sb.skip(n) =~= ser_seq(x@.skip(i + 1)) + t);
        }
    }
//@}
//@before 1 (dst, src){
    proof {
        assert forall|x: Vec<S>, t: Seq<u8>| x.vvalid() && src0 == x.vser_spec() + t implies dst@ == x@ && src@ == t by {
            assert(x@.take(len as int) =~= x@);
            assert(x@.skip(len as int) =~= Seq::<S>::empty());
            assert(ser_seq(x@.skip(len as int)) + t =~= t);
        }
    }
//@}
//@fn serialized_bytes
//@ret r
//@start{
    proof {
        lemma_ser_seq_len(self@);
        assert(S::nbytes() * self@.len() == self@.len() * S::nbytes()) by (nonlinear_arith);
    }
//@}
//@endimpl

