//@include prelude.rs
//@include from_u32.rs
//@item src/charwise.rs const ROOT_STATE_IDX
//@item src/charwise.rs const DEAD_STATE_IDX
//@item src/charwise/mapper.rs const INVALID_CODE
//@item src/charwise.rs struct State
//@item src/charwise/mapper.rs struct CodeMapper
//@item src/lib.rs struct Output
//@item src/lib.rs enum MatchKind
//@rules keepeq
//@pre{
#[derive(Structural)]
//@}
//@end
//@item src/charwise.rs struct CharwiseDoubleArrayAhoCorasick
//@include ghost_cw.rs

//@impl src/charwise.rs impl State
//@fn base
//@ret r
//@head{
    ensures r == self.base
//@}
//@fn check
//@ret r
//@head{
    ensures r == self.check
//@}
//@fn fail
//@ret r
//@head{
    ensures r == self.fail
//@}
//@fn output_pos
//@ret r
//@head{
    ensures r == self.output_pos
//@}
//@endimpl

//@impl src/charwise/mapper.rs impl CodeMapper
//@fn get
//@ret r
//@head{
    ensures r == map_code(self.table@, c as u32)
//@}
//@closure 1 |&code| => |code_: &u32| -> (b: bool){
    ensures b == (*code_ != u32::MAX)
//@}
//@fn alphabet_size
//@ret r
//@head{
    ensures r == self.alphabet_size
//@}
//@endimpl

//@impl src/charwise.rs impl<V> CharwiseDoubleArrayAhoCorasick<V>
//@fn child_index_unchecked
//@ret r
//@head{
    requires cw_safe(self.states@, self.mapper.table@), state_id < self.states.len(),
        exists|c: u32| map_code(self.mapper.table@, c) == Some(mapped_c)
    ensures r == cw_child(self.states@, state_id as int, mapped_c),
            r.is_some() ==> r.unwrap() < self.states.len()
//@}
//@before 1 let child_idx = base.get() ^ mapped_c;{
    proof {
        let bl = choose|bl: u32| cw_safe_bl(self.states@, self.mapper.table@, bl);
        let c = choose|c: u32| map_code(self.mapper.table@, c) == Some(mapped_c);
        assert(self.mapper.table@[c as int] == mapped_c);
        lemma_xor_in_block_cw(base@, mapped_c, self.states.len() as u32, bl);
    }
//@}
//@fn next_state_id_unchecked
//@pre{
#[verifier::loop_isolation(false)]
//@}
//@ret r
//@head{
    requires cw_wf(self.states@, self.mapper.table@, false), cw_live(self.states@, false, state_id as int)
    ensures r as int == cw_delta(self.states@, self.mapper.table@, state_id as int, c as u32),
            cw_live(self.states@, false, r as int)
//@}
//@start{
    let ghost s0 = state_id;
    let ghost mut fmoves: nat = 0;   // C13: fail moves made so far by this call
    proof { lemma_root_live_cw(self.states@, self.mapper.table@, false); }
//@}
//@loop 1{
    invariant cw_wf(self.states@, self.mapper.table@, false), cw_live(self.states@, false, state_id as int),
              cw_goto(self.states@, self.mapper.table@, state_id as int, mapped_c) == cw_goto(self.states@, self.mapper.table@, s0 as int, mapped_c),
              fmoves + cw_fsteps(self.states@, self.mapper.table@, state_id as int, mapped_c) == cw_fsteps(self.states@, self.mapper.table@, s0 as int, mapped_c),
    decreases cw_rank(self.states@, false, state_id as int)
//@}
//@before 1 return{
    // the loop made exactly cw_fsteps fail moves (lemma_cw_moves_from_root: at most 2n transitions over n characters)
    proof { assert(fmoves == cw_fsteps(self.states@, self.mapper.table@, s0 as int, mapped_c)); }
//@}
//@before 2 return{
    proof { assert(fmoves == cw_fsteps(self.states@, self.mapper.table@, s0 as int, mapped_c)); }
//@}
//@before 1 state_id = (&self.states{
    proof { fmoves = fmoves + 1; }
//@}
//@fn next_state_id_leftmost_unchecked
//@pre{
#[verifier::loop_isolation(false)]
//@}
//@ret r
//@head{
    requires cw_wf(self.states@, self.mapper.table@, true), cw_live(self.states@, true, state_id as int)
    ensures r as int == cw_delta_lm(self.states@, self.mapper.table@, state_id as int, c as u32),
            cw_live(self.states@, true, r as int)
//@}
//@start{
    let ghost s0 = state_id;
    proof { lemma_root_live_cw(self.states@, self.mapper.table@, true); }
//@}
//@loop 1{
    invariant cw_wf(self.states@, self.mapper.table@, true), cw_live(self.states@, true, state_id as int),
              cw_goto_lm(self.states@, self.mapper.table@, state_id as int, mapped_c) == cw_goto_lm(self.states@, self.mapper.table@, s0 as int, mapped_c)
    decreases cw_rank(self.states@, true, state_id as int)
//@}
//@endimpl
