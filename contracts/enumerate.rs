// ---- trusted model of core::iter::Enumerate<I> over an arbitrary source iterator ----
// enum_count(e): number of items pulled so far; enum_rest(e): the items the source will still
// deliver (prophetic view of the caller-supplied iterator; the source is assumed finite and fused).
#[verifier::external_type_specification]
#[verifier::external_body]
#[verifier::accept_recursive_types(I)]
pub struct ExEnumerate<I>(core::iter::Enumerate<I>);

pub uninterp spec fn enum_count<I>(e: core::iter::Enumerate<I>) -> nat;
pub uninterp spec fn enum_rest<I: Iterator>(e: core::iter::Enumerate<I>) -> Seq<I::Item>;

pub assume_specification<I: Iterator>[<core::iter::Enumerate<I> as Iterator>::next](e: &mut core::iter::Enumerate<I>) -> (r: Option<(usize, I::Item)>)
    ensures
        match r {
            Some(p) => enum_rest(*old(e)).len() > 0 && p.0 == enum_count(*old(e)) && p.1 == enum_rest(*old(e))[0]
                && enum_rest(*final(e)) == enum_rest(*old(e)).skip(1) && enum_count(*final(e)) == enum_count(*old(e)) + 1,
            None => enum_rest(*old(e)).len() == 0 && enum_rest(*final(e)).len() == 0 && enum_count(*final(e)) == enum_count(*old(e)),
        };

// prophetic view of a source before it is wrapped: the items it will deliver = vstd's `remaining()`
#[verifier::prophetic]
pub open spec fn iter_items<I: Iterator>(i: I) -> Seq<I::Item> { vstd::std_specs::iter::IteratorSpec::remaining(&i) }
pub open spec fn iter_lawful<I: Iterator>(i: I) -> bool { vstd::std_specs::iter::IteratorSpec::obeys_prophetic_iter_laws(&i) }

// R17: `X.enumerate()` is redirected to this wrapper (body = the original call); Enumerate starts counting at 0
#[verifier::external_body]
pub fn verif_enumerate<I: Iterator>(i: I) -> (r: core::iter::Enumerate<I>)
    requires iter_lawful(i),      // the source is a finite, deterministic stream (vstd's prophetic iterator laws)
    ensures enum_count(r) == 0, enum_rest(r) == iter_items(i),
{
    i.enumerate()
}

// R8c: a documented `assert!(cond, "..")` of a public constructor is the statement `if !cond { panic }`;
// panicking is the documented behaviour, so it is modelled as allowed divergence (the code after it may assume cond)
#[verifier::external_body]
pub fn verif_documented_panic() -> (r: bool)
    ensures false,
{
    panic!("Error: match_kind mismatch")
}

// trusted fact about Rust slices: a slice never has more than isize::MAX bytes
#[verifier::external_body]
pub proof fn axiom_slice_len_bound(s: &[u8])
    ensures s@.len() <= isize::MAX,
{
}
