// ---- char-wise leftmost search: spec stream over the double array, input = the characters of a str ----
// candidate = (output position, byte offset just after the character that produced it)
spec fn cwl_scan(st: Seq<State>, tb: Seq<u32>, s: int, last: Option<(nat, nat)>, chars: Seq<char>, p: nat) -> Option<(nat, nat)>
    decreases chars.len()
{
    if chars.len() == 0 { last } else {
        let c = chars[0];
        let p2 = (p + c.len_utf8()) as nat;
        let t = cw_delta_lm(st, tb, s, c as u32);
        if t == 0 { if last.is_some() { last } else { cwl_scan(st, tb, 0, None, chars.skip(1), p2) } }
        else if cw_opos(st[t]) != 0 { cwl_scan(st, tb, t, Some((cw_opos(st[t]), p2)), chars.skip(1), p2) }
        else { cwl_scan(st, tb, t, last, chars.skip(1), p2) }
    }
}

spec fn cwl_stream<V>(st: Seq<State>, tb: Seq<u32>, outs: Seq<Output<V>>, hs: &str, pos: nat) -> Seq<Match<V>>
    decreases str_blen(hs) - pos
{
    match cwl_scan(st, tb, 0, None, tail_chars(hs, pos as int), pos) {
        None => Seq::empty(),
        Some(p) => if p.1 <= pos || p.1 > str_blen(hs) || p.0 == 0 || p.0 > outs.len() { Seq::empty() } else {
            seq![mk_match(outs[p.0 - 1], p.1)] + cwl_stream(st, tb, outs, hs, p.1)
        },
    }
}
