// ---- C04, the order clause, end to end at the level of the input sequence (label-generic; with u8 -> char for the char-wise unit):
// what the leftmost stream reports under leftmost-first -- the best occurrence over the REGISTERED patterns (theorem_lm_opt) -- is the
// occurrence with the smallest start over ALL input patterns, and the pattern reported there is the earliest-registered input pattern
// occurring at that start ----
proof fn lemma_min_occurs(ps: Seq<Seq<u8>>, x: Seq<u8>, st: int, j: int) -> (m: int)
    requires occurs(ps, j, x, st),
    ensures 0 <= m <= j, occurs(ps, m, x, st), forall|i: int| 0 <= i < m ==> !#[trigger] occurs(ps, i, x, st),
    decreases j,
{
    if exists|i: int| 0 <= i < j && #[trigger] occurs(ps, i, x, st) {
        let i = choose|i: int| 0 <= i < j && #[trigger] occurs(ps, i, x, st);
        lemma_min_occurs(ps, x, st, i)
    } else { j }
}
proof fn theorem_c04_order<V>(n: NfaBuilder<u8, V>, ps: Seq<Seq<u8>>, x: Seq<u8>, st: int, len: int)
    requires lf_inv(n, ps, ps.len() as int), n.match_kind is LeftmostFirst, ps_distinct(ps, ps.len() as int), forall|j: int| 0 <= j < ps.len() ==> (#[trigger] ps[j]).len() > 0,
        best(n, x, st, len),
    ensures
        // no input pattern (registered or shadowed) occurs before the reported start
        forall|j: int, st2: int| #[trigger] occurs(ps, j, x, st2) ==> st <= st2,
        // the reported pattern is the earliest-registered input pattern occurring at the reported start
        exists|j: int| #[trigger] occurs(ps, j, x, st) && ps[j] == x.subrange(st, st + len) && forall|i: int| 0 <= i < j ==> !#[trigger] occurs(ps, i, x, st),
{
    assert forall|j: int, st2: int| #[trigger] occurs(ps, j, x, st2) implies st <= st2 by {
        let m = lemma_min_occurs(ps, x, st2, j);
        theorem_lf_first(n, ps, x, st2, m);
        assert(occ(n, x, st2, ps[m].len() as int));
    }
    let q = x.subrange(st, st + len);
    assert(is_registered(n, q));
    let j0 = choose|j: int| 0 <= j < ps.len() && #[trigger] ps[j] == q;
    assert(occurs(ps, j0, x, st));
    let m = lemma_min_occurs(ps, x, st, j0);
    theorem_lf_first(n, ps, x, st, m);
    assert(occ(n, x, st, ps[m].len() as int));
    assert(ps[m].len() <= len);
    assert(ps[j0].len() <= ps[m].len());
    assert(ps[m] =~= ps[j0]);
    if m != j0 { assert(ps[m] != ps[j0]); }
    assert(occurs(ps, m, x, st) && ps[m] == x.subrange(st, st + len));
}
