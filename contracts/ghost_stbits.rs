// CHECK and OUTPUT_POS share one packed word in the byte-wise State (intpack::U24nU8)
spec fn st_check(s: State) -> u8 { (s.opos_ch.0 & 0xff) as u8 }
spec fn st_opos(s: State) -> u32 { s.opos_ch.0 >> 8 }
spec fn opt_u32(o: Option<NonZeroU32>) -> u32 { match o { None => 0u32, Some(p) => p@ } }
