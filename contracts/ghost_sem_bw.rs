// ---- property-level semantics of the three standard searches over bytes (C01, C05, C02) ----
// at every end position all registered patterns that end there, longest first (overlapping); the longest only (no-suffix);
// the occurrence inside the unread text that ends first, longest if several, then resume after it (find)
spec fn sem_ovl<V>(n: NfaBuilder<u8, V>, hay: Seq<u8>, k: nat) -> Seq<Match<V>>
    decreases hay.len() - k
{
    if k >= hay.len() { Seq::empty() } else { suf_matches(n, hay.take(k as int + 1), 0, k + 1) + sem_ovl(n, hay, k + 1) }
}

spec fn sem_nosuf<V>(n: NfaBuilder<u8, V>, hay: Seq<u8>, k: nat) -> Seq<Match<V>>
    decreases hay.len() - k
{
    if k >= hay.len() { Seq::empty() } else { first_of(suf_matches(n, hay.take(k as int + 1), 0, k + 1)) + sem_nosuf(n, hay, k + 1) }
}

spec fn sem_first<V>(n: NfaBuilder<u8, V>, rest: Seq<u8>, from: nat) -> Option<nat>
    decreases rest.len() + 1 - from
{
    if from > rest.len() { None }
    else if from > 0 && suf_matches(n, rest.take(from as int), 0, from).len() > 0 { Some(from) }
    else { sem_first(n, rest, from + 1) }
}

spec fn sem_find<V>(n: NfaBuilder<u8, V>, rest: Seq<u8>, k: nat) -> Seq<Match<V>>
    decreases rest.len()
{
    match sem_first(n, rest, 1) {
        None => Seq::empty(),
        Some(j) => if j == 0 || j > rest.len() { Seq::empty() } else {
            seq![suf_matches(n, rest.take(j as int), 0, k + j)[0]] + sem_find(n, rest.skip(j as int), k + j)
        },
    }
}
