// ---- the char-wise build wrappers: from pattern/value pairs to an automaton the search code may run on ----
spec fn lm_of(k: MatchKind) -> bool { !(k is Standard) }
spec fn pat_at<P: AsRef<str>, V>(items: Seq<(P, V)>, i: int) -> Seq<char> { items[i].0.as_ref_spec()@ }

// the property-level notion of a valid collection: non-empty, no empty pattern, no two equal patterns
spec fn pats_valid<P: AsRef<str>, V>(items: Seq<(P, V)>) -> bool {
    &&& items.len() > 0
    &&& forall|i: int| 0 <= i < items.len() ==> (#[trigger] pat_at(items, i)).len() > 0
    &&& forall|i: int, j: int| 0 <= i < j < items.len() ==> #[trigger] pat_at(items, i) != #[trigger] pat_at(items, j)
}
spec fn has_empty<P: AsRef<str>, V>(items: Seq<(P, V)>) -> bool { exists|i: int| 0 <= i < items.len() && (#[trigger] pat_at(items, i)).len() == 0 }
spec fn has_dup<P: AsRef<str>, V>(items: Seq<(P, V)>) -> bool {
    exists|i: int, j: int| 0 <= i < j < items.len() && #[trigger] pat_at(items, i) == #[trigger] pat_at(items, j)
}
spec fn has_huge<P: AsRef<str>, V>(items: Seq<(P, V)>) -> bool { exists|i: int| 0 <= i < items.len() && byte_len(#[trigger] pat_at(items, i)) > u32::MAX }

// patterns the trie has seen == the first k patterns of the input
spec fn seen_is<P: AsRef<str>, V, W>(n: NfaBuilder<char, W>, items: Seq<(P, V)>, k: int) -> bool {
    forall|q: Seq<char>| #[trigger] seen(n, q) <==> exists|j: int| 0 <= j < k && #[trigger] pat_at(items, j) == q
}

// ---- assumed contract of the fail/output passes (nfa_builder.rs build_fails, build_fails_leftmost, build_outputs) ----
// They mutate states through RefCell from &self, which Verus cannot express; under R9 the stubs take &mut self.
// The bounded stand-in evaluates exactly these clauses (and the stronger Aho-Corasick ones) on every NFA it builds.
//@include_subst ghost_pass.rs u8=char
//@include_subst ghost_lf.rs u8=char
impl<V: Copy> NfaBuilder<char, V> {
    // contracts proved on the real functions by the unit pass_cw (same text: pass_heads.inc)
    #[verifier::external_body]
    fn build_fails(&mut self) -> (q: Vec<u32>)
//@includeblock pass_heads.inc build_fails
    { unimplemented!() }

    #[verifier::external_body]
    fn build_fails_leftmost(&mut self) -> (q: Vec<u32>)
//@includeblock pass_heads.inc build_fails_leftmost
    { unimplemented!() }

    #[verifier::external_body]
    fn build_outputs(&mut self, q: &[u32])
//@includeblock pass_heads.inc build_outputs
    { unimplemented!() }
}


// walks and registrations do not look at fail / output_pos
proof fn lemma_frame_keeps_trie<V>(a: NfaBuilder<char, V>, b: NfaBuilder<char, V>)
    requires passes_frame(a, b), add_inv(a), reach_ok(a),
    ensures trie_ok(b), reach_ok(b), forall|q: Seq<char>| #[trigger] seen(b, q) == seen(a, q),
        forall|q: Seq<char>| walk(b, q) == walk(a, q),
{
    assert forall|t: int| 0 <= t < a.states@.len() implies #[trigger] t_edges(b, t) == t_edges(a, t) by { }
    assert forall|q: Seq<char>| walk(b, q) == walk(a, q) by { lemma_walk_same_edges(b, a, q); }
    assert forall|q: Seq<char>| #[trigger] seen(b, q) == seen(a, q) by {
        if walk(a, q).is_some() { lemma_walk_range(a, q); }
    }
    assert(trie_ok(b)) by {
        assert forall|s1: int, c1: char, s2: int, c2: char| 0 <= s1 < b.states@.len() && 0 <= s2 < b.states@.len() && #[trigger] t_edges(b, s1).contains_key(c1) && #[trigger] t_edges(b, s2).contains_key(c2)
            && t_edges(b, s1)[c1] == t_edges(b, s2)[c2] implies s1 == s2 && c1 == c2 by {
            assert(t_edges(a, s1).contains_key(c1) && t_edges(a, s2).contains_key(c2));
        }
        assert forall|s: int, c: char| 0 <= s < b.states@.len() && #[trigger] t_edges(b, s).contains_key(c) implies 2 <= t_edges(b, s)[c] < b.states@.len() && s < t_edges(b, s)[c] by {
            assert(t_edges(a, s).contains_key(c));
        }
        assert forall|c: char| !t_edges(b, 1).contains_key(c) by { assert(!t_edges(a, 1).contains_key(c)); }
    }
    reveal(reach_ok);
    assert forall|t: int| 2 <= t < b.states@.len() implies #[trigger] has_reach(b, t) by {
        assert(has_reach(a, t));
        let (q, k) = choose|q: Seq<char>, k: int| reach_wit(a, t, q, k);
        lemma_walk_range(a, q);
        assert(reach_wit(b, t, q, k));
    }
}

// what the search code needs from the finished automaton (this is cw_pma_ok of the iterator units, unfolded)
spec fn automaton_ok_cw<V>(pma: CharwiseDoubleArrayAhoCorasick<V>, lm: bool) -> bool {
    cw_wf(pma.states@, pma.mapper.table@, lm) && outs_ok_cw(pma.states@, pma.outputs@)
}

proof fn lemma_built_outs_ok_cw<V>(st: Seq<State>, tb: Seq<u32>, n: NfaBuilder<char, V>, idmap: Seq<u32>)
    requires cw_built(st, tb, n, idmap), nfa_outs_ok(n),
    ensures outs_ok_cw(st, n.outputs@),
{
    assert forall|i: int| 0 <= i < st.len() implies cw_opos(#[trigger] st[i]) <= n.outputs@.len() by {
        if st[i].output_pos.is_some() {
            assert(slot_used_cw(n, idmap, i));
            let s = choose|s: int| 0 <= s < n.states@.len() && s != 1 && #[trigger] idmap[s] == i;
            lemma_enc_basic(st, tb, n, idmap, s);
        }
    }
}

// a seen pattern has a state below the root (it is non-empty and walks somewhere), or is skipped behind one that does
proof fn lemma_seen_has_state<V>(n: NfaBuilder<char, V>, p: Seq<char>)
    requires add_inv(n), seen(n, p),
    ensures n.states@.len() > 2,
{
    if is_registered(n, p) {
        lemma_walk_range(n, p);
        if p.len() == 0 { assert(walk(n, p) == Some(0int)); }
    } else {
        let k = choose|k: int| 0 <= k < p.len() && is_registered(n, p.take(k));
        lemma_walk_range(n, p.take(k));
        if p.take(k).len() == 0 { assert(walk(n, p.take(k)) == Some(0int)); }
    }
}

// nfa_links only reads edges and fail
proof fn lemma_links_same_fail<V>(a: NfaBuilder<char, V>, b: NfaBuilder<char, V>, lm: bool)
    requires fails_ok(a, lm), passes_frame(a, b), trie_ok(a), reach_ok(a), forall|s: int| 0 <= s < a.states@.len() ==> (#[trigger] b.states@[s]).fail == a.states@[s].fail,
    ensures fails_ok(b, lm),
{
    assert forall|t: int| 0 <= t < a.states@.len() implies nfa_depth(b, t) == nfa_depth(a, t) by { lemma_depth_same(a, b, t); }
    assert forall|s: int| 0 <= s < b.states@.len() && s != 1 && s != 0 implies ({
        let f = (#[trigger] b.states@[s]).fail as int;
        (f != 1 && 0 <= f < b.states@.len() && nfa_depth(b, f) < nfa_depth(b, s)) || (lm && f == 1)
    }) by {
        assert(b.states@[s].fail == a.states@[s].fail);
    }
}
proof fn lemma_depth_same<V>(a: NfaBuilder<char, V>, b: NfaBuilder<char, V>, t: int)
    requires passes_frame(a, b), trie_ok(a), reach_ok(a), 0 <= t < a.states@.len(),
    ensures nfa_depth(b, t) == nfa_depth(a, t),
    decreases t,
{
    if t >= 2 {
        // both parents are the unique edge into t
        let pa = nfa_parent(a, t);
        assert(nfa_parent_ok(a, t, pa)) by {
            reveal(reach_ok);
            assert(has_reach(a, t));
            let (q, k) = choose|q: Seq<char>, k: int| reach_wit(a, t, q, k);
            let p = q.take(k);
            lemma_walk_range(a, p);
            let s = walk(a, p.drop_last()).unwrap();
            lemma_walk_range(a, p.drop_last());
            assert(t_edges(a, s).contains_key(p.last()) && t_edges(a, s)[p.last()] == t);
            assert(nfa_parent_ok(a, t, (s, p.last())));
        }
        assert(b.states@[pa.0].edges@ == a.states@[pa.0].edges@);
        assert(nfa_parent_ok(b, t, pa));
        let pb = nfa_parent(b, t);
        assert(nfa_parent_ok(b, t, pb));
        assert(b.states@[pb.0].edges@ == a.states@[pb.0].edges@);
        assert(t_edges(a, pa.0).contains_key(pa.1) && t_edges(a, pb.0).contains_key(pb.1));
        assert(pa == pb);
        lemma_depth_same(a, b, pa.0);
    }
}

// an injective placement needs at least as many slots as there are states
proof fn lemma_slots_at_least_states_cw<V>(st: Seq<State>, tb: Seq<u32>, n: NfaBuilder<char, V>, idmap: Seq<u32>)
    requires cw_built(st, tb, n, idmap), n.states@.len() >= 3,
    ensures st.len() >= n.states@.len(),
{
    let len = n.states@.len() as int;
    assert(st.len() >= 2) by {
        lemma_enc_basic(st, tb, n, idmap, 0);
        lemma_enc_basic(st, tb, n, idmap, 2);
        if idmap[2] == 0 { lemma_enc_inj(st, tb, n, idmap, 0, 2); }
    }
    let f = |t: int| if t == 1 { 1int } else { idmap[t] as int };
    let a = vstd::set_lib::set_int_range(0, len);
    let b = vstd::set_lib::set_int_range(0, st.len() as int);
    vstd::set_lib::lemma_int_range(0, len);
    vstd::set_lib::lemma_int_range(0, st.len() as int);
    lemma_enc_basic(st, tb, n, idmap, 0);
    let im = a.map(f);
    assert forall|u: int, v: int| a.contains(u) && a.contains(v) && f(u) == f(v) implies u == v by {
        if u != 1 { lemma_enc_basic(st, tb, n, idmap, u); }
        if v != 1 { lemma_enc_basic(st, tb, n, idmap, v); }
        if u != 1 && v != 1 { lemma_enc_inj(st, tb, n, idmap, u, v); }
    }
    vstd::set_lib::lemma_map_size(a, im, f);
    assert(im.subset_of(b)) by {
        assert forall|y: int| im.contains(y) implies b.contains(y) by {
            let u = choose|u: int| a.contains(u) && f(u) == y;
            if u != 1 { lemma_enc_basic(st, tb, n, idmap, u); }
        }
    }
    vstd::set_lib::lemma_len_subset(im, b);
}

// ---- characters, their codes and their frequencies ----
spec fn chr(c: char) -> int { c as u32 as int }
spec fn total_chars<P: AsRef<str>, V>(items: Seq<(P, V)>, k: int) -> int
    decreases k
{
    if k <= 0 { 0 } else { total_chars(items, k - 1) + pat_at(items, k - 1).len() }
}
proof fn lemma_total_nonneg<P: AsRef<str>, V>(items: Seq<(P, V)>, k: int)
    ensures 0 <= total_chars(items, k),
    decreases k,
{
    if k > 0 { lemma_total_nonneg(items, k - 1); }
}
proof fn lemma_total_mono<P: AsRef<str>, V>(items: Seq<(P, V)>, k: int, m: int)
    requires 0 <= k <= m,
    ensures 0 <= total_chars(items, k) <= total_chars(items, m),
    decreases m - k,
{
    lemma_total_nonneg(items, k);
    if k < m { lemma_total_mono(items, k + 1, m); }
}
// every character of the first k patterns has been counted
spec fn freqs_cover<P: AsRef<str>, V>(items: Seq<(P, V)>, k: int, freqs: Seq<u32>) -> bool {
    forall|j: int, i: int| 0 <= j < k && 0 <= i < pat_at(items, j).len() ==> chr(#[trigger] pat_at(items, j)[i]) < freqs.len() && freqs[chr(pat_at(items, j)[i])] != 0
}

// trusted: a str has at most isize::MAX bytes
#[verifier::external_body]
proof fn axiom_str_len_bound(s: &str)
    ensures vstd::string::StringSliceAdditionalSpecFns::spec_bytes(s).len() <= isize::MAX,
{
}
// the byte length add() computes for the characters of a str is the length of the str in bytes
proof fn lemma_byte_len_chars(cs: Seq<char>)
    ensures byte_len(cs) == vstd::utf8::encode_utf8(cs).len(),
    decreases cs.len(),
{
    if cs.len() > 0 {
        lemma_byte_len_chars(cs.drop_last());
        vstd::utf8::encode_utf8_push(cs.drop_last(), cs.last());
        assert(cs.drop_last().push(cs.last()) =~= cs);
    } else {
        assert(vstd::utf8::encode_utf8(cs).len() == 0);
    }
}

// every edge label of the trie is a character of a seen pattern
proof fn lemma_label_in_pattern<V>(n: NfaBuilder<char, V>, s: int, c: char) -> (r: (Seq<char>, int))
    requires trie_ok(n), reach_ok(n), 0 <= s < n.states@.len(), t_edges(n, s).contains_key(c),
    ensures is_registered(n, r.0), 0 <= r.1 < r.0.len(), r.0[r.1] == c,
{
    let t = t_edges(n, s)[c] as int;
    reveal(reach_ok);
    assert(has_reach(n, t));
    let (q, k) = choose|q: Seq<char>, k: int| reach_wit(n, t, q, k);
    let p = q.take(k);
    lemma_walk_range(n, p);
    let s2 = walk(n, p.drop_last()).unwrap();
    lemma_walk_range(n, p.drop_last());
    assert(t_edges(n, s2).contains_key(p.last()) && t_edges(n, s2)[p.last()] == t);
    assert(s2 == s && p.last() == c);
    assert(p.last() == q[k - 1]);
    (q, k - 1)
}

// from the frequency table to the mapper contract of the double-array stage
proof fn lemma_mapper_covers<P: AsRef<str>, V, W>(n: NfaBuilder<char, W>, items: Seq<(P, V)>, freqs: Seq<u32>, table: Seq<u32>, asz: u32)
    requires add_inv(n), reach_ok(n), seen_is(n, items, items.len() as int), freqs_cover(items, items.len() as int, freqs),
        cm_ok(freqs, table, asz), freqs.len() <= 0x110000,
    ensures mapper_covers(n, table, asz), cw_table_ok(table, asz), asz <= 0x110000,
{
    assert forall|s: int, c: char| 0 <= s < n.states@.len() && #[trigger] nfa_edges(n, s).contains_key(c) implies
            map_code(table, c as u32).is_some() && map_code(table, c as u32).unwrap() < asz by {
        assert(t_edges(n, s).contains_key(c));
        let (q, i) = lemma_label_in_pattern(n, s, c);
        assert(seen(n, q));
        let j = choose|j: int| 0 <= j < items.len() && #[trigger] pat_at(items, j) == q;
        assert(chr(pat_at(items, j)[i]) < freqs.len() && freqs[chr(pat_at(items, j)[i])] != 0);
        assert(table[chr(c)] < asz);
    }
    assert forall|c1: char, c2: char| map_code(table, c1 as u32).is_some() && #[trigger] map_code(table, c1 as u32) == #[trigger] map_code(table, c2 as u32) implies c1 == c2 by {
        assert(chr(c1) < table.len() && table[chr(c1)] != u32::MAX);
        assert(freqs[chr(c1)] != 0);
        assert(chr(c2) < table.len());
        assert(table[chr(c1)] == table[chr(c2)]);
        assert(chr(c1) == chr(c2));
    }
}

// mapper_covers only reads the edges
proof fn lemma_covers_frame<V>(a: NfaBuilder<char, V>, b: NfaBuilder<char, V>, table: Seq<u32>, asz: u32)
    requires passes_frame(a, b), mapper_covers(a, table, asz),
    ensures mapper_covers(b, table, asz),
{
    assert forall|s: int, c: char| 0 <= s < b.states@.len() && #[trigger] nfa_edges(b, s).contains_key(c) implies
            map_code(table, c as u32).is_some() && map_code(table, c as u32).unwrap() < asz by {
        assert(nfa_edges(a, s).contains_key(c));
    }
}

// ---- values and the end-to-end statements (char-wise) ----
spec fn values_are<P: AsRef<str>, V>(n: NfaBuilder<char, V>, items: Seq<(P, V)>, k: int) -> bool {
    forall|j: int| 0 <= j < k && is_registered(n, #[trigger] pat_at(items, j)) ==> reg_out(n, pat_at(items, j)).unwrap().0 == items[j].1
}
proof fn lemma_frame_keeps_values<P: AsRef<str>, V>(a: NfaBuilder<char, V>, b: NfaBuilder<char, V>, items: Seq<(P, V)>, k: int)
    requires passes_frame(a, b), add_inv(a), reach_ok(a), values_are(a, items, k),
    ensures values_are(b, items, k),
{
    lemma_frame_keeps_trie(a, b);
    assert forall|j: int| 0 <= j < k && is_registered(b, #[trigger] pat_at(items, j)) implies reg_out(b, pat_at(items, j)).unwrap().0 == items[j].1 by {
        let q = pat_at(items, j);
        assert(walk(b, q) == walk(a, q));
        lemma_walk_range(a, q);
        assert(is_registered(a, q));
    }
}
// the three standard searches of the finished char-wise automaton on well-formed UTF-8 equal the semantics over the decoded characters
spec fn searches_ok_cw<V>(st: Seq<State>, tb: Seq<u32>, outs: Seq<Output<V>>, n: NfaBuilder<char, V>) -> bool {
    forall|hay: Seq<u8>| utf8_ok(hay) ==>
        #[trigger] cw_ovl_scan(st, tb, outs, 0, hay, 0) == sem_ovl_cw(n, Seq::<char>::empty(), hay, 0)
        && cw_nosuf_scan(st, tb, outs, 0, hay, 0) == sem_nosuf_cw(n, Seq::<char>::empty(), hay, 0)
        && cw_find_stream(st, tb, outs, hay, 0) == sem_find_cw(n, hay, 0)
}
proof fn lemma_searches_ok_cw<V>(n: NfaBuilder<char, V>, st: Seq<State>, tb: Seq<u32>, asz: u32, idmap: Seq<u32>)
    requires nfa_tree(n), trie_ok(n), nfa_links(n, false), nfa_outs_ok(n), ac_fail(n), ac_outs(n),
        cw_encodes(st, tb, n, idmap), cw_wf(st, tb, false), mapper_covers(n, tb, asz),
    ensures searches_ok_cw(st, tb, n.outputs@, n),
{
    assert forall|hay: Seq<u8>| utf8_ok(hay) implies
        #[trigger] cw_ovl_scan(st, tb, n.outputs@, 0, hay, 0) == sem_ovl_cw(n, Seq::<char>::empty(), hay, 0)
        && cw_nosuf_scan(st, tb, n.outputs@, 0, hay, 0) == sem_nosuf_cw(n, Seq::<char>::empty(), hay, 0)
        && cw_find_stream(st, tb, n.outputs@, hay, 0) == sem_find_cw(n, hay, 0) by {
        theorem_c01_c05_cw(n, st, tb, asz, idmap, hay);
        theorem_c02_cw(n, st, tb, asz, idmap, hay);
    }
}
// the passes leave the builder invariant of `add` alone
proof fn lemma_frame_keeps_add_inv<V>(a: NfaBuilder<char, V>, b: NfaBuilder<char, V>)
    requires passes_frame(a, b), add_inv(a), reach_ok(a),
    ensures add_inv(b),
{
    lemma_frame_keeps_trie(a, b);
    assert forall|p: Seq<char>| is_registered(b, p) == is_registered(a, p) && (is_registered(a, p) ==> reg_out(b, p) == reg_out(a, p)) by {
        assert(walk(b, p) == walk(a, p));
        if walk(a, p).is_some() { lemma_walk_range(a, p); }
    }
    assert forall|p: Seq<char>| #[trigger] skipped_view(b.skipped).contains(p) implies exists|k: int| 0 <= k < p.len() && is_registered(b, p.take(k)) by {
        let k = choose|k: int| 0 <= k < p.len() && is_registered(a, p.take(k));
        assert(is_registered(b, p.take(k)));
    }
}
// the pattern list and the value list of the input pairs
spec fn item_pats<P: AsRef<str>, V>(items: Seq<(P, V)>) -> Seq<Seq<char>> { Seq::new(items.len(), |j: int| pat_at(items, j)) }
spec fn item_vals<P, V>(items: Seq<(P, V)>) -> Seq<V> { Seq::new(items.len(), |j: int| items[j].1) }
proof fn lemma_regs<P: AsRef<str>, V>(n: NfaBuilder<char, V>, items: Seq<(P, V)>)
    requires add_inv(n), seen_is(n, items, items.len() as int), values_are(n, items, items.len() as int), !(n.match_kind is LeftmostFirst),
    ensures regs(n, item_pats(items), item_vals(items)),
{
    let ps = item_pats(items); let vs = item_vals(items);
    assert forall|q: Seq<char>| #[trigger] is_registered(n, q) <==> exists|j: int| 0 <= j < ps.len() && #[trigger] ps[j] == q by {
        assert(seen(n, q) == is_registered(n, q));
        if is_registered(n, q) {
            let j = choose|j: int| 0 <= j < items.len() && #[trigger] pat_at(items, j) == q;
            assert(ps[j] == q);
        }
        if exists|j: int| 0 <= j < ps.len() && #[trigger] ps[j] == q {
            let j = choose|j: int| 0 <= j < ps.len() && #[trigger] ps[j] == q;
            assert(pat_at(items, j) == q);
            assert(seen(n, q));
        }
    }
    assert forall|j: int| 0 <= j < ps.len() implies reg_out(n, #[trigger] ps[j]).unwrap().0 == vs[j] by {
        assert(pat_at(items, j) == ps[j]);
        assert(seen(n, ps[j]));
    }
}
//@include_subst ghost_count.rs u8=char
// leftmost kinds: what the leftmost iterator is proved to report is a function of the NFA alone (not of the array layout, hence not of
// num_free_blocks: C11; the NFA stage has no access to that setting, `//@forbid num_free_blocks` on build_original_nfa_and_mapper)
spec fn lm_searches_ok_cw<V>(st: Seq<State>, tb: Seq<u32>, outs: Seq<Output<V>>, n: NfaBuilder<char, V>) -> bool {
    forall|hs: &str, pos: nat| #[trigger] cwl_stream(st, tb, outs, hs, pos) == nfa_cwl_stream(n, hs, pos)
}
#[verifier::opaque]
spec fn cwv_post<P: AsRef<str>, V>(st: Seq<State>, tb: Seq<u32>, outs: Seq<Output<V>>, num_states: u32, items: Seq<(P, V)>, kind: MatchKind) -> bool {
    &&& pats_valid(items)
    &&& cw_wf(st, tb, lm_of(kind)) && outs_ok_cw(st, outs)
    &&& exists|n: NfaBuilder<char, V>| trie_ok(n) && reach_ok(n) && seen_is(n, items, items.len() as int)
            && #[trigger] n.states@.len() == num_states + 1 && st.len() >= n.states@.len()
            // C15: the reported count is one (the root) plus the number of distinct non-empty prefixes of the registered patterns
            && pref_count(n, node_set(n), num_states - 1)
            // C08: exactly the listed patterns are registered, with their values and byte lengths
            && (!(kind is LeftmostFirst) ==> regs(n, item_pats(items), item_vals(items)))
            // all kinds: the trie facts from which the soundness of the leftmost stream follows (units lm_sound_*)
            && add_inv(n) && nfa_tree(n) && nfa_links(n, lm_of(kind)) && sound_facts(n)
            && (!(kind is Standard) ==> lm_opt_facts(n))
            // C04: the registered patterns in terms of the input order (a pattern is not registered only if an earlier, registered proper prefix shadows it)
            && lf_inv(n, item_pats(items), items.len() as int)
            && values_are(n, items, items.len() as int)
            && (kind is Standard ==> searches_ok_cw(st, tb, outs, n))
            && (!(kind is Standard) ==> lm_searches_ok_cw(st, tb, outs, n))
}
proof fn lemma_cwv_post<P: AsRef<str>, V>(nfa: NfaBuilder<char, V>, st: Seq<State>, tb: Seq<u32>, asz: u32, bl: u32, num_states: u32, items: Seq<(P, V)>, kind: MatchKind)
    requires
        pats_valid(items), nfa_tree(nfa), nfa_links(nfa, lm_of(kind)), nfa_outs_ok(nfa), trie_ok(nfa), reach_ok(nfa), nfa.states@.len() > 2,
        seen_is(nfa, items, items.len() as int), values_are(nfa, items, items.len() as int), kind is Standard ==> ac_fail(nfa) && ac_outs(nfa),
        mapper_covers(nfa, tb, asz), cw_table_ok(tb, asz),
        // from build_double_array
        pow2(bl), asz <= bl, st.len() > 0, st.len() as int % (bl as int) == 0, st.len() <= u32::MAX,
        forall|i: int| 0 <= i < st.len() ==> ((#[trigger] st[i]).base.is_some() ==> st[i].base.unwrap()@ < st.len()),
        exists|idmap: Seq<u32>| cw_built(st, tb, nfa, idmap),
        nfa.states@.len() == num_states + 1, add_inv(nfa), nfa.match_kind == kind, sound_facts(nfa), !(kind is Standard) ==> lm_opt_facts(nfa), lf_inv(nfa, item_pats(items), items.len() as int),
    ensures cwv_post(st, tb, nfa.outputs@, num_states, items, kind),
{
    reveal(cwv_post);
    let idmap = choose|idmap: Seq<u32>| cw_built(st, tb, nfa, idmap);
    lemma_encodes_gives_wf(nfa, st, tb, asz, bl, idmap, lm_of(kind));
    lemma_built_outs_ok_cw(st, tb, nfa, idmap);
    lemma_slots_at_least_states_cw(st, tb, nfa, idmap);
    if kind is Standard { lemma_searches_ok_cw(nfa, st, tb, asz, idmap); }
    else {
        assert forall|hs: &str, pos: nat| #[trigger] cwl_stream(st, tb, nfa.outputs@, hs, pos) == nfa_cwl_stream(nfa, hs, pos) by {
            theorem_cwl_sim(nfa, st, tb, asz, idmap, hs, pos);
        }
    }
    lemma_state_count(nfa);
    if !(kind is LeftmostFirst) { lemma_regs(nfa, items); }
    assert(nfa.states@.len() == num_states + 1 && st.len() >= nfa.states@.len());
}

// ---- `build`: the value of pattern j is the conversion of its position ----
spec fn conv_ok<V: TryFrom<usize>>(j: int) -> bool { <V as vstd::std_specs::convert::TryFromSpec<usize>>::try_from_spec(j as usize).is_ok() }
spec fn conv_val<V: TryFrom<usize>>(j: int) -> V { match <V as vstd::std_specs::convert::TryFromSpec<usize>>::try_from_spec(j as usize) { Ok(v) => v, Err(_) => arbitrary() } }
spec fn indexed<P, V: TryFrom<usize>>(ps: Seq<P>) -> Seq<(P, V)> { Seq::new(ps.len(), |j: int| (ps[j], conv_val::<V>(j))) }
