// ---- the char-wise leftmost search over the double array is a function of the sparse NFA alone (char-wise counterpart of ghost_lm_bw.rs) ----
//@include ghost_lm_nfa_cw.rs
proof fn lemma_image_live_lm<V>(n: NfaBuilder<char, V>, st: Seq<State>, table: Seq<u32>, idmap: Seq<u32>, w: Wit, s: int)
    requires cw_encodes(st, table, n, idmap), nfa_tree(n), cw_ranked(st, true, w), 0 <= s < n.states@.len(), s != 1,
    ensures w.live.contains(idmap[s] as int),
    decreases s,
{
    lemma_enc_basic(st, table, n, idmap, 0);
    if s >= 2 {
        let p = nfa_parent(n, s);
        assert(nfa_parent_ok(n, s, p));
        lemma_image_live_lm(n, st, table, idmap, w, p.0);
        lemma_enc_edge(st, table, n, idmap, p.0, p.1);
        lemma_enc_basic(st, table, n, idmap, p.0);
        lemma_enc_basic(st, table, n, idmap, s);
        assert(cw_child(st, idmap[p.0] as int, code_of(table, p.1)) == Some(idmap[s]));
        assert(w.live.contains(cw_child(st, idmap[p.0] as int, code_of(table, p.1)).unwrap() as int));
    }
}
proof fn lemma_sim_goto_lm<V>(n: NfaBuilder<char, V>, st: Seq<State>, table: Seq<u32>, asz: u32, idmap: Seq<u32>, s: int, c: char)
    requires cw_encodes(st, table, n, idmap), nfa_tree(n), nfa_links(n, true), cw_wf(st, table, true), mapper_covers(n, table, asz),
        0 <= s < n.states@.len(), s != 1, map_code(table, c as u32).is_some(),
    ensures cw_live(st, true, idmap[s] as int),
        cw_goto_lm(st, table, idmap[s] as int, map_code(table, c as u32).unwrap()) == idmap[nfa_nd_lm(n, s, c)] as int,
    decreases nfa_depth(n, s),
{
    let mc = map_code(table, c as u32).unwrap();
    let w = cw_wit(st, true);
    assert(cw_ranked(st, true, w));
    lemma_image_live_lm(n, st, table, idmap, w, s);
    lemma_enc_basic(st, table, n, idmap, s);
    lemma_enc_basic(st, table, n, idmap, 0);
    let x = idmap[s] as int;
    if nfa_edges(n, s).contains_key(c) {
        lemma_enc_edge(st, table, n, idmap, s, c);
        let t = nfa_edges(n, s)[c] as int;
        lemma_enc_basic(st, table, n, idmap, t);
        assert(cw_child(st, x, mc) == Some(idmap[t]));
    } else {
        assert(cw_child(st, x, mc).is_none()) by {
            if cw_child(st, x, mc).is_some() {
                let c2 = lemma_enc_nospur(st, table, n, idmap, s, mc);
                assert(map_code(table, c2 as u32).is_some());
                assert(map_code(table, c2 as u32) == map_code(table, c as u32));
                assert(c2 == c);
            }
        }
        if s == 0 { }
        else {
            assert(x != 0) by { if x == 0 { lemma_enc_inj(st, table, n, idmap, s, 0); } }
            let f = n.states@[s].fail as int;
            if f == 1 {
                assert(st[x].fail == 1);
            } else {
                assert(0 <= f < n.states@.len());
                lemma_sim_goto_lm(n, st, table, asz, idmap, f, c);
                lemma_enc_basic(st, table, n, idmap, f);
                assert(st[x].fail == idmap[f]);
            }
        }
    }
}
proof fn lemma_sim_delta_lm_cw<V>(n: NfaBuilder<char, V>, st: Seq<State>, table: Seq<u32>, asz: u32, idmap: Seq<u32>, s: int, c: char)
    requires cw_encodes(st, table, n, idmap), nfa_tree(n), nfa_links(n, true), cw_wf(st, table, true), mapper_covers(n, table, asz),
        0 <= s < n.states@.len(), s != 1,
    ensures cw_delta_lm(st, table, idmap[s] as int, c as u32) == idmap[nfa_nd_lm(n, s, c)] as int,
{
    lemma_enc_basic(st, table, n, idmap, 0);
    match map_code(table, c as u32) {
        None => {
            assert forall|t: int| 0 <= t < n.states@.len() implies !(#[trigger] nfa_edges(n, t)).contains_key(c) by { }
            lemma_nd_lm_no_edge(n, s, c);
        }
        Some(mc) => { lemma_sim_goto_lm(n, st, table, asz, idmap, s, c); }
    }
}

proof fn lemma_cwl_scan_sim<V>(n: NfaBuilder<char, V>, st: Seq<State>, table: Seq<u32>, asz: u32, idmap: Seq<u32>, s: int, last: Option<(nat, nat)>, chars: Seq<char>, p: nat)
    requires cw_encodes(st, table, n, idmap), nfa_tree(n), nfa_links(n, true), cw_wf(st, table, true), mapper_covers(n, table, asz),
        0 <= s < n.states@.len(), s != 1,
    ensures cwl_scan(st, table, idmap[s] as int, last, chars, p) == nfa_cwl_scan(n, s, last, chars, p),
    decreases chars.len(),
{
    if chars.len() > 0 {
        let c = chars[0];
        let p2 = (p + c.len_utf8()) as nat;
        lemma_sim_delta_lm_cw(n, st, table, asz, idmap, s, c);
        lemma_nd_lm_range(n, s, c);
        let t = nfa_nd_lm(n, s, c);
        lemma_enc_basic(st, table, n, idmap, t);
        lemma_enc_basic(st, table, n, idmap, 0);
        assert((idmap[t] == 0) == (t == 0)) by { if idmap[t] == 0 { lemma_enc_inj(st, table, n, idmap, t, 0); } }
        assert(cw_opos(st[idmap[t] as int]) == opt_n(n.states@[t].output_pos));
        if t == 0 {
            if last.is_none() { lemma_cwl_scan_sim(n, st, table, asz, idmap, 0, None, chars.skip(1), p2); }
        } else if opt_n(n.states@[t].output_pos) != 0 {
            lemma_cwl_scan_sim(n, st, table, asz, idmap, t, Some((opt_n(n.states@[t].output_pos), p2)), chars.skip(1), p2);
        } else {
            lemma_cwl_scan_sim(n, st, table, asz, idmap, t, last, chars.skip(1), p2);
        }
    }
}
// THEOREM: what the char-wise leftmost iterator is proved to report (cwl_stream over the array) depends on the NFA only
proof fn theorem_cwl_sim<V>(n: NfaBuilder<char, V>, st: Seq<State>, table: Seq<u32>, asz: u32, idmap: Seq<u32>, hs: &str, pos: nat)
    requires cw_encodes(st, table, n, idmap), nfa_tree(n), nfa_links(n, true), cw_wf(st, table, true), mapper_covers(n, table, asz),
    ensures cwl_stream(st, table, n.outputs@, hs, pos) == nfa_cwl_stream(n, hs, pos),
    decreases str_blen(hs) - pos,
{
    lemma_enc_basic(st, table, n, idmap, 0);
    lemma_cwl_scan_sim(n, st, table, asz, idmap, 0, None, tail_chars(hs, pos as int), pos);
    match nfa_cwl_scan(n, 0, None, tail_chars(hs, pos as int), pos) {
        None => { },
        Some(p) => {
            if p.1 <= pos || p.1 > str_blen(hs) || p.0 == 0 || p.0 > n.outputs@.len() { } else {
                theorem_cwl_sim(n, st, table, asz, idmap, hs, p.1);
            }
        },
    }
}
