// ---- from "the array encodes the NFA" (postcondition of build_double_array) to "the array is well formed for the
// search" (precondition of the transition functions and iterators): the ranking witness is the NFA depth ----
spec fn nfa_depth<V>(n: NfaBuilder<char, V>, t: int) -> nat
    decreases t
{
    if t < 2 { 0 } else { let p = nfa_parent(n, t).0; if 0 <= p < t { nfa_depth(n, p) + 1 } else { 0 } }
}

// assumed contract of build_fails / build_fails_leftmost (checked by the stand-in): fail links point to strictly
// shallower states, or to the dead state under the leftmost kinds
spec fn nfa_links<V>(n: NfaBuilder<char, V>, lm: bool) -> bool {
    forall|s: int| 0 <= s < n.states@.len() && s != 1 && s != 0 ==> {
        let f = (#[trigger] n.states@[s]).fail as int;
        (f != 1 && 0 <= f < n.states@.len() && nfa_depth(n, f) < nfa_depth(n, s)) || (lm && f == 1)
    }
}

spec fn cw_table_ok(table: Seq<u32>, alphabet_size: u32) -> bool {
    forall|i: int| 0 <= i < table.len() ==> (#[trigger] table[i]) == u32::MAX || table[i] < alphabet_size
}

spec fn slot_owner<V>(n: NfaBuilder<char, V>, idmap: Seq<u32>, y: int) -> int {
    choose|t: int| 0 <= t < n.states@.len() && t != 1 && #[trigger] idmap[t] == y
}
spec fn slot_depth<V>(n: NfaBuilder<char, V>, idmap: Seq<u32>, y: int) -> nat {
    if exists|t: int| 0 <= t < n.states@.len() && t != 1 && #[trigger] idmap[t] == y { nfa_depth(n, slot_owner(n, idmap, y)) } else { 0 }
}

spec fn link_wit<V>(n: NfaBuilder<char, V>, st: Seq<State>, idmap: Seq<u32>) -> Wit {
    Wit {
        live: idmap.remove(1).map_values(|v: u32| v as int).to_set(),
        rank: Seq::new(st.len(), |y: int| slot_depth(n, idmap, y)),
    }
}

// slot y is live iff it is the slot of a non-dead NFA state; its rank is then that state's depth
proof fn lemma_link_live<V>(n: NfaBuilder<char, V>, st: Seq<State>, table: Seq<u32>, idmap: Seq<u32>, y: int)
    requires cw_encodes(st, table, n, idmap), n.states@.len() >= 2,
    ensures link_wit(n, st, idmap).live.contains(y) <==> (exists|t: int| 0 <= t < n.states@.len() && t != 1 && #[trigger] idmap[t] == y),
{
    let len = n.states@.len();
    lemma_enc_basic(st, table, n, idmap, 0);
    let w = link_wit(n, st, idmap);
    let ids = idmap.remove(1).map_values(|v: u32| v as int);
    if w.live.contains(y) {
        assert(ids.contains(y));
        let i = choose|i: int| 0 <= i < ids.len() && ids[i] == y;
        let t = if i < 1 { i } else { i + 1 };
        assert(idmap.remove(1)[i] == idmap[t]);
        assert(idmap[t] == y);
    }
    if exists|t: int| 0 <= t < len && t != 1 && #[trigger] idmap[t] == y {
        let t = choose|t: int| 0 <= t < len && t != 1 && #[trigger] idmap[t] == y;
        let i = if t < 1 { t } else { t - 1 };
        assert(idmap.remove(1)[i] == idmap[t]);
        assert(ids[i] == y);
        assert(ids.contains(y));
    }
}

proof fn lemma_link_rank<V>(n: NfaBuilder<char, V>, st: Seq<State>, table: Seq<u32>, idmap: Seq<u32>, t: int)
    requires cw_encodes(st, table, n, idmap), 0 <= t < n.states@.len(), t != 1, n.states@.len() >= 2,
    ensures link_wit(n, st, idmap).live.contains(idmap[t] as int), link_wit(n, st, idmap).rank[idmap[t] as int] == nfa_depth(n, t),
        link_wit(n, st, idmap).rank.len() == st.len(),
{
    let len = n.states@.len();
    lemma_enc_basic(st, table, n, idmap, t);
    let y = idmap[t] as int;
    lemma_link_live(n, st, table, idmap, y);
    assert(exists|t: int| 0 <= t < n.states@.len() && t != 1 && #[trigger] idmap[t] == y);
    let t2 = slot_owner(n, idmap, y);
    assert(0 <= t2 < n.states@.len() && t2 != 1 && idmap[t2] == y);
    lemma_enc_inj(st, table, n, idmap, t, t2);
    assert(0 <= y < st.len());
    assert(slot_depth(n, idmap, y) == nfa_depth(n, t2));
    assert(link_wit(n, st, idmap).rank[y] == slot_depth(n, idmap, y));
}

proof fn lemma_encodes_gives_wf<V>(n: NfaBuilder<char, V>, st: Seq<State>, table: Seq<u32>, alphabet_size: u32, bl: u32, idmap: Seq<u32>, lm: bool)
    requires
        cw_encodes(st, table, n, idmap), nfa_tree(n), nfa_links(n, lm),
        pow2(bl), alphabet_size <= bl, cw_table_ok(table, alphabet_size),
        st.len() > 0, st.len() as int % (bl as int) == 0, st.len() <= u32::MAX,
        forall|i: int| 0 <= i < st.len() ==> ((#[trigger] st[i]).base.is_some() ==> st[i].base.unwrap()@ < st.len()),
    ensures cw_wf(st, table, lm),
{
    let len = n.states@.len();
    assert(cw_safe_bl(st, table, bl));
    let w = link_wit(n, st, idmap);
    lemma_link_rank(n, st, table, idmap, 0);
    lemma_enc_basic(st, table, n, idmap, 0);
    assert(w.live.contains(0) && w.rank[0] == 0);
    assert(!w.live.contains(1)) by {
        lemma_link_live(n, st, table, idmap, 1);
        if exists|t: int| 0 <= t < len && t != 1 && #[trigger] idmap[t] == 1 {
            let t = choose|t: int| 0 <= t < len && t != 1 && #[trigger] idmap[t] == 1;
            lemma_enc_basic(st, table, n, idmap, t);
        }
    }
    assert forall|s: int| #[trigger] w.live.contains(s) implies 0 <= s < st.len() by {
        lemma_link_live(n, st, table, idmap, s);
        let t = choose|t: int| 0 <= t < len && t != 1 && #[trigger] idmap[t] == s;
        lemma_enc_basic(st, table, n, idmap, t);
    }
    assert forall|s: int, mc: u32| w.live.contains(s) && (#[trigger] cw_child(st, s, mc)).is_some() implies
            w.live.contains(cw_child(st, s, mc).unwrap() as int) && w.rank[cw_child(st, s, mc).unwrap() as int] == w.rank[s] + 1 by {
        lemma_link_live(n, st, table, idmap, s);
        let t = choose|t: int| 0 <= t < len && t != 1 && #[trigger] idmap[t] == s;
        lemma_enc_basic(st, table, n, idmap, t);
        let c = lemma_enc_nospur(st, table, n, idmap, t, mc);
        let child = nfa_edges(n, t)[c] as int;
        assert(nfa_parent(n, child) == (t, c));
        assert(nfa_depth(n, child) == nfa_depth(n, t) + 1);
        lemma_link_rank(n, st, table, idmap, child);
        lemma_link_rank(n, st, table, idmap, t);
    }
    assert forall|s: int| #[trigger] w.live.contains(s) && s != 0 implies
            (w.live.contains(st[s].fail as int) && w.rank[st[s].fail as int] < w.rank[s]) || (lm && st[s].fail == 1) by {
        lemma_link_live(n, st, table, idmap, s);
        let t = choose|t: int| 0 <= t < len && t != 1 && #[trigger] idmap[t] == s;
        lemma_enc_basic(st, table, n, idmap, t);
        assert(t != 0);
        let f = n.states@[t].fail as int;
        if f != 1 {
            lemma_link_rank(n, st, table, idmap, f);
            lemma_link_rank(n, st, table, idmap, t);
        }
    }
    lemma_link_rank(n, st, table, idmap, 0);
    assert(cw_ranked(st, lm, w));
}

// ---- the char-wise double array simulates the sparse NFA (standard kind) ----
spec fn nfa_nd<V>(n: NfaBuilder<char, V>, s: int, c: char) -> int
    decreases nfa_depth(n, s)
    when nfa_tree(n) && nfa_links(n, false) && 0 <= s < n.states@.len() && s != 1
{
    if nfa_edges(n, s).contains_key(c) { nfa_edges(n, s)[c] as int }
    else if s == 0 { 0 }
    else { nfa_nd(n, n.states@[s].fail as int, c) }
}
proof fn lemma_nd_range<V>(n: NfaBuilder<char, V>, s: int, c: char)
    requires nfa_tree(n), nfa_links(n, false), 0 <= s < n.states@.len(), s != 1,
    ensures 0 <= nfa_nd(n, s, c) < n.states@.len(), nfa_nd(n, s, c) != 1,
    decreases nfa_depth(n, s),
{
    if nfa_edges(n, s).contains_key(c) { }
    else if s == 0 { }
    else { lemma_nd_range(n, n.states@[s].fail as int, c); }
}
// a character that labels no edge at all sends every state to the root
proof fn lemma_nd_no_edge<V>(n: NfaBuilder<char, V>, s: int, c: char)
    requires nfa_tree(n), nfa_links(n, false), 0 <= s < n.states@.len(), s != 1,
        forall|t: int| 0 <= t < n.states@.len() ==> !(#[trigger] nfa_edges(n, t)).contains_key(c),
    ensures nfa_nd(n, s, c) == 0,
    decreases nfa_depth(n, s),
{
    if s != 0 { lemma_nd_no_edge(n, n.states@[s].fail as int, c); }
}
proof fn lemma_image_live<V>(n: NfaBuilder<char, V>, st: Seq<State>, table: Seq<u32>, idmap: Seq<u32>, w: Wit, s: int)
    requires cw_encodes(st, table, n, idmap), nfa_tree(n), cw_ranked(st, false, w), 0 <= s < n.states@.len(), s != 1,
    ensures w.live.contains(idmap[s] as int),
    decreases s,
{
    lemma_enc_basic(st, table, n, idmap, 0);
    if s >= 2 {
        let p = nfa_parent(n, s);
        assert(nfa_parent_ok(n, s, p));
        lemma_image_live(n, st, table, idmap, w, p.0);
        lemma_enc_edge(st, table, n, idmap, p.0, p.1);
        lemma_enc_basic(st, table, n, idmap, p.0);
        lemma_enc_basic(st, table, n, idmap, s);
        assert(cw_child(st, idmap[p.0] as int, code_of(table, p.1)) == Some(idmap[s]));
        assert(w.live.contains(cw_child(st, idmap[p.0] as int, code_of(table, p.1)).unwrap() as int));
    }
}
// one step with a mapped code mc = code(c)
proof fn lemma_sim_goto<V>(n: NfaBuilder<char, V>, st: Seq<State>, table: Seq<u32>, asz: u32, idmap: Seq<u32>, s: int, c: char)
    requires cw_encodes(st, table, n, idmap), nfa_tree(n), nfa_links(n, false), cw_wf(st, table, false), mapper_covers(n, table, asz),
        0 <= s < n.states@.len(), s != 1, map_code(table, c as u32).is_some(),
    ensures cw_live(st, false, idmap[s] as int),
        cw_goto(st, table, idmap[s] as int, map_code(table, c as u32).unwrap()) == idmap[nfa_nd(n, s, c)] as int,
    decreases nfa_depth(n, s),
{
    let mc = map_code(table, c as u32).unwrap();
    let w = cw_wit(st, false);
    assert(cw_ranked(st, false, w));
    lemma_image_live(n, st, table, idmap, w, s);
    lemma_enc_basic(st, table, n, idmap, s);
    lemma_enc_basic(st, table, n, idmap, 0);
    let x = idmap[s] as int;
    if nfa_edges(n, s).contains_key(c) {
        lemma_enc_edge(st, table, n, idmap, s, c);
        let t = nfa_edges(n, s)[c] as int;
        lemma_enc_basic(st, table, n, idmap, t);
        assert(cw_child(st, x, mc) == Some(idmap[t]));
    } else {
        assert(cw_child(st, x, mc).is_none()) by {
            if cw_child(st, x, mc).is_some() {
                let c2 = lemma_enc_nospur(st, table, n, idmap, s, mc);
                // c2 has the code of c, so it is c
                assert(map_code(table, c2 as u32).is_some());
                assert(map_code(table, c2 as u32) == map_code(table, c as u32));
                assert(c2 == c);
            }
        }
        if s == 0 { }
        else {
            assert(x != 0) by { if x == 0 { lemma_enc_inj(st, table, n, idmap, s, 0); } }
            let f = n.states@[s].fail as int;
            assert(f != 1 && 0 <= f < n.states@.len());
            lemma_sim_goto(n, st, table, asz, idmap, f, c);
            assert(st[x].fail == idmap[f]);
        }
    }
}
proof fn lemma_sim_delta_cw<V>(n: NfaBuilder<char, V>, st: Seq<State>, table: Seq<u32>, asz: u32, idmap: Seq<u32>, s: int, c: char)
    requires cw_encodes(st, table, n, idmap), nfa_tree(n), nfa_links(n, false), cw_wf(st, table, false), mapper_covers(n, table, asz),
        0 <= s < n.states@.len(), s != 1,
    ensures cw_delta(st, table, idmap[s] as int, c as u32) == idmap[nfa_nd(n, s, c)] as int,
{
    lemma_enc_basic(st, table, n, idmap, 0);
    match map_code(table, c as u32) {
        None => {
            // unmapped: no edge anywhere carries c
            assert forall|t: int| 0 <= t < n.states@.len() implies !(#[trigger] nfa_edges(n, t)).contains_key(c) by { }
            lemma_nd_no_edge(n, s, c);
        }
        Some(mc) => { lemma_sim_goto(n, st, table, asz, idmap, s, c); }
    }
}
