//@include ghost_ac_nfa.rs
//@include ghost_sem_bw.rs

// the overlapping scan over the sparse NFA
spec fn nfa_scan<V>(n: NfaBuilder<u8, V>, s: int, rest: Seq<u8>, k: nat) -> Seq<Match<V>>
    decreases rest.len()
{
    if rest.len() == 0 { Seq::empty() } else {
        let t = nfa_nd(n, s, rest[0]);
        chain(n.outputs@, opt_n(n.states@[t].output_pos), k + 1) + nfa_scan(n, t, rest.skip(1), k + 1)
    }
}

// one position of the scan: the state after hay[..k+1] and what is reported there
proof fn lemma_scan_step<V>(n: NfaBuilder<u8, V>, hay: Seq<u8>, k: nat)
    requires nfa_tree(n), trie_ok(n), nfa_links(n, false), ac_fail(n), ac_outs(n), k < hay.len(),
    ensures ({ let t = ls(n, hay.take(k as int + 1));
        &&& t == nfa_nd(n, ls(n, hay.take(k as int)), hay[k as int])
        &&& chain(n.outputs@, opt_n(n.states@[t].output_pos), k + 1) == suf_matches(n, hay.take(k as int + 1), 0, k + 1) }),
{
    lemma_scan_step_e(n, hay, k, k + 1);
}
// the same with an arbitrary end offset stamped on the matches
proof fn lemma_scan_step_e<V>(n: NfaBuilder<u8, V>, hay: Seq<u8>, k: nat, end: nat)
    requires nfa_tree(n), trie_ok(n), nfa_links(n, false), ac_fail(n), ac_outs(n), k < hay.len(),
    ensures ({ let t = ls(n, hay.take(k as int + 1));
        &&& 0 <= t < n.states@.len() && t != 1
        &&& t == nfa_nd(n, ls(n, hay.take(k as int)), hay[k as int])
        &&& chain(n.outputs@, opt_n(n.states@[t].output_pos), end) == suf_matches(n, hay.take(k as int + 1), 0, end) }),
{
    let w = hay.take(k as int); let w2 = hay.take(k as int + 1);
    assert(w2.drop_last() =~= w && w2.last() == hay[k as int]);
    let t = ls(n, w2);
    assert(ac_ctx0(n)) by { reveal(ac_ctx0); }
    lemma_ls(n, w2);
    lemma_ls_range(n, w2, t);
    lemma_ls_len(n, w2, t);
    lemma_ac_outs(n, t, end);
    lemma_suf_longest(n, w2, t, 0, end);
}

// AC correctness on the NFA: scanning hay[k..] from the state reached on hay[..k] reports exactly the semantics
proof fn lemma_nfa_scan_sem<V>(n: NfaBuilder<u8, V>, hay: Seq<u8>, k: nat)
    requires nfa_tree(n), trie_ok(n), nfa_links(n, false), ac_fail(n), ac_outs(n), k <= hay.len(),
    ensures nfa_scan(n, ls(n, hay.take(k as int)), hay.skip(k as int), k) == sem_ovl(n, hay, k),
    decreases hay.len() - k,
{
    let rest = hay.skip(k as int);
    if k < hay.len() {
        assert(rest.len() > 0 && rest[0] == hay[k as int]);
        assert(rest.skip(1) =~= hay.skip(k as int + 1));
        lemma_scan_step(n, hay, k);
        lemma_nfa_scan_sem(n, hay, k + 1);
    } else {
        assert(rest.len() == 0);
    }
}

// ---- transport to the double array: the spec stream the real iterator refines equals the scan over the NFA ----
proof fn lemma_ovl_scan_sim<V>(n: NfaBuilder<u8, V>, st: Seq<State>, idmap: Seq<u32>, s: int, rest: Seq<u8>, k: nat)
    requires bw_encodes(st, n, idmap), nfa_tree(n), nfa_links(n, false), da_safe(st), 0 <= s < n.states@.len(), s != 1,
    ensures ovl_scan(st, n.outputs@, idmap[s] as int, rest, k) == nfa_scan(n, s, rest, k),
    decreases rest.len(),
{
    if rest.len() > 0 {
        let t = nfa_nd(n, s, rest[0]);
        lemma_sim_delta(n, st, idmap, s, rest[0]);
        lemma_nd_range(n, s, rest[0]);
        lemma_benc_basic(st, n, idmap, t);
        assert(st_opos(st[idmap[t] as int]) as nat == opt_n(n.states@[t].output_pos));
        lemma_ovl_scan_sim(n, st, idmap, t, rest.skip(1), k + 1);
    }
}

// C01, byte-wise, relative to the contract of the NFA fail/output passes: the stream that FindOverlappingIterator::next
// refines (iter_bw) on a freshly constructed iterator equals "every occurrence of every registered pattern, by end position,
// longest first"
proof fn theorem_c01_bw<V>(n: NfaBuilder<u8, V>, st: Seq<State>, idmap: Seq<u32>, hay: Seq<u8>)
    requires bw_encodes(st, n, idmap), da_safe(st), nfa_tree(n), trie_ok(n), nfa_links(n, false), ac_fail(n), ac_outs(n),
    ensures ovl_scan(st, n.outputs@, 0, hay, 0) == sem_ovl(n, hay, 0),
{
    lemma_benc_basic(st, n, idmap, 0);
    lemma_ovl_scan_sim(n, st, idmap, 0, hay, 0);
    assert(hay.take(0) =~= Seq::<u8>::empty());
    assert(hay.skip(0) =~= hay);
    assert(ls(n, hay.take(0)) == 0);
    lemma_nfa_scan_sem(n, hay, 0);
}

//@include ghost_nfa_outs.rs
// ---- C05: the no-suffix search reports, at every end position where some pattern ends, exactly the longest one ----
// output positions are valid list heads (part of the assumed contract of build_outputs, nfa_outs_ok)
proof fn lemma_chain_head<V>(outs: Seq<Output<V>>, o: nat, end: nat)
    requires o <= outs.len(), forall|j: int| 0 <= j < outs.len() ==> out_parent(#[trigger] outs[j]) <= j,
    ensures o == 0 ==> chain(outs, o, end).len() == 0,
        o != 0 ==> chain(outs, o, end).len() > 0 && chain(outs, o, end)[0] == mk_match(outs[o - 1], end),
{
    if o != 0 {
        assert(out_parent(outs[o - 1]) <= o - 1);
    }
}
spec fn nfa_nosuf_scan<V>(n: NfaBuilder<u8, V>, s: int, rest: Seq<u8>, k: nat) -> Seq<Match<V>>
    decreases rest.len()
{
    if rest.len() == 0 { Seq::empty() } else {
        let t = nfa_nd(n, s, rest[0]);
        first_of(chain(n.outputs@, opt_n(n.states@[t].output_pos), k + 1)) + nfa_nosuf_scan(n, t, rest.skip(1), k + 1)
    }
}
proof fn lemma_nfa_nosuf_sem<V>(n: NfaBuilder<u8, V>, hay: Seq<u8>, k: nat)
    requires nfa_tree(n), trie_ok(n), nfa_links(n, false), ac_fail(n), ac_outs(n), k <= hay.len(),
    ensures nfa_nosuf_scan(n, ls(n, hay.take(k as int)), hay.skip(k as int), k) == sem_nosuf(n, hay, k),
    decreases hay.len() - k,
{
    let rest = hay.skip(k as int);
    if k < hay.len() {
        assert(rest.len() > 0 && rest[0] == hay[k as int]);
        assert(rest.skip(1) =~= hay.skip(k as int + 1));
        lemma_scan_step(n, hay, k);
        lemma_nfa_nosuf_sem(n, hay, k + 1);
    } else {
        assert(rest.len() == 0);
    }
}
proof fn lemma_nosuf_scan_sim<V>(n: NfaBuilder<u8, V>, st: Seq<State>, idmap: Seq<u32>, s: int, rest: Seq<u8>, k: nat)
    requires bw_encodes(st, n, idmap), nfa_tree(n), nfa_links(n, false), da_safe(st), nfa_outs_ok(n), 0 <= s < n.states@.len(), s != 1,
    ensures nosuf_scan(st, n.outputs@, idmap[s] as int, rest, k) == nfa_nosuf_scan(n, s, rest, k),
    decreases rest.len(),
{
    if rest.len() > 0 {
        let t = nfa_nd(n, s, rest[0]);
        lemma_sim_delta(n, st, idmap, s, rest[0]);
        lemma_nd_range(n, s, rest[0]);
        lemma_benc_basic(st, n, idmap, t);
        let o = opt_n(n.states@[t].output_pos);
        assert(st_opos(st[idmap[t] as int]) as nat == o);
        assert(o <= n.outputs@.len()) by { assert(opt_u32(n.states@[t].output_pos) <= n.outputs@.len()); }
        lemma_chain_head(n.outputs@, o, k + 1);
        lemma_nosuf_scan_sim(n, st, idmap, t, rest.skip(1), k + 1);
    }
}
proof fn theorem_c05_bw<V>(n: NfaBuilder<u8, V>, st: Seq<State>, idmap: Seq<u32>, hay: Seq<u8>)
    requires bw_encodes(st, n, idmap), da_safe(st), nfa_tree(n), trie_ok(n), nfa_links(n, false), nfa_outs_ok(n), ac_fail(n), ac_outs(n),
    ensures nosuf_scan(st, n.outputs@, 0, hay, 0) == sem_nosuf(n, hay, 0),
{
    lemma_benc_basic(st, n, idmap, 0);
    lemma_nosuf_scan_sim(n, st, idmap, 0, hay, 0);
    assert(hay.take(0) =~= Seq::<u8>::empty());
    assert(hay.skip(0) =~= hay);
    assert(ls(n, hay.take(0)) == 0);
    lemma_nfa_nosuf_sem(n, hay, 0);
}

// ---- C02: the non-overlapping search reports the occurrence (inside the unread text) that ends first, the longest one
// if several end there, and resumes after it ----
// first j >= from such that some registered pattern is a suffix of rest[..j]
// the number of matches at a position does not depend on the end offset stamped on them
// first reporting position of the scan over the NFA (same shape as find_first over the array)
spec fn nfa_find_first<V>(n: NfaBuilder<u8, V>, s: int, rest: Seq<u8>, cnt: nat) -> Option<(nat, int)>
    decreases rest.len()
{
    if rest.len() == 0 { None } else {
        let t = nfa_nd(n, s, rest[0]);
        if opt_n(n.states@[t].output_pos) != 0 { Some((cnt + 1, t)) } else { nfa_find_first(n, t, rest.skip(1), cnt + 1) }
    }
}
proof fn lemma_find_first_sim<V>(n: NfaBuilder<u8, V>, st: Seq<State>, idmap: Seq<u32>, s: int, rest: Seq<u8>, cnt: nat)
    requires bw_encodes(st, n, idmap), nfa_tree(n), nfa_links(n, false), da_safe(st), 0 <= s < n.states@.len(), s != 1,
    ensures find_first(st, idmap[s] as int, rest, cnt) == (match nfa_find_first(n, s, rest, cnt) { None => None::<(nat, int)>, Some(p) => Some((p.0, idmap[p.1] as int)) }),
        nfa_find_first(n, s, rest, cnt).is_some() ==> 0 <= nfa_find_first(n, s, rest, cnt).unwrap().1 < n.states@.len() && nfa_find_first(n, s, rest, cnt).unwrap().1 != 1,
    decreases rest.len(),
{
    if rest.len() > 0 {
        let t = nfa_nd(n, s, rest[0]);
        lemma_sim_delta(n, st, idmap, s, rest[0]);
        lemma_nd_range(n, s, rest[0]);
        lemma_benc_basic(st, n, idmap, t);
        assert(st_opos(st[idmap[t] as int]) as nat == opt_n(n.states@[t].output_pos));
        lemma_find_first_sim(n, st, idmap, t, rest.skip(1), cnt + 1);
    }
}
// all hypotheses about the NFA in one opaque bundle (keeps the contexts of the inductive lemmas small)
#[verifier::opaque]
spec fn ac_ctx<V>(n: NfaBuilder<u8, V>) -> bool {
    nfa_tree(n) && trie_ok(n) && nfa_links(n, false) && nfa_outs_ok(n) && ac_fail(n) && ac_outs(n)
}
proof fn w_scan_step_e<V>(n: NfaBuilder<u8, V>, hay: Seq<u8>, k: nat, end: nat)
    requires ac_ctx(n), k < hay.len(),
    ensures ({ let t = ls(n, hay.take(k as int + 1));
        &&& 0 <= t < n.states@.len() && t != 1
        &&& t == nfa_nd(n, ls(n, hay.take(k as int)), hay[k as int])
        &&& chain(n.outputs@, opt_n(n.states@[t].output_pos), end) == suf_matches(n, hay.take(k as int + 1), 0, end) }),
{
    reveal(ac_ctx);
    lemma_scan_step_e(n, hay, k, end);
}
proof fn w_chain_head<V>(n: NfaBuilder<u8, V>, t: int, end: nat)
    requires ac_ctx(n), 0 <= t < n.states@.len(),
    ensures ({ let o = opt_n(n.states@[t].output_pos); let c = chain(n.outputs@, o, end);
        &&& o <= n.outputs@.len()
        &&& (o == 0 ==> c.len() == 0)
        &&& (o != 0 ==> c.len() > 0 && c[0] == mk_match(n.outputs@[o - 1], end)) }),
{
    reveal(ac_ctx);
    let o = opt_n(n.states@[t].output_pos);
    assert(o <= n.outputs@.len()) by { assert(opt_u32(n.states@[t].output_pos) <= n.outputs@.len()); }
    lemma_chain_head(n.outputs@, o, end);
}

// the scan from the root over `rest`, resumed at offset j, finds the semantic first position
proof fn lemma_nfa_find_first_sem<V>(n: NfaBuilder<u8, V>, rest: Seq<u8>, j: nat)
    requires ac_ctx(n), j <= rest.len(),
    ensures (match nfa_find_first(n, ls(n, rest.take(j as int)), rest.skip(j as int), j) {
            None => sem_first(n, rest, j + 1).is_none(),
            Some(p) => sem_first(n, rest, j + 1) == Some(p.0) && j < p.0 <= rest.len() && p.1 == ls(n, rest.take(p.0 as int)),
        }),
    decreases rest.len() - j,
{
    let r = rest.skip(j as int);
    if j < rest.len() {
        assert(r.len() > 0 && r[0] == rest[j as int]);
        assert(r.skip(1) =~= rest.skip(j as int + 1));
        w_scan_step_e(n, rest, j, j + 1);
        let t = ls(n, rest.take(j as int + 1));
        w_chain_head(n, t, j + 1);
        lemma_nfa_find_first_sem(n, rest, j + 1);
    } else {
        assert(r.len() == 0);
    }
}
spec fn nfa_find_stream<V>(n: NfaBuilder<u8, V>, rest: Seq<u8>, k: nat) -> Seq<Match<V>>
    decreases rest.len()
{
    match nfa_find_first(n, 0, rest, 0) {
        None => Seq::empty(),
        Some(p) => if p.0 == 0 || p.0 > rest.len() { Seq::empty() } else {
            seq![mk_match(n.outputs@[opt_n(n.states@[p.1].output_pos) - 1], k + p.0)] + nfa_find_stream(n, rest.skip(p.0 as int), k + p.0)
        },
    }
}
// the match reported at the first position: the longest registered suffix of rest[..j]
proof fn lemma_find_head<V>(n: NfaBuilder<u8, V>, rest: Seq<u8>, j: nat, end: nat)
    requires ac_ctx(n), 0 < j <= rest.len(), suf_matches(n, rest.take(j as int), 0, j).len() > 0,
    ensures ({ let t = ls(n, rest.take(j as int)); let o = opt_n(n.states@[t].output_pos);
        o != 0 && o <= n.outputs@.len() && mk_match(n.outputs@[o - 1], end) == suf_matches(n, rest.take(j as int), 0, end)[0] }),
{
    let t = ls(n, rest.take(j as int));
    w_scan_step_e(n, rest, (j - 1) as nat, end);
    w_chain_head(n, t, end);
    lemma_suf_len(n, rest.take(j as int), 0, j, end);
}
proof fn lemma_first_facts<V>(n: NfaBuilder<u8, V>, rest: Seq<u8>, from: nat)
    ensures sem_first(n, rest, from).is_some() ==> ({ let j = sem_first(n, rest, from).unwrap();
        from <= j <= rest.len() && j > 0 && suf_matches(n, rest.take(j as int), 0, j).len() > 0 }),
    decreases rest.len() + 1 - from,
{
    if from > rest.len() { }
    else if from > 0 && suf_matches(n, rest.take(from as int), 0, from).len() > 0 { }
    else { lemma_first_facts(n, rest, from + 1); }
}
proof fn lemma_nfa_find_sem<V>(n: NfaBuilder<u8, V>, rest: Seq<u8>, k: nat)
    requires ac_ctx(n),
    ensures nfa_find_stream(n, rest, k) == sem_find(n, rest, k),
    decreases rest.len(),
{
    assert(rest.take(0) =~= Seq::<u8>::empty());
    assert(rest.skip(0) =~= rest);
    assert(ls(n, rest.take(0)) == 0);
    lemma_nfa_find_first_sem(n, rest, 0);
    match nfa_find_first(n, 0, rest, 0) {
        None => { }
        Some(p) => {
            let j = p.0;
            lemma_first_facts(n, rest, 1);
            lemma_find_head(n, rest, j, k + j);
            lemma_nfa_find_sem(n, rest.skip(j as int), k + j);
        }
    }
}
proof fn lemma_find_stream_sim<V>(n: NfaBuilder<u8, V>, st: Seq<State>, idmap: Seq<u32>, rest: Seq<u8>, k: nat)
    requires bw_encodes(st, n, idmap), nfa_tree(n), nfa_links(n, false), da_safe(st),
    ensures find_stream(st, n.outputs@, rest, k) == nfa_find_stream(n, rest, k),
    decreases rest.len(),
{
    lemma_benc_basic(st, n, idmap, 0);
    lemma_find_first_sim(n, st, idmap, 0, rest, 0);
    match nfa_find_first(n, 0, rest, 0) {
        None => { }
        Some(p) => {
            if !(p.0 == 0 || p.0 > rest.len()) {
                lemma_benc_basic(st, n, idmap, p.1);
                assert(st_opos(st[idmap[p.1] as int]) as nat == opt_n(n.states@[p.1].output_pos));
                lemma_find_stream_sim(n, st, idmap, rest.skip(p.0 as int), k + p.0);
            }
        }
    }
}
proof fn theorem_c02_bw<V>(n: NfaBuilder<u8, V>, st: Seq<State>, idmap: Seq<u32>, hay: Seq<u8>)
    requires bw_encodes(st, n, idmap), da_safe(st), nfa_tree(n), trie_ok(n), nfa_links(n, false), nfa_outs_ok(n), ac_fail(n), ac_outs(n),
    ensures find_stream(st, n.outputs@, hay, 0) == sem_find(n, hay, 0),
{
    lemma_find_stream_sim(n, st, idmap, hay, 0);
    assert(ac_ctx(n)) by { reveal(ac_ctx); }
    lemma_nfa_find_sem(n, hay, 0);
}
