// ---- Aho-Corasick correctness for the standard automaton, byte-wise: the spec stream of the overlapping search over the
// double array equals the property-level semantics ("all occurrences, by end, longest first"), GIVEN the contract of the
// NFA fail/output passes (ac_fail, ac_outs: assumed, evaluated by the stand-in's NFA twin) ----
spec fn is_suffix(a: Seq<u8>, b: Seq<u8>) -> bool { a.len() <= b.len() && a =~= b.skip(b.len() - a.len()) }
spec fn t_node<V>(n: NfaBuilder<u8, V>, q: Seq<u8>) -> bool { walk(n, q).is_some() }

// label sequence from the root to state s
spec fn path<V>(n: NfaBuilder<u8, V>, s: int) -> Seq<u8>
    decreases s
{
    if s < 2 { Seq::empty() } else { let p = nfa_parent(n, s); if 0 <= p.0 < s { path(n, p.0).push(p.1) } else { Seq::empty() } }
}
proof fn lemma_walk_path<V>(n: NfaBuilder<u8, V>, s: int)
    requires nfa_tree(n), 0 <= s < n.states@.len(), s != 1,
    ensures walk(n, path(n, s)) == Some(s), path(n, s).len() == nfa_depth(n, s),
    decreases s,
{
    if s >= 2 {
        let p = nfa_parent(n, s);
        assert(nfa_parent_ok(n, s, p));
        lemma_walk_path(n, p.0);
        let q = path(n, s);
        assert(q.drop_last() =~= path(n, p.0));
        assert(q.last() == p.1);
        assert(t_edges(n, p.0) == nfa_edges(n, p.0));
    } else {
        assert(s == 0);
    }
}
proof fn lemma_path_of_walk<V>(n: NfaBuilder<u8, V>, q: Seq<u8>)
    requires nfa_tree(n), trie_ok(n), walk(n, q).is_some(),
    ensures 0 <= walk(n, q).unwrap() < n.states@.len(), walk(n, q).unwrap() != 1, q == path(n, walk(n, q).unwrap()),
{
    lemma_walk_range(n, q);
    let s = walk(n, q).unwrap();
    lemma_walk_path(n, s);
    lemma_walk_inj(n, q, path(n, s));
}
// the trie is prefix closed
proof fn lemma_node_prefix<V>(n: NfaBuilder<u8, V>, q: Seq<u8>)
    requires t_node(n, q), q.len() > 0,
    ensures t_node(n, q.drop_last()),
{
}
proof fn lemma_suffix_trans(a: Seq<u8>, b: Seq<u8>, c: Seq<u8>)
    requires is_suffix(a, b), is_suffix(b, c),
    ensures is_suffix(a, c),
{
    assert(a =~= c.skip(c.len() - a.len()));
}
// two suffixes of the same sequence: the shorter is a suffix of the longer
proof fn lemma_suffix_of_suffix(a: Seq<u8>, b: Seq<u8>, c: Seq<u8>)
    requires is_suffix(a, c), is_suffix(b, c), a.len() <= b.len(),
    ensures is_suffix(a, b),
{
    assert(a =~= b.skip(b.len() - a.len()));
}
proof fn lemma_suffix_push(a: Seq<u8>, b: Seq<u8>, c: u8)
    requires is_suffix(a, b),
    ensures is_suffix(a.push(c), b.push(c)),
{
    assert(a.push(c) =~= b.push(c).skip(b.push(c).len() - a.push(c).len()));
}
proof fn lemma_suffix_drop(q: Seq<u8>, b: Seq<u8>, c: u8)
    requires is_suffix(q, b.push(c)), q.len() > 0,
    ensures q.last() == c, is_suffix(q.drop_last(), b),
{
    let bc = b.push(c);
    assert(q.last() == bc[bc.len() - 1]);
    assert(q.drop_last() =~= b.skip(b.len() - q.drop_last().len()));
}

// ASSUMED (build_fails): fail(s) is the state of the longest proper suffix of path(s) that is a trie node
spec fn fail_ok<V>(n: NfaBuilder<u8, V>, s: int, f: int) -> bool {
    &&& 0 <= f < n.states@.len() && f != 1
    &&& is_suffix(path(n, f), path(n, s)) && path(n, f).len() < path(n, s).len()
    &&& forall|q: Seq<u8>| is_suffix(q, path(n, s)) && q.len() < path(n, s).len() && #[trigger] t_node(n, q) ==> q.len() <= path(n, f).len()
}
#[verifier::opaque]
spec fn ac_fail<V>(n: NfaBuilder<u8, V>) -> bool {
    forall|s: int| 2 <= s < n.states@.len() ==> fail_ok(n, s, (#[trigger] n.states@[s]).fail as int)
}
proof fn lemma_ac_fail<V>(n: NfaBuilder<u8, V>, s: int)
    requires ac_fail(n), 2 <= s < n.states@.len(),
    ensures fail_ok(n, s, n.states@[s].fail as int),
{ reveal(ac_fail); }

// r is the state of the longest suffix of path(s)+c that is a trie node
#[verifier::opaque]
spec fn nd_ok<V>(n: NfaBuilder<u8, V>, s: int, c: u8, r: int) -> bool {
    let pc = path(n, s).push(c);
    &&& 0 <= r < n.states@.len() && r != 1
    &&& is_suffix(path(n, r), pc)
    &&& forall|q: Seq<u8>| is_suffix(q, pc) && #[trigger] t_node(n, q) ==> q.len() <= path(n, r).len()
}

proof fn lemma_nd_edge<V>(n: NfaBuilder<u8, V>, s: int, c: u8)
    requires nfa_tree(n), trie_ok(n), 0 <= s < n.states@.len(), s != 1, nfa_edges(n, s).contains_key(c),
    ensures nd_ok(n, s, c, nfa_edges(n, s)[c] as int),
{
    reveal(nd_ok);
    let p = path(n, s); let pc = p.push(c);
    let r = nfa_edges(n, s)[c] as int;
    lemma_walk_path(n, s);
    assert(pc.drop_last() =~= p && pc.last() == c);
    assert(t_edges(n, s) == nfa_edges(n, s));
    assert(walk(n, pc) == Some(r));
    lemma_path_of_walk(n, pc);
    assert(path(n, r) == pc);
    assert(is_suffix(pc, pc));
}

proof fn lemma_nd_root<V>(n: NfaBuilder<u8, V>, c: u8)
    requires nfa_tree(n), trie_ok(n), !nfa_edges(n, 0).contains_key(c),
    ensures nd_ok(n, 0, c, 0),
{
    reveal(nd_ok);
    let pc = path(n, 0).push(c);
    assert(path(n, 0).len() == 0);
    assert(is_suffix(path(n, 0), pc));
    assert forall|q: Seq<u8>| is_suffix(q, pc) && #[trigger] t_node(n, q) implies q.len() <= 0 by {
        if q.len() > 0 {
            assert(q.len() == 1);
            assert(q.drop_last().len() == 0);
            assert(walk(n, q.drop_last()) == Some(0int));
            assert(q.last() == pc[0]);
            assert(t_edges(n, 0) == nfa_edges(n, 0));
        }
    }
}

proof fn lemma_nd_step<V>(n: NfaBuilder<u8, V>, s: int, c: u8, f: int, r: int)
    requires nfa_tree(n), trie_ok(n), 2 <= s < n.states@.len(), !nfa_edges(n, s).contains_key(c), fail_ok(n, s, f), nd_ok(n, f, c, r),
    ensures nd_ok(n, s, c, r),
{
    reveal(nd_ok);
    let p = path(n, s); let pc = p.push(c);
    let pf = path(n, f);
    lemma_walk_path(n, s);
    lemma_suffix_push(pf, p, c);
    lemma_suffix_trans(path(n, r), pf.push(c), pc);
    assert forall|q: Seq<u8>| is_suffix(q, pc) && #[trigger] t_node(n, q) implies q.len() <= path(n, r).len() by {
        if q.len() > 0 {
            lemma_suffix_drop(q, p, c);
            let q1 = q.drop_last();
            lemma_node_prefix(n, q);
            if q1.len() == p.len() {
                // q1 would be all of p: then s has the edge c
                assert(q1 =~= p);
                assert(walk(n, q1) == Some(s));
                assert(t_edges(n, s).contains_key(q.last()));
                assert(t_edges(n, s) == nfa_edges(n, s));
                assert(false);
            }
            assert(t_node(n, q1));
            assert(q1.len() <= pf.len());
            lemma_suffix_of_suffix(q1, pf, p);
            lemma_suffix_push(q1, pf, c);
            assert(q1.push(c) =~= q);
            assert(is_suffix(q, pf.push(c)));
        }
    }
}

// the structural hypotheses in one opaque bundle: the inductive lemmas below see only this atom
#[verifier::opaque]
spec fn ac_ctx0<V>(n: NfaBuilder<u8, V>) -> bool { nfa_tree(n) && trie_ok(n) && nfa_links(n, false) && ac_fail(n) }

proof fn w_nd_unfold<V>(n: NfaBuilder<u8, V>, s: int, c: u8)
    requires ac_ctx0(n), 0 <= s < n.states@.len(), s != 1,
    ensures nfa_nd(n, s, c) == (if nfa_edges(n, s).contains_key(c) { nfa_edges(n, s)[c] as int } else if s == 0 { 0 } else { nfa_nd(n, n.states@[s].fail as int, c) }),
        0 <= nfa_nd(n, s, c) < n.states@.len(), nfa_nd(n, s, c) != 1,
        s >= 2 ==> 0 <= n.states@[s].fail < n.states@.len() && n.states@[s].fail != 1 && nfa_depth(n, n.states@[s].fail as int) < nfa_depth(n, s),
{
    reveal(ac_ctx0);
    lemma_nd_range(n, s, c);
}
proof fn w_nd_edge<V>(n: NfaBuilder<u8, V>, s: int, c: u8)
    requires ac_ctx0(n), 0 <= s < n.states@.len(), s != 1, nfa_edges(n, s).contains_key(c),
    ensures nd_ok(n, s, c, nfa_edges(n, s)[c] as int),
{ reveal(ac_ctx0); lemma_nd_edge(n, s, c); }
proof fn w_nd_root<V>(n: NfaBuilder<u8, V>, c: u8)
    requires ac_ctx0(n), !nfa_edges(n, 0).contains_key(c),
    ensures nd_ok(n, 0, c, 0),
{ reveal(ac_ctx0); lemma_nd_root(n, c); }
proof fn w_nd_step<V>(n: NfaBuilder<u8, V>, s: int, c: u8, r: int)
    requires ac_ctx0(n), 2 <= s < n.states@.len(), !nfa_edges(n, s).contains_key(c), nd_ok(n, n.states@[s].fail as int, c, r),
    ensures nd_ok(n, s, c, r),
{
    reveal(ac_ctx0);
    lemma_ac_fail(n, s);
    lemma_nd_step(n, s, c, n.states@[s].fail as int, r);
}

// the goto/fail transition computes the longest suffix of path(s)+c that is a trie node
proof fn lemma_nd_longest<V>(n: NfaBuilder<u8, V>, s: int, c: u8)
    requires ac_ctx0(n), 0 <= s < n.states@.len(), s != 1,
    ensures nd_ok(n, s, c, nfa_nd(n, s, c)),
    decreases nfa_depth(n, s),
{
    w_nd_unfold(n, s, c);
    if nfa_edges(n, s).contains_key(c) {
        w_nd_edge(n, s, c);
    } else if s == 0 {
        w_nd_root(n, c);
    } else {
        let f = n.states@[s].fail as int;
        lemma_nd_longest(n, f, c);
        w_nd_step(n, s, c, nfa_nd(n, f, c));
    }
}

// ---- the state reached from the root after reading w is the longest suffix of w that is a trie node ----
spec fn ls<V>(n: NfaBuilder<u8, V>, w: Seq<u8>) -> int
    decreases w.len()
{
    if w.len() == 0 { 0 } else { nfa_nd(n, ls(n, w.drop_last()), w.last()) }
}
// r is the state of the longest suffix of w that is a trie node
#[verifier::opaque]
spec fn ls_ok<V>(n: NfaBuilder<u8, V>, w: Seq<u8>, r: int) -> bool {
    &&& 0 <= r < n.states@.len() && r != 1
    &&& is_suffix(path(n, r), w)
    &&& forall|q: Seq<u8>| is_suffix(q, w) && #[trigger] t_node(n, q) ==> q.len() <= path(n, r).len()
}
proof fn lemma_ls_step<V>(n: NfaBuilder<u8, V>, w: Seq<u8>, c: u8, x: int, r: int)
    requires nfa_tree(n), trie_ok(n), ls_ok(n, w, x), nd_ok(n, x, c, r),
    ensures ls_ok(n, w.push(c), r),
{
    reveal(nd_ok); reveal(ls_ok);
    let p = path(n, x); let wc = w.push(c);
    lemma_suffix_push(p, w, c);
    lemma_suffix_trans(path(n, r), p.push(c), wc);
    assert forall|q: Seq<u8>| is_suffix(q, wc) && #[trigger] t_node(n, q) implies q.len() <= path(n, r).len() by {
        if q.len() > 0 {
            lemma_suffix_drop(q, w, c);
            let q1 = q.drop_last();
            lemma_node_prefix(n, q);
            assert(t_node(n, q1));
            assert(q1.len() <= p.len());
            lemma_suffix_of_suffix(q1, p, w);
            lemma_suffix_push(q1, p, c);
            assert(q1.push(c) =~= q);
            assert(is_suffix(q, p.push(c)));
        }
    }
}
proof fn lemma_ls_empty<V>(n: NfaBuilder<u8, V>, w: Seq<u8>)
    requires ac_ctx0(n), w.len() == 0,
    ensures ls_ok(n, w, 0),
{
    reveal(ls_ok); reveal(ac_ctx0);
    assert(path(n, 0).len() == 0);
    assert(is_suffix(path(n, 0), w));
}
proof fn lemma_ls_range<V>(n: NfaBuilder<u8, V>, w: Seq<u8>, r: int)
    requires ls_ok(n, w, r),
    ensures 0 <= r < n.states@.len(), r != 1,
{ reveal(ls_ok); }
proof fn w_ls_step<V>(n: NfaBuilder<u8, V>, w: Seq<u8>, c: u8, x: int, r: int)
    requires ac_ctx0(n), ls_ok(n, w, x), nd_ok(n, x, c, r),
    ensures ls_ok(n, w.push(c), r),
{ reveal(ac_ctx0); lemma_ls_step(n, w, c, x, r); }
proof fn lemma_ls<V>(n: NfaBuilder<u8, V>, w: Seq<u8>)
    requires ac_ctx0(n),
    ensures ls_ok(n, w, ls(n, w)),
    decreases w.len(),
{
    if w.len() == 0 {
        lemma_ls_empty(n, w);
    } else {
        let w1 = w.drop_last(); let c = w.last();
        lemma_ls(n, w1);
        let x = ls(n, w1);
        lemma_ls_range(n, w1, x);
        lemma_nd_longest(n, x, c);
        w_ls_step(n, w1, c, x, nfa_nd(n, x, c));
        assert(w1.push(c) =~= w);
    }
}

// ---- property-level semantics of the overlapping search (C01): at every end position, all registered patterns
// that end there, longest first; end positions in increasing order ----
spec fn reg_match<V>(n: NfaBuilder<u8, V>, q: Seq<u8>, end: nat) -> Match<V> {
    let o = n.states@[walk(n, q).unwrap()].output.unwrap();
    Match { length: o.1@ as usize, end: end as usize, value: o.0 }
}
// matches for the registered patterns among the suffixes p[i..], p[i+1..], ... (longest first)
spec fn suf_matches<V>(n: NfaBuilder<u8, V>, p: Seq<u8>, i: nat, end: nat) -> Seq<Match<V>>
    decreases p.len() - i
{
    if i >= p.len() { Seq::empty() } else {
        (if is_registered(n, p.skip(i as int)) { seq![reg_match(n, p.skip(i as int), end)] } else { Seq::empty() }) + suf_matches(n, p, i + 1, end)
    }
}
spec fn sem_ovl<V>(n: NfaBuilder<u8, V>, hay: Seq<u8>, k: nat) -> Seq<Match<V>>
    decreases hay.len() - k
{
    if k >= hay.len() { Seq::empty() } else { suf_matches(n, hay.take(k as int + 1), 0, k + 1) + sem_ovl(n, hay, k + 1) }
}

// suffixes of w that are longer than its longest trie-node suffix p are not registered: both give the same matches
proof fn lemma_suf_shift<V>(n: NfaBuilder<u8, V>, w: Seq<u8>, p: Seq<u8>, j: nat, end: nat)
    requires is_suffix(p, w), j <= p.len(),
    ensures suf_matches(n, w, (w.len() - p.len() + j) as nat, end) == suf_matches(n, p, j, end),
    decreases p.len() - j,
{
    let d = (w.len() - p.len()) as nat;
    if j < p.len() {
        assert(w.skip((d + j) as int) =~= p.skip(j as int));
        lemma_suf_shift(n, w, p, j + 1, end);
    }
}
proof fn lemma_suf_longest<V>(n: NfaBuilder<u8, V>, w: Seq<u8>, r: int, i: nat, end: nat)
    requires ls_ok(n, w, r), i <= w.len() - path(n, r).len(),
    ensures suf_matches(n, w, i, end) == suf_matches(n, path(n, r), 0, end),
    decreases w.len() - path(n, r).len() - i,
{
    reveal(ls_ok);
    let p = path(n, r);
    let d = (w.len() - p.len()) as nat;
    if i < d {
        let q = w.skip(i as int);
        assert(is_suffix(q, w));
        assert(!t_node(n, q));
        assert(!is_registered(n, q));
        lemma_suf_longest(n, w, r, i + 1, end);
        assert(suf_matches(n, w, i, end) =~= suf_matches(n, w, i + 1, end));
    } else {
        lemma_suf_shift(n, w, p, 0, end);
    }
}
proof fn lemma_ls_len<V>(n: NfaBuilder<u8, V>, w: Seq<u8>, r: int)
    requires ls_ok(n, w, r),
    ensures path(n, r).len() <= w.len(),
{ reveal(ls_ok); }

// ASSUMED (build_outputs): the output chain of a state lists the registered patterns that are suffixes of its path, longest first
#[verifier::opaque]
spec fn ac_outs<V>(n: NfaBuilder<u8, V>) -> bool {
    forall|s: int, end: nat| 0 <= s < n.states@.len() && s != 1 ==>
        #[trigger] chain(n.outputs@, opt_n(n.states@[s].output_pos), end) == suf_matches(n, path(n, s), 0, end)
}
proof fn lemma_ac_outs<V>(n: NfaBuilder<u8, V>, s: int, end: nat)
    requires ac_outs(n), 0 <= s < n.states@.len(), s != 1,
    ensures chain(n.outputs@, opt_n(n.states@[s].output_pos), end) == suf_matches(n, path(n, s), 0, end),
{ reveal(ac_outs); }

// the overlapping scan over the sparse NFA
spec fn nfa_scan<V>(n: NfaBuilder<u8, V>, s: int, rest: Seq<u8>, k: nat) -> Seq<Match<V>>
    decreases rest.len()
{
    if rest.len() == 0 { Seq::empty() } else {
        let t = nfa_nd(n, s, rest[0]);
        chain(n.outputs@, opt_n(n.states@[t].output_pos), k + 1) + nfa_scan(n, t, rest.skip(1), k + 1)
    }
}

// one position of the scan: the state after hay[..k+1] and what is reported there
proof fn lemma_scan_step<V>(n: NfaBuilder<u8, V>, hay: Seq<u8>, k: nat)
    requires nfa_tree(n), trie_ok(n), nfa_links(n, false), ac_fail(n), ac_outs(n), k < hay.len(),
    ensures ({ let t = ls(n, hay.take(k as int + 1));
        &&& t == nfa_nd(n, ls(n, hay.take(k as int)), hay[k as int])
        &&& chain(n.outputs@, opt_n(n.states@[t].output_pos), k + 1) == suf_matches(n, hay.take(k as int + 1), 0, k + 1) }),
{
    lemma_scan_step_e(n, hay, k, k + 1);
}
// the same with an arbitrary end offset stamped on the matches
proof fn lemma_scan_step_e<V>(n: NfaBuilder<u8, V>, hay: Seq<u8>, k: nat, end: nat)
    requires nfa_tree(n), trie_ok(n), nfa_links(n, false), ac_fail(n), ac_outs(n), k < hay.len(),
    ensures ({ let t = ls(n, hay.take(k as int + 1));
        &&& 0 <= t < n.states@.len() && t != 1
        &&& t == nfa_nd(n, ls(n, hay.take(k as int)), hay[k as int])
        &&& chain(n.outputs@, opt_n(n.states@[t].output_pos), end) == suf_matches(n, hay.take(k as int + 1), 0, end) }),
{
    let w = hay.take(k as int); let w2 = hay.take(k as int + 1);
    assert(w2.drop_last() =~= w && w2.last() == hay[k as int]);
    let t = ls(n, w2);
    assert(ac_ctx0(n)) by { reveal(ac_ctx0); }
    lemma_ls(n, w2);
    lemma_ls_range(n, w2, t);
    lemma_ls_len(n, w2, t);
    lemma_ac_outs(n, t, end);
    lemma_suf_longest(n, w2, t, 0, end);
}

// AC correctness on the NFA: scanning hay[k..] from the state reached on hay[..k] reports exactly the semantics
proof fn lemma_nfa_scan_sem<V>(n: NfaBuilder<u8, V>, hay: Seq<u8>, k: nat)
    requires nfa_tree(n), trie_ok(n), nfa_links(n, false), ac_fail(n), ac_outs(n), k <= hay.len(),
    ensures nfa_scan(n, ls(n, hay.take(k as int)), hay.skip(k as int), k) == sem_ovl(n, hay, k),
    decreases hay.len() - k,
{
    let rest = hay.skip(k as int);
    if k < hay.len() {
        assert(rest.len() > 0 && rest[0] == hay[k as int]);
        assert(rest.skip(1) =~= hay.skip(k as int + 1));
        lemma_scan_step(n, hay, k);
        lemma_nfa_scan_sem(n, hay, k + 1);
    } else {
        assert(rest.len() == 0);
    }
}

// ---- transport to the double array: the spec stream the real iterator refines equals the scan over the NFA ----
proof fn lemma_ovl_scan_sim<V>(n: NfaBuilder<u8, V>, st: Seq<State>, idmap: Seq<u32>, s: int, rest: Seq<u8>, k: nat)
    requires bw_encodes(st, n, idmap), nfa_tree(n), nfa_links(n, false), da_safe(st), 0 <= s < n.states@.len(), s != 1,
    ensures ovl_scan(st, n.outputs@, idmap[s] as int, rest, k) == nfa_scan(n, s, rest, k),
    decreases rest.len(),
{
    if rest.len() > 0 {
        let t = nfa_nd(n, s, rest[0]);
        lemma_sim_delta(n, st, idmap, s, rest[0]);
        lemma_nd_range(n, s, rest[0]);
        lemma_benc_basic(st, n, idmap, t);
        assert(st_opos(st[idmap[t] as int]) as nat == opt_n(n.states@[t].output_pos));
        lemma_ovl_scan_sim(n, st, idmap, t, rest.skip(1), k + 1);
    }
}

// C01, byte-wise, relative to the contract of the NFA fail/output passes: the stream that FindOverlappingIterator::next
// refines (iter_bw) on a freshly constructed iterator equals "every occurrence of every registered pattern, by end position,
// longest first"
proof fn theorem_c01_bw<V>(n: NfaBuilder<u8, V>, st: Seq<State>, idmap: Seq<u32>, hay: Seq<u8>)
    requires bw_encodes(st, n, idmap), da_safe(st), nfa_tree(n), trie_ok(n), nfa_links(n, false), ac_fail(n), ac_outs(n),
    ensures ovl_scan(st, n.outputs@, 0, hay, 0) == sem_ovl(n, hay, 0),
{
    lemma_benc_basic(st, n, idmap, 0);
    lemma_ovl_scan_sim(n, st, idmap, 0, hay, 0);
    assert(hay.take(0) =~= Seq::<u8>::empty());
    assert(hay.skip(0) =~= hay);
    assert(ls(n, hay.take(0)) == 0);
    lemma_nfa_scan_sem(n, hay, 0);
}

//@include ghost_nfa_outs.rs
// ---- C05: the no-suffix search reports, at every end position where some pattern ends, exactly the longest one ----
spec fn first_of<V>(s: Seq<Match<V>>) -> Seq<Match<V>> { if s.len() == 0 { Seq::empty() } else { seq![s[0]] } }
spec fn sem_nosuf<V>(n: NfaBuilder<u8, V>, hay: Seq<u8>, k: nat) -> Seq<Match<V>>
    decreases hay.len() - k
{
    if k >= hay.len() { Seq::empty() } else { first_of(suf_matches(n, hay.take(k as int + 1), 0, k + 1)) + sem_nosuf(n, hay, k + 1) }
}
// output positions are valid list heads (part of the assumed contract of build_outputs, nfa_outs_ok)
proof fn lemma_chain_head<V>(outs: Seq<Output<V>>, o: nat, end: nat)
    requires o <= outs.len(), forall|j: int| 0 <= j < outs.len() ==> out_parent(#[trigger] outs[j]) <= j,
    ensures o == 0 ==> chain(outs, o, end).len() == 0,
        o != 0 ==> chain(outs, o, end).len() > 0 && chain(outs, o, end)[0] == mk_match(outs[o - 1], end),
{
    if o != 0 {
        assert(out_parent(outs[o - 1]) <= o - 1);
    }
}
spec fn nfa_nosuf_scan<V>(n: NfaBuilder<u8, V>, s: int, rest: Seq<u8>, k: nat) -> Seq<Match<V>>
    decreases rest.len()
{
    if rest.len() == 0 { Seq::empty() } else {
        let t = nfa_nd(n, s, rest[0]);
        first_of(chain(n.outputs@, opt_n(n.states@[t].output_pos), k + 1)) + nfa_nosuf_scan(n, t, rest.skip(1), k + 1)
    }
}
proof fn lemma_nfa_nosuf_sem<V>(n: NfaBuilder<u8, V>, hay: Seq<u8>, k: nat)
    requires nfa_tree(n), trie_ok(n), nfa_links(n, false), ac_fail(n), ac_outs(n), k <= hay.len(),
    ensures nfa_nosuf_scan(n, ls(n, hay.take(k as int)), hay.skip(k as int), k) == sem_nosuf(n, hay, k),
    decreases hay.len() - k,
{
    let rest = hay.skip(k as int);
    if k < hay.len() {
        assert(rest.len() > 0 && rest[0] == hay[k as int]);
        assert(rest.skip(1) =~= hay.skip(k as int + 1));
        lemma_scan_step(n, hay, k);
        lemma_nfa_nosuf_sem(n, hay, k + 1);
    } else {
        assert(rest.len() == 0);
    }
}
proof fn lemma_nosuf_scan_sim<V>(n: NfaBuilder<u8, V>, st: Seq<State>, idmap: Seq<u32>, s: int, rest: Seq<u8>, k: nat)
    requires bw_encodes(st, n, idmap), nfa_tree(n), nfa_links(n, false), da_safe(st), nfa_outs_ok(n), 0 <= s < n.states@.len(), s != 1,
    ensures nosuf_scan(st, n.outputs@, idmap[s] as int, rest, k) == nfa_nosuf_scan(n, s, rest, k),
    decreases rest.len(),
{
    if rest.len() > 0 {
        let t = nfa_nd(n, s, rest[0]);
        lemma_sim_delta(n, st, idmap, s, rest[0]);
        lemma_nd_range(n, s, rest[0]);
        lemma_benc_basic(st, n, idmap, t);
        let o = opt_n(n.states@[t].output_pos);
        assert(st_opos(st[idmap[t] as int]) as nat == o);
        assert(o <= n.outputs@.len()) by { assert(opt_u32(n.states@[t].output_pos) <= n.outputs@.len()); }
        lemma_chain_head(n.outputs@, o, k + 1);
        lemma_nosuf_scan_sim(n, st, idmap, t, rest.skip(1), k + 1);
    }
}
proof fn theorem_c05_bw<V>(n: NfaBuilder<u8, V>, st: Seq<State>, idmap: Seq<u32>, hay: Seq<u8>)
    requires bw_encodes(st, n, idmap), da_safe(st), nfa_tree(n), trie_ok(n), nfa_links(n, false), nfa_outs_ok(n), ac_fail(n), ac_outs(n),
    ensures nosuf_scan(st, n.outputs@, 0, hay, 0) == sem_nosuf(n, hay, 0),
{
    lemma_benc_basic(st, n, idmap, 0);
    lemma_nosuf_scan_sim(n, st, idmap, 0, hay, 0);
    assert(hay.take(0) =~= Seq::<u8>::empty());
    assert(hay.skip(0) =~= hay);
    assert(ls(n, hay.take(0)) == 0);
    lemma_nfa_nosuf_sem(n, hay, 0);
}

// ---- C02: the non-overlapping search reports the occurrence (inside the unread text) that ends first, the longest one
// if several end there, and resumes after it ----
// first j >= from such that some registered pattern is a suffix of rest[..j]
spec fn sem_first<V>(n: NfaBuilder<u8, V>, rest: Seq<u8>, from: nat) -> Option<nat>
    decreases rest.len() + 1 - from
{
    if from > rest.len() { None }
    else if from > 0 && suf_matches(n, rest.take(from as int), 0, from).len() > 0 { Some(from) }
    else { sem_first(n, rest, from + 1) }
}
spec fn sem_find<V>(n: NfaBuilder<u8, V>, rest: Seq<u8>, k: nat) -> Seq<Match<V>>
    decreases rest.len()
{
    match sem_first(n, rest, 1) {
        None => Seq::empty(),
        Some(j) => if j == 0 || j > rest.len() { Seq::empty() } else {
            seq![suf_matches(n, rest.take(j as int), 0, k + j)[0]] + sem_find(n, rest.skip(j as int), k + j)
        },
    }
}
// the number of matches at a position does not depend on the end offset stamped on them
proof fn lemma_suf_len<V>(n: NfaBuilder<u8, V>, p: Seq<u8>, i: nat, e1: nat, e2: nat)
    ensures suf_matches(n, p, i, e1).len() == suf_matches(n, p, i, e2).len(),
    decreases p.len() - i,
{
    if i < p.len() { lemma_suf_len(n, p, i + 1, e1, e2); }
}
// first reporting position of the scan over the NFA (same shape as find_first over the array)
spec fn nfa_find_first<V>(n: NfaBuilder<u8, V>, s: int, rest: Seq<u8>, cnt: nat) -> Option<(nat, int)>
    decreases rest.len()
{
    if rest.len() == 0 { None } else {
        let t = nfa_nd(n, s, rest[0]);
        if opt_n(n.states@[t].output_pos) != 0 { Some((cnt + 1, t)) } else { nfa_find_first(n, t, rest.skip(1), cnt + 1) }
    }
}
proof fn lemma_find_first_sim<V>(n: NfaBuilder<u8, V>, st: Seq<State>, idmap: Seq<u32>, s: int, rest: Seq<u8>, cnt: nat)
    requires bw_encodes(st, n, idmap), nfa_tree(n), nfa_links(n, false), da_safe(st), 0 <= s < n.states@.len(), s != 1,
    ensures find_first(st, idmap[s] as int, rest, cnt) == (match nfa_find_first(n, s, rest, cnt) { None => None::<(nat, int)>, Some(p) => Some((p.0, idmap[p.1] as int)) }),
        nfa_find_first(n, s, rest, cnt).is_some() ==> 0 <= nfa_find_first(n, s, rest, cnt).unwrap().1 < n.states@.len() && nfa_find_first(n, s, rest, cnt).unwrap().1 != 1,
    decreases rest.len(),
{
    if rest.len() > 0 {
        let t = nfa_nd(n, s, rest[0]);
        lemma_sim_delta(n, st, idmap, s, rest[0]);
        lemma_nd_range(n, s, rest[0]);
        lemma_benc_basic(st, n, idmap, t);
        assert(st_opos(st[idmap[t] as int]) as nat == opt_n(n.states@[t].output_pos));
        lemma_find_first_sim(n, st, idmap, t, rest.skip(1), cnt + 1);
    }
}
// all hypotheses about the NFA in one opaque bundle (keeps the contexts of the inductive lemmas small)
#[verifier::opaque]
spec fn ac_ctx<V>(n: NfaBuilder<u8, V>) -> bool {
    nfa_tree(n) && trie_ok(n) && nfa_links(n, false) && nfa_outs_ok(n) && ac_fail(n) && ac_outs(n)
}
proof fn w_scan_step_e<V>(n: NfaBuilder<u8, V>, hay: Seq<u8>, k: nat, end: nat)
    requires ac_ctx(n), k < hay.len(),
    ensures ({ let t = ls(n, hay.take(k as int + 1));
        &&& 0 <= t < n.states@.len() && t != 1
        &&& t == nfa_nd(n, ls(n, hay.take(k as int)), hay[k as int])
        &&& chain(n.outputs@, opt_n(n.states@[t].output_pos), end) == suf_matches(n, hay.take(k as int + 1), 0, end) }),
{
    reveal(ac_ctx);
    lemma_scan_step_e(n, hay, k, end);
}
proof fn w_chain_head<V>(n: NfaBuilder<u8, V>, t: int, end: nat)
    requires ac_ctx(n), 0 <= t < n.states@.len(),
    ensures ({ let o = opt_n(n.states@[t].output_pos); let c = chain(n.outputs@, o, end);
        &&& o <= n.outputs@.len()
        &&& (o == 0 ==> c.len() == 0)
        &&& (o != 0 ==> c.len() > 0 && c[0] == mk_match(n.outputs@[o - 1], end)) }),
{
    reveal(ac_ctx);
    let o = opt_n(n.states@[t].output_pos);
    assert(o <= n.outputs@.len()) by { assert(opt_u32(n.states@[t].output_pos) <= n.outputs@.len()); }
    lemma_chain_head(n.outputs@, o, end);
}

// the scan from the root over `rest`, resumed at offset j, finds the semantic first position
proof fn lemma_nfa_find_first_sem<V>(n: NfaBuilder<u8, V>, rest: Seq<u8>, j: nat)
    requires ac_ctx(n), j <= rest.len(),
    ensures (match nfa_find_first(n, ls(n, rest.take(j as int)), rest.skip(j as int), j) {
            None => sem_first(n, rest, j + 1).is_none(),
            Some(p) => sem_first(n, rest, j + 1) == Some(p.0) && j < p.0 <= rest.len() && p.1 == ls(n, rest.take(p.0 as int)),
        }),
    decreases rest.len() - j,
{
    let r = rest.skip(j as int);
    if j < rest.len() {
        assert(r.len() > 0 && r[0] == rest[j as int]);
        assert(r.skip(1) =~= rest.skip(j as int + 1));
        w_scan_step_e(n, rest, j, j + 1);
        let t = ls(n, rest.take(j as int + 1));
        w_chain_head(n, t, j + 1);
        lemma_nfa_find_first_sem(n, rest, j + 1);
    } else {
        assert(r.len() == 0);
    }
}
spec fn nfa_find_stream<V>(n: NfaBuilder<u8, V>, rest: Seq<u8>, k: nat) -> Seq<Match<V>>
    decreases rest.len()
{
    match nfa_find_first(n, 0, rest, 0) {
        None => Seq::empty(),
        Some(p) => if p.0 == 0 || p.0 > rest.len() { Seq::empty() } else {
            seq![mk_match(n.outputs@[opt_n(n.states@[p.1].output_pos) - 1], k + p.0)] + nfa_find_stream(n, rest.skip(p.0 as int), k + p.0)
        },
    }
}
// the match reported at the first position: the longest registered suffix of rest[..j]
proof fn lemma_find_head<V>(n: NfaBuilder<u8, V>, rest: Seq<u8>, j: nat, end: nat)
    requires ac_ctx(n), 0 < j <= rest.len(), suf_matches(n, rest.take(j as int), 0, j).len() > 0,
    ensures ({ let t = ls(n, rest.take(j as int)); let o = opt_n(n.states@[t].output_pos);
        o != 0 && o <= n.outputs@.len() && mk_match(n.outputs@[o - 1], end) == suf_matches(n, rest.take(j as int), 0, end)[0] }),
{
    let t = ls(n, rest.take(j as int));
    w_scan_step_e(n, rest, (j - 1) as nat, end);
    w_chain_head(n, t, end);
    lemma_suf_len(n, rest.take(j as int), 0, j, end);
}
proof fn lemma_first_facts<V>(n: NfaBuilder<u8, V>, rest: Seq<u8>, from: nat)
    ensures sem_first(n, rest, from).is_some() ==> ({ let j = sem_first(n, rest, from).unwrap();
        from <= j <= rest.len() && j > 0 && suf_matches(n, rest.take(j as int), 0, j).len() > 0 }),
    decreases rest.len() + 1 - from,
{
    if from > rest.len() { }
    else if from > 0 && suf_matches(n, rest.take(from as int), 0, from).len() > 0 { }
    else { lemma_first_facts(n, rest, from + 1); }
}
proof fn lemma_nfa_find_sem<V>(n: NfaBuilder<u8, V>, rest: Seq<u8>, k: nat)
    requires ac_ctx(n),
    ensures nfa_find_stream(n, rest, k) == sem_find(n, rest, k),
    decreases rest.len(),
{
    assert(rest.take(0) =~= Seq::<u8>::empty());
    assert(rest.skip(0) =~= rest);
    assert(ls(n, rest.take(0)) == 0);
    lemma_nfa_find_first_sem(n, rest, 0);
    match nfa_find_first(n, 0, rest, 0) {
        None => { }
        Some(p) => {
            let j = p.0;
            lemma_first_facts(n, rest, 1);
            lemma_find_head(n, rest, j, k + j);
            lemma_nfa_find_sem(n, rest.skip(j as int), k + j);
        }
    }
}
proof fn lemma_find_stream_sim<V>(n: NfaBuilder<u8, V>, st: Seq<State>, idmap: Seq<u32>, rest: Seq<u8>, k: nat)
    requires bw_encodes(st, n, idmap), nfa_tree(n), nfa_links(n, false), da_safe(st),
    ensures find_stream(st, n.outputs@, rest, k) == nfa_find_stream(n, rest, k),
    decreases rest.len(),
{
    lemma_benc_basic(st, n, idmap, 0);
    lemma_find_first_sim(n, st, idmap, 0, rest, 0);
    match nfa_find_first(n, 0, rest, 0) {
        None => { }
        Some(p) => {
            if !(p.0 == 0 || p.0 > rest.len()) {
                lemma_benc_basic(st, n, idmap, p.1);
                assert(st_opos(st[idmap[p.1] as int]) as nat == opt_n(n.states@[p.1].output_pos));
                lemma_find_stream_sim(n, st, idmap, rest.skip(p.0 as int), k + p.0);
            }
        }
    }
}
proof fn theorem_c02_bw<V>(n: NfaBuilder<u8, V>, st: Seq<State>, idmap: Seq<u32>, hay: Seq<u8>)
    requires bw_encodes(st, n, idmap), da_safe(st), nfa_tree(n), trie_ok(n), nfa_links(n, false), nfa_outs_ok(n), ac_fail(n), ac_outs(n),
    ensures find_stream(st, n.outputs@, hay, 0) == sem_find(n, hay, 0),
{
    lemma_find_stream_sim(n, st, idmap, hay, 0);
    assert(ac_ctx(n)) by { reveal(ac_ctx); }
    lemma_nfa_find_sem(n, hay, 0);
}
