// ---- output chains shared by both variants ----
//@include ghost_outp.rs

spec fn mk_match<V>(o: Output<V>, end: nat) -> Match<V> {
    Match { length: o.length as usize, end: end as usize, value: o.value }
}

// the output list headed by 1-based position o: the pattern itself, then its registered suffixes
spec fn chain<V>(outs: Seq<Output<V>>, o: nat, end: nat) -> Seq<Match<V>>
    decreases o
{
    if o == 0 || o > outs.len() || out_parent(outs[o - 1]) >= o { Seq::empty() }
    else { seq![mk_match(outs[o - 1], end)] + chain(outs, out_parent(outs[o - 1]), end) }
}

