// ---- leftmost-first at the level of the input sequence (C04; label-generic, included with u8 -> char for the char-wise units) ----
spec fn is_pprefix(a: Seq<u8>, b: Seq<u8>) -> bool { a.len() < b.len() && b.take(a.len() as int) == a }
spec fn ps_distinct(ps: Seq<Seq<u8>>, k: int) -> bool { forall|i: int, j: int| 0 <= i < j < k ==> #[trigger] ps[i] != #[trigger] ps[j] }
// what the trie has registered after the first k patterns of ps were added, in terms of the input order: only input patterns; a pattern
// that is not registered has an earlier, registered proper prefix (leftmost-first only); a registered pattern has none
spec fn lf_inv<V>(n: NfaBuilder<u8, V>, ps: Seq<Seq<u8>>, k: int) -> bool {
    &&& forall|q: Seq<u8>| #[trigger] is_registered(n, q) ==> exists|j: int| 0 <= j < k && #[trigger] ps[j] == q
    &&& forall|j: int| 0 <= j < k && !is_registered(n, #[trigger] ps[j]) ==> n.match_kind is LeftmostFirst && exists|i: int| 0 <= i < j && is_pprefix(#[trigger] ps[i], ps[j]) && is_registered(n, ps[i])
    &&& forall|i: int, j: int| 0 <= i < j < k && n.match_kind is LeftmostFirst && is_registered(n, #[trigger] ps[j]) && is_pprefix(#[trigger] ps[i], ps[j]) ==> !is_registered(n, ps[i])
}
proof fn lemma_lf_inv_start<V>(n: NfaBuilder<u8, V>, ps: Seq<Seq<u8>>)
    requires forall|q: Seq<u8>| !#[trigger] is_registered(n, q),
    ensures lf_inv(n, ps, 0),
{ }
// one call of add (its postcondition, clause "registered")
proof fn lemma_lf_inv_step<V>(a: NfaBuilder<u8, V>, b: NfaBuilder<u8, V>, ps: Seq<Seq<u8>>, k: int)
    requires lf_inv(a, ps, k), 0 <= k < ps.len(), ps_distinct(ps, k + 1), b.match_kind == a.match_kind,
        forall|q: Seq<u8>| #[trigger] is_registered(b, q) <==> (is_registered(a, q) || (q == ps[k] && !add_shadowed(a, ps[k]))),
    ensures lf_inv(b, ps, k + 1),
{
    let pk = ps[k];
    assert forall|q: Seq<u8>| #[trigger] is_registered(b, q) implies exists|j: int| 0 <= j < k + 1 && #[trigger] ps[j] == q by {
        if is_registered(a, q) { let j = choose|j: int| 0 <= j < k && #[trigger] ps[j] == q; assert(0 <= j < k + 1 && ps[j] == q); }
        else { assert(ps[k] == q); }
    }
    assert forall|j: int| 0 <= j < k + 1 && !is_registered(b, #[trigger] ps[j]) implies b.match_kind is LeftmostFirst && exists|i: int| 0 <= i < j && is_pprefix(#[trigger] ps[i], ps[j]) && is_registered(b, ps[i]) by {
        if j < k {
            assert(!is_registered(a, ps[j]));
            let i = choose|i: int| 0 <= i < j && is_pprefix(#[trigger] ps[i], ps[j]) && is_registered(a, ps[i]);
            assert(is_registered(b, ps[i]));
        } else {
            assert(add_shadowed(a, pk));
            let kk = choose|kk: int| 0 <= kk < pk.len() && is_registered(a, pk.take(kk));
            let i = choose|i: int| 0 <= i < k && #[trigger] ps[i] == pk.take(kk);
            assert(is_pprefix(ps[i], pk));
            assert(is_registered(b, ps[i]));
        }
    }
    assert forall|i: int, j: int| 0 <= i < j < k + 1 && b.match_kind is LeftmostFirst && is_registered(b, #[trigger] ps[j]) && is_pprefix(#[trigger] ps[i], ps[j]) implies !is_registered(b, ps[i]) by {
        assert(ps[i] != pk || i == k);
        if is_registered(b, ps[i]) {
            assert(is_registered(a, ps[i]));
            if j < k {
                assert(ps[j] != pk);
                assert(is_registered(a, ps[j]));
            } else {
                assert(!add_shadowed(a, pk));
                assert(pk.take(ps[i].len() as int) == ps[i]);
                assert(is_registered(a, pk.take(ps[i].len() as int)));
            }
        }
    }
}
// pattern j of the input occurs in x at st
spec fn occurs(ps: Seq<Seq<u8>>, j: int, x: Seq<u8>, st: int) -> bool {
    0 <= j < ps.len() && 0 <= st && st + ps[j].len() <= x.len() && x.subrange(st, st + ps[j].len()) == ps[j]
}
// THEOREM (C04, the order clause): among the input patterns occurring at a position, the earliest-registered one is registered, and under
// leftmost-first it is the longest registered pattern occurring there.  (So "the longest registered pattern at the leftmost start", which
// the leftmost stream is proved to report, is "the earliest-registered pattern occurring at that start"; and a position where some input
// pattern occurs is a position where a registered pattern occurs, so the leftmost start over the registered patterns is the leftmost
// start over all input patterns; a shadowed pattern is not registered, hence never reported.)
proof fn theorem_lf_first<V>(n: NfaBuilder<u8, V>, ps: Seq<Seq<u8>>, x: Seq<u8>, st: int, j: int)
    requires lf_inv(n, ps, ps.len() as int), occurs(ps, j, x, st), forall|i: int| 0 <= i < j ==> !#[trigger] occurs(ps, i, x, st),
    ensures is_registered(n, ps[j]),
        n.match_kind is LeftmostFirst ==> forall|j2: int| #[trigger] occurs(ps, j2, x, st) && is_registered(n, ps[j2]) ==> ps[j2].len() <= ps[j].len(),
{
    let q = ps[j];
    if !is_registered(n, q) {
        let i = choose|i: int| 0 <= i < j && is_pprefix(#[trigger] ps[i], ps[j]) && is_registered(n, ps[i]);
        assert(x.subrange(st, st + ps[i].len()) =~= q.take(ps[i].len() as int));
        assert(occurs(ps, i, x, st));
        assert(false);
    }
    if n.match_kind is LeftmostFirst {
        assert forall|j2: int| #[trigger] occurs(ps, j2, x, st) && is_registered(n, ps[j2]) implies ps[j2].len() <= q.len() by {
            if ps[j2].len() > q.len() {
                assert(j2 > j) by { if j2 < j { assert(!occurs(ps, j2, x, st)); } }
                assert(ps[j2].take(q.len() as int) =~= q);
                assert(is_pprefix(ps[j], ps[j2]));
            }
        }
    }
}
// the passes keep the trie and the outputs of the states: the registered patterns stay the same
proof fn lemma_lf_inv_frame<V>(a: NfaBuilder<u8, V>, b: NfaBuilder<u8, V>, ps: Seq<Seq<u8>>, k: int)
    requires lf_inv(a, ps, k), passes_frame(a, b), trie_ok(a),
    ensures lf_inv(b, ps, k),
{
    assert forall|t: int| 0 <= t < a.states@.len() implies #[trigger] t_edges(b, t) == t_edges(a, t) by { }
    assert forall|q: Seq<u8>| walk(b, q) == walk(a, q) by { lemma_walk_same_edges(b, a, q); }
    assert forall|q: Seq<u8>| #[trigger] is_registered(b, q) == is_registered(a, q) by {
        if walk(a, q).is_some() { lemma_walk_range(a, q); }
    }
    assert forall|j: int| 0 <= j < k && !is_registered(b, #[trigger] ps[j]) implies b.match_kind is LeftmostFirst && exists|i: int| 0 <= i < j && is_pprefix(#[trigger] ps[i], ps[j]) && is_registered(b, ps[i]) by {
        assert(!is_registered(a, ps[j]));
        let i = choose|i: int| 0 <= i < j && is_pprefix(#[trigger] ps[i], ps[j]) && is_registered(a, ps[i]);
        assert(is_registered(b, ps[i]));
    }
}
