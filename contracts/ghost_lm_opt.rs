//@include ghost_lm_opt_core.rs
// the candidate of a scan that started at pos and has read hay[pos..p]
spec fn cand_best<V>(n: NfaBuilder<u8, V>, hay: Seq<u8>, pos: nat, p: nat, last: Option<(nat, nat)>) -> bool {
    let x = hay.subrange(pos as int, p as int);
    match last {
        None => forall|st: int, len: int| !#[trigger] occ(n, x, st, len),
        Some(ce) => 1 <= ce.0 <= n.outputs@.len() && pos < ce.1 <= p && exists|q: Seq<u8>| #[trigger] rec_of(n, q, n.outputs@[ce.0 - 1]) && 0 < q.len() <= ce.1 - pos
                        && hay.subrange(ce.1 - q.len(), ce.1 as int) == q && best(n, x, ce.1 - pos - q.len(), q.len() as int),
    }
}
// stopping is right: an occurrence that is not finished yet cannot beat the candidate
proof fn lemma_stop_best<V>(n: NfaBuilder<u8, V>, hay: Seq<u8>, pos: nat, p: nat, st: int, len: int)
    requires pos <= p < hay.len(), best(n, hay.subrange(pos as int, p as int), st, len), ext_lost(n, hay.subrange(pos as int, p as int), hay[p as int]),
    ensures best(n, hay.subrange(pos as int, hay.len() as int), st, len),
{
    let x = hay.subrange(pos as int, p as int); let full = hay.subrange(pos as int, hay.len() as int); let c = hay[p as int];
    assert(full.subrange(st, st + len) =~= x.subrange(st, st + len));
    assert forall|st2: int, len2: int| #[trigger] occ(n, full, st2, len2) implies st < st2 || (st == st2 && len2 <= len) by {
        if st2 + len2 <= x.len() {
            assert(full.subrange(st2, st2 + len2) =~= x.subrange(st2, st2 + len2));
            assert(occ(n, x, st2, len2));
        } else if st2 <= st {
            let v = x.skip(st2);
            let pat = full.subrange(st2, st2 + len2);
            assert(is_suffix(v, x)) by { assert(v =~= x.skip(x.len() - v.len())); }
            assert(pat.take(v.len() as int + 1) =~= v.push(c));
            lemma_prefix_node(n, pat, v.len() as int + 1);
            let (st0, len0) = choose|st0: int, len0: int| #[trigger] occ(n, x, st0, len0) && st0 < x.len() - v.len();
            assert(st0 < st2);
            assert(false);
        }
    }
}
// THE scan: its result is the best occurrence in the whole rest of the haystack (or there is none)
proof fn lemma_lm_scan_opt<V>(n: NfaBuilder<u8, V>, s: int, last: Option<(nat, nat)>, hay: Seq<u8>, pos: nat, p: nat)
    requires optctx(n), pos <= p <= hay.len(), lsn(n, s, hay.subrange(pos as int, p as int)), within(n, hay.subrange(pos as int, p as int), path(n, s).len() as int),
        cand_best(n, hay, pos, p, last),
    ensures cand_best(n, hay, pos, hay.len(), nfa_lm_scan(n, s, last, hay, p)),
    decreases hay.len() - p,
{
    let x = hay.subrange(pos as int, p as int);
    if p >= hay.len() {
        assert(x =~= hay.subrange(pos as int, hay.len() as int));
    } else {
        let c = hay[p as int];
        let x2 = hay.subrange(pos as int, p as int + 1);
        assert(x.push(c) =~= x2);
        assert forall|q1: Seq<u8>| is_suffix(q1, x) && #[trigger] t_node(n, q1.push(c)) implies q1.len() <= path(n, s).len() by {
            lemma_node_prefix(n, q1.push(c));
            assert(q1.push(c).drop_last() =~= q1);
        }
        lemma_lm_trans(n, x, s, c);
        let t = nfa_nd_lm(n, s, c);
        if t == 0 {
            match last {
                Some(ce) => {
                    let q = choose|q: Seq<u8>| #[trigger] rec_of(n, q, n.outputs@[ce.0 - 1]) && 0 < q.len() <= ce.1 - pos
                        && hay.subrange(ce.1 - q.len(), ce.1 as int) == q && best(n, x, ce.1 - pos - q.len(), q.len() as int);
                    lemma_stop_best(n, hay, pos, p, ce.1 - pos - q.len(), q.len() as int);
                }
                None => {
                    lemma_none_root(n, x, c);
                    lemma_lm_scan_opt(n, 0, None, hay, pos, p + 1);
                }
            }
        } else {
            lemma_lm_opos(n, x2, t);
            let o = opt_n(n.states@[t].output_pos);
            if o != 0 {
                let q = choose|q: Seq<u8>| is_suffix(q, x2) && #[trigger] rec_of(n, q, n.outputs@[o - 1]) && q.len() > 0 && within(n, x2, q.len() as int);
                assert(x2.skip(x2.len() - q.len()) =~= hay.subrange(p + 1 - q.len(), p as int + 1));
                assert(x2.subrange(x2.len() - q.len(), x2.len() as int) =~= q);
                assert(best(n, x2, x2.len() - q.len(), q.len() as int));
                assert(cand_best(n, hay, pos, (p + 1) as nat, Some((o, (p + 1) as nat))));
                lemma_lm_scan_opt(n, t, Some((o, (p + 1) as nat)), hay, pos, p + 1);
            } else {
                match last {
                    None => { lemma_none_keep(n, x, c); }
                    Some(ce) => {
                        let q = choose|q: Seq<u8>| #[trigger] rec_of(n, q, n.outputs@[ce.0 - 1]) && 0 < q.len() <= ce.1 - pos
                            && hay.subrange(ce.1 - q.len(), ce.1 as int) == q && best(n, x, ce.1 - pos - q.len(), q.len() as int);
                        let st = ce.1 - pos - q.len(); let len = q.len() as int;
                        lemma_best_keep(n, x, c, st, len);
                        assert(best(n, x2, st, len));
                        assert(cand_best(n, hay, pos, (p + 1) as nat, last));
                    }
                }
                lemma_lm_scan_opt(n, t, last, hay, pos, p + 1);
            }
        }
    }
}
// the greedy leftmost tiling, as the property states it: each match is the occurrence with the smallest start at or after the end of the
// previous one and the longest at that start; the stream ends only when no occurrence is left
spec fn lm_optimal<V>(n: NfaBuilder<u8, V>, hay: Seq<u8>, pos: nat, ms: Seq<Match<V>>) -> bool
    decreases ms.len()
{
    if ms.len() == 0 { forall|st: int, len: int| !#[trigger] occ(n, hay.subrange(pos as int, hay.len() as int), st, len) } else { let m = ms[0];
        &&& pos < m.end <= hay.len() && m.length <= m.end - pos
        &&& best(n, hay.subrange(pos as int, hay.len() as int), m.end - m.length - pos, m.length as int)
        &&& m.value == reg_out(n, hay.subrange(m.end - m.length, m.end as int)).unwrap().0
        &&& lm_optimal(n, hay, m.end as nat, ms.skip(1)) }
}
// THEOREM (leftmost kinds, optimality): the NFA-level leftmost stream is the greedy leftmost-longest tiling over the registered patterns
proof fn theorem_lm_opt<V>(n: NfaBuilder<u8, V>, hay: Seq<u8>, pos: nat)
    requires optctx(n), lens_ok(n), pos <= hay.len() <= usize::MAX,
    ensures lm_optimal(n, hay, pos, nfa_lm_stream(n, hay, pos)),
    decreases hay.len() - pos,
{
    let x0 = hay.subrange(pos as int, pos as int);
    assert(pctx(n)) by { reveal(optctx); }
    lemma_pctx_len(n);
    w_opt(n, 0);
    assert(path(n, 0).len() == 0);
    assert(is_suffix(path(n, 0), x0));
    assert(lsn(n, 0, x0));
    lemma_lm_scan_opt(n, 0, None, hay, pos, pos);
    let full = hay.subrange(pos as int, hay.len() as int);
    match nfa_lm_scan(n, 0, None, hay, pos) {
        None => { },
        Some(ce) => {
            let q = choose|q: Seq<u8>| #[trigger] rec_of(n, q, n.outputs@[ce.0 - 1]) && 0 < q.len() <= ce.1 - pos
                && hay.subrange(ce.1 - q.len(), ce.1 as int) == q && best(n, full, ce.1 - pos - q.len(), q.len() as int);
            let m = mk_match(n.outputs@[ce.0 - 1], ce.1);
            let ms = nfa_lm_stream(n, hay, pos);
            assert(ms[0] == m);
            assert(ms.skip(1) =~= nfa_lm_stream(n, hay, ce.1));
            theorem_lm_opt(n, hay, ce.1);
            assert(is_registered(n, q));
            assert(m.length == q.len());
            assert(m.end == ce.1);
        },
    }
}
// from what build_with_values promises about its trie (clauses of its postcondition for the leftmost kinds) to the optimal tiling
proof fn theorem_lm_opt_post<V>(n: NfaBuilder<u8, V>, hay: Seq<u8>)
    requires nfa_tree(n), trie_ok(n), nfa_links(n, true), lm_opt_facts(n), add_inv(n), hay.len() <= usize::MAX,
    ensures lm_optimal(n, hay, 0, nfa_lm_stream(n, hay, 0)),
{
    assert(optctx(n)) by { reveal(optctx); reveal(lm_opt_facts); reveal(pctx); }
    lemma_lens_from_add_inv(n);
    theorem_lm_opt(n, hay, 0);
}
