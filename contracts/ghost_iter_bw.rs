// ---- ghost vocabulary for the byte-wise iterators: spec streams over the DA ----
//@include ghost_chain.rs
//@include ghost_outs_bw.rs

// all matches the overlapping search still has to report from state s with `rest` unread, k bytes read
spec fn ovl_scan<V>(st: Seq<State>, outs: Seq<Output<V>>, s: int, rest: Seq<u8>, k: nat) -> Seq<Match<V>>
    decreases rest.len()
{
    if rest.len() == 0 { Seq::empty() } else {
        let t = bw_delta(st, s, rest[0]);
        chain(outs, st_opos(st[t]) as nat, k + 1) + ovl_scan(st, outs, t, rest.skip(1), k + 1)
    }
}

spec fn head_match<V>(st: Seq<State>, outs: Seq<Output<V>>, t: int, end: nat) -> Match<V> {
    mk_match(outs[st_opos(st[t]) - 1], end)
}

spec fn nosuf_scan<V>(st: Seq<State>, outs: Seq<Output<V>>, s: int, rest: Seq<u8>, k: nat) -> Seq<Match<V>>
    decreases rest.len()
{
    if rest.len() == 0 { Seq::empty() } else {
        let t = bw_delta(st, s, rest[0]);
        (if st_opos(st[t]) == 0 { Seq::empty() } else { seq![head_match(st, outs, t, k + 1)] })
            + nosuf_scan(st, outs, t, rest.skip(1), k + 1)
    }
}

// first reporting position of a scan started in state s: (bytes consumed by then, state reached)
spec fn find_first(st: Seq<State>, s: int, rest: Seq<u8>, n: nat) -> Option<(nat, int)>
    decreases rest.len()
{
    if rest.len() == 0 { None } else {
        let t = bw_delta(st, s, rest[0]);
        if st_opos(st[t]) != 0 { Some((n + 1, t)) } else { find_first(st, t, rest.skip(1), n + 1) }
    }
}

spec fn find_stream<V>(st: Seq<State>, outs: Seq<Output<V>>, rest: Seq<u8>, k: nat) -> Seq<Match<V>>
    decreases rest.len()
{
    match find_first(st, 0, rest, 0) {
        None => Seq::empty(),
        Some(p) => if p.0 == 0 || p.0 > rest.len() { Seq::empty() } else {
            seq![head_match(st, outs, p.1, k + p.0)] + find_stream(st, outs, rest.skip(p.0 as int), k + p.0)
        },
    }
}

// the automaton as a whole, as the iterators need it
spec fn pma_ok<V>(pma: &DoubleArrayAhoCorasick<V>, lm: bool) -> bool {
    bw_wf(pma.states@, lm) && outs_ok(pma.states@, pma.outputs@)
}

spec fn src_ok<P: Iterator<Item = u8>>(h: core::iter::Enumerate<P>) -> bool {
    enum_count(h) + enum_rest(h).len() < usize::MAX
}

// leftmost scan from state s at byte p with candidate `last` = (output position, end): the candidate
// that is reported when the automaton falls back to the root or the haystack ends
spec fn lm_scan(st: Seq<State>, s: int, last: Option<(nat, nat)>, hay: Seq<u8>, p: nat) -> Option<(nat, nat)>
    decreases hay.len() - p
{
    if p >= hay.len() { last } else {
        let t = bw_delta_lm(st, s, hay[p as int]);
        if t == 0 { if last.is_some() { last } else { lm_scan(st, 0, None, hay, p + 1) } }
        else if st_opos(st[t]) != 0 { lm_scan(st, t, Some((st_opos(st[t]) as nat, p + 1)), hay, p + 1) }
        else { lm_scan(st, t, last, hay, p + 1) }
    }
}

spec fn lm_stream<V>(st: Seq<State>, outs: Seq<Output<V>>, hay: Seq<u8>, pos: nat) -> Seq<Match<V>>
    decreases hay.len() - pos
{
    match lm_scan(st, 0, None, hay, pos) {
        None => Seq::empty(),
        Some(p) => if p.1 <= pos || p.1 > hay.len() || p.0 == 0 || p.0 > outs.len() { Seq::empty() } else {
            seq![mk_match(outs[p.0 - 1], p.1)] + lm_stream(st, outs, hay, p.1)
        },
    }
}
