// ---- trusted: Vec::shrink_to_fit (needs #![feature(allocator_api)] in the unit) ----
pub assume_specification<T, A: core::alloc::Allocator>[Vec::<T, A>::shrink_to_fit](v: &mut Vec<T, A>)
    ensures final(v)@ == old(v)@;
