// ---- the NFA-stage passes (nfa_builder.rs build_fails, build_fails_leftmost, build_outputs): vocabulary of their contract.
// The contract text itself is in pass_heads.inc: the unit pass_bw proves the real functions against it, the wrapper units use it
// through external_body stubs (a caller is checked against the callee's contract, not its body). ----
spec fn passes_frame<V>(a: NfaBuilder<u8, V>, b: NfaBuilder<u8, V>) -> bool {
    &&& b.states@.len() == a.states@.len()
    &&& forall|t: int| 0 <= t < a.states@.len() ==> (#[trigger] b.states@[t]).edges@ == a.states@[t].edges@ && b.states@[t].output == a.states@[t].output
    &&& b.len == a.len && b.match_kind == a.match_kind && b.skipped == a.skipped
}
spec fn fails_ok<V>(n: NfaBuilder<u8, V>, lm: bool) -> bool {
    &&& forall|s: int| 0 <= s < n.states@.len() ==> (#[trigger] n.states@[s]).fail < n.states@.len()
    &&& nfa_links(n, lm)
}
// breadth-first queue handed from the fail pass to the output pass
spec fn in_q(qs: Seq<u32>, t: int) -> bool { exists|i: int| 0 <= i < qs.len() && #[trigger] qs[i] == t }
spec fn queue_ok<V>(n: NfaBuilder<u8, V>, q: Seq<u32>) -> bool {
    &&& q.len() + 2 == n.states@.len() && q.len() > 0
    &&& forall|i: int| 0 <= i < q.len() ==> 2 <= #[trigger] q[i] < n.states@.len()
    // every state below the root exactly once, shallower states first
    &&& forall|i: int, j: int| 0 <= i < j < q.len() ==> q[i] != q[j]
    &&& forall|i: int, j: int| 0 <= i <= j < q.len() ==> nfa_depth(n, q[i] as int) <= nfa_depth(n, q[j] as int)
    &&& forall|s: int| 2 <= s < n.states@.len() ==> #[trigger] in_q(q, s)
}



// every fail link is dead or leads to a state whose path is a suffix of this state's path (all kinds)
spec fn fail_suffix<V>(n: NfaBuilder<u8, V>) -> bool {
    forall|s: int| 2 <= s < n.states@.len() ==> ({ let f = (#[trigger] n.states@[s]).fail as int; f == 1 || (0 <= f < n.states@.len() && is_suffix(path(n, f), path(n, s))) })
}
// leftmost fail links: dead, or (as for the standard kind) the state of the longest proper suffix of the path that is a trie node
spec fn lm_fail_ok<V>(n: NfaBuilder<u8, V>) -> bool {
    forall|s: int| 2 <= s < n.states@.len() ==> ((#[trigger] n.states@[s]).fail == 1 || fail_ok(n, s, n.states@[s].fail as int))
}
// the record r carries the value and the byte length registered for pattern q
spec fn rec_of<V>(n: NfaBuilder<u8, V>, q: Seq<u8>, r: Output<V>) -> bool {
    is_registered(n, q) && r.value == reg_out(n, q).unwrap().0 && r.length == reg_out(n, q).unwrap().1@
}
// the record a state's output position points to belongs to a registered pattern that is a suffix of the state's path (all kinds:
// this is what makes every match of the leftmost iterators, which report that record only, a true occurrence with its value)
spec fn opos_rec_ok<V>(n: NfaBuilder<u8, V>, outs: Seq<Output<V>>, s: int, o: nat) -> bool {
    o != 0 ==> o <= outs.len() && exists|q: Seq<u8>| is_suffix(q, path(n, s)) && #[trigger] rec_of(n, q, outs[o - 1])
}
spec fn opos_sound<V>(n: NfaBuilder<u8, V>) -> bool {
    forall|s: int| 0 <= s < n.states@.len() && s != 1 ==> opos_rec_ok(n, n.outputs@, s, opt_n((#[trigger] n.states@[s]).output_pos))
}
// the two soundness facts as one opaque atom (the wrappers only pass it on)
#[verifier::opaque]
spec fn sound_facts<V>(n: NfaBuilder<u8, V>) -> bool { fail_suffix(n) && opos_sound(n) }
proof fn lemma_sound_facts_intro<V>(n: NfaBuilder<u8, V>)
    requires fail_suffix(n), opos_sound(n),
    ensures sound_facts(n),
{ reveal(sound_facts); }
// ---- leftmost kinds: what a dead fail link means (label-generic; included with u8 -> char for the char-wise units) ----
// an occurrence of a registered pattern inside x: x[st .. st+len]
spec fn occ<V>(n: NfaBuilder<u8, V>, x: Seq<u8>, st: int, len: int) -> bool {
    0 <= st && 0 < len && st + len <= x.len() && is_registered(n, x.subrange(st, st + len))
}
// every occurrence inside x lies in the last k symbols of x
spec fn within<V>(n: NfaBuilder<u8, V>, x: Seq<u8>, k: int) -> bool {
    forall|st: int, len: int| #[trigger] occ(n, x, st, len) ==> st >= x.len() - k
}
// the occurrence (st, len) inside path(s) starts before every proper suffix of path(s) that is a trie node
spec fn dead_wit<V>(n: NfaBuilder<u8, V>, s: int, st: int, len: int) -> bool {
    &&& occ(n, path(n, s), st, len)
    &&& forall|q: Seq<u8>| is_suffix(q, path(n, s)) && q.len() < path(n, s).len() && #[trigger] t_node(n, q) ==> st < path(n, s).len() - q.len()
}
// "nothing that is still running can beat a match already seen": falling back from s would lose an occurrence
spec fn dead_sem<V>(n: NfaBuilder<u8, V>, s: int) -> bool { exists|st: int, len: int| #[trigger] dead_wit(n, s, st, len) }
// the link f of s while the pass is running: dead only if dead_sem; a live link of a state without output only if !dead_sem
spec fn lm_dead_link<V>(n: NfaBuilder<u8, V>, s: int, f: int) -> bool {
    &&& f == 1 ==> dead_sem(n, s)
    &&& f != 1 ==> (dead_sem(n, s) ==> n.states@[s].output.is_some())
}
// the finished pass: a link is dead exactly if dead_sem
#[verifier::opaque]
spec fn lm_dead_ok<V>(n: NfaBuilder<u8, V>) -> bool {
    forall|s: int| 2 <= s < n.states@.len() ==> (((#[trigger] n.states@[s]).fail == 1) <==> dead_sem(n, s))
}
proof fn lemma_lm_dead_get<V>(n: NfaBuilder<u8, V>, s: int)
    requires lm_dead_ok(n), 2 <= s < n.states@.len(),
    ensures (n.states@[s].fail == 1) <==> dead_sem(n, s),
{ reveal(lm_dead_ok); }
// the output position of s (read from b; outputs and links of n): a record carrying its own (value, length) if s has an output, otherwise
// the position of its fail target (all kinds; under the leftmost kinds this is how a running match inherits a candidate)
spec fn inh_at<V>(n: NfaBuilder<u8, V>, b: NfaBuilder<u8, V>, s: int) -> bool {
    let o = opt_n(b.states@[s].output_pos); let f = n.states@[s].fail as int;
    match n.states@[s].output {
        Some(x) => o != 0 && o <= b.outputs@.len() && b.outputs@[o - 1].value == x.0 && b.outputs@[o - 1].length == x.1@,
        None => o == opt_n(b.states@[f].output_pos),
    }
}
#[verifier::opaque]
spec fn opos_inherit<V>(n: NfaBuilder<u8, V>) -> bool {
    &&& n.states@[0].output_pos.is_none() && n.states@[1].output_pos.is_none()
    &&& forall|s: int| 2 <= s < n.states@.len() ==> #[trigger] inh_at(n, n, s)
}
proof fn lemma_opos_inherit_get<V>(n: NfaBuilder<u8, V>, s: int)
    requires opos_inherit(n), 2 <= s < n.states@.len(),
    ensures inh_at(n, n, s), n.states@[0].output_pos.is_none(), n.states@[1].output_pos.is_none(),
{ reveal(opos_inherit); }
// the facts about the leftmost links and output positions from which the optimality of the leftmost stream follows (unit lm_opt_bw),
// as one opaque atom (the wrappers only pass it on)
#[verifier::opaque]
spec fn lm_opt_facts<V>(n: NfaBuilder<u8, V>) -> bool { lm_fail_ok(n) && lm_dead_ok(n) && opos_inherit(n) && nfa_outs_ok(n) }
proof fn lemma_lm_opt_facts_intro<V>(n: NfaBuilder<u8, V>)
    requires lm_fail_ok(n), lm_dead_ok(n), opos_inherit(n), nfa_outs_ok(n),
    ensures lm_opt_facts(n),
{ reveal(lm_opt_facts); }
// the trie built by `add` is the tree the double-array stage expects
proof fn lemma_trie_gives_tree<V>(n: NfaBuilder<u8, V>)
    requires trie_ok(n), reach_ok(n), n.states@.len() <= u32::MAX as nat + 1,
        forall|s: int| 0 <= s < n.states@.len() ==> (#[trigger] n.states@[s]).fail < n.states@.len(),
    ensures nfa_tree(n),
{
    let len = n.states@.len();
    assert forall|s: int| nfa_edges(n, s) == t_edges(n, s) by { }
    assert forall|c: u8| !nfa_edges(n, 1).contains_key(c) by { assert(!t_edges(n, 1).contains_key(c)); }
    assert forall|s: int, c: u8| 0 <= s < len && #[trigger] nfa_edges(n, s).contains_key(c) implies 2 <= nfa_edges(n, s)[c] < len && s < nfa_edges(n, s)[c] by {
        assert(t_edges(n, s).contains_key(c));
    }
    assert forall|t: int| 2 <= t < len implies nfa_parent_ok(n, t, #[trigger] nfa_parent(n, t)) by {
        reveal(reach_ok);
        assert(has_reach(n, t));
        let (q, k) = choose|q: Seq<u8>, k: int| reach_wit(n, t, q, k);
        let p = q.take(k);
        lemma_walk_range(n, p);
        let s = walk(n, p.drop_last()).unwrap();
        lemma_walk_range(n, p.drop_last());
        assert(t_edges(n, s).contains_key(p.last()) && t_edges(n, s)[p.last()] == t);
        assert(nfa_parent_ok(n, t, (s, p.last())));
    }
    assert forall|s: int, c: u8| 0 <= s < len && #[trigger] nfa_edges(n, s).contains_key(c) implies nfa_parent(n, nfa_edges(n, s)[c] as int) == (s, c) by {
        let t = nfa_edges(n, s)[c] as int;
        assert(t_edges(n, s).contains_key(c));
        let p = nfa_parent(n, t);
        assert(nfa_parent_ok(n, t, p));
        assert(t_edges(n, p.0).contains_key(p.1));
    }
}
