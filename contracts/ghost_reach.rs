// ---- C15: every state of the trie is a non-empty prefix of a registered pattern (and, by lemma_walk_inj, of exactly
// one label sequence), and every non-empty prefix of a registered pattern has a state: states >= 2 <-> distinct prefixes ----
spec fn reach_wit<L, V>(n: NfaBuilder<L, V>, t: int, q: Seq<L>, k: int) -> bool {
    is_registered(n, q) && 0 < k <= q.len() && walk(n, q.take(k)) == Some(t)
}
spec fn has_reach<L, V>(n: NfaBuilder<L, V>, t: int) -> bool { exists|q: Seq<L>, k: int| reach_wit(n, t, q, k) }
#[verifier::opaque]
spec fn reach_ok<L, V>(n: NfaBuilder<L, V>) -> bool {
    forall|t: int| 2 <= t < n.states@.len() ==> #[trigger] has_reach(n, t)
}
// the states created so far by the running `add` are the states of the consumed prefixes of the pattern
spec fn mid_reach<L, V>(cur: NfaBuilder<L, V>, pat: Seq<L>, i: int, t: int) -> bool { exists|k: int| 0 < k <= i && walk(cur, pat.take(k)) == Some(t) }
#[verifier::opaque]
spec fn reach_mid<L, V>(n0: NfaBuilder<L, V>, cur: NfaBuilder<L, V>, pat: Seq<L>, i: int) -> bool {
    forall|t: int| n0.states@.len() <= t < cur.states@.len() ==> #[trigger] mid_reach(cur, pat, i, t)
}

proof fn lemma_reach_empty<L, V>(n: NfaBuilder<L, V>)
    requires n.states@.len() == 2,
    ensures reach_ok(n),
{ reveal(reach_ok); }

proof fn lemma_reach_mid_init<L, V>(n0: NfaBuilder<L, V>, pat: Seq<L>)
    ensures reach_mid(n0, n0, pat, 0),
{ reveal(reach_mid); }

proof fn lemma_reach_mid_follow<L, V>(n0: NfaBuilder<L, V>, cur: NfaBuilder<L, V>, pat: Seq<L>, i: int)
    requires reach_mid(n0, cur, pat, i),
    ensures reach_mid(n0, cur, pat, i + 1),
{
    reveal(reach_mid);
    assert forall|t: int| n0.states@.len() <= t < cur.states@.len() implies #[trigger] mid_reach(cur, pat, i + 1, t) by {
        assert(mid_reach(cur, pat, i, t));
        let k = choose|k: int| 0 < k <= i && walk(cur, pat.take(k)) == Some(t);
        assert(0 < k <= i + 1 && walk(cur, pat.take(k)) == Some(t));
    }
}

proof fn lemma_reach_mid_extend<L, V>(n0: NfaBuilder<L, V>, cur: NfaBuilder<L, V>, cur2: NfaBuilder<L, V>, pat: Seq<L>, i: int, sid: int)
    requires reach_mid(n0, cur, pat, i), add_mid(n0, cur, pat, i, sid), add_mid(n0, cur2, pat, i + 1, cur.states@.len() as int),
        i < pat.len(), !t_edges(cur, sid).contains_key(pat[i]), extended(cur, cur2, sid, pat[i]),
    ensures reach_mid(n0, cur2, pat, i + 1),
{
    reveal(reach_mid);
    lemma_add_mid_facts(n0, cur, pat, i, sid);
    lemma_add_mid_facts(n0, cur2, pat, i + 1, cur.states@.len() as int);
    assert forall|t: int| n0.states@.len() <= t < cur2.states@.len() implies #[trigger] mid_reach(cur2, pat, i + 1, t) by {
        if t < cur.states@.len() {
            assert(mid_reach(cur, pat, i, t));
            let k = choose|k: int| 0 < k <= i && walk(cur, pat.take(k)) == Some(t);
            lemma_extend_mono(cur, cur2, sid, pat[i], pat.take(k));
            assert(0 < k <= i + 1 && walk(cur2, pat.take(k)) == Some(t));
        } else {
            assert(0 < i + 1 <= i + 1 && walk(cur2, pat.take(i + 1)) == Some(t));
        }
    }
}

// same states => same reachability
proof fn lemma_reach_same_states<L, V>(a: NfaBuilder<L, V>, b: NfaBuilder<L, V>)
    requires reach_ok(a), a.states@ == b.states@,
    ensures reach_ok(b),
{
    reveal(reach_ok);
    assert forall|t: int| 2 <= t < b.states@.len() implies #[trigger] has_reach(b, t) by {
        assert(has_reach(a, t));
        let (q, k) = choose|q: Seq<L>, k: int| reach_wit(a, t, q, k);
        lemma_walk_same_edges(a, b, q);
        lemma_walk_same_edges(a, b, q.take(k));
        assert(reach_wit(b, t, q, k));
    }
}

// a successful add: old states keep their witnesses, the new ones are prefixes of the new pattern
proof fn lemma_reach_finish<L: EdgeLabel, V>(n0: NfaBuilder<L, V>, cur: NfaBuilder<L, V>, fin: NfaBuilder<L, V>, pat: Seq<L>, sid: int, out: (V, NonZeroU32))
    requires reach_ok(n0), trie_ok(n0), reach_mid(n0, cur, pat, pat.len() as int), add_mid(n0, cur, pat, pat.len() as int, sid), pat.len() > 0,
        with_output(cur, fin, sid, out),
    ensures reach_ok(fin),
{
    reveal(reach_ok); reveal(reach_mid); reveal(add_mid);
    assert(pat.take(pat.len() as int) =~= pat);
    lemma_walk_range(cur, pat);
    assert forall|t: int| 0 <= t < cur.states@.len() implies #[trigger] t_edges(fin, t) == t_edges(cur, t) by { if t != sid { assert(fin.states@[t] == cur.states@[t]); } }
    assert forall|q: Seq<L>| walk(fin, q) == walk(cur, q) by { lemma_walk_same_edges(fin, cur, q); }
    assert(is_registered(fin, pat));
    assert forall|t: int| 2 <= t < fin.states@.len() implies #[trigger] has_reach(fin, t) by {
        if t < n0.states@.len() {
            assert(has_reach(n0, t));
            let (q, k) = choose|q: Seq<L>, k: int| reach_wit(n0, t, q, k);
            lemma_walk_range(n0, q);
            let e = walk(n0, q).unwrap();
            assert(walk(cur, q) == walk(n0, q) && walk(cur, q.take(k)) == walk(n0, q.take(k)));
            assert(fin.states@[e].output.is_some()) by { if e != sid { assert(fin.states@[e] == cur.states@[e]); } }
            assert(reach_wit(fin, t, q, k));
        } else {
            assert(mid_reach(cur, pat, pat.len() as int, t));
            let k = choose|k: int| 0 < k <= pat.len() && walk(cur, pat.take(k)) == Some(t);
            assert(reach_wit(fin, t, pat, k));
        }
    }
}

// the converse direction needs no invariant: every prefix of a walkable sequence is walkable
proof fn lemma_prefix_has_state<L, V>(n: NfaBuilder<L, V>, q: Seq<L>, k: int)
    requires trie_ok(n), walk(n, q).is_some(), 0 < k <= q.len(),
    ensures walk(n, q.take(k)).is_some(), 2 <= walk(n, q.take(k)).unwrap() < n.states@.len(),
    decreases q.len() - k,
{
    if k < q.len() {
        lemma_prefix_has_state(n, q, k + 1);
        assert(q.take(k + 1).drop_last() =~= q.take(k));
    } else {
        assert(q.take(k) =~= q);
    }
    lemma_walk_range(n, q.take(k));
}

// under leftmost-first a pattern with an earlier-registered proper prefix is shadowed: recorded, never reported, not counted
spec fn add_shadowed<L, V>(n: NfaBuilder<L, V>, pat: Seq<L>) -> bool {
    n.match_kind is LeftmostFirst && exists|k: int| 0 <= k < pat.len() && is_registered(n, pat.take(k))
}
