// ---- C08 (standard kinds): on well-formed UTF-8 the property-level semantics over the decoded characters (what the char-wise
// searches are proved to report, ac_cw) equals the property-level semantics over the bytes (what the byte-wise searches are proved
// to report, ac_bw) for automata that register the same patterns with the same values.  The core is the self-synchronisation of
// UTF-8: an occurrence of an encoded pattern inside an encoded text starts and ends on character boundaries. ----

// the UTF-8 encoding of one scalar value (Unicode standard table 3-6)
spec fn enc1(v: u32) -> Seq<u8> {
    if v < 0x80 { seq![v as u8] }
    else if v < 0x800 { seq![(0xc0 | (v >> 6)) as u8, (0x80 | (v & 0x3f)) as u8] }
    else if v < 0x10000 { seq![(0xe0 | (v >> 12)) as u8, (0x80 | ((v >> 6) & 0x3f)) as u8, (0x80 | (v & 0x3f)) as u8] }
    else { seq![(0xf0 | (v >> 18)) as u8, (0x80 | ((v >> 12) & 0x3f)) as u8, (0x80 | ((v >> 6) & 0x3f)) as u8, (0x80 | (v & 0x3f)) as u8] }
}
// encoding followed by anything decodes (by the table the decoder is verified against) to the value, with the right width
proof fn lemma_enc1(v: u32, t: Seq<u8>)
    requires is_scalar(v),
    ensures ({ let e = enc1(v); let s = e + t;
        &&& 1 <= e.len() <= 4 && u8len(e[0]) == e.len()
        &&& !is_cont(e[0])
        &&& forall|i: int| 1 <= i < e.len() ==> is_cont(#[trigger] e[i])
        &&& u8first_ok(s) && u8code(s) == v }),
{
    let e = enc1(v); let s = e + t;
    if v < 0x80 {
        assert(s[0] == e[0]);
        assert((v as u8) < 0x80 && (v as u8) as u32 == v && (v as u8) & 0xc0 != 0x80) by(bit_vector) requires v < 0x80;
    } else if v < 0x800 {
        assert(s[0] == e[0] && s[1] == e[1]);
        let b0 = (0xc0 | (v >> 6)) as u8; let b1 = (0x80 | (v & 0x3f)) as u8;
        assert(0xc2 <= b0 && b0 < 0xe0 && b0 & 0xc0 != 0x80 && b1 & 0xc0 == 0x80
            && (((b0 & 0x1f) as u32) << 6 | (b1 & 0x3f) as u32) == v) by(bit_vector)
            requires 0x80 <= v < 0x800, b0 == (0xc0 | (v >> 6)) as u8, b1 == (0x80 | (v & 0x3f)) as u8;
    } else if v < 0x10000 {
        assert(s[0] == e[0] && s[1] == e[1] && s[2] == e[2]);
        let b0 = (0xe0 | (v >> 12)) as u8; let b1 = (0x80 | ((v >> 6) & 0x3f)) as u8; let b2 = (0x80 | (v & 0x3f)) as u8;
        assert(0xe0 <= b0 && b0 < 0xf0 && b0 & 0xc0 != 0x80 && b1 & 0xc0 == 0x80 && b2 & 0xc0 == 0x80
            && (((b0 & 0x0f) as u32) << 12 | ((b1 & 0x3f) as u32) << 6 | (b2 & 0x3f) as u32) == v) by(bit_vector)
            requires 0x800 <= v < 0x10000, b0 == (0xe0 | (v >> 12)) as u8, b1 == (0x80 | ((v >> 6) & 0x3f)) as u8, b2 == (0x80 | (v & 0x3f)) as u8;
    } else {
        assert(s[0] == e[0] && s[1] == e[1] && s[2] == e[2] && s[3] == e[3]);
        let b0 = (0xf0 | (v >> 18)) as u8; let b1 = (0x80 | ((v >> 12) & 0x3f)) as u8; let b2 = (0x80 | ((v >> 6) & 0x3f)) as u8; let b3 = (0x80 | (v & 0x3f)) as u8;
        assert(0xf0 <= b0 && b0 <= 0xf4 && b0 & 0xc0 != 0x80 && b1 & 0xc0 == 0x80 && b2 & 0xc0 == 0x80 && b3 & 0xc0 == 0x80
            && (((b0 & 0x07) as u32) << 18 | ((b1 & 0x3f) as u32) << 12 | ((b2 & 0x3f) as u32) << 6 | (b3 & 0x3f) as u32) == v) by(bit_vector)
            requires 0x10000 <= v <= 0x10ffff, b0 == (0xf0 | (v >> 18)) as u8, b1 == (0x80 | ((v >> 12) & 0x3f)) as u8, b2 == (0x80 | ((v >> 6) & 0x3f)) as u8, b3 == (0x80 | (v & 0x3f)) as u8;
    }
}

// the encoding of a character sequence
spec fn enc(cs: Seq<char>) -> Seq<u8>
    decreases cs.len()
{
    if cs.len() == 0 { Seq::empty() } else { enc1(cs[0] as u32) + enc(cs.skip(1)) }
}
proof fn lemma_char_scalar(c: char)
    ensures is_scalar(c as u32), char_of(c as u32) == c,
{
}
// decoding the first character of an encoding
proof fn lemma_enc_step(cs: Seq<char>)
    requires cs.len() > 0,
    ensures ({ let r = enc(cs); let w = u8len(r[0]);
        &&& r.len() > 0 && w == enc1(cs[0] as u32).len() && w <= r.len() && !is_cont(r[0])
        &&& char_of(u8code(r)) == cs[0] && u8first_ok(r)
        &&& r.skip(w as int) == enc(cs.skip(1))
        &&& forall|i: int| 1 <= i < w ==> is_cont(#[trigger] r[i]) }),
{
    let e = enc1(cs[0] as u32); let t = enc(cs.skip(1));
    lemma_char_scalar(cs[0]);
    lemma_enc1(cs[0] as u32, t);
    let r = e + t;
    assert(r[0] == e[0]);
    assert(r.skip(e.len() as int) =~= t);
    assert forall|i: int| 1 <= i < e.len() implies is_cont(#[trigger] r[i]) by { assert(r[i] == e[i]); }
}
proof fn lemma_enc_ok(cs: Seq<char>)
    ensures utf8_ok(enc(cs)),
    decreases cs.len(),
{
    if cs.len() > 0 {
        lemma_enc_step(cs);
        lemma_enc_ok(cs.skip(1));
    }
}
proof fn lemma_enc_single(c: char)
    ensures enc(seq![c]) == enc1(c as u32),
{
    let one = seq![c];
    assert(one[0] == c);
    assert(one.skip(1).len() == 0);
    assert(enc(one.skip(1)) =~= Seq::<u8>::empty());
    assert(enc(one) =~= enc1(c as u32) + Seq::<u8>::empty());
    assert(enc1(c as u32) + Seq::<u8>::empty() =~= enc1(c as u32));
}
proof fn lemma_enc_concat(a: Seq<char>, b: Seq<char>)
    ensures enc(a + b) == enc(a) + enc(b),
    decreases a.len(),
{
    if a.len() == 0 {
        assert(a + b =~= b);
        assert(enc(a) + enc(b) =~= enc(b));
    } else {
        let ab = a + b;
        assert(ab[0] == a[0]);
        assert(ab.skip(1) =~= a.skip(1) + b);
        lemma_enc_concat(a.skip(1), b);
        assert(enc1(a[0] as u32) + (enc(a.skip(1)) + enc(b)) =~= (enc1(a[0] as u32) + enc(a.skip(1))) + enc(b));
    }
}
// the recorded byte length of a character pattern is the length of its encoding
proof fn lemma_enc_len(cs: Seq<char>)
    ensures enc(cs).len() == byte_len(cs),
    decreases cs.len(),
{
    if cs.len() > 0 {
        lemma_enc_len(cs.drop_last());
        lemma_enc_concat(cs.drop_last(), seq![cs.last()]);
        assert(cs.drop_last() + seq![cs.last()] =~= cs);
        lemma_enc_single(cs.last());
        lemma_char_scalar(cs.last());
        lemma_enc1(cs.last() as u32, Seq::empty());
    }
}
// lock-step decoding: an encoding that is a prefix of an encoding comes from a prefix of the characters
proof fn lemma_enc_prefix(p: Seq<char>, b: Seq<char>)
    requires enc(p).len() <= enc(b).len(), enc(b).take(enc(p).len() as int) == enc(p),
    ensures p.len() <= b.len(), b.take(p.len() as int) == p,
    decreases p.len(),
{
    if p.len() == 0 {
        assert(b.take(0) =~= p);
    } else {
        lemma_enc_step(p);
        let ep = enc(p); let eb = enc(b);
        assert(eb.len() > 0);
        if b.len() == 0 { assert(eb.len() == 0); }
        lemma_enc_step(b);
        assert(eb[0] == ep[0]) by { assert(eb.take(ep.len() as int)[0] == ep[0]); }
        let w = u8len(ep[0]);
        // the first characters coincide: same bytes, same decoding
        assert(u8code(eb) == u8code(ep)) by {
            assert forall|i: int| 0 <= i < w implies eb[i] == ep[i] by { assert(eb.take(ep.len() as int)[i] == ep[i]); }
        }
        assert(b[0] == p[0]);
        assert(eb.skip(w as int).take(ep.skip(w as int).len() as int) =~= ep.skip(w as int)) by {
            assert forall|i: int| 0 <= i < ep.len() - w implies eb.skip(w as int)[i] == ep.skip(w as int)[i] by { assert(eb.take(ep.len() as int)[i + w] == ep[i + w]); }
        }
        lemma_enc_prefix(p.skip(1), b.skip(1));
        assert(b.take(p.len() as int) =~= p) by {
            assert forall|i: int| 0 <= i < p.len() implies b[i] == p[i] by {
                if i > 0 { assert(b.skip(1).take(p.skip(1).len() as int)[i - 1] == p.skip(1)[i - 1]); }
            }
        }
    }
}
proof fn lemma_enc_inj(a: Seq<char>, b: Seq<char>)
    requires enc(a) == enc(b),
    ensures a == b,
{
    assert(enc(b).take(enc(a).len() as int) =~= enc(a));
    lemma_enc_prefix(a, b);
    assert(enc(a).take(enc(b).len() as int) =~= enc(b));
    lemma_enc_prefix(b, a);
    assert(a =~= b);
}
// a byte of an encoding that is not a continuation byte starts a character
proof fn lemma_noncont_boundary(cs: Seq<char>, x: int)
    requires 0 <= x < enc(cs).len(), !is_cont(enc(cs)[x]),
    ensures exists|i: int| 0 <= i < cs.len() && #[trigger] enc(cs.take(i)).len() == x,
    decreases cs.len(),
{
    if cs.len() == 0 { } else {
        lemma_enc_step(cs);
        let r = enc(cs); let w = u8len(r[0]) as int;
        if x < w {
            assert(x == 0);
            assert(cs.take(0).len() == 0);
            assert(enc(cs.take(0)).len() == 0);
        } else {
            assert(r.skip(w)[x - w] == r[x]);
            lemma_noncont_boundary(cs.skip(1), x - w);
            let i = choose|i: int| 0 <= i < cs.skip(1).len() && #[trigger] enc(cs.skip(1).take(i)).len() == x - w;
            assert(cs.take(i + 1) =~= seq![cs[0]] + cs.skip(1).take(i));
            lemma_enc_concat(seq![cs[0]], cs.skip(1).take(i));
            lemma_enc_single(cs[0]);
            assert(enc(cs.take(i + 1)).len() == x);
        }
    }
}

// ---- the two automata register the same patterns: as characters / as the encodings of those characters, with the same (value, byte length) ----
spec fn corr<V>(nb: NfaBuilder<u8, V>, nc: NfaBuilder<char, V>) -> bool {
    &&& forall|pc: Seq<char>| #[trigger] is_registered(nc, pc) ==> is_registered(nb, enc(pc)) && reg_out(nb, enc(pc)).unwrap().0 == reg_out(nc, pc).unwrap().0
            && reg_out(nb, enc(pc)).unwrap().1@ == reg_out(nc, pc).unwrap().1@
    &&& forall|pb: Seq<u8>| #[trigger] is_registered(nb, pb) ==> exists|pc: Seq<char>| is_registered(nc, pc) && #[trigger] enc(pc) == pb
    &&& !is_registered(nb, Seq::<u8>::empty()) && !is_registered(nc, Seq::<char>::empty())
}
// byte offset of the i-th character boundary
spec fn off(cs: Seq<char>, i: int) -> nat { enc(cs.take(i)).len() }
spec fn is_boundary(cs: Seq<char>, y: int) -> bool { exists|j: int| 0 <= j <= cs.len() && #[trigger] off(cs, j) == y }

proof fn lemma_off_step(cs: Seq<char>, i: int)
    requires 0 <= i < cs.len(),
    ensures off(cs, i + 1) == off(cs, i) + enc1(cs[i] as u32).len(), off(cs, i + 1) > off(cs, i),
        enc(cs) == enc(cs.take(i)) + enc(cs.skip(i)), enc(cs).skip(off(cs, i) as int) == enc(cs.skip(i)),
        enc(cs).take(off(cs, i) as int) == enc(cs.take(i)),
{
    assert(cs.take(i + 1) =~= cs.take(i) + seq![cs[i]]);
    lemma_enc_concat(cs.take(i), seq![cs[i]]);
    lemma_enc_single(cs[i]);
    lemma_char_scalar(cs[i]);
    lemma_enc1(cs[i] as u32, Seq::empty());
    assert(cs =~= cs.take(i) + cs.skip(i));
    lemma_enc_concat(cs.take(i), cs.skip(i));
    assert((enc(cs.take(i)) + enc(cs.skip(i))).skip(off(cs, i) as int) =~= enc(cs.skip(i)));
    assert((enc(cs.take(i)) + enc(cs.skip(i))).take(off(cs, i) as int) =~= enc(cs.take(i)));
}
proof fn lemma_off_bounds(cs: Seq<char>, i: int)
    requires 0 <= i <= cs.len(),
    ensures off(cs, i) <= enc(cs).len(), i == cs.len() ==> off(cs, i) == enc(cs).len(), off(cs, 0) == 0,
        enc(cs).take(off(cs, i) as int) == enc(cs.take(i)), enc(cs).skip(off(cs, i) as int) == enc(cs.skip(i)),
{
    assert(cs =~= cs.take(i) + cs.skip(i));
    lemma_enc_concat(cs.take(i), cs.skip(i));
    assert((enc(cs.take(i)) + enc(cs.skip(i))).skip(off(cs, i) as int) =~= enc(cs.skip(i)));
    assert((enc(cs.take(i)) + enc(cs.skip(i))).take(off(cs, i) as int) =~= enc(cs.take(i)));
    if i == cs.len() { assert(cs.take(i) =~= cs); }
    assert(cs.take(0).len() == 0);
}
proof fn lemma_off_mono(cs: Seq<char>, i: int, j: int)
    requires 0 <= i <= j <= cs.len(),
    ensures off(cs, i) <= off(cs, j), i < j ==> off(cs, i) < off(cs, j),
    decreases j - i,
{
    if i < j {
        lemma_off_mono(cs, i, j - 1);
        lemma_off_step(cs, j - 1);
    }
}
// strictly between two consecutive boundaries there is no boundary
proof fn lemma_between_not_boundary(cs: Seq<char>, j: int, y: int)
    requires 0 <= j < cs.len(), off(cs, j) < y < off(cs, j + 1),
    ensures !is_boundary(cs, y),
{
    if is_boundary(cs, y) {
        let i = choose|i: int| 0 <= i <= cs.len() && #[trigger] off(cs, i) == y;
        if i <= j { lemma_off_mono(cs, i, j); } else { lemma_off_mono(cs, j + 1, i); }
    }
}

// a registered byte pattern is the encoding of a non-empty character pattern: it does not start with a continuation byte
proof fn lemma_reg_starts_char<V>(nb: NfaBuilder<u8, V>, nc: NfaBuilder<char, V>, s: Seq<u8>)
    requires corr(nb, nc), is_registered(nb, s),
    ensures s.len() > 0, !is_cont(s[0]), exists|pc: Seq<char>| pc.len() > 0 && is_registered(nc, pc) && #[trigger] enc(pc) == s,
{
    let pc = choose|pc: Seq<char>| is_registered(nc, pc) && #[trigger] enc(pc) == s;
    if pc.len() == 0 { assert(pc =~= Seq::<char>::empty()); }
    lemma_enc_step(pc);
}
// registration of a suffix that starts on a boundary: the same on both sides, with the same report
proof fn lemma_reg_corr<V>(nb: NfaBuilder<u8, V>, nc: NfaBuilder<char, V>, w: Seq<char>, end: nat)
    requires corr(nb, nc),
    ensures is_registered(nb, enc(w)) == is_registered(nc, w), is_registered(nc, w) ==> reg_match(nb, enc(w), end) == reg_match(nc, w, end),
{
    if is_registered(nb, enc(w)) {
        let pc = choose|pc: Seq<char>| is_registered(nc, pc) && #[trigger] enc(pc) == enc(w);
        lemma_enc_inj(pc, w);
    }
}
// inside a character: nothing is registered, the byte-level suffix scan just moves on
proof fn lemma_skip_inside<V>(nb: NfaBuilder<u8, V>, nc: NfaBuilder<char, V>, p: Seq<u8>, x: int, x1: int, end: nat)
    requires corr(nb, nc), 0 <= x <= x1 <= p.len(), forall|y: int| x <= y < x1 ==> is_cont(#[trigger] p[y]),
    ensures suf_matches(nb, p, x as nat, end) == suf_matches(nb, p, x1 as nat, end),
    decreases x1 - x,
{
    if x < x1 {
        let s = p.skip(x);
        assert(s[0] == p[x]);
        if is_registered(nb, s) { lemma_reg_starts_char(nb, nc, s); }
        lemma_skip_inside(nb, nc, p, x + 1, x1, end);
        assert(suf_matches(nb, p, x as nat, end) =~= suf_matches(nb, p, (x + 1) as nat, end));
    }
}
// the suffix scans over a text that ends on a boundary agree
proof fn lemma_suf_corr<V>(nb: NfaBuilder<u8, V>, nc: NfaBuilder<char, V>, d: Seq<char>, i: int, end: nat)
    requires corr(nb, nc), 0 <= i <= d.len(),
    ensures suf_matches(nb, enc(d), off(d, i), end) == suf_matches(nc, d, i as nat, end),
    decreases d.len() - i,
{
    lemma_off_bounds(d, i);
    if i < d.len() {
        lemma_off_step(d, i);
        let p = enc(d); let x0 = off(d, i) as int; let x1 = off(d, i + 1) as int;
        let w = d.skip(i);
        assert(p.skip(x0) == enc(w));
        lemma_reg_corr(nb, nc, w, end);
        // the bytes after the first one of character i are continuation bytes
        lemma_enc_step(w);
        assert(w[0] == d[i]);
        assert forall|y: int| x0 + 1 <= y < x1 implies is_cont(#[trigger] p[y]) by {
            assert(p[y] == enc(w)[y - x0]) by { assert(p.skip(x0)[y - x0] == p[y]); }
        }
        lemma_off_bounds(d, i + 1);
        lemma_skip_inside(nb, nc, p, x0 + 1, x1, end);
        lemma_suf_corr(nb, nc, d, i + 1, end);
    }
}
// a text cut inside a character has no registered suffix
proof fn lemma_cut_none<V>(nb: NfaBuilder<u8, V>, nc: NfaBuilder<char, V>, hc: Seq<char>, e: int, x: int, end: nat)
    requires corr(nb, nc), 0 <= x <= e <= enc(hc).len(), !is_boundary(hc, e),
    ensures suf_matches(nb, enc(hc).take(e), x as nat, end) == Seq::<Match<V>>::empty(),
    decreases e - x,
{
    let h = enc(hc); let p = h.take(e);
    if x < e {
        let s = p.skip(x);
        if is_registered(nb, s) {
            lemma_reg_starts_char(nb, nc, s);
            let pc = choose|pc: Seq<char>| pc.len() > 0 && is_registered(nc, pc) && #[trigger] enc(pc) == s;
            assert(s[0] == h[x]);
            lemma_noncont_boundary(hc, x);
            let i = choose|i: int| 0 <= i < hc.len() && #[trigger] enc(hc.take(i)).len() == x;
            assert(off(hc, i) == x);
            lemma_off_bounds(hc, i);
            let tail = hc.skip(i);
            // enc(pc) is a prefix of enc(tail)
            assert(enc(tail) == h.skip(x));
            assert(enc(tail).take(s.len() as int) =~= s);
            lemma_enc_prefix(pc, tail);
            // so the occurrence ends on the boundary after i + |pc| characters
            let j = i + pc.len();
            assert(hc.take(j) =~= hc.take(i) + tail.take(pc.len() as int));
            lemma_enc_concat(hc.take(i), pc);
            assert(off(hc, j) == e);
            assert(is_boundary(hc, e));
        }
        lemma_cut_none(nb, nc, hc, e, x + 1, end);
        assert(suf_matches(nb, p, x as nat, end) =~= suf_matches(nb, p, (x + 1) as nat, end));
    }
}

// ---- C01 / C05 on UTF-8: the byte-level and the character-level semantics coincide ----
// the byte-level scan passes the ends inside character j without reporting
proof fn lemma_ovl_inside<V>(nb: NfaBuilder<u8, V>, nc: NfaBuilder<char, V>, hc: Seq<char>, j: int, k: int)
    requires corr(nb, nc), 0 <= j < hc.len(), off(hc, j) <= k < off(hc, j + 1),
    ensures sem_ovl(nb, enc(hc), k as nat) == suf_matches(nb, enc(hc).take(off(hc, j + 1) as int), 0, off(hc, j + 1)) + sem_ovl(nb, enc(hc), off(hc, j + 1)),
        sem_nosuf(nb, enc(hc), k as nat) == first_of(suf_matches(nb, enc(hc).take(off(hc, j + 1) as int), 0, off(hc, j + 1))) + sem_nosuf(nb, enc(hc), off(hc, j + 1)),
    decreases off(hc, j + 1) - k,
{
    let h = enc(hc);
    lemma_off_bounds(hc, j + 1);
    if k + 1 < off(hc, j + 1) {
        lemma_between_not_boundary(hc, j, k + 1);
        lemma_cut_none(nb, nc, hc, k + 1, 0, (k + 1) as nat);
        lemma_ovl_inside(nb, nc, hc, j, k + 1);
        assert(Seq::<Match<V>>::empty() + sem_ovl(nb, h, (k + 1) as nat) =~= sem_ovl(nb, h, (k + 1) as nat));
        assert(first_of(Seq::<Match<V>>::empty()) + sem_nosuf(nb, h, (k + 1) as nat) =~= sem_nosuf(nb, h, (k + 1) as nat));
    }
}
proof fn theorem_c08_ovl_nosuf_from<V>(nb: NfaBuilder<u8, V>, nc: NfaBuilder<char, V>, hc: Seq<char>, j: int)
    requires corr(nb, nc), 0 <= j <= hc.len(),
    ensures sem_ovl_cw(nc, hc.take(j), enc(hc.skip(j)), off(hc, j)) == sem_ovl(nb, enc(hc), off(hc, j)),
        sem_nosuf_cw(nc, hc.take(j), enc(hc.skip(j)), off(hc, j)) == sem_nosuf(nb, enc(hc), off(hc, j)),
    decreases hc.len() - j,
{
    let h = enc(hc);
    lemma_off_bounds(hc, j);
    if j < hc.len() {
        let tail = hc.skip(j);
        let rest = enc(tail);
        lemma_enc_step(tail);
        lemma_off_step(hc, j);
        let w = u8len(rest[0]);
        assert(tail[0] == hc[j]);
        let d2 = hc.take(j).push(hc[j]);
        assert(d2 =~= hc.take(j + 1));
        assert(tail.skip(1) =~= hc.skip(j + 1));
        assert(off(hc, j) + w == off(hc, j + 1));
        // the byte-level side: nothing at the ends inside character j, then the end after it
        lemma_ovl_inside(nb, nc, hc, j, off(hc, j) as int);
        lemma_off_bounds(hc, j + 1);
        lemma_off_bounds(hc.take(j + 1), 0);
        lemma_suf_corr(nb, nc, hc.take(j + 1), 0, off(hc, j + 1));
        theorem_c08_ovl_nosuf_from(nb, nc, hc, j + 1);
    } else {
        assert(hc.skip(j).len() == 0);
    }
}
// THEOREM (C08, overlapping and no-suffix searches): for a haystack that is the UTF-8 encoding of hc
proof fn theorem_c08_ovl_nosuf<V>(nb: NfaBuilder<u8, V>, nc: NfaBuilder<char, V>, hc: Seq<char>)
    requires corr(nb, nc),
    ensures sem_ovl_cw(nc, Seq::<char>::empty(), enc(hc), 0) == sem_ovl(nb, enc(hc), 0),
        sem_nosuf_cw(nc, Seq::<char>::empty(), enc(hc), 0) == sem_nosuf(nb, enc(hc), 0),
{
    theorem_c08_ovl_nosuf_from(nb, nc, hc, 0);
    lemma_off_bounds(hc, 0);
    assert(hc.take(0) =~= Seq::<char>::empty());
    assert(hc.skip(0) =~= hc);
}

// ---- C02 on UTF-8: the non-overlapping search ----
// the byte-level search for the first reporting end passes the ends inside character j
proof fn lemma_first_inside<V>(nb: NfaBuilder<u8, V>, nc: NfaBuilder<char, V>, rc: Seq<char>, j: int, from: int)
    requires corr(nb, nc), 0 <= j < rc.len(), off(rc, j) < from <= off(rc, j + 1),
    ensures sem_first(nb, enc(rc), from as nat) == sem_first(nb, enc(rc), off(rc, j + 1)),
    decreases off(rc, j + 1) - from,
{
    lemma_off_bounds(rc, j + 1);
    if from < off(rc, j + 1) {
        lemma_between_not_boundary(rc, j, from);
        lemma_cut_none(nb, nc, rc, from, 0, from as nat);
        lemma_first_inside(nb, nc, rc, j, from + 1);
    }
}
// what the two searches for the first reporting end return, from the j-th boundary on
spec fn first_rel(rc: Seq<char>, a: Option<(nat, Seq<char>)>, b: Option<nat>) -> bool {
    match a {
        None => b.is_none(),
        Some(p) => b == Some(p.0) && exists|i: int| 0 < i <= rc.len() && p.1 == rc.take(i) && #[trigger] off(rc, i) == p.0,
    }
}
proof fn lemma_first_corr<V>(nb: NfaBuilder<u8, V>, nc: NfaBuilder<char, V>, rc: Seq<char>, j: int)
    requires corr(nb, nc), 0 <= j <= rc.len(),
    ensures first_rel(rc, sem_first_cw(nc, rc.take(j), enc(rc.skip(j)), off(rc, j)), sem_first(nb, enc(rc), off(rc, j) + 1)),
    decreases rc.len() - j,
{
    let h = enc(rc);
    lemma_off_bounds(rc, j);
    if j < rc.len() {
        let tail = rc.skip(j);
        let rest = enc(tail);
        lemma_enc_step(tail);
        lemma_off_step(rc, j);
        let w = u8len(rest[0]);
        assert(tail[0] == rc[j]);
        let d2 = rc.take(j).push(rc[j]);
        assert(d2 =~= rc.take(j + 1));
        assert(tail.skip(1) =~= rc.skip(j + 1));
        let e = off(rc, j + 1);
        assert(off(rc, j) + w == e);
        lemma_first_inside(nb, nc, rc, j, off(rc, j) as int + 1);
        lemma_off_bounds(rc, j + 1);
        lemma_off_bounds(rc.take(j + 1), 0);
        lemma_suf_corr(nb, nc, rc.take(j + 1), 0, e);
        lemma_suf_len(nc, d2, 0, 0, e);
        if suf_matches(nc, d2, 0, 0).len() > 0 {
            assert(sem_first(nb, h, e) == Some(e));
            assert(0 < j + 1 <= rc.len() && d2 == rc.take(j + 1) && off(rc, j + 1) == e);
        } else {
            lemma_first_corr(nb, nc, rc, j + 1);
        }
    } else {
        assert(rc.skip(j).len() == 0);
    }
}
// THEOREM (C08, non-overlapping search)
proof fn theorem_c08_find<V>(nb: NfaBuilder<u8, V>, nc: NfaBuilder<char, V>, rc: Seq<char>, k: nat)
    requires corr(nb, nc),
    ensures sem_find_cw(nc, enc(rc), k) == sem_find(nb, enc(rc), k),
    decreases rc.len(),
{
    let rest = enc(rc);
    lemma_first_corr(nb, nc, rc, 0);
    lemma_off_bounds(rc, 0);
    assert(rc.take(0) =~= Seq::<char>::empty());
    assert(rc.skip(0) =~= rc);
    match sem_first_cw(nc, Seq::<char>::empty(), rest, 0) {
        None => { },
        Some(p) => {
            let i = choose|i: int| 0 < i <= rc.len() && p.1 == rc.take(i) && #[trigger] off(rc, i) == p.0;
            lemma_off_bounds(rc, i);
            lemma_off_mono(rc, 0, i);
            let cnt = p.0;
            assert(0 < cnt <= rest.len());
            lemma_off_bounds(rc.take(i), 0);
            lemma_suf_corr(nb, nc, rc.take(i), 0, k + cnt);
            assert(rest.take(cnt as int) == enc(rc.take(i)));
            assert(rest.skip(cnt as int) == enc(rc.skip(i)));
            theorem_c08_find(nb, nc, rc.skip(i), k + cnt);
        },
    }
}

// ---- from what the two build wrappers promise (regs, in their postconditions) to the correspondence ----
proof fn lemma_byte_len_bytes(p: Seq<u8>)
    ensures byte_len(p) == p.len(),
    decreases p.len(),
{
    if p.len() > 0 { lemma_byte_len_bytes(p.drop_last()); }
}
proof fn lemma_corr_from_regs<V>(nb: NfaBuilder<u8, V>, nc: NfaBuilder<char, V>, pcs: Seq<Seq<char>>, pbs: Seq<Seq<u8>>, vs: Seq<V>)
    requires regs(nc, pcs, vs), regs(nb, pbs, vs), pbs.len() == pcs.len(), forall|j: int| 0 <= j < pcs.len() ==> #[trigger] pbs[j] == enc(pcs[j]),
    ensures corr(nb, nc),
{
    assert forall|pc: Seq<char>| #[trigger] is_registered(nc, pc) implies is_registered(nb, enc(pc)) && reg_out(nb, enc(pc)).unwrap().0 == reg_out(nc, pc).unwrap().0
        && reg_out(nb, enc(pc)).unwrap().1@ == reg_out(nc, pc).unwrap().1@ by {
        let j = choose|j: int| 0 <= j < pcs.len() && #[trigger] pcs[j] == pc;
        assert(pbs[j] == enc(pc));
        assert(is_registered(nb, pbs[j]));
        lemma_enc_len(pc);
        lemma_byte_len_bytes(enc(pc));
    }
    assert forall|pb: Seq<u8>| #[trigger] is_registered(nb, pb) implies exists|pc: Seq<char>| is_registered(nc, pc) && #[trigger] enc(pc) == pb by {
        let j = choose|j: int| 0 <= j < pbs.len() && #[trigger] pbs[j] == pb;
        assert(pbs[j] == enc(pcs[j]));
        assert(is_registered(nc, pcs[j]));
    }
    assert(!is_registered(nb, Seq::<u8>::empty()) && !is_registered(nc, Seq::<char>::empty())) by {
        assert(walk(nb, Seq::<u8>::empty()) == Some(0int));
        assert(walk(nc, Seq::<char>::empty()) == Some(0int));
    }
}
// THEOREM C08 (standard searches): a byte-wise and a char-wise automaton built from the same patterns (as UTF-8 bytes / as characters)
// and the same values have the same property-level semantics on every haystack that is the UTF-8 encoding of a character sequence
proof fn theorem_c08<V>(nb: NfaBuilder<u8, V>, nc: NfaBuilder<char, V>, pcs: Seq<Seq<char>>, pbs: Seq<Seq<u8>>, vs: Seq<V>, hc: Seq<char>)
    requires regs(nc, pcs, vs), regs(nb, pbs, vs), pbs.len() == pcs.len(), forall|j: int| 0 <= j < pcs.len() ==> #[trigger] pbs[j] == enc(pcs[j]),
    ensures utf8_ok(enc(hc)),
        sem_ovl_cw(nc, Seq::<char>::empty(), enc(hc), 0) == sem_ovl(nb, enc(hc), 0),
        sem_nosuf_cw(nc, Seq::<char>::empty(), enc(hc), 0) == sem_nosuf(nb, enc(hc), 0),
        sem_find_cw(nc, enc(hc), 0) == sem_find(nb, enc(hc), 0),
{
    lemma_corr_from_regs(nb, nc, pcs, pbs, vs);
    lemma_enc_ok(hc);
    theorem_c08_ovl_nosuf(nb, nc, hc);
    theorem_c08_find(nb, nc, hc, 0);
}
