//@include ghost_c11_core.rs
proof fn lemma_lm_optimal_same<V>(n1: NfaBuilder<u8, V>, n2: NfaBuilder<u8, V>, hay: Seq<u8>, pos: nat, ms: Seq<Match<V>>)
    requires same_regs(n1, n2), lm_optimal(n1, hay, pos, ms),
    ensures lm_optimal(n2, hay, pos, ms),
    decreases ms.len(),
{
    let full = hay.subrange(pos as int, hay.len() as int);
    assert forall|a: int, b: int| occ(n1, full, a, b) == occ(n2, full, a, b) by { }
    if ms.len() > 0 {
        let m = ms[0];
        lemma_best_same(n1, n2, full, m.end - m.length - pos, m.length as int);
        assert(full.subrange(m.end - m.length - pos, m.end - m.length - pos + m.length) =~= hay.subrange(m.end - m.length, m.end as int));
        assert(is_registered(n1, hay.subrange(m.end - m.length, m.end as int)));
        lemma_lm_optimal_same(n1, n2, hay, m.end as nat, ms.skip(1));
    }
}
proof fn lemma_lm_optimal_unique<V>(n: NfaBuilder<u8, V>, hay: Seq<u8>, pos: nat, ms1: Seq<Match<V>>, ms2: Seq<Match<V>>)
    requires lm_optimal(n, hay, pos, ms1), lm_optimal(n, hay, pos, ms2), hay.len() <= usize::MAX,
    ensures ms1 == ms2,
    decreases ms1.len(),
{
    let full = hay.subrange(pos as int, hay.len() as int);
    if ms1.len() == 0 {
        if ms2.len() > 0 { let m = ms2[0]; assert(occ(n, full, m.end - m.length - pos, m.length as int)); assert(false); }
        assert(ms1 =~= ms2);
    } else {
        let m1 = ms1[0];
        assert(occ(n, full, m1.end - m1.length - pos, m1.length as int));
        if ms2.len() == 0 { assert(false); }
        let m2 = ms2[0];
        assert(occ(n, full, m2.end - m2.length - pos, m2.length as int));
        assert(m1.end - m1.length == m2.end - m2.length);
        assert(m1.length == m2.length);
        assert(m1.end == m2.end);
        assert(m1.value == m2.value);
        assert(m1 == m2);
        lemma_lm_optimal_unique(n, hay, m1.end as nat, ms1.skip(1), ms2.skip(1));
        assert(ms1 =~= seq![m1] + ms1.skip(1));
        assert(ms2 =~= seq![m2] + ms2.skip(1));
    }
}
// THEOREM (C11 and same-input determinism, leftmost kinds, byte-wise): equal input sequences give equal leftmost results
proof fn theorem_c11_lm<V>(n1: NfaBuilder<u8, V>, n2: NfaBuilder<u8, V>, ps: Seq<Seq<u8>>, vs: Seq<V>, hay: Seq<u8>)
    requires optctx(n1), optctx(n2), lens_ok(n1), lens_ok(n2), hay.len() <= usize::MAX,
        lf_inv(n1, ps, ps.len() as int), lf_inv(n2, ps, ps.len() as int), n1.match_kind == n2.match_kind, vals_are(n1, ps, vs), vals_are(n2, ps, vs),
    ensures nfa_lm_stream(n1, hay, 0) == nfa_lm_stream(n2, hay, 0),
{
    theorem_lm_opt(n1, hay, 0);
    theorem_lm_opt(n2, hay, 0);
    lemma_reg_same(n1, n2, ps, vs);
    lemma_lm_optimal_same(n1, n2, hay, 0, nfa_lm_stream(n1, hay, 0));
    lemma_lm_optimal_unique(n2, hay, 0, nfa_lm_stream(n1, hay, 0), nfa_lm_stream(n2, hay, 0));
}
