// ---- leftmost search at the level of the sparse NFA: transition, candidate scan, stream (shared by the simulation and the soundness units) ----
// leftmost transition of the sparse NFA: goto, else follow fail links; a dead fail link (or the root) means "back to the root"
spec fn nfa_nd_lm<V>(n: NfaBuilder<u8, V>, s: int, c: u8) -> int
    decreases nfa_depth(n, s)
    when nfa_tree(n) && nfa_links(n, true) && 0 <= s < n.states@.len() && s != 1
{
    if nfa_edges(n, s).contains_key(c) { nfa_edges(n, s)[c] as int }
    else if s == 0 || n.states@[s].fail == 1 { 0 }
    else { nfa_nd_lm(n, n.states@[s].fail as int, c) }
}
proof fn lemma_nd_lm_range<V>(n: NfaBuilder<u8, V>, s: int, c: u8)
    requires nfa_tree(n), nfa_links(n, true), 0 <= s < n.states@.len(), s != 1,
    ensures 0 <= nfa_nd_lm(n, s, c) < n.states@.len(), nfa_nd_lm(n, s, c) != 1,
    decreases nfa_depth(n, s),
{
    if nfa_edges(n, s).contains_key(c) { }
    else if s == 0 || n.states@[s].fail == 1 { }
    else { lemma_nd_lm_range(n, n.states@[s].fail as int, c); }
}
// the leftmost scan over the sparse NFA (same shape as lm_scan over the array)
spec fn nfa_lm_scan<V>(n: NfaBuilder<u8, V>, s: int, last: Option<(nat, nat)>, hay: Seq<u8>, p: nat) -> Option<(nat, nat)>
    decreases hay.len() - p
{
    if p >= hay.len() { last } else {
        let t = nfa_nd_lm(n, s, hay[p as int]);
        if t == 0 { if last.is_some() { last } else { nfa_lm_scan(n, 0, None, hay, p + 1) } }
        else if opt_n(n.states@[t].output_pos) != 0 { nfa_lm_scan(n, t, Some((opt_n(n.states@[t].output_pos), p + 1)), hay, p + 1) }
        else { nfa_lm_scan(n, t, last, hay, p + 1) }
    }
}
spec fn nfa_lm_stream<V>(n: NfaBuilder<u8, V>, hay: Seq<u8>, pos: nat) -> Seq<Match<V>>
    decreases hay.len() - pos
{
    match nfa_lm_scan(n, 0, None, hay, pos) {
        None => Seq::empty(),
        Some(p) => if p.1 <= pos || p.1 > hay.len() || p.0 == 0 || p.0 > n.outputs@.len() { Seq::empty() } else {
            seq![mk_match(n.outputs@[p.0 - 1], p.1)] + nfa_lm_stream(n, hay, p.1)
        },
    }
}
