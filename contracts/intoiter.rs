// ---- trusted: a by-value `I: IntoIterator` argument, seen through the items it will deliver ----
// into_items(i): the sequence `i.into_iter()` yields (prophetic, like vstd's remaining()); into_lawful(i): that
// iterator obeys vstd's prophetic iterator laws (finite, deterministic) -- an assumption on caller-supplied collections.
pub uninterp spec fn into_items<I: IntoIterator>(i: I) -> Seq<I::Item>;
pub uninterp spec fn into_lawful<I: IntoIterator>(i: I) -> bool;

// R22: `for x in patvals` is redirected to this wrapper (body = the call the `for` desugaring makes)
#[verifier::external_body]
pub fn verif_into_iter<I: IntoIterator>(i: I) -> (r: I::IntoIter)
    requires into_lawful(i),
    ensures vstd::std_specs::iter::IteratorSpec::remaining(&r) == into_items(i),
        vstd::std_specs::iter::IteratorSpec::obeys_prophetic_iter_laws(&r),
        vstd::std_specs::iter::IteratorSpec::decrease(&r).is_some(),
{
    i.into_iter()
}

// trusted: a Vec handed over by value yields its elements in order (std: `impl IntoIterator for Vec<T>`)
#[verifier::external_body]
pub proof fn axiom_vec_into_items<T>(v: Vec<T>)
    ensures into_items(v) == v@, into_lawful(v),
{
}
