// ---- property-level semantics of the three standard searches over the characters the UTF-8 table decodes ----
// `done`: characters read so far; rest: undecoded bytes; k: byte offset of rest in the haystack
spec fn sem_ovl_cw<V>(n: NfaBuilder<char, V>, done: Seq<char>, rest: Seq<u8>, k: nat) -> Seq<Match<V>>
    decreases rest.len()
{
    if rest.len() == 0 || u8len(rest[0]) > rest.len() { Seq::empty() } else {
        let w = u8len(rest[0]);
        let d2 = done.push(char_of(u8code(rest)));
        suf_matches(n, d2, 0, k + w) + sem_ovl_cw(n, d2, rest.skip(w as int), k + w)
    }
}

spec fn sem_nosuf_cw<V>(n: NfaBuilder<char, V>, done: Seq<char>, rest: Seq<u8>, k: nat) -> Seq<Match<V>>
    decreases rest.len()
{
    if rest.len() == 0 || u8len(rest[0]) > rest.len() { Seq::empty() } else {
        let w = u8len(rest[0]);
        let d2 = done.push(char_of(u8code(rest)));
        first_of(suf_matches(n, d2, 0, k + w)) + sem_nosuf_cw(n, d2, rest.skip(w as int), k + w)
    }
}

spec fn sem_first_cw<V>(n: NfaBuilder<char, V>, done: Seq<char>, rest: Seq<u8>, cnt: nat) -> Option<(nat, Seq<char>)>
    decreases rest.len()
{
    if rest.len() == 0 || u8len(rest[0]) > rest.len() { None } else {
        let w = u8len(rest[0]);
        let d2 = done.push(char_of(u8code(rest)));
        if suf_matches(n, d2, 0, 0).len() > 0 { Some((cnt + w, d2)) } else { sem_first_cw(n, d2, rest.skip(w as int), cnt + w) }
    }
}

spec fn sem_find_cw<V>(n: NfaBuilder<char, V>, rest: Seq<u8>, k: nat) -> Seq<Match<V>>
    decreases rest.len()
{
    match sem_first_cw(n, Seq::<char>::empty(), rest, 0) {
        None => Seq::empty(),
        Some(p) => if p.0 == 0 || p.0 > rest.len() { Seq::empty() } else {
            seq![suf_matches(n, p.1, 0, k + p.0)[0]] + sem_find_cw(n, rest.skip(p.0 as int), k + p.0)
        },
    }
}
