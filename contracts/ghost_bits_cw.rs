// ---- bit-level facts shared by the char-wise units ----
spec fn pow2(x: u32) -> bool { x > 0 && x & sub(x, 1) == 0 }

// x ^ c stays in x's block when the block length is a power of two and c is smaller than it
proof fn lemma_same_block_cw(b: u32, c: u32, bl: u32, lo: int, hi: int)
    requires pow2(bl), c < bl, lo <= b < hi, lo % (bl as int) == 0, hi % (bl as int) == 0, 0 <= lo, hi <= u32::MAX,
    ensures lo <= (b ^ c) < hi,
{
    let x = b ^ c;
    assert(bl > 0 && bl & sub(bl, 1) == 0 && c < bl ==> (b ^ c) / bl == b / bl) by(bit_vector);
    let q = (b / bl) as int; let l = bl as int;
    assert(q * l <= b < q * l + l) by { vstd::arithmetic::div_mod::lemma_fundamental_div_mod(b as int, l); vstd::arithmetic::div_mod::lemma_mod_pos_bound(b as int, l); assert(l * q == q * l) by (nonlinear_arith); }
    assert(q * l <= x < q * l + l) by { vstd::arithmetic::div_mod::lemma_fundamental_div_mod(x as int, l); vstd::arithmetic::div_mod::lemma_mod_pos_bound(x as int, l); assert(l * q == q * l) by (nonlinear_arith); }
    let ql = lo / l; let qh = hi / l;
    assert(lo == ql * l) by { vstd::arithmetic::div_mod::lemma_fundamental_div_mod(lo, l); assert(l * ql == ql * l) by (nonlinear_arith); }
    assert(hi == qh * l) by { vstd::arithmetic::div_mod::lemma_fundamental_div_mod(hi, l); assert(l * qh == qh * l) by (nonlinear_arith); }
    assert(ql <= q) by { if ql > q { assert(ql * l >= (q + 1) * l) by (nonlinear_arith) requires ql >= q + 1, l > 0; assert((q + 1) * l == q * l + l) by (nonlinear_arith); } }
    assert(ql * l <= q * l) by (nonlinear_arith) requires ql <= q, l > 0;
    assert(qh >= q + 1) by { if qh <= q { assert(qh * l <= q * l) by (nonlinear_arith) requires qh <= q, l > 0; } }
    assert(qh * l >= (q + 1) * l) by (nonlinear_arith) requires qh >= q + 1, l > 0;
    assert((q + 1) * l == q * l + l) by (nonlinear_arith);
}

proof fn lemma_xor_inj_cw(b: u32, c: u32, d: u32)
    requires (b ^ c) == (b ^ d),
    ensures c == d,
{
    assert((b ^ c) == (b ^ d) ==> c == d) by(bit_vector);
}

proof fn lemma_len_xor_nonzero(len: u32, c: u32, bl: u32)
    requires pow2(bl), c < bl, len % bl == 0, len >= bl,
    ensures (len ^ c) != 0, (len ^ c) >= len,
{
    assert(bl > 0 && bl & sub(bl, 1) == 0 && c < bl && len % bl == 0 && len >= bl ==> (len ^ c) != 0 && (len ^ c) >= len) by(bit_vector);
}
