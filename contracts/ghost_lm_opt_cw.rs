// ---- char-wise leftmost kinds, OPTIMALITY half of C03 / C04: the scan over the characters of the tail of a str, candidates carry byte
// offsets (pos + byte_len of the characters read).  The label-generic core (ghost_lm_opt_core.rs with u8 -> char) does the work; this file
// only relates the character index k to the byte offset. ----
// the candidate of a scan over the characters `all` that started at byte offset pos and has read all.take(k)
spec fn cand_best_cw<V>(n: NfaBuilder<char, V>, all: Seq<char>, pos: nat, k: int, last: Option<(nat, nat)>) -> bool {
    let x = all.take(k);
    match last {
        None => forall|st: int, len: int| !#[trigger] occ(n, x, st, len),
        Some(ce) => 1 <= ce.0 <= n.outputs@.len() && exists|k1: int, q: Seq<char>| 0 < k1 <= k && ce.1 == pos + byte_len(all.take(k1)) && #[trigger] is_suffix(q, all.take(k1))
                        && rec_of(n, q, n.outputs@[ce.0 - 1]) && q.len() > 0 && best(n, x, k1 - q.len(), q.len() as int),
    }
}
proof fn lemma_cwl_scan_opt<V>(n: NfaBuilder<char, V>, s: int, last: Option<(nat, nat)>, all: Seq<char>, pos: nat, k: int, p: nat)
    requires optctx(n), 0 <= k <= all.len(), p == pos + byte_len(all.take(k)), lsn(n, s, all.take(k)), within(n, all.take(k), path(n, s).len() as int),
        cand_best_cw(n, all, pos, k, last),
    ensures cand_best_cw(n, all, pos, all.len() as int, nfa_cwl_scan(n, s, last, all.skip(k), p)),
    decreases all.len() - k,
{
    let x = all.take(k);
    let rest = all.skip(k);
    if rest.len() == 0 {
        assert(x =~= all.take(all.len() as int));
    } else {
        let c = rest[0];
        assert(c == all[k]);
        let p2 = (p + c.len_utf8()) as nat;
        let x2 = all.take(k + 1);
        assert(x.push(c) =~= x2);
        assert(rest.skip(1) =~= all.skip(k + 1));
        lemma_nb_len_utf8(c);
        lemma_byte_len_push(x, c);
        assert(p2 == pos + byte_len(x2));
        assert forall|q1: Seq<char>| is_suffix(q1, x) && #[trigger] t_node(n, q1.push(c)) implies q1.len() <= path(n, s).len() by {
            lemma_node_prefix(n, q1.push(c));
            assert(q1.push(c).drop_last() =~= q1);
        }
        lemma_lm_trans(n, x, s, c);
        let t = nfa_nd_lm(n, s, c);
        if t == 0 {
            match last {
                Some(ce) => {
                    let (k1, q) = choose|k1: int, q: Seq<char>| 0 < k1 <= k && ce.1 == pos + byte_len(all.take(k1)) && #[trigger] is_suffix(q, all.take(k1))
                        && rec_of(n, q, n.outputs@[ce.0 - 1]) && q.len() > 0 && best(n, x, k1 - q.len(), q.len() as int);
                    assert(all.take(all.len() as int) =~= all);
                    lemma_stop_best_x(n, all, k, k1 - q.len(), q.len() as int);
                    assert(0 < k1 <= all.len() && is_suffix(q, all.take(k1)));
                }
                None => {
                    lemma_none_root(n, x, c);
                    lemma_cwl_scan_opt(n, 0, None, all, pos, k + 1, p2);
                }
            }
        } else {
            lemma_lm_opos(n, x2, t);
            let o = opt_n(n.states@[t].output_pos);
            if o != 0 {
                let q = choose|q: Seq<char>| is_suffix(q, x2) && #[trigger] rec_of(n, q, n.outputs@[o - 1]) && q.len() > 0 && within(n, x2, q.len() as int);
                assert(x2.subrange(x2.len() - q.len(), x2.len() as int) =~= q);
                assert(best(n, x2, x2.len() - q.len(), q.len() as int));
                assert(cand_best_cw(n, all, pos, k + 1, Some((o, p2)))) by {
                    assert(0 < k + 1 <= k + 1 && p2 == pos + byte_len(all.take(k + 1)) && is_suffix(q, all.take(k + 1)));
                }
                lemma_cwl_scan_opt(n, t, Some((o, p2)), all, pos, k + 1, p2);
            } else {
                match last {
                    None => { lemma_none_keep(n, x, c); }
                    Some(ce) => {
                        let (k1, q) = choose|k1: int, q: Seq<char>| 0 < k1 <= k && ce.1 == pos + byte_len(all.take(k1)) && #[trigger] is_suffix(q, all.take(k1))
                            && rec_of(n, q, n.outputs@[ce.0 - 1]) && q.len() > 0 && best(n, x, k1 - q.len(), q.len() as int);
                        let st = k1 - q.len(); let len = q.len() as int;
                        lemma_best_keep(n, x, c, st, len);
                        assert(best(n, x2, st, len));
                        assert(cand_best_cw(n, all, pos, k + 1, last)) by {
                            assert(0 < k1 <= k + 1 && is_suffix(q, all.take(k1)));
                        }
                    }
                }
                lemma_cwl_scan_opt(n, t, last, all, pos, k + 1, p2);
            }
        }
    }
}
proof fn lemma_tail_take_len(hs: &str, pos: nat, k1: int)
    requires str_boundary(hs, pos as int), 0 <= k1 <= tail_chars(hs, pos as int).len(),
    ensures ({ let all = tail_chars(hs, pos as int); let e = pos + byte_len(all.take(k1));
        str_boundary(hs, e as int) && e <= str_blen(hs) && tail_chars(hs, e as int) == all.skip(k1) && byte_len(all.take(k1)) >= k1 }),
    decreases k1,
{
    let all = tail_chars(hs, pos as int);
    if k1 == 0 {
        assert(all.take(0).len() == 0);
        assert(all.skip(0) =~= all);
        axiom_str_bound(hs, pos as int);
    } else {
        lemma_tail_take_len(hs, pos, k1 - 1);
        let e0 = pos + byte_len(all.take(k1 - 1));
        let c = all[k1 - 1];
        assert(all.skip(k1 - 1)[0] == c);
        axiom_str_step(hs, e0 as int);
        assert(all.take(k1 - 1).push(c) =~= all.take(k1));
        lemma_byte_len_push(all.take(k1 - 1), c);
        lemma_nb_len_utf8(c);
        assert(all.skip(k1 - 1).skip(1) =~= all.skip(k1));
        axiom_str_bound(hs, (e0 + c.len_utf8()) as int);
    }
}
// the greedy leftmost tiling over the characters of the str, with byte offsets: each match ends after k1 characters of the tail scanned from
// pos, is the occurrence (in characters) with the smallest start and the longest at that start, reports byte_len of the pattern and its value
spec fn lm_optimal_cw<V>(n: NfaBuilder<char, V>, hs: &str, pos: nat, ms: Seq<Match<V>>) -> bool
    decreases ms.len()
{
    let all = tail_chars(hs, pos as int);
    if ms.len() == 0 { forall|st: int, len: int| !#[trigger] occ(n, all, st, len) } else { let m = ms[0];
        &&& pos < m.end <= str_blen(hs)
        &&& exists|k1: int, q: Seq<char>| 0 < k1 <= all.len() && m.end == pos + byte_len(all.take(k1)) && #[trigger] is_suffix(q, all.take(k1)) && is_registered(n, q)
                && m.length == byte_len(q) && m.value == reg_out(n, q).unwrap().0 && best(n, all, k1 - q.len(), q.len() as int)
        &&& lm_optimal_cw(n, hs, m.end as nat, ms.skip(1)) }
}
// THEOREM (char-wise leftmost kinds, optimality)
proof fn theorem_cwl_opt<V>(n: NfaBuilder<char, V>, hs: &str, pos: nat)
    requires optctx(n), lens_ok_cw(n), str_blen(hs) <= usize::MAX, str_boundary(hs, pos as int),
    ensures lm_optimal_cw(n, hs, pos, nfa_cwl_stream(n, hs, pos)),
    decreases str_blen(hs) - pos,
{
    let all = tail_chars(hs, pos as int);
    assert(pctx(n)) by { reveal(optctx); }
    lemma_pctx_len(n);
    w_opt(n, 0);
    assert(path(n, 0).len() == 0);
    assert(all.take(0).len() == 0);
    assert(byte_len(all.take(0)) == 0);
    assert(is_suffix(path(n, 0), all.take(0)));
    assert(lsn(n, 0, all.take(0)));
    assert(all.skip(0) =~= all);
    lemma_cwl_scan_opt(n, 0, None, all, pos, 0, pos);
    assert(all.take(all.len() as int) =~= all);
    match nfa_cwl_scan(n, 0, None, all, pos) {
        None => { },
        Some(ce) => {
            if ce.1 <= pos || ce.1 > str_blen(hs) || ce.0 == 0 || ce.0 > n.outputs@.len() {
                // the candidate ends inside the str, after at least one character: these cases do not occur (soundness, theorem_cwl_sound);
                // here the empty stream must be justified, which is only possible if it does not occur
                let (k1, q) = choose|k1: int, q: Seq<char>| 0 < k1 <= all.len() && ce.1 == pos + byte_len(all.take(k1)) && #[trigger] is_suffix(q, all.take(k1))
                    && rec_of(n, q, n.outputs@[ce.0 - 1]) && q.len() > 0 && best(n, all, k1 - q.len(), q.len() as int);
                lemma_tail_take_len(hs, pos, k1);
                assert(false);
            } else {
                let m = mk_match(n.outputs@[ce.0 - 1], ce.1);
                let ms = nfa_cwl_stream(n, hs, pos);
                assert(ms[0] == m);
                assert(ms.skip(1) =~= nfa_cwl_stream(n, hs, ce.1));
                let (k0, q0) = choose|k1: int, q: Seq<char>| 0 < k1 <= all.len() && ce.1 == pos + byte_len(all.take(k1)) && #[trigger] is_suffix(q, all.take(k1))
                    && rec_of(n, q, n.outputs@[ce.0 - 1]) && q.len() > 0 && best(n, all, k1 - q.len(), q.len() as int);
                lemma_tail_take_len(hs, pos, k0);
                theorem_cwl_opt(n, hs, ce.1);
                let (k1, q) = choose|k1: int, q: Seq<char>| 0 < k1 <= all.len() && ce.1 == pos + byte_len(all.take(k1)) && #[trigger] is_suffix(q, all.take(k1))
                    && rec_of(n, q, n.outputs@[ce.0 - 1]) && q.len() > 0 && best(n, all, k1 - q.len(), q.len() as int);
                assert(is_registered(n, q));
                assert(m.length == byte_len(q));
                assert(m.end == ce.1);
            }
        },
    }
}
proof fn theorem_cwl_opt_post<V>(n: NfaBuilder<char, V>, hs: &str)
    requires nfa_tree(n), trie_ok(n), nfa_links(n, true), lm_opt_facts(n), add_inv(n), str_blen(hs) <= usize::MAX,
    ensures lm_optimal_cw(n, hs, 0, nfa_cwl_stream(n, hs, 0)),
{
    assert(optctx(n)) by { reveal(optctx); reveal(lm_opt_facts); reveal(pctx); }
    axiom_str_start(hs);
    assert forall|q: Seq<char>| #[trigger] is_registered(n, q) implies reg_out(n, q).unwrap().1@ == byte_len(q) by { }
    theorem_cwl_opt(n, hs, 0);
}
