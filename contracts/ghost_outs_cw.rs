//@include ghost_outp.rs
spec fn cw_opos(s: State) -> nat { opt_n(s.output_pos) }

spec fn outs_ok_cw<V>(st: Seq<State>, outs: Seq<Output<V>>) -> bool {
    &&& forall|i: int| 0 <= i < st.len() ==> cw_opos(#[trigger] st[i]) <= outs.len()
    &&& forall|j: int| 0 <= j < outs.len() ==> out_parent(#[trigger] outs[j]) <= j
}
