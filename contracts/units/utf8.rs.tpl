use vstd::prelude::*;
use core::num::NonZeroU32;
use core::iter::Enumerate;
verus! {
//@include prelude.rs
//@include parts/cw_iter.tpl
} // verus!
fn main() {}
