use vstd::prelude::*;
use core::num::NonZeroU32;
verus! {
//@include parts/cw_core.tpl
} // verus!
fn main() {}
