use vstd::prelude::*;
use core::num::NonZeroU32;
use core::mem;
verus! {
//@include parts/cw_core.tpl
// checked by Verus against the compiler's layout of the extracted struct (same fields as src/charwise.rs State)
global layout State is size == 16, align == 4;
global layout usize is size == 8;
global layout u32 is size == 4;

// trusted: a Vec never holds more than isize::MAX bytes (std: Vec capacity invariant)
#[verifier::external_body]
proof fn axiom_vec_bytes_bound<T>(v: &Vec<T>)
    ensures v@.len() * vstd::layout::size_of::<T>() <= isize::MAX,
{
}

// trusted: three live allocations of one process together fit into the address space
#[verifier::external_body]
proof fn axiom_allocs_fit<A, B, C>(a: &Vec<A>, b: &Vec<B>, c: &Vec<C>)
    ensures a@.len() * vstd::layout::size_of::<A>() + b@.len() * vstd::layout::size_of::<B>() + c@.len() * vstd::layout::size_of::<C>() <= usize::MAX,
{
}

//@impl src/charwise/mapper.rs impl CodeMapper
//@fn heap_bytes
//@ret r
//@head{
    ensures r == 4 * self.table@.len()
//@}
//@start{
    proof { axiom_vec_bytes_bound(&self.table); }
//@}
//@endimpl

//@impl src/charwise.rs impl<V> CharwiseDoubleArrayAhoCorasick<V>
//@fn num_states
//@ret r
//@head{
    ensures r == self.num_states
//@}
//@fn num_elements
//@ret r
//@head{
    ensures r == self.states@.len()
//@}
//@fn heap_bytes
//@ret r
//@head{
    ensures r == 16 * self.states@.len() + 4 * self.mapper.table@.len() + self.outputs@.len() * vstd::layout::size_of::<Output<V>>(),
        // C15: never smaller than what the states need
        r >= 16 * self.states@.len()
//@}
//@start{
    proof { axiom_vec_bytes_bound(&self.states); axiom_vec_bytes_bound(&self.outputs); axiom_vec_bytes_bound(&self.mapper.table); axiom_allocs_fit(&self.states, &self.mapper.table, &self.outputs); }
//@}
//@endimpl
} // verus!
fn main() {}
