#![feature(sized_hierarchy)]
use vstd::prelude::*;
use core::num::NonZeroU32;
use core::iter::Enumerate;
verus! {
//@include parts/cw_core.tpl
//@include parts/cw_iter.tpl
//@include asref.rs
//@item src/lib.rs struct Match
//@include ghost_iter_cw.rs
//@item src/charwise/iter.rs struct FindOverlappingNoSuffixIterator
//@item src/charwise/iter.rs struct FindIterator
//@item src/charwise/iter.rs struct FindOverlappingIterator
//@include ghost_iter_cw2.rs
//@include parts/cw_ctor.tpl
} // verus!
fn main() {}
