extern crate alloc;
use vstd::prelude::*;
use core::num::NonZeroU32;
use core::ops::Range;
use std::collections::BTreeMap;
verus! {
//@include parts/helper.tpl
//@include parts/nfa_types.tpl
//@include parts/bw_state.tpl
//@include parts/bw_build.tpl
} // verus!
fn main() {}
