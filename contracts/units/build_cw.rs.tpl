#![feature(allocator_api)]
extern crate alloc;
use vstd::prelude::*;
use core::num::NonZeroU32;
use core::ops::Range;
use std::collections::BTreeMap;
use vstd::std_specs::iter::IteratorSpec;
verus! {
//@include parts/helper.tpl
//@include prelude_vec.rs
//@include parts/nfa_types.tpl
//@include parts/cw_state.tpl
//@include parts/cw_build.tpl
} // verus!
fn main() {}
