#![feature(sized_hierarchy)]
extern crate alloc;
use vstd::prelude::*;
use core::num::NonZeroU32;
use core::iter::Enumerate;
use std::collections::BTreeMap;
use std::collections::BTreeSet;
verus! {
//@include parts/cw_core.tpl
//@include enumerate.rs
//@include asref.rs
//@item src/lib.rs struct Match
//@include ghost_utf8.rs
//@include ghost_iter_cw.rs
//@include errors.rs
//@include parts/nfa_types.tpl
//@include parts/nfa_add.tpl
//@include ghost_nfa_cw.rs
//@include ghost_link_cw.rs
//@include ghost_nfa_outs_cw.rs
//@include ghost_ac_cw.rs
//@include ghost_str.rs
//@include ghost_cwl.rs
//@include ghost_lm_sim_cw.rs
} // verus!
fn main() {}
