use vstd::prelude::*;
use core::num::NonZeroU32;
verus! {
//@include parts/ser_a.tpl
//@include parts/ser_mk.tpl

//@item src/charwise.rs struct State
//@impl src/charwise.rs impl Serializable for State
//@keeptrait
    spec fn ser_spec(&self) -> Seq<u8> { self.base.ser_spec() + self.check.ser_spec() + self.fail.ser_spec() + self.output_pos.ser_spec() }
    spec fn nbytes() -> nat { 16 }
    spec fn width_ok() -> bool { true }
    proof fn lemma_ser_len(&self) {}
//@fn serialize_to_vec
//@start{
    let ghost d0 = dst@;
//@}
//@fn deserialize_from_slice
//@ret r
//@start{
    let ghost src0 = src@;
//@}
//@before 1 Self {{
    proof {
        assert forall|o: State| src0.take(16) == o.ser_spec() implies base == o.base && check == o.check && fail == o.fail && output_pos == o.output_pos by {
            let s = o.ser_spec();
            assert(src0.take(4) =~= s.take(4) && s.take(4) =~= o.base.ser_spec());
            assert(src0.skip(4).take(4) =~= s.skip(4).take(4) && s.skip(4).take(4) =~= o.check.ser_spec());
            assert(src0.skip(4).skip(4).take(4) =~= s.skip(8).take(4) && s.skip(8).take(4) =~= o.fail.ser_spec());
            assert(src0.skip(4).skip(4).skip(4).take(4) =~= s.skip(12).take(4) && s.skip(12).take(4) =~= o.output_pos.ser_spec());
        }
        assert(src@ =~= src0.skip(16));
    }
//@}
//@fn serialized_bytes
//@ret r
//@endimpl

//@include parts/ser_out.tpl
//@include parts/ser_vec.tpl

//@item src/charwise/mapper.rs struct CodeMapper
spec fn cm_r1(m: CodeMapper, t: Seq<u8>) -> Seq<u8> { m.alphabet_size.ser_spec() + t }
//@impl src/charwise/mapper.rs impl SerializableVec for CodeMapper
//@keeptrait
    spec fn vser_spec(&self) -> Seq<u8> { self.table.vser_spec() + self.alphabet_size.ser_spec() }
    spec fn vvalid(&self) -> bool { self.table.vvalid() && self.table.vser_spec().len() + 4 <= usize::MAX }
    spec fn veq(&self, other: &Self) -> bool { self.table@ == other.table@ && self.alphabet_size == other.alphabet_size }
//@fn serialize_to_vec
//@start{
    let ghost d0 = dst@;
//@}
//@fn deserialize_from_slice
//@ret r
//@start{
    let ghost s0 = src@;
    proof {
        let (x0, t0) = choose|x: Self, t: Seq<u8>| x.vvalid() && s0 == x.vser_spec() + t;
        assert(s0 =~= x0.table.vser_spec() + cm_r1(x0, t0));
    }
//@}
//@after 1 let (table, src) = Vec::<u32>::deserialize_from_slice(src);{
    let ghost s1 = src@;
    proof {
        assert forall|x: Self, t: Seq<u8>| x.vvalid() && s0 == x.vser_spec() + t implies table@ == x.table@ && s1 == cm_r1(x, t) && table.vvalid() by {
            assert(s0 =~= x.table.vser_spec() + cm_r1(x, t));
        }
        let (x0, t0) = choose|x: Self, t: Seq<u8>| x.vvalid() && s0 == x.vser_spec() + t;
        x0.alphabet_size.lemma_ser_len();
        assert(s1 == cm_r1(x0, t0));
        assert(s1.len() >= 4);
    }
//@}
//@before 1 Self {{
    proof {
        assert forall|x: Self, t: Seq<u8>| x.vvalid() && s0 == x.vser_spec() + t implies table@ == x.table@ && alphabet_size == x.alphabet_size && src@ == t by {
            assert(s1 == cm_r1(x, t));
            x.alphabet_size.lemma_ser_len();
            assert(cm_r1(x, t).take(4) =~= x.alphabet_size.ser_spec());
            assert(cm_r1(x, t).skip(4) =~= t);
        }
    }
//@}
//@fn serialized_bytes
//@ret r
//@endimpl

//@item src/charwise.rs struct CharwiseDoubleArrayAhoCorasick

spec fn cpma_valid<V: Serializable>(a: CharwiseDoubleArrayAhoCorasick<V>) -> bool {
    a.states.vvalid() && a.mapper.vvalid() && a.outputs.vvalid()
        && a.states.vser_spec().len() + a.mapper.vser_spec().len() + a.outputs.vser_spec().len() + 5 <= usize::MAX
}
spec fn cpma_ser<V: Serializable>(a: CharwiseDoubleArrayAhoCorasick<V>) -> Seq<u8> {
    a.states.vser_spec() + a.mapper.vser_spec() + a.outputs.vser_spec() + a.match_kind.ser_spec() + a.num_states.ser_spec()
}
spec fn cpma_r4<V: Serializable>(a: CharwiseDoubleArrayAhoCorasick<V>, t: Seq<u8>) -> Seq<u8> { a.num_states.ser_spec() + t }
spec fn cpma_r3<V: Serializable>(a: CharwiseDoubleArrayAhoCorasick<V>, t: Seq<u8>) -> Seq<u8> { a.match_kind.ser_spec() + cpma_r4(a, t) }
spec fn cpma_r2<V: Serializable>(a: CharwiseDoubleArrayAhoCorasick<V>, t: Seq<u8>) -> Seq<u8> { a.outputs.vser_spec() + cpma_r3(a, t) }
spec fn cpma_r1<V: Serializable>(a: CharwiseDoubleArrayAhoCorasick<V>, t: Seq<u8>) -> Seq<u8> { a.mapper.vser_spec() + cpma_r2(a, t) }
proof fn lemma_cpma_split<V: Serializable>(a: CharwiseDoubleArrayAhoCorasick<V>, t: Seq<u8>)
    ensures cpma_ser(a) + t == a.states.vser_spec() + cpma_r1(a, t),
        cpma_r3(a, t).take(1) == a.match_kind.ser_spec(), cpma_r3(a, t).skip(1) == cpma_r4(a, t), cpma_r3(a, t).len() >= 5,
        cpma_r4(a, t).take(4) == a.num_states.ser_spec(), cpma_r4(a, t).skip(4) == t,
{
    assert(cpma_ser(a) + t =~= a.states.vser_spec() + cpma_r1(a, t));
    assert(cpma_r3(a, t).take(1) =~= a.match_kind.ser_spec());
    assert(cpma_r3(a, t).skip(1) =~= cpma_r4(a, t));
    assert(cpma_r4(a, t).take(4) =~= a.num_states.ser_spec());
    assert(cpma_r4(a, t).skip(4) =~= t);
}
spec fn cpma_eq<V: Serializable>(a: CharwiseDoubleArrayAhoCorasick<V>, b: CharwiseDoubleArrayAhoCorasick<V>) -> bool {
    a.states@ == b.states@ && a.mapper.veq(&b.mapper) && a.outputs@ == b.outputs@ && a.match_kind == b.match_kind && a.num_states == b.num_states
}

//@impl src/charwise.rs impl<V> CharwiseDoubleArrayAhoCorasick<V>
//@fn serialize
//@ret r
//@head{
    requires cpma_valid(*self)
    ensures r@ == cpma_ser(*self)
//@}
//@after 1 self.num_states.serialize_to_vec(&mut result);{
    proof { assert(result@ =~= cpma_ser(*self)); }
//@}
//@fn deserialize_unchecked
//@ret r
//@head{
    requires exists|a: Self, t: Seq<u8>| cpma_valid(a) && source@ == cpma_ser(a) + t
    ensures forall|a: Self, t: Seq<u8>| cpma_valid(a) && source@ == cpma_ser(a) + t ==> cpma_eq(r.0, a) && r.1@ == t && cpma_valid(r.0)
//@}
//@start{
    let ghost s0 = source@;
    proof {
        let (a0, t0) = choose|a: Self, t: Seq<u8>| cpma_valid(a) && s0 == cpma_ser(a) + t;
        lemma_cpma_split(a0, t0);
    }
//@}
//@after 1 let (states, source) = Vec::<State>::deserialize_from_slice(source);{
    let ghost s1 = source@;
    proof {
        assert forall|a: Self, t: Seq<u8>| cpma_valid(a) && s0 == cpma_ser(a) + t implies states@ == a.states@ && s1 == cpma_r1(a, t) by {
            lemma_cpma_split(a, t);
        }
        let (a0, t0) = choose|a: Self, t: Seq<u8>| cpma_valid(a) && s0 == cpma_ser(a) + t;
        assert(s1 == a0.mapper.vser_spec() + cpma_r2(a0, t0));
    }
//@}
//@after 1 let (mapper, source) = CodeMapper::deserialize_from_slice(source);{
    let ghost s2 = source@;
    proof {
        assert forall|a: Self, t: Seq<u8>| cpma_valid(a) && s0 == cpma_ser(a) + t implies mapper.veq(&a.mapper) && s2 == cpma_r2(a, t) by {
            assert(s1 == cpma_r1(a, t));
            assert(s1 == a.mapper.vser_spec() + cpma_r2(a, t));
        }
        let (a0, t0) = choose|a: Self, t: Seq<u8>| cpma_valid(a) && s0 == cpma_ser(a) + t;
        assert(s2 == a0.outputs.vser_spec() + cpma_r3(a0, t0));
    }
//@}
//@after 1 let (outputs, source) = Vec::<Output<V>>::deserialize_from_slice(source);{
    let ghost s3 = source@;
    proof {
        assert forall|a: Self, t: Seq<u8>| cpma_valid(a) && s0 == cpma_ser(a) + t implies outputs@ == a.outputs@ && s3 == cpma_r3(a, t) by {
            assert(s2 == cpma_r2(a, t));
            assert(s2 == a.outputs.vser_spec() + cpma_r3(a, t));
        }
        let (a0, t0) = choose|a: Self, t: Seq<u8>| cpma_valid(a) && s0 == cpma_ser(a) + t;
        lemma_cpma_split(a0, t0);
    }
//@}
//@after 1 let (match_kind, source) = MatchKind::deserialize_from_slice(source);{
    let ghost s4 = source@;
    proof {
        assert forall|a: Self, t: Seq<u8>| cpma_valid(a) && s0 == cpma_ser(a) + t implies match_kind == a.match_kind && s4 == cpma_r4(a, t) by {
            lemma_cpma_split(a, t);
            assert(s3 == cpma_r3(a, t));
        }
        let (a0, t0) = choose|a: Self, t: Seq<u8>| cpma_valid(a) && s0 == cpma_ser(a) + t;
        assert(s4.len() >= 4) by { lemma_cpma_split(a0, t0); a0.num_states.lemma_ser_len(); assert(s4 == cpma_r4(a0, t0)); }
    }
//@}
//@after 1 let (num_states, source) = u32::deserialize_from_slice(source);{
    proof {
        assert forall|a: Self, t: Seq<u8>| cpma_valid(a) && s0 == cpma_ser(a) + t implies num_states == a.num_states && source@ == t by {
            lemma_cpma_split(a, t);
            assert(s4 == cpma_r4(a, t));
        }
    }
//@}
//@before 1 Self {{
    proof {
        assert forall|a: Self, t: Seq<u8>| cpma_valid(a) && s0 == cpma_ser(a) + t implies
            states@ == a.states@ && mapper.veq(&a.mapper) && outputs@ == a.outputs@ && match_kind == a.match_kind && num_states == a.num_states && source@ == t
            && states.vvalid() && mapper.vvalid() && outputs.vvalid()
            && states.vser_spec() == a.states.vser_spec() && outputs.vser_spec() == a.outputs.vser_spec() && mapper.vser_spec() == a.mapper.vser_spec() by {
            assert(s1 == cpma_r1(a, t));
            assert(s2 == cpma_r2(a, t));
            assert(s3 == cpma_r3(a, t));
            assert(s4 == cpma_r4(a, t));
            assert(mapper.table.vser_spec() == a.mapper.table.vser_spec());
        }
    }
//@}
//@endimpl

// C09 for the char-wise automaton, as an executable client of the two contracts
fn c09_round_trip_cw<V: Serializable>(a: &CharwiseDoubleArrayAhoCorasick<V>, tail: &Vec<u8>)
    requires cpma_valid(*a),
{
    let mut bytes = a.serialize();
    let ghost ser = bytes@;
    let mut i: usize = 0;
    while i < tail.len()
        invariant i <= tail.len(), bytes@ == ser + tail@.take(i as int),
        decreases tail.len() - i
    {
        bytes.push(tail[i]);
        proof { assert(tail@.take(i as int + 1) =~= tail@.take(i as int).push(tail@[i as int])); }
        i += 1;
    }
    proof { assert(tail@.take(tail.len() as int) =~= tail@); }
    let (b, rest) = unsafe { CharwiseDoubleArrayAhoCorasick::<V>::deserialize_unchecked(bytes.as_slice()) };
    assert(cpma_eq(b, *a));         // equal automaton (states, code table, outputs, match kind, state count)
    assert(rest@ == tail@);         // consumed exactly its own bytes, handed the rest back untouched
    let again = b.serialize();
    assert(again@ =~= ser) by {     // re-serialisation reproduces the bytes
        assert(b.states.vser_spec() == a.states.vser_spec());
        assert(b.outputs.vser_spec() == a.outputs.vser_spec());
        assert(b.mapper.table.vser_spec() == a.mapper.table.vser_spec());
    }
}
} // verus!
fn main() {}
