use vstd::prelude::*;
use core::num::NonZeroU32;
verus! {
//@include parts/bw_core.tpl
} // verus!
fn main() {}
