extern crate alloc;
use vstd::prelude::*;
use core::num::NonZeroU32;
use std::collections::BTreeMap;
verus! {
//@include parts/bw_core.tpl
//@include parts/nfa_types.tpl
//@include ghost_nfa.rs
//@include ghost_link_bw.rs
} // verus!
fn main() {}
