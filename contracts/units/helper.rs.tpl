extern crate alloc;
use vstd::prelude::*;
use core::num::NonZeroU32;
use core::ops::Range;
verus! {
//@include parts/helper.tpl
} // verus!
fn main() {}
