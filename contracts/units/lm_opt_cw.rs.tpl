#![feature(sized_hierarchy)]
extern crate alloc;
use vstd::prelude::*;
use core::num::NonZeroU32;
use core::iter::Enumerate;
use std::collections::BTreeMap;
use std::collections::BTreeSet;
verus! {
//@include parts/cw_core.tpl
//@include enumerate.rs
//@include asref.rs
//@item src/lib.rs struct Match
//@include ghost_utf8.rs
//@include ghost_iter_cw.rs
//@include errors.rs
//@include parts/nfa_types.tpl
//@include parts/nfa_add.tpl
//@include ghost_nfa_cw.rs
//@include ghost_link_cw.rs
//@include ghost_nfa_outs_cw.rs
//@include_subst ghost_ac_nfa.rs u8=char
//@include_subst ghost_pass.rs u8=char
//@include ghost_str.rs
//@include ghost_lm_sound_cw.rs
//@include_subst ghost_pass_bfs.rs u8=char
//@include_subst ghost_lm_dead.rs u8=char
//@include_subst ghost_lm_opt_core.rs u8=char
//@include ghost_lm_opt_cw.rs
//@include_subst ghost_lf.rs u8=char
//@include_subst ghost_c04.rs u8=char
//@include_subst ghost_c11_core.rs u8=char
//@include ghost_c11_cw.rs
} // verus!
fn main() {}
