#![feature(sized_hierarchy)]
use vstd::prelude::*;
use core::num::NonZeroU32;
use core::iter::Enumerate;
verus! {
//@include parts/bw_core.tpl
//@include enumerate.rs
//@include asref.rs
//@item src/lib.rs struct Match
//@include ghost_iter_bw.rs
//@item src/bytewise/iter.rs struct U8SliceIterator
//@rules keeppub
//@end
//@include parts/bw_iter_structs.tpl
//@include ghost_iter_bw2.rs

//@impl src/lib.rs impl MatchKind
//@fn is_standard
//@ret r
//@head{
    ensures r == (self is Standard)
//@}
//@fn is_leftmost
//@ret r
//@head{
    ensures r == !(self is Standard)
//@}
//@endimpl

//@impl src/bytewise/iter.rs impl<P> U8SliceIterator<P>
//@fn new
//@ret r
//@head{
    ensures r.inner == inner, r.pos == 0
//@}
//@endimpl

// U8SliceIterator obeys vstd's prophetic iterator laws with remaining() == the unread bytes of the slice: the trait
// impl below is checked against those laws, so "slice entry point == iterator entry point" is proved, not assumed
spec fn u8s_rem<P: AsRef<[u8]>>(it: U8SliceIterator<P>) -> Seq<u8> {
    if it.pos <= it.inner.as_ref_spec()@.len() { it.inner.as_ref_spec()@.skip(it.pos as int) } else { Seq::empty() }
}
impl<P: AsRef<[u8]>> vstd::std_specs::iter::IteratorSpecImpl for U8SliceIterator<P> {
    closed spec fn obeys_prophetic_iter_laws(&self) -> bool { true }
    closed spec fn remaining(&self) -> Seq<u8> { u8s_rem(*self) }
    closed spec fn will_return_none(&self) -> bool { true }
    closed spec fn decrease(&self) -> Option<nat> { Some(u8s_rem(*self).len()) }
    closed spec fn peek(&self, i: int) -> Option<u8> { if 0 <= i < u8s_rem(*self).len() { Some(u8s_rem(*self)[i]) } else { None } }
}
//@impl src/bytewise/iter.rs impl<P> Iterator for U8SliceIterator<P>
//@keeptrait
//@fn next
//@start{
    proof { let sl = self.inner.as_ref_spec(); assert(sl@.len() == sl.len()); }
//@}
//@endimpl

// type invariant of the automaton: well formed w.r.t. its own match kind
spec fn bw_pma_inv<V>(pma: &DoubleArrayAhoCorasick<V>) -> bool { pma_ok(pma, !(pma.match_kind is Standard)) }
#[verifier::prophetic]
spec fn src_len_ok<P: Iterator<Item = u8>>(h: P) -> bool { iter_lawful(h) && iter_items(h).len() < usize::MAX }

//@impl src/bytewise.rs impl<V> DoubleArrayAhoCorasick<V>
//@fn find_iter
//@rules R8c R17
//@ret r
//@head{
    requires bw_pma_inv(self)
    ensures find_inv(r), r.pma == self, enum_count(r.haystack) == 0, enum_rest(r.haystack) == haystack.as_ref_spec()@,
//@}
//@start{
    proof { axiom_slice_len_bound(haystack.as_ref_spec()); assert(haystack.as_ref_spec()@.skip(0) =~= haystack.as_ref_spec()@); }
//@}
//@fn find_iter_from_iter
//@rules R8c R17
//@ret r
//@head{
    requires bw_pma_inv(self), src_len_ok(haystack)
    ensures find_inv(r), r.pma == self, enum_count(r.haystack) == 0, enum_rest(r.haystack) == iter_items(haystack),
//@}
//@fn find_overlapping_iter
//@rules R8c R17
//@ret r
//@head{
    requires bw_pma_inv(self)
    ensures ovl_inv(r), r.pma == self, enum_count(r.haystack) == 0, enum_rest(r.haystack) == haystack.as_ref_spec()@, r.state_id == 0, r.output_pos.is_none(),
//@}
//@start{
    proof { axiom_slice_len_bound(haystack.as_ref_spec()); assert(haystack.as_ref_spec()@.skip(0) =~= haystack.as_ref_spec()@);
            if self.match_kind is Standard { lemma_root_live(self.states@, false); } }
//@}
//@fn find_overlapping_iter_from_iter
//@rules R8c R17
//@ret r
//@head{
    requires bw_pma_inv(self), src_len_ok(haystack)
    ensures ovl_inv(r), r.pma == self, enum_count(r.haystack) == 0, enum_rest(r.haystack) == iter_items(haystack), r.state_id == 0, r.output_pos.is_none(),
//@}
//@start{
    proof { if self.match_kind is Standard { lemma_root_live(self.states@, false); } }
//@}
//@fn find_overlapping_no_suffix_iter
//@rules R8c R17
//@ret r
//@head{
    requires bw_pma_inv(self)
    ensures nosuf_inv(r), r.pma == self, enum_count(r.haystack) == 0, enum_rest(r.haystack) == haystack.as_ref_spec()@, r.state_id == 0,
//@}
//@start{
    proof { axiom_slice_len_bound(haystack.as_ref_spec()); assert(haystack.as_ref_spec()@.skip(0) =~= haystack.as_ref_spec()@);
            if self.match_kind is Standard { lemma_root_live(self.states@, false); } }
//@}
//@fn find_overlapping_no_suffix_iter_from_iter
//@rules R8c R17
//@ret r
//@head{
    requires bw_pma_inv(self), src_len_ok(haystack)
    ensures nosuf_inv(r), r.pma == self, enum_count(r.haystack) == 0, enum_rest(r.haystack) == iter_items(haystack), r.state_id == 0,
//@}
//@start{
    proof { if self.match_kind is Standard { lemma_root_live(self.states@, false); } }
//@}
//@fn leftmost_find_iter
//@rules R8c
//@ret r
//@head{
    requires bw_pma_inv(self)
    ensures lm_inv(r), r.pma == self, r.haystack == haystack, r.pos == 0,
//@}
//@endimpl
} // verus!
fn main() {}
