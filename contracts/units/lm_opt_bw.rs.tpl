#![feature(sized_hierarchy)]
extern crate alloc;
use vstd::prelude::*;
use core::num::NonZeroU32;
use core::iter::Enumerate;
use std::collections::BTreeMap;
use std::collections::BTreeSet;
verus! {
//@include parts/bw_core.tpl
//@include enumerate.rs
//@include asref.rs
//@item src/lib.rs struct Match
//@include ghost_iter_bw.rs
//@include errors.rs
//@include parts/nfa_types.tpl
//@include parts/nfa_add.tpl
//@include ghost_nfa.rs
//@include ghost_link_bw.rs
//@include ghost_ac_nfa.rs
//@include ghost_nfa_outs.rs
//@include ghost_pass.rs
//@include ghost_lm_sound.rs
//@include ghost_pass_bfs.rs
//@include ghost_lm_dead.rs
//@include ghost_lm_opt.rs
//@include ghost_lf.rs
//@include ghost_c04.rs
//@include ghost_c11.rs
} // verus!
fn main() {}
