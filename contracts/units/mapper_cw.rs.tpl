use vstd::prelude::*;
verus! {
//@include prelude.rs
//@include from_u32.rs
//@item src/charwise/mapper.rs const INVALID_CODE
//@item src/charwise/mapper.rs struct CodeMapper
//@include parts/cw_mapper_new.tpl
} // verus!
fn main() {}
