#![feature(sized_hierarchy)]
use vstd::prelude::*;
use core::num::NonZeroU32;
use core::iter::Enumerate;
verus! {
//@include parts/bw_core.tpl
//@include enumerate.rs
//@include asref.rs
//@item src/lib.rs struct Match
//@include ghost_iter_bw.rs
//@include parts/bw_iter_structs.tpl
//@include ghost_iter_bw2.rs
//@include parts/bw_iter.tpl
} // verus!
fn main() {}
