use vstd::prelude::*;
use core::num::NonZeroU32;
use core::iter::Enumerate;
verus! {
//@include parts/cw_core.tpl
//@include parts/cw_iter.tpl
//@item src/lib.rs struct Match
//@include ghost_iter_cw.rs
//@include ghost_iter_cw2.rs

//@impl src/lib.rs impl<V> Output<V>
//@fn value
//@ret r
//@head{
    ensures r == self.value
//@}
//@fn length
//@ret r
//@head{
    ensures r == self.length
//@}
//@fn parent
//@ret r
//@head{
    ensures r == self.parent
//@}
//@endimpl

//@item src/charwise/iter.rs struct FindOverlappingNoSuffixIterator
//@item src/charwise/iter.rs struct FindIterator
//@item src/charwise/iter.rs struct FindOverlappingIterator



//@impl src/charwise/iter.rs Iterator for FindOverlappingNoSuffixIterator
//@fn next
//@pre{
#[verifier::loop_isolation(false)]
//@}
//@ret r
//@head{
    requires cw_nosuf_inv(*old(self))
    ensures cw_nosuf_inv(*final(self)), final(self).pma == old(self).pma,
        cw_nosuf_stream(*old(self)) =~= (match r { Some(m) => seq![m] + cw_nosuf_stream(*final(self)), None => Seq::empty() }),
        r.is_some() ==> r.unwrap().end == h_count(final(self).haystack),
        r.is_none() ==> h_rest(final(self).haystack).len() == 0,
        h_count(final(self).haystack) >= h_count(old(self).haystack),
//@}
//@loop 1{
    invariant cw_nosuf_inv(*self), self.pma == old(self).pma,
        cw_nosuf_stream(*self) =~= cw_nosuf_stream(*old(self)),
        h_count(self.haystack) >= h_count(old(self).haystack),
    decreases h_rest(self.haystack).len()
//@}
//@endimpl


//@impl src/charwise/iter.rs Iterator for FindIterator
//@fn next
//@pre{
#[verifier::loop_isolation(false)]
//@}
//@ret r
//@head{
    requires cw_find_inv(*old(self))
    ensures cw_find_inv(*final(self)), final(self).pma == old(self).pma,
        cw_find_stream_of(*old(self)) =~= (match r { Some(m) => seq![m] + cw_find_stream_of(*final(self)), None => Seq::empty() }),
        r.is_some() ==> r.unwrap().end == h_count(final(self).haystack),
        r.is_none() ==> h_rest(final(self).haystack).len() == 0,
        h_count(final(self).haystack) >= h_count(old(self).haystack),
//@}
//@start{
    proof { lemma_root_live_cw(self.pma.states@, self.pma.mapper.table@, false); }
//@}
//@loop 1{
    invariant cw_find_inv(*self), self.pma == old(self).pma,
        cw_live(self.pma.states@, false, state_id as int),
        h_count(self.haystack) >= h_count(old(self).haystack),
        h_count(self.haystack) - h_count(old(self).haystack) + h_rest(self.haystack).len() == h_rest(old(self).haystack).len(),
        h_rest(self.haystack) =~= h_rest(old(self).haystack).skip(h_count(self.haystack) - h_count(old(self).haystack)),
        cw_find_first(self.pma.states@, self.pma.mapper.table@, 0, h_rest(old(self).haystack), 0)
            == cw_find_first(self.pma.states@, self.pma.mapper.table@, state_id as int, h_rest(self.haystack), (h_count(self.haystack) - h_count(old(self).haystack)) as nat),
    decreases h_rest(self.haystack).len()
//@}
//@before 1 return Some(Match{
    proof {
        let ro = h_rest(old(self).haystack);
        let n = h_count(self.haystack) - h_count(old(self).haystack);
        assert(h_rest(self.haystack) =~= ro.skip(n));
    }
//@}
//@endimpl


//@impl src/charwise/iter.rs Iterator for FindOverlappingIterator
//@fn next
//@pre{
#[verifier::loop_isolation(false)]
//@}
//@ret r
//@head{
    requires cw_ovl_inv(*old(self))
    ensures cw_ovl_inv(*final(self)), final(self).pma == old(self).pma,
        cw_ovl_stream(*old(self)) =~= (match r { Some(m) => seq![m] + cw_ovl_stream(*final(self)), None => Seq::empty() }),
        r.is_some() ==> r.unwrap().end == h_count(final(self).haystack),
        r.is_none() ==> h_rest(final(self).haystack).len() == 0,
        h_count(final(self).haystack) >= h_count(old(self).haystack),
//@}
//@loop 1{
    invariant cw_ovl_inv(*self), self.pma == old(self).pma, self.output_pos.is_none(),
        cw_ovl_stream(*self) =~= cw_ovl_stream(*old(self)),
        h_count(self.haystack) >= h_count(old(self).haystack),
    decreases h_rest(self.haystack).len()
//@}
//@endimpl
} // verus!
fn main() {}
