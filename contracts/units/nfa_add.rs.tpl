extern crate alloc;
use vstd::prelude::*;
use core::num::NonZeroU32;
use std::collections::BTreeMap;
use std::collections::BTreeSet;
verus! {
//@include prelude.rs
//@include from_u32.rs
//@include errors.rs
//@include parts/nfa_types.tpl
//@include parts/nfa_add.tpl
} // verus!
fn main() {}
