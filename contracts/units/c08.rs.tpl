extern crate alloc;
use vstd::prelude::*;
use core::num::NonZeroU32;
use std::collections::BTreeMap;
use std::collections::BTreeSet;
verus! {
//@include prelude.rs
//@include from_u32.rs
//@item src/lib.rs struct Match
//@include errors.rs
//@include parts/nfa_types.tpl
//@include parts/nfa_add.tpl
//@include ghost_sem.rs
//@include ghost_sem_bw.rs
//@include ghost_utf8.rs
//@include ghost_sem_cw.rs
//@include ghost_c08.rs
} // verus!
fn main() {}
