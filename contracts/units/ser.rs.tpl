use vstd::prelude::*;
use core::num::NonZeroU32;
verus! {
//@include parts/ser_a.tpl

//@item src/intpack.rs struct U24nU8
//@impl src/intpack.rs impl Serializable for U24nU8
//@keeptrait
    spec fn ser_spec(&self) -> Seq<u8> { le_u32(self.0) }
    spec fn nbytes() -> nat { 4 }
    spec fn width_ok() -> bool { true }
    proof fn lemma_ser_len(&self) {}
//@fn serialize_to_vec
//@fn deserialize_from_slice
//@ret r
//@start{
    let ghost src0 = src@;
//@}
//@before 1 (Self(x), src){
    proof {
        assert forall|o: U24nU8| src0.take(4) == o.ser_spec() implies x == o.0 by { assert(o.0.ser_spec() == o.ser_spec()); }
    }
//@}
//@fn serialized_bytes
//@ret r
//@endimpl

//@include parts/ser_mk.tpl
//@item src/bytewise.rs struct State
//@impl src/bytewise.rs impl Serializable for State
//@keeptrait
    spec fn ser_spec(&self) -> Seq<u8> { self.base.ser_spec() + self.fail.ser_spec() + self.opos_ch.ser_spec() }
    spec fn nbytes() -> nat { 12 }
    spec fn width_ok() -> bool { true }
    proof fn lemma_ser_len(&self) {}
//@fn serialize_to_vec
//@start{
    let ghost d0 = dst@;
//@}
//@fn deserialize_from_slice
//@ret r
//@start{
    let ghost src0 = src@;
//@}
//@before 1 Self {{
    proof {
        assert forall|o: State| src0.take(12) == o.ser_spec() implies base == o.base && fail == o.fail && opos_ch == o.opos_ch by {
            let s = o.ser_spec();
            assert(src0.take(4) =~= s.take(4) && s.take(4) =~= o.base.ser_spec());
            assert(src0.skip(4).take(4) =~= s.skip(4).take(4) && s.skip(4).take(4) =~= o.fail.ser_spec());
            assert(src0.skip(4).skip(4).take(4) =~= s.skip(8).take(4) && s.skip(8).take(4) =~= o.opos_ch.ser_spec());
        }
        assert(src@ =~= src0.skip(12));
    }
//@}
//@fn serialized_bytes
//@ret r
//@endimpl

//@include parts/ser_out.tpl
//@include parts/ser_vec.tpl
//@item src/bytewise.rs struct DoubleArrayAhoCorasick

spec fn pma_valid<V: Serializable>(a: DoubleArrayAhoCorasick<V>) -> bool {
    a.states.vvalid() && a.outputs.vvalid()
        && a.states.vser_spec().len() + a.outputs.vser_spec().len() + 5 <= usize::MAX
}
spec fn pma_ser<V: Serializable>(a: DoubleArrayAhoCorasick<V>) -> Seq<u8> {
    a.states.vser_spec() + a.outputs.vser_spec() + a.match_kind.ser_spec() + a.num_states.ser_spec()
}
spec fn pma_r3<V: Serializable>(a: DoubleArrayAhoCorasick<V>, t: Seq<u8>) -> Seq<u8> { a.num_states.ser_spec() + t }
spec fn pma_r2<V: Serializable>(a: DoubleArrayAhoCorasick<V>, t: Seq<u8>) -> Seq<u8> { a.match_kind.ser_spec() + pma_r3(a, t) }
spec fn pma_r1<V: Serializable>(a: DoubleArrayAhoCorasick<V>, t: Seq<u8>) -> Seq<u8> { a.outputs.vser_spec() + pma_r2(a, t) }
proof fn lemma_pma_split<V: Serializable>(a: DoubleArrayAhoCorasick<V>, t: Seq<u8>)
    ensures pma_ser(a) + t == a.states.vser_spec() + pma_r1(a, t),
        pma_r2(a, t).take(1) == a.match_kind.ser_spec(), pma_r2(a, t).skip(1) == pma_r3(a, t), pma_r2(a, t).len() >= 5,
        pma_r3(a, t).take(4) == a.num_states.ser_spec(), pma_r3(a, t).skip(4) == t,
{
    assert(pma_ser(a) + t =~= a.states.vser_spec() + pma_r1(a, t));
    assert(pma_r2(a, t).take(1) =~= a.match_kind.ser_spec());
    assert(pma_r2(a, t).skip(1) =~= pma_r3(a, t));
    assert(pma_r3(a, t).take(4) =~= a.num_states.ser_spec());
    assert(pma_r3(a, t).skip(4) =~= t);
}
spec fn pma_eq<V: Serializable>(a: DoubleArrayAhoCorasick<V>, b: DoubleArrayAhoCorasick<V>) -> bool {
    a.states@ == b.states@ && a.outputs@ == b.outputs@ && a.match_kind == b.match_kind && a.num_states == b.num_states
}

//@impl src/bytewise.rs impl<V> DoubleArrayAhoCorasick<V>
//@fn serialize
//@ret r
//@head{
    requires pma_valid(*self)
    ensures r@ == pma_ser(*self)
//@}
//@after 1 self.num_states.serialize_to_vec(&mut result);{
    proof { assert(result@ =~= pma_ser(*self)); }
//@}
//@fn deserialize_unchecked
//@ret r
//@head{
    requires exists|a: Self, t: Seq<u8>| pma_valid(a) && source@ == pma_ser(a) + t
    ensures forall|a: Self, t: Seq<u8>| pma_valid(a) && source@ == pma_ser(a) + t ==> pma_eq(r.0, a) && r.1@ == t && pma_valid(r.0)
//@}
//@start{
    let ghost s0 = source@;
    proof {
        let (a0, t0) = choose|a: Self, t: Seq<u8>| pma_valid(a) && s0 == pma_ser(a) + t;
        lemma_pma_split(a0, t0);
    }
//@}
//@after 1 let (states, source) = Vec::<State>::deserialize_from_slice(source);{
    let ghost s1 = source@;
    proof {
        assert forall|a: Self, t: Seq<u8>| pma_valid(a) && s0 == pma_ser(a) + t implies states@ == a.states@ && s1 == pma_r1(a, t) by {
            lemma_pma_split(a, t);
        }
        let (a0, t0) = choose|a: Self, t: Seq<u8>| pma_valid(a) && s0 == pma_ser(a) + t;
        assert(s1 == a0.outputs.vser_spec() + pma_r2(a0, t0));
    }
//@}
//@after 1 let (outputs, source) = Vec::<Output<V>>::deserialize_from_slice(source);{
    let ghost s2 = source@;
    proof {
        assert forall|a: Self, t: Seq<u8>| pma_valid(a) && s0 == pma_ser(a) + t implies outputs@ == a.outputs@ && s2 == pma_r2(a, t) by {
            assert(s1 == pma_r1(a, t));
            assert(s1 == a.outputs.vser_spec() + pma_r2(a, t));
        }
        let (a0, t0) = choose|a: Self, t: Seq<u8>| pma_valid(a) && s0 == pma_ser(a) + t;
        lemma_pma_split(a0, t0);
    }
//@}
//@after 1 let (match_kind, source) = MatchKind::deserialize_from_slice(source);{
    let ghost s3 = source@;
    proof {
        assert forall|a: Self, t: Seq<u8>| pma_valid(a) && s0 == pma_ser(a) + t implies match_kind == a.match_kind && s3 == pma_r3(a, t) by {
            lemma_pma_split(a, t);
            assert(s2 == pma_r2(a, t));
        }
        let (a0, t0) = choose|a: Self, t: Seq<u8>| pma_valid(a) && s0 == pma_ser(a) + t;
        assert(s3.len() >= 4) by { lemma_pma_split(a0, t0); a0.num_states.lemma_ser_len(); assert(s3 == pma_r3(a0, t0)); }
    }
//@}
//@after 1 let (num_states, source) = u32::deserialize_from_slice(source);{
    proof {
        assert forall|a: Self, t: Seq<u8>| pma_valid(a) && s0 == pma_ser(a) + t implies num_states == a.num_states && source@ == t by {
            lemma_pma_split(a, t);
            assert(s3 == pma_r3(a, t));
        }
    }
//@}
//@before 1 Self {{
    proof {
        assert forall|a: Self, t: Seq<u8>| pma_valid(a) && s0 == pma_ser(a) + t implies
            states@ == a.states@ && outputs@ == a.outputs@ && match_kind == a.match_kind && num_states == a.num_states && source@ == t
            && states.vvalid() && outputs.vvalid()
            && states.vser_spec() == a.states.vser_spec() && outputs.vser_spec() == a.outputs.vser_spec() by {
            assert(s1 == pma_r1(a, t));
            assert(s2 == pma_r2(a, t));
            assert(s3 == pma_r3(a, t));
        }
    }
//@}
//@endimpl

// C09 in executable form: serialise, append arbitrary bytes, restore, compare, re-serialise
fn c09_round_trip<V: Serializable>(a: &DoubleArrayAhoCorasick<V>, tail: &Vec<u8>)
    requires pma_valid(*a),
{
    let mut bytes = a.serialize();
    let ghost ser = bytes@;
    let mut i: usize = 0;
    while i < tail.len()
        invariant i <= tail.len(), bytes@ == ser + tail@.take(i as int),
        decreases tail.len() - i
    {
        bytes.push(tail[i]);
        proof { assert(tail@.take(i as int + 1) =~= tail@.take(i as int).push(tail@[i as int])); }
        i += 1;
    }
    proof { assert(tail@.take(tail.len() as int) =~= tail@); }
    let (b, rest) = unsafe { DoubleArrayAhoCorasick::<V>::deserialize_unchecked(bytes.as_slice()) };
    assert(pma_eq(b, *a));          // equal automaton (states, outputs, match kind, state count)
    assert(rest@ == tail@);         // consumed exactly its own bytes, handed the rest back untouched
    let again = b.serialize();
    assert(again@ =~= ser) by {     // re-serialisation reproduces the bytes
        assert(b.states.vser_spec() == a.states.vser_spec());
        assert(b.outputs.vser_spec() == a.outputs.vser_spec());
    }
}
} // verus!
fn main() {}

