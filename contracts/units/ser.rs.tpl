use vstd::prelude::*;
use core::num::NonZeroU32;
verus! {
//@include prelude.rs
//@include from_u32.rs
//@include ghost_ser.rs

//@trait src/serializer.rs Serializable
    // ---- ghost additions: the byte-level contract every implementation is held to ----
    spec fn ser_spec(&self) -> Seq<u8>;
    spec fn nbytes() -> nat;
    proof fn lemma_ser_len(&self)
        ensures self.ser_spec().len() == Self::nbytes();
    // size sanity of the implementation (true for all built-in types); surfaces as a precondition of serialize()
    spec fn width_ok() -> bool;
//@fn serialize_to_vec
//@head{
        ensures final(dst)@ == old(dst)@ + self.ser_spec()
//@}
//@fn deserialize_from_slice
//@ret r
//@head{
        requires src@.len() >= Self::nbytes()
        ensures r.1@ == src@.skip(Self::nbytes() as int),
            forall|x: Self| src@.take(Self::nbytes() as int) == x.ser_spec() ==> r.0 == x
//@}
//@fn serialized_bytes
//@ret r
//@head{
        requires Self::width_ok()
        ensures r == Self::nbytes()
//@}
//@endtrait

// u32: macro-generated impl (define_serializable_primitive!(u32, 4)); contract assumed here, proved complete
// on the real code by the Kani harness ser_u32 (full domain, loop-free)
impl Serializable for u32 {
    spec fn ser_spec(&self) -> Seq<u8> { le_u32(*self) }
    spec fn nbytes() -> nat { 4 }
    spec fn width_ok() -> bool { true }
    proof fn lemma_ser_len(&self) {}
    #[verifier::external_body]
    fn serialize_to_vec(&self, dst: &mut Vec<u8>) { dst.extend_from_slice(&self.to_le_bytes()); }
    #[verifier::external_body]
    fn deserialize_from_slice(src: &[u8]) -> (r: (Self, &[u8])) { let x = Self::from_le_bytes(src[..4].try_into().unwrap()); (x, &src[4..]) }
    #[verifier::external_body]
    fn serialized_bytes() -> (r: usize) { 4 }
}

//@impl src/serializer.rs impl Serializable for Option<NonZeroU32>
//@keeptrait
    spec fn ser_spec(&self) -> Seq<u8> { le_u32(match *self { None => 0u32, Some(x) => x@ }) }
    spec fn nbytes() -> nat { 4 }
    spec fn width_ok() -> bool { true }
    proof fn lemma_ser_len(&self) {}
//@fn serialize_to_vec
//@fn deserialize_from_slice
//@ret r
//@start{
    let ghost src0 = src@;
//@}
//@before 1 (NonZeroU32::new(x), src){
    proof {
        assert forall|o: Option<NonZeroU32>| src0.take(4) == o.ser_spec() implies x == (match o { None => 0u32, Some(v) => v@ }) by {
            let y: u32 = match o { None => 0u32, Some(v) => v@ };
            assert(y.ser_spec() == o.ser_spec());
        }
        assert forall|a: NonZeroU32, b: NonZeroU32| a@ == b@ implies a == b by { lemma_nz_ext(a, b); }
    }
//@}
//@fn serialized_bytes
//@ret r
//@endimpl


//@item src/intpack.rs struct U24nU8
//@impl src/intpack.rs impl Serializable for U24nU8
//@keeptrait
    spec fn ser_spec(&self) -> Seq<u8> { le_u32(self.0) }
    spec fn nbytes() -> nat { 4 }
    spec fn width_ok() -> bool { true }
    proof fn lemma_ser_len(&self) {}
//@fn serialize_to_vec
//@fn deserialize_from_slice
//@ret r
//@start{
    let ghost src0 = src@;
//@}
//@before 1 (Self(x), src){
    proof {
        assert forall|o: U24nU8| src0.take(4) == o.ser_spec() implies x == o.0 by { assert(o.0.ser_spec() == o.ser_spec()); }
    }
//@}
//@fn serialized_bytes
//@ret r
//@endimpl

//@item src/lib.rs enum MatchKind
//@rules keeppub
//@end
pub open spec fn mk_u8(k: MatchKind) -> u8 { match k { MatchKind::Standard => 0, MatchKind::LeftmostLongest => 1, MatchKind::LeftmostFirst => 2 } }
pub open spec fn u8_mk(src: u8) -> MatchKind { if src == 1 { MatchKind::LeftmostLongest } else if src == 2 { MatchKind::LeftmostFirst } else { MatchKind::Standard } }
impl vstd::std_specs::convert::FromSpecImpl<u8> for MatchKind {
    open spec fn obeys_from_spec() -> bool { true }
    open spec fn from_spec(src: u8) -> MatchKind { u8_mk(src) }
}
impl vstd::std_specs::convert::FromSpecImpl<MatchKind> for u8 {
    open spec fn obeys_from_spec() -> bool { true }
    open spec fn from_spec(src: MatchKind) -> u8 { mk_u8(src) }
}
//@impl src/lib.rs impl From<u8> for MatchKind
//@keeptrait
//@fn from
//@endimpl
//@impl src/lib.rs impl From<MatchKind> for u8
//@keeptrait
//@fn from
//@endimpl
//@impl src/lib.rs impl Serializable for MatchKind
//@keeptrait
    spec fn ser_spec(&self) -> Seq<u8> { seq![mk_u8(*self)] }
    spec fn nbytes() -> nat { 1 }
    spec fn width_ok() -> bool { true }
    proof fn lemma_ser_len(&self) {}
//@fn serialize_to_vec
//@fn deserialize_from_slice
//@ret r
//@start{
    proof {
        assert forall|o: MatchKind| src@.take(1) == o.ser_spec() implies src@[0] == mk_u8(o) by { assert(src@.take(1)[0] == o.ser_spec()[0]); }
    }
//@}
//@fn serialized_bytes
//@ret r
//@endimpl

//@item src/bytewise.rs struct State
//@impl src/bytewise.rs impl Serializable for State
//@keeptrait
    spec fn ser_spec(&self) -> Seq<u8> { self.base.ser_spec() + self.fail.ser_spec() + self.opos_ch.ser_spec() }
    spec fn nbytes() -> nat { 12 }
    spec fn width_ok() -> bool { true }
    proof fn lemma_ser_len(&self) {}
//@fn serialize_to_vec
//@start{
    let ghost d0 = dst@;
//@}
//@after 1 self.opos_ch.serialize_to_vec(dst);{
    proof { assert(dst@ =~= d0 + self.ser_spec()); }
//@}
//@fn deserialize_from_slice
//@ret r
//@start{
    let ghost src0 = src@;
//@}
//@before 1 Self {{
    proof {
        assert forall|o: State| src0.take(12) == o.ser_spec() implies base == o.base && fail == o.fail && opos_ch == o.opos_ch by {
            let s = o.ser_spec();
            assert(src0.take(4) =~= s.take(4) && s.take(4) =~= o.base.ser_spec());
            assert(src0.skip(4).take(4) =~= s.skip(4).take(4) && s.skip(4).take(4) =~= o.fail.ser_spec());
            assert(src0.skip(4).skip(4).take(4) =~= s.skip(8).take(4) && s.skip(8).take(4) =~= o.opos_ch.ser_spec());
        }
        assert(src@ =~= src0.skip(12));
    }
//@}
//@fn serialized_bytes
//@ret r
//@endimpl

//@item src/lib.rs struct Output
//@impl src/lib.rs Serializable for Output<V>
//@keeptrait
    spec fn ser_spec(&self) -> Seq<u8> { self.value.ser_spec() + self.length.ser_spec() + self.parent.ser_spec() }
    spec fn nbytes() -> nat { V::nbytes() + 8 }
    spec fn width_ok() -> bool { V::width_ok() && V::nbytes() < 0x1000_0000 }
    proof fn lemma_ser_len(&self) { self.value.lemma_ser_len(); }
//@fn serialize_to_vec
//@start{
    let ghost d0 = dst@;
//@}
//@after 1 self.parent.serialize_to_vec(dst);{
    proof { assert(dst@ =~= d0 + self.ser_spec()); }
//@}
//@fn deserialize_from_slice
//@ret r
//@start{
    let ghost src0 = src@;
    let ghost n = V::nbytes() as int;
//@}
//@before 1 Self {{
    proof {
        assert forall|o: Output<V>| src0.take(n + 8) == o.ser_spec() implies value == o.value && length == o.length && parent == o.parent by {
            let s = o.ser_spec();
            o.value.lemma_ser_len();
            assert(src0.take(n) =~= s.take(n) && s.take(n) =~= o.value.ser_spec());
            assert(src0.skip(n).take(4) =~= s.skip(n).take(4) && s.skip(n).take(4) =~= o.length.ser_spec());
            assert(src0.skip(n).skip(4).take(4) =~= s.skip(n + 4).take(4) && s.skip(n + 4).take(4) =~= o.parent.ser_spec());
        }
        assert(src@ =~= src0.skip(n + 8));
    }
//@}
//@fn serialized_bytes
//@ret r
//@endimpl

//@trait src/serializer.rs SerializableVec
    // ---- ghost additions ----
    spec fn vser_spec(&self) -> Seq<u8>;
    spec fn vvalid(&self) -> bool;              // within the documented size limits (lengths fit u32)
    spec fn veq(&self, other: &Self) -> bool;   // equality of contents
//@fn serialize_to_vec
//@head{
        requires self.vvalid()
        ensures final(dst)@ == old(dst)@ + self.vser_spec()
//@}
//@fn deserialize_from_slice
//@ret r
//@head{
        requires exists|x: Self, t: Seq<u8>| x.vvalid() && src@ == x.vser_spec() + t
        ensures forall|x: Self, t: Seq<u8>| x.vvalid() && src@ == x.vser_spec() + t ==> r.0.veq(&x) && r.1@ == t && r.0.vvalid()
//@}
//@fn serialized_bytes
//@ret r
//@head{
        requires self.vvalid()
        ensures r == self.vser_spec().len()
//@}
//@endtrait

//@impl src/serializer.rs SerializableVec for Vec<S>
//@keeptrait
    spec fn vser_spec(&self) -> Seq<u8> { le_u32(self@.len() as u32) + ser_seq(self@) }
    spec fn vvalid(&self) -> bool { self@.len() <= u32::MAX && S::width_ok() && self@.len() * S::nbytes() + 4 <= usize::MAX }
    spec fn veq(&self, other: &Self) -> bool { self@ == other@ }
//@fn serialize_to_vec
//@rules R6
//@start{
    let ghost d0 = dst@;
//@}
//@loopiter 1 it
//@loop 1{
        invariant dst@ =~= d0 + le_u32(self@.len() as u32) + ser_seq(self@.take(it.index@ as int)),
//@}
//@after 1 x.serialize_to_vec(dst);{
        proof {
            let k = it.index@ as int;
            assert(self@.take(k + 1) =~= self@.take(k).push(*x));
            lemma_ser_seq_push(self@.take(k), *x);
        }
//@}
//@before 1 for x in{
    proof { assert(self@.take(0) =~= Seq::<S>::empty()); }
//@}
//@after 1 for x in{
    proof { assert(self@.take(self@.len() as int) =~= self@); }
//@}
//@fn deserialize_from_slice
//@ret r
//@start{
    let ghost src0 = src@;
//@}
//@loopiter 1 it
//@loop 1{
        invariant
            forall|x: Vec<S>, t: Seq<u8>| x.vvalid() && src0 == x.vser_spec() + t ==>
                x@.len() == len && dst@ == x@.take(it.index@ as int) && src@ == ser_seq(x@.skip(it.index@ as int)) + t,
            exists|x: Vec<S>, t: Seq<u8>| x.vvalid() && src0 == x.vser_spec() + t,
//@}
//@before 1 let mut dst = Self::with_capacity{
    proof {
        assert forall|x: Vec<S>, t: Seq<u8>| x.vvalid() && src0 == x.vser_spec() + t implies
            x@.len() == len && src@ == ser_seq(x@.skip(0)) + t by {
            let y = x@.len() as u32;
            assert(src0.take(4) =~= y.ser_spec());
            assert(x@.skip(0) =~= x@);
            assert(src0.skip(4) =~= ser_seq(x@) + t);
        }
    }
//@}
//@before 1 let (x, rest) = S::deserialize_from_slice(src);{
    let ghost sb = src@;
    let ghost db = dst@;
    let ghost i = it.index@ as int;
    proof {
        let (x0, t0) = choose|x: Vec<S>, t: Seq<u8>| x.vvalid() && src0 == x.vser_spec() + t;
        assert(x0@.skip(i).len() > 0);
        x0@[i].lemma_ser_len();
        assert(ser_seq(x0@.skip(i)) == x0@.skip(i)[0].ser_spec() + ser_seq(x0@.skip(i).skip(1)));
    }
//@}
//@after 1 src = rest;{
    proof {
        let n = S::nbytes() as int;
        assert forall|x: Vec<S>, t: Seq<u8>| x.vvalid() && src0 == x.vser_spec() + t implies
            x@.len() == len && dst@ == x@.take(i + 1) && src@ == ser_seq(x@.skip(i + 1)) + t by {
            let xs = x@.skip(i);
            assert(xs.len() > 0);
            x@[i].lemma_ser_len();
            assert(ser_seq(xs) == xs[0].ser_spec() + ser_seq(xs.skip(1)));
            assert(sb.take(n) =~= x@[i].ser_spec());
            assert(xs.skip(1) =~= x@.skip(i + 1));
            assert(x@.take(i + 1) =~= x@.take(i).push(x@[i]));
            assert(sb.skip(n) =~= ser_seq(x@.skip(i + 1)) + t);
        }
    }
//@}
//@before 1 (dst, src){
    proof {
        assert forall|x: Vec<S>, t: Seq<u8>| x.vvalid() && src0 == x.vser_spec() + t implies dst@ == x@ && src@ == t by {
            assert(x@.take(len as int) =~= x@);
            assert(x@.skip(len as int) =~= Seq::<S>::empty());
            assert(ser_seq(x@.skip(len as int)) + t =~= t);
        }
    }
//@}
//@fn serialized_bytes
//@ret r
//@start{
    proof {
        lemma_ser_seq_len(self@);
        assert(S::nbytes() * self@.len() == self@.len() * S::nbytes()) by (nonlinear_arith);
    }
//@}
//@endimpl

//@item src/bytewise.rs struct DoubleArrayAhoCorasick

spec fn pma_valid<V: Serializable>(a: DoubleArrayAhoCorasick<V>) -> bool {
    a.states.vvalid() && a.outputs.vvalid()
        && a.states.vser_spec().len() + a.outputs.vser_spec().len() + 5 <= usize::MAX
}
spec fn pma_ser<V: Serializable>(a: DoubleArrayAhoCorasick<V>) -> Seq<u8> {
    a.states.vser_spec() + a.outputs.vser_spec() + a.match_kind.ser_spec() + a.num_states.ser_spec()
}
spec fn pma_r3<V: Serializable>(a: DoubleArrayAhoCorasick<V>, t: Seq<u8>) -> Seq<u8> { a.num_states.ser_spec() + t }
spec fn pma_r2<V: Serializable>(a: DoubleArrayAhoCorasick<V>, t: Seq<u8>) -> Seq<u8> { a.match_kind.ser_spec() + pma_r3(a, t) }
spec fn pma_r1<V: Serializable>(a: DoubleArrayAhoCorasick<V>, t: Seq<u8>) -> Seq<u8> { a.outputs.vser_spec() + pma_r2(a, t) }
proof fn lemma_pma_split<V: Serializable>(a: DoubleArrayAhoCorasick<V>, t: Seq<u8>)
    ensures pma_ser(a) + t == a.states.vser_spec() + pma_r1(a, t),
        pma_r2(a, t).take(1) == a.match_kind.ser_spec(), pma_r2(a, t).skip(1) == pma_r3(a, t), pma_r2(a, t).len() >= 5,
        pma_r3(a, t).take(4) == a.num_states.ser_spec(), pma_r3(a, t).skip(4) == t,
{
    assert(pma_ser(a) + t =~= a.states.vser_spec() + pma_r1(a, t));
    assert(pma_r2(a, t).take(1) =~= a.match_kind.ser_spec());
    assert(pma_r2(a, t).skip(1) =~= pma_r3(a, t));
    assert(pma_r3(a, t).take(4) =~= a.num_states.ser_spec());
    assert(pma_r3(a, t).skip(4) =~= t);
}
spec fn pma_eq<V: Serializable>(a: DoubleArrayAhoCorasick<V>, b: DoubleArrayAhoCorasick<V>) -> bool {
    a.states@ == b.states@ && a.outputs@ == b.outputs@ && a.match_kind == b.match_kind && a.num_states == b.num_states
}

//@impl src/bytewise.rs impl<V> DoubleArrayAhoCorasick<V>
//@fn serialize
//@ret r
//@head{
    requires pma_valid(*self)
    ensures r@ == pma_ser(*self)
//@}
//@after 1 self.num_states.serialize_to_vec(&mut result);{
    proof { assert(result@ =~= pma_ser(*self)); }
//@}
//@fn deserialize_unchecked
//@ret r
//@head{
    requires exists|a: Self, t: Seq<u8>| pma_valid(a) && source@ == pma_ser(a) + t
    ensures forall|a: Self, t: Seq<u8>| pma_valid(a) && source@ == pma_ser(a) + t ==> pma_eq(r.0, a) && r.1@ == t && pma_valid(r.0)
//@}
//@start{
    let ghost s0 = source@;
    proof {
        let (a0, t0) = choose|a: Self, t: Seq<u8>| pma_valid(a) && s0 == pma_ser(a) + t;
        lemma_pma_split(a0, t0);
    }
//@}
//@after 1 let (states, source) = Vec::<State>::deserialize_from_slice(source);{
    let ghost s1 = source@;
    proof {
        assert forall|a: Self, t: Seq<u8>| pma_valid(a) && s0 == pma_ser(a) + t implies states@ == a.states@ && s1 == pma_r1(a, t) by {
            lemma_pma_split(a, t);
        }
        let (a0, t0) = choose|a: Self, t: Seq<u8>| pma_valid(a) && s0 == pma_ser(a) + t;
        assert(s1 == a0.outputs.vser_spec() + pma_r2(a0, t0));
    }
//@}
//@after 1 let (outputs, source) = Vec::<Output<V>>::deserialize_from_slice(source);{
    let ghost s2 = source@;
    proof {
        assert forall|a: Self, t: Seq<u8>| pma_valid(a) && s0 == pma_ser(a) + t implies outputs@ == a.outputs@ && s2 == pma_r2(a, t) by {
            assert(s1 == pma_r1(a, t));
            assert(s1 == a.outputs.vser_spec() + pma_r2(a, t));
        }
        let (a0, t0) = choose|a: Self, t: Seq<u8>| pma_valid(a) && s0 == pma_ser(a) + t;
        lemma_pma_split(a0, t0);
    }
//@}
//@after 1 let (match_kind, source) = MatchKind::deserialize_from_slice(source);{
    let ghost s3 = source@;
    proof {
        assert forall|a: Self, t: Seq<u8>| pma_valid(a) && s0 == pma_ser(a) + t implies match_kind == a.match_kind && s3 == pma_r3(a, t) by {
            lemma_pma_split(a, t);
            assert(s2 == pma_r2(a, t));
        }
        let (a0, t0) = choose|a: Self, t: Seq<u8>| pma_valid(a) && s0 == pma_ser(a) + t;
        assert(s3.len() >= 4) by { lemma_pma_split(a0, t0); a0.num_states.lemma_ser_len(); assert(s3 == pma_r3(a0, t0)); }
    }
//@}
//@after 1 let (num_states, source) = u32::deserialize_from_slice(source);{
    proof {
        assert forall|a: Self, t: Seq<u8>| pma_valid(a) && s0 == pma_ser(a) + t implies num_states == a.num_states && source@ == t by {
            lemma_pma_split(a, t);
            assert(s3 == pma_r3(a, t));
        }
    }
//@}
//@before 1 Self {{
    proof {
        assert forall|a: Self, t: Seq<u8>| pma_valid(a) && s0 == pma_ser(a) + t implies
            states@ == a.states@ && outputs@ == a.outputs@ && match_kind == a.match_kind && num_states == a.num_states && source@ == t
            && states.vvalid() && outputs.vvalid()
            && states.vser_spec() == a.states.vser_spec() && outputs.vser_spec() == a.outputs.vser_spec() by {
            assert(s1 == pma_r1(a, t));
            assert(s2 == pma_r2(a, t));
            assert(s3 == pma_r3(a, t));
        }
    }
//@}
//@endimpl

// C09 in executable form: serialise, append arbitrary bytes, restore, compare, re-serialise
fn c09_round_trip<V: Serializable>(a: &DoubleArrayAhoCorasick<V>, tail: &Vec<u8>)
    requires pma_valid(*a),
{
    let mut bytes = a.serialize();
    let ghost ser = bytes@;
    let mut i: usize = 0;
    while i < tail.len()
        invariant i <= tail.len(), bytes@ == ser + tail@.take(i as int),
        decreases tail.len() - i
    {
        bytes.push(tail[i]);
        proof { assert(tail@.take(i as int + 1) =~= tail@.take(i as int).push(tail@[i as int])); }
        i += 1;
    }
    proof { assert(tail@.take(tail.len() as int) =~= tail@); }
    let (b, rest) = unsafe { DoubleArrayAhoCorasick::<V>::deserialize_unchecked(bytes.as_slice()) };
    assert(pma_eq(b, *a));          // equal automaton (states, outputs, match kind, state count)
    assert(rest@ == tail@);         // consumed exactly its own bytes, handed the rest back untouched
    let again = b.serialize();
    assert(again@ =~= ser) by {     // re-serialisation reproduces the bytes
        assert(b.states.vser_spec() == a.states.vser_spec());
        assert(b.outputs.vser_spec() == a.outputs.vser_spec());
    }
}
} // verus!
fn main() {}
