use vstd::prelude::*;
use core::num::NonZeroU32;
use core::mem;
verus! {
//@include parts/bw_core.tpl
// checked by Verus against the compiler's layout of the extracted struct (same fields as src/bytewise.rs State):
// the "12 bytes per state" of the documentation
global layout State is size == 12, align == 4;
global layout usize is size == 8;

// trusted: a Vec never holds more than isize::MAX bytes (std: Vec capacity invariant)
#[verifier::external_body]
proof fn axiom_vec_bytes_bound<T>(v: &Vec<T>)
    ensures v@.len() * vstd::layout::size_of::<T>() <= isize::MAX,
{
}

//@impl src/bytewise.rs impl<V> DoubleArrayAhoCorasick<V>
//@fn num_states
//@ret r
//@head{
    ensures r == self.num_states
//@}
//@fn heap_bytes
//@ret r
//@head{
    ensures r == 12 * self.states@.len() + self.outputs@.len() * vstd::layout::size_of::<Output<V>>(),
        // C15: never smaller than what the states need at 12 bytes each
        r >= 12 * self.states@.len()
//@}
//@start{
    proof { axiom_vec_bytes_bound(&self.states); axiom_vec_bytes_bound(&self.outputs); }
//@}
//@endimpl
} // verus!
fn main() {}
