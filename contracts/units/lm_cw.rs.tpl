#![feature(sized_hierarchy)]
use vstd::prelude::*;
use core::num::NonZeroU32;
use vstd::std_specs::iter::IteratorSpec;
verus! {
//@include parts/cw_core.tpl
//@include asref.rs
//@include enumerate.rs
//@item src/lib.rs struct Match
//@include ghost_chain.rs
//@include ghost_outs_cw.rs
//@include ghost_str.rs
spec fn cw_pma_ok<V>(pma: &CharwiseDoubleArrayAhoCorasick<V>, lm: bool) -> bool {
    cw_wf(pma.states@, pma.mapper.table@, lm) && outs_ok_cw(pma.states@, pma.outputs@)
}
//@item src/charwise/iter.rs struct LestmostFindIterator
//@include ghost_lm_cw.rs

//@impl src/lib.rs impl<V> Output<V>
//@fn value
//@ret r
//@head{
    ensures r == self.value
//@}
//@fn length
//@ret r
//@head{
    ensures r == self.length
//@}
//@endimpl

//@impl src/lib.rs impl MatchKind
//@fn is_leftmost
//@ret r
//@head{
    ensures r == !(self is Standard)
//@}
//@endimpl

//@impl src/charwise.rs impl<V> CharwiseDoubleArrayAhoCorasick<V>
//@fn leftmost_find_iter
//@rules R8c
//@ret r
//@head{
    requires cw_pma_ok(self, !(self.match_kind is Standard))
    ensures cwl_inv(r), r.pma == self, r.haystack == haystack, r.pos == 0
//@}
//@start{
    proof { axiom_str_start(haystack.as_ref_spec()); }
//@}
//@endimpl

//@impl src/charwise/iter.rs Iterator for LestmostFindIterator
//@fn next
//@rules R24 R3all
//@pre{
#[verifier::loop_isolation(false)]
//@}
//@ret r
//@head{
    requires cwl_inv(*old(self))
    ensures cwl_inv(*final(self)), final(self).pma == old(self).pma, final(self).haystack == old(self).haystack,
        cwl_stream_of(*old(self)) =~= (match r { Some(m) => seq![m] + cwl_stream_of(*final(self)), None => Seq::empty() }),
        // every reported end offset is a char boundary inside the haystack, and the iterator moved forward
        r.is_some() ==> r.unwrap().end == final(self).pos && final(self).pos > old(self).pos,
        final(self).pos <= str_blen(final(self).haystack.as_ref_spec()),
//@}
//@start{
    let ghost hs = self.haystack.as_ref_spec();
    let ghost st = self.pma.states@;
    let ghost tb = self.pma.mapper.table@;
    let ghost pos0 = self.pos;
    let ghost chars0 = tail_chars(hs, pos0 as int);
    let ghost mut k: int = 0;
    proof {
        lemma_root_live_cw(st, tb, true);
        axiom_str_bound(hs, pos0 as int);
    }
//@}
//@loop 1{
    invariant cwl_inv(*self), self.pma == old(self).pma, self.haystack == old(self).haystack, hs == self.haystack.as_ref_spec(),
        st == self.pma.states@, tb == self.pma.mapper.table@, pos0 == old(self).pos, chars0 == tail_chars(hs, pos0 as int),
        cw_live(st, true, state_id as int),
        verif_it1.obeys_prophetic_iter_laws(), verif_it1.decrease().is_some(),
        // the byte offset of the next unread character is self.pos + skips, a char boundary whose tail is what the iterator still holds
        pos0 <= self.pos, self.pos + skips <= str_blen(hs), str_blen(hs) <= isize::MAX,
        str_boundary(hs, self.pos + skips), verif_it1.remaining() == tail_chars(hs, self.pos + skips),
        last_output_pos.is_some() ==> 0 < last_output_pos.unwrap()@ <= self.pma.outputs@.len() && self.pos > pos0,
        last_output_pos.is_none() ==> self.pos == pos0,
        cwl_scan(st, tb, 0, None, chars0, pos0 as nat)
            == cwl_scan(st, tb, state_id as int, cwl_cand(last_output_pos, self.pos), verif_it1.remaining(), (self.pos + skips) as nat),
    decreases verif_it1.decrease().unwrap(),
//@}
//@before 1 skips +={
    let ghost p_b = self.pos + skips;
    proof {
        assert(tail_chars(hs, p_b as int)[0] == c);
        axiom_str_step(hs, p_b as int);
        axiom_str_bound(hs, p_b + c.len_utf8());
    }
//@}
//@closure 1 |output_pos| => |output_pos: NonZeroU32| -> (m: Match<V>){
    requires 0 < output_pos@ <= self.pma.outputs@.len()
    ensures m == mk_match(self.pma.outputs@[output_pos@ - 1], self.pos as nat)
//@}
//@endimpl
} // verus!
fn main() {}
