extern crate alloc;
use vstd::prelude::*;
use core::num::NonZeroU32;
use std::collections::BTreeMap;
verus! {
//@include parts/cw_core.tpl
//@include parts/nfa_types.tpl
//@include ghost_nfa_cw.rs
//@include ghost_link_cw.rs
} // verus!
fn main() {}
