#![feature(allocator_api)]
#![feature(sized_hierarchy)]
extern crate alloc;
use vstd::prelude::*;
use core::num::NonZeroU32;
use core::ops::Range;
use std::collections::BTreeMap;
use std::collections::BTreeSet;
use vstd::std_specs::iter::IteratorSpec;
verus! {
//@include parts/helper.tpl
//@include prelude_vec.rs
//@include parts/nfa_types.tpl
//@include parts/nfa_add.tpl
//@include parts/cw_state.tpl
//@include parts/cw_build.tpl
//@include parts/cw_mapper_new.tpl
//@include asref.rs
//@include enumerate.rs
//@include ghost_cw.rs
//@include ghost_link_cw.rs
//@include ghost_outs_cw.rs
//@include parts/cw_wrap.tpl
} // verus!
fn main() {}
