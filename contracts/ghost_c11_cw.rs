// ---- C11 / determinism for the char-wise leftmost kinds: the tiling over the characters of a str depends on the registered patterns and
// their values only, and is unique ----
proof fn lemma_lm_optimal_cw_same<V>(n1: NfaBuilder<char, V>, n2: NfaBuilder<char, V>, hs: &str, pos: nat, ms: Seq<Match<V>>)
    requires same_regs(n1, n2), lm_optimal_cw(n1, hs, pos, ms),
    ensures lm_optimal_cw(n2, hs, pos, ms),
    decreases ms.len(),
{
    let all = tail_chars(hs, pos as int);
    assert forall|a: int, b: int| occ(n1, all, a, b) == occ(n2, all, a, b) by { }
    if ms.len() > 0 {
        let m = ms[0];
        let (k1, q) = choose|k1: int, q: Seq<char>| 0 < k1 <= all.len() && m.end == pos + byte_len(all.take(k1)) && #[trigger] is_suffix(q, all.take(k1)) && is_registered(n1, q)
                && m.length == byte_len(q) && m.value == reg_out(n1, q).unwrap().0 && best(n1, all, k1 - q.len(), q.len() as int);
        lemma_best_same(n1, n2, all, k1 - q.len(), q.len() as int);
        assert(is_registered(n2, q) && m.value == reg_out(n2, q).unwrap().0);
        assert(0 < k1 <= all.len() && m.end == pos + byte_len(all.take(k1)) && is_suffix(q, all.take(k1)) && is_registered(n2, q)
                && m.length == byte_len(q) && m.value == reg_out(n2, q).unwrap().0 && best(n2, all, k1 - q.len(), q.len() as int));
        lemma_lm_optimal_cw_same(n1, n2, hs, m.end as nat, ms.skip(1));
    }
}
proof fn lemma_lm_optimal_cw_unique<V>(n: NfaBuilder<char, V>, hs: &str, pos: nat, ms1: Seq<Match<V>>, ms2: Seq<Match<V>>)
    requires lm_optimal_cw(n, hs, pos, ms1), lm_optimal_cw(n, hs, pos, ms2),
    ensures ms1 == ms2,
    decreases ms1.len(),
{
    let all = tail_chars(hs, pos as int);
    if ms1.len() == 0 {
        if ms2.len() > 0 {
            let m = ms2[0];
            let (k1, q) = choose|k1: int, q: Seq<char>| 0 < k1 <= all.len() && m.end == pos + byte_len(all.take(k1)) && #[trigger] is_suffix(q, all.take(k1)) && is_registered(n, q)
                && m.length == byte_len(q) && m.value == reg_out(n, q).unwrap().0 && best(n, all, k1 - q.len(), q.len() as int);
            assert(occ(n, all, k1 - q.len(), q.len() as int));
            assert(false);
        }
        assert(ms1 =~= ms2);
    } else {
        let m1 = ms1[0];
        let (k1, q1) = choose|k1: int, q: Seq<char>| 0 < k1 <= all.len() && m1.end == pos + byte_len(all.take(k1)) && #[trigger] is_suffix(q, all.take(k1)) && is_registered(n, q)
            && m1.length == byte_len(q) && m1.value == reg_out(n, q).unwrap().0 && best(n, all, k1 - q.len(), q.len() as int);
        assert(occ(n, all, k1 - q1.len(), q1.len() as int));
        if ms2.len() == 0 { assert(false); }
        let m2 = ms2[0];
        let (k2, q2) = choose|k1: int, q: Seq<char>| 0 < k1 <= all.len() && m2.end == pos + byte_len(all.take(k1)) && #[trigger] is_suffix(q, all.take(k1)) && is_registered(n, q)
            && m2.length == byte_len(q) && m2.value == reg_out(n, q).unwrap().0 && best(n, all, k1 - q.len(), q.len() as int);
        assert(occ(n, all, k2 - q2.len(), q2.len() as int));
        assert(k1 - q1.len() == k2 - q2.len());
        assert(q1.len() == q2.len());
        assert(k1 == k2);
        assert(q1 =~= q2);
        assert(m1 == m2);
        lemma_lm_optimal_cw_unique(n, hs, m1.end as nat, ms1.skip(1), ms2.skip(1));
        assert(ms1 =~= seq![m1] + ms1.skip(1));
        assert(ms2 =~= seq![m2] + ms2.skip(1));
    }
}
// THEOREM (C11 and same-input determinism, char-wise leftmost kinds)
proof fn theorem_c11_cwl<V>(n1: NfaBuilder<char, V>, n2: NfaBuilder<char, V>, ps: Seq<Seq<char>>, vs: Seq<V>, hs: &str)
    requires optctx(n1), optctx(n2), lens_ok_cw(n1), lens_ok_cw(n2), str_blen(hs) <= usize::MAX,
        lf_inv(n1, ps, ps.len() as int), lf_inv(n2, ps, ps.len() as int), n1.match_kind == n2.match_kind, vals_are(n1, ps, vs), vals_are(n2, ps, vs),
    ensures nfa_cwl_stream(n1, hs, 0) == nfa_cwl_stream(n2, hs, 0),
{
    axiom_str_start(hs);
    theorem_cwl_opt(n1, hs, 0);
    theorem_cwl_opt(n2, hs, 0);
    lemma_reg_same(n1, n2, ps, vs);
    lemma_lm_optimal_cw_same(n1, n2, hs, 0, nfa_cwl_stream(n1, hs, 0));
    lemma_lm_optimal_cw_unique(n2, hs, 0, nfa_cwl_stream(n1, hs, 0), nfa_cwl_stream(n2, hs, 0));
}
