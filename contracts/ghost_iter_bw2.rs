// ---- invariants and streams of the byte-wise iterator structs ----
spec fn nosuf_inv<P: Iterator<Item = u8>, V>(it: FindOverlappingNoSuffixIterator<'_, P, V>) -> bool {
    pma_ok(it.pma, false) && src_ok(it.haystack) && bw_live(it.pma.states@, false, it.state_id as int)
}

spec fn nosuf_stream<P: Iterator<Item = u8>, V>(it: FindOverlappingNoSuffixIterator<'_, P, V>) -> Seq<Match<V>> {
    nosuf_scan(it.pma.states@, it.pma.outputs@, it.state_id as int, enum_rest(it.haystack), enum_count(it.haystack))
}

spec fn find_inv<P: Iterator<Item = u8>, V>(it: FindIterator<'_, P, V>) -> bool {
    pma_ok(it.pma, false) && src_ok(it.haystack)
}

spec fn find_stream_of<P: Iterator<Item = u8>, V>(it: FindIterator<'_, P, V>) -> Seq<Match<V>> {
    find_stream(it.pma.states@, it.pma.outputs@, enum_rest(it.haystack), enum_count(it.haystack))
}

spec fn ovl_inv<P: Iterator<Item = u8>, V>(it: FindOverlappingIterator<'_, P, V>) -> bool {
    &&& pma_ok(it.pma, false)
    &&& src_ok(it.haystack)
    &&& bw_live(it.pma.states@, false, it.state_id as int)
    &&& (it.output_pos.is_some() ==> it.output_pos.unwrap()@ <= it.pma.outputs@.len() && it.pos == enum_count(it.haystack))
}

spec fn ovl_stream<P: Iterator<Item = u8>, V>(it: FindOverlappingIterator<'_, P, V>) -> Seq<Match<V>> {
    chain(it.pma.outputs@, opt_n(it.output_pos), it.pos as nat)
        + ovl_scan(it.pma.states@, it.pma.outputs@, it.state_id as int, enum_rest(it.haystack), enum_count(it.haystack))
}

spec fn lm_hay<P: AsRef<[u8]>, V>(it: LestmostFindIterator<'_, P, V>) -> Seq<u8> { it.haystack.as_ref_spec()@ }

spec fn lm_inv<P: AsRef<[u8]>, V>(it: LestmostFindIterator<'_, P, V>) -> bool {
    pma_ok(it.pma, true) && it.pos <= lm_hay(it).len()
}

spec fn lm_stream_of<P: AsRef<[u8]>, V>(it: LestmostFindIterator<'_, P, V>) -> Seq<Match<V>> {
    lm_stream(it.pma.states@, it.pma.outputs@, lm_hay(it), it.pos as nat)
}

spec fn lm_cand(last: Option<NonZeroU32>, pos: usize) -> Option<(nat, nat)> {
    match last { None => None, Some(o) => Some((o@ as nat, pos as nat)) }
}
