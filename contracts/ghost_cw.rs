// ---- ghost vocabulary for the char-wise double array ----
//@include ghost_bits_cw.rs

//@include ghost_mapcode.rs

// what the comments in charwise.rs claim: the array length is a multiple of a power of two that bounds every code
spec fn cw_safe_bl(st: Seq<State>, table: Seq<u32>, bl: u32) -> bool {
    &&& pow2(bl)
    &&& st.len() > 0
    &&& st.len() as int % (bl as int) == 0
    &&& st.len() <= u32::MAX
    &&& forall|i: int| 0 <= i < table.len() ==> (#[trigger] table[i]) == u32::MAX || table[i] < bl
    &&& forall|i: int| 0 <= i < st.len() ==> ((#[trigger] st[i]).base.is_some() ==> st[i].base.unwrap()@ < st.len())
}
spec fn cw_safe(st: Seq<State>, table: Seq<u32>) -> bool { exists|bl: u32| cw_safe_bl(st, table, bl) }

spec fn cw_child(st: Seq<State>, s: int, mc: u32) -> Option<u32> {
    match st[s].base {
        None => None,
        Some(b) => {
            let x = b@ ^ mc;
            if 0 <= x < st.len() && st[x as int].check == s { Some(x) } else { None }
        }
    }
}

proof fn lemma_xor_in_block_cw(b: u32, mc: u32, len: u32, bl: u32)
    requires pow2(bl), b < len, mc < bl, len % bl == 0,
    ensures (b ^ mc) < len,
{
    assert(bl > 0 && bl & sub(bl, 1) == 0 && b < len && mc < bl && len % bl == 0 ==> (b ^ mc) < len) by(bit_vector);
}

struct Wit { live: Set<int>, rank: Seq<nat> }

spec fn cw_ranked(st: Seq<State>, lm: bool, w: Wit) -> bool {
    &&& w.rank.len() == st.len()
    &&& w.live.contains(0)
    &&& !w.live.contains(1)
    &&& w.rank[0] == 0
    &&& forall|s: int| #[trigger] w.live.contains(s) ==> 0 <= s < st.len()
    &&& forall|s: int, mc: u32| w.live.contains(s) && (#[trigger] cw_child(st, s, mc)).is_some() ==>
            w.live.contains(cw_child(st, s, mc).unwrap() as int)
            && w.rank[cw_child(st, s, mc).unwrap() as int] == w.rank[s] + 1
    &&& forall|s: int| #[trigger] w.live.contains(s) && s != 0 ==>
            (w.live.contains(st[s].fail as int) && w.rank[st[s].fail as int] < w.rank[s])
            || (lm && st[s].fail == 1)
}

spec fn cw_wf(st: Seq<State>, table: Seq<u32>, lm: bool) -> bool {
    cw_safe(st, table) && exists|w: Wit| cw_ranked(st, lm, w)
}
spec fn cw_wit(st: Seq<State>, lm: bool) -> Wit { choose|w: Wit| cw_ranked(st, lm, w) }
spec fn cw_live(st: Seq<State>, lm: bool, s: int) -> bool { cw_wit(st, lm).live.contains(s) }
spec fn cw_rank(st: Seq<State>, lm: bool, s: int) -> nat { cw_wit(st, lm).rank[s] }

spec fn cw_goto(st: Seq<State>, table: Seq<u32>, s: int, mc: u32) -> int
    decreases cw_rank(st, false, s)
    when cw_wf(st, table, false) && cw_live(st, false, s)
{
    match cw_child(st, s, mc) {
        Some(t) => t as int,
        None => if s == 0 { 0 } else { cw_goto(st, table, st[s].fail as int, mc) },
    }
}
spec fn cw_goto_lm(st: Seq<State>, table: Seq<u32>, s: int, mc: u32) -> int
    decreases cw_rank(st, true, s)
    when cw_wf(st, table, true) && cw_live(st, true, s)
{
    match cw_child(st, s, mc) {
        Some(t) => t as int,
        None => if s == 0 || st[s].fail == 1 { 0 } else { cw_goto_lm(st, table, st[s].fail as int, mc) },
    }
}
// unmapped characters interrupt matching: straight back to the root
spec fn cw_delta(st: Seq<State>, table: Seq<u32>, s: int, c: u32) -> int {
    match map_code(table, c) { None => 0, Some(mc) => cw_goto(st, table, s, mc) }
}
spec fn cw_delta_lm(st: Seq<State>, table: Seq<u32>, s: int, c: u32) -> int {
    match map_code(table, c) { None => 0, Some(mc) => cw_goto_lm(st, table, s, mc) }
}

proof fn lemma_root_live_cw(st: Seq<State>, table: Seq<u32>, lm: bool)
    requires cw_wf(st, table, lm),
    ensures cw_live(st, lm, 0),
{
    let w = cw_wit(st, lm);
    assert(cw_ranked(st, lm, w));
}

// ---- C13, the 2n bound for the char-wise standard automaton (n = number of characters <= number of bytes) ----
spec fn cw_fsteps(st: Seq<State>, table: Seq<u32>, s: int, mc: u32) -> nat
    decreases cw_rank(st, false, s)
    when cw_wf(st, table, false) && cw_live(st, false, s)
{
    match cw_child(st, s, mc) {
        Some(_) => 0,
        None => if s == 0 { 0 } else { 1 + cw_fsteps(st, table, st[s].fail as int, mc) },
    }
}
proof fn lemma_goto_live(st: Seq<State>, table: Seq<u32>, s: int, mc: u32)
    requires cw_wf(st, table, false), cw_live(st, false, s),
    ensures cw_live(st, false, cw_goto(st, table, s, mc)),
    decreases cw_rank(st, false, s),
{
    let w = cw_wit(st, false);
    assert(cw_ranked(st, false, w));
    match cw_child(st, s, mc) {
        Some(t) => { assert(w.live.contains(cw_child(st, s, mc).unwrap() as int)); }
        None => { if s != 0 { lemma_goto_live(st, table, st[s].fail as int, mc); } }
    }
}
proof fn lemma_cw_fsteps_rank(st: Seq<State>, table: Seq<u32>, s: int, mc: u32)
    requires cw_wf(st, table, false), cw_live(st, false, s),
    ensures cw_fsteps(st, table, s, mc) + cw_rank(st, false, cw_goto(st, table, s, mc)) <= cw_rank(st, false, s) + 1,
    decreases cw_rank(st, false, s),
{
    let w = cw_wit(st, false);
    assert(cw_ranked(st, false, w));
    match cw_child(st, s, mc) {
        Some(t) => { assert(w.rank[cw_child(st, s, mc).unwrap() as int] == w.rank[s] + 1); }
        None => { if s != 0 { lemma_cw_fsteps_rank(st, table, st[s].fail as int, mc); } }
    }
}
// transitions taken for one character: an unmapped character is one move to the root
spec fn cw_char_moves(st: Seq<State>, table: Seq<u32>, s: int, c: u32) -> nat {
    match map_code(table, c) { None => 1, Some(mc) => cw_fsteps(st, table, s, mc) + 1 }
}
spec fn cw_run(st: Seq<State>, table: Seq<u32>, s: int, cs: Seq<char>) -> int
    decreases cs.len()
{
    if cs.len() == 0 { s } else { cw_run(st, table, cw_delta(st, table, s, cs[0] as u32), cs.skip(1)) }
}
spec fn cw_moves(st: Seq<State>, table: Seq<u32>, s: int, cs: Seq<char>) -> nat
    decreases cs.len()
{
    if cs.len() == 0 { 0 } else { cw_char_moves(st, table, s, cs[0] as u32) + cw_moves(st, table, cw_delta(st, table, s, cs[0] as u32), cs.skip(1)) }
}
proof fn lemma_cw_moves_bound(st: Seq<State>, table: Seq<u32>, s: int, cs: Seq<char>)
    requires cw_wf(st, table, false), cw_live(st, false, s),
    ensures cw_moves(st, table, s, cs) + cw_rank(st, false, cw_run(st, table, s, cs)) <= cw_rank(st, false, s) + 2 * cs.len(),
        cw_live(st, false, cw_run(st, table, s, cs)),
    decreases cs.len(),
{
    if cs.len() > 0 {
        let c = cs[0] as u32;
        lemma_root_live_cw(st, table, false);
        let w = cw_wit(st, false);
        assert(cw_ranked(st, false, w));
        match map_code(table, c) {
            None => { }
            Some(mc) => { lemma_cw_fsteps_rank(st, table, s, mc); lemma_goto_live(st, table, s, mc); }
        }
        lemma_cw_moves_bound(st, table, cw_delta(st, table, s, c), cs.skip(1));
    }
}
proof fn lemma_cw_moves_from_root(st: Seq<State>, table: Seq<u32>, cs: Seq<char>)
    requires cw_wf(st, table, false),
    ensures cw_moves(st, table, 0, cs) <= 2 * cs.len(),
{
    lemma_root_live_cw(st, table, false);
    let w = cw_wit(st, false);
    assert(cw_ranked(st, false, w));
    lemma_cw_moves_bound(st, table, 0, cs);
}
