//@include ghost_lm_nfa.rs
// ---- the leftmost search over the double array is a function of the sparse NFA alone (C11 for the leftmost kinds; first half
// of C03 / C04 / C06 for them): transitions, candidate tracking and restarts commute with the placement map idmap ----
proof fn lemma_image_live_lm<V>(n: NfaBuilder<u8, V>, st: Seq<State>, idmap: Seq<u32>, w: Wit, s: int)
    requires bw_encodes(st, n, idmap), nfa_tree(n), da_ranked(st, true, w), 0 <= s < n.states@.len(), s != 1,
    ensures w.live.contains(idmap[s] as int),
    decreases s,
{
    lemma_benc_basic(st, n, idmap, 0);
    if s >= 2 {
        let p = nfa_parent(n, s);
        assert(nfa_parent_ok(n, s, p));
        lemma_image_live_lm(n, st, idmap, w, p.0);
        lemma_benc_edge(st, n, idmap, p.0, p.1);
        lemma_benc_basic(st, n, idmap, p.0);
        assert(bw_child(st, idmap[p.0] as int, p.1) == Some(idmap[s]));
        assert(w.live.contains(bw_child(st, idmap[p.0] as int, p.1).unwrap() as int));
    }
}
proof fn lemma_sim_delta_lm<V>(n: NfaBuilder<u8, V>, st: Seq<State>, idmap: Seq<u32>, s: int, c: u8)
    requires bw_encodes(st, n, idmap), nfa_tree(n), nfa_links(n, true), da_safe(st), 0 <= s < n.states@.len(), s != 1,
    ensures bw_wf(st, true), bw_live(st, true, idmap[s] as int),
        bw_delta_lm(st, idmap[s] as int, c) == idmap[nfa_nd_lm(n, s, c)] as int,
    decreases nfa_depth(n, s),
{
    lemma_encodes_gives_wf(n, st, idmap, true);
    let w = bw_wit(st, true);
    assert(da_ranked(st, true, w));
    lemma_image_live_lm(n, st, idmap, w, s);
    lemma_benc_basic(st, n, idmap, s);
    lemma_benc_basic(st, n, idmap, 0);
    let x = idmap[s] as int;
    if nfa_edges(n, s).contains_key(c) {
        lemma_benc_edge(st, n, idmap, s, c);
        assert(bw_child(st, x, c) == Some(idmap[nfa_edges(n, s)[c] as int]));
    } else {
        assert(bw_child(st, x, c).is_none()) by {
            if bw_child(st, x, c).is_some() { assert(bw_edge(st, x, c)); lemma_benc_nospur(st, n, idmap, s, c); }
        }
        if s == 0 { }
        else {
            assert(x != 0) by { if x == 0 { lemma_benc_inj(st, n, idmap, s, 0); } }
            let f = n.states@[s].fail as int;
            if f == 1 {
                assert(st[x].fail == 1);
            } else {
                assert(0 <= f < n.states@.len());
                lemma_sim_delta_lm(n, st, idmap, f, c);
                assert(st[x].fail == idmap[f]);
                assert(idmap[f] != 1) by { lemma_benc_basic(st, n, idmap, f); }
            }
        }
    }
}

proof fn lemma_lm_scan_sim<V>(n: NfaBuilder<u8, V>, st: Seq<State>, idmap: Seq<u32>, s: int, last: Option<(nat, nat)>, hay: Seq<u8>, p: nat)
    requires bw_encodes(st, n, idmap), nfa_tree(n), nfa_links(n, true), da_safe(st), 0 <= s < n.states@.len(), s != 1,
    ensures lm_scan(st, idmap[s] as int, last, hay, p) == nfa_lm_scan(n, s, last, hay, p),
    decreases hay.len() - p,
{
    if p < hay.len() {
        let c = hay[p as int];
        lemma_sim_delta_lm(n, st, idmap, s, c);
        lemma_nd_lm_range(n, s, c);
        let t = nfa_nd_lm(n, s, c);
        lemma_benc_basic(st, n, idmap, t);
        lemma_benc_basic(st, n, idmap, 0);
        assert((idmap[t] == 0) == (t == 0)) by { if idmap[t] == 0 { lemma_benc_inj(st, n, idmap, t, 0); } }
        assert(st_opos(st[idmap[t] as int]) as nat == opt_n(n.states@[t].output_pos));
        if t == 0 {
            if last.is_none() { lemma_lm_scan_sim(n, st, idmap, 0, None, hay, p + 1); }
        } else if opt_n(n.states@[t].output_pos) != 0 {
            lemma_lm_scan_sim(n, st, idmap, t, Some((opt_n(n.states@[t].output_pos), p + 1)), hay, p + 1);
        } else {
            lemma_lm_scan_sim(n, st, idmap, t, last, hay, p + 1);
        }
    }
}
// THEOREM: what the byte-wise leftmost iterator is proved to report (lm_stream over the array) depends on the NFA only
proof fn theorem_lm_sim<V>(n: NfaBuilder<u8, V>, st: Seq<State>, idmap: Seq<u32>, hay: Seq<u8>, pos: nat)
    requires bw_encodes(st, n, idmap), nfa_tree(n), nfa_links(n, true), da_safe(st),
    ensures lm_stream(st, n.outputs@, hay, pos) == nfa_lm_stream(n, hay, pos),
    decreases hay.len() - pos,
{
    lemma_benc_basic(st, n, idmap, 0);
    lemma_lm_scan_sim(n, st, idmap, 0, None, hay, pos);
    match nfa_lm_scan(n, 0, None, hay, pos) {
        None => { },
        Some(p) => {
            if p.1 <= pos || p.1 > hay.len() || p.0 == 0 || p.0 > n.outputs@.len() { } else {
                theorem_lm_sim(n, st, idmap, hay, p.1);
            }
        },
    }
}

