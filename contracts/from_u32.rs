// ---- utils.rs: `usize::from_u32` -- contract assumed here, proved complete by Kani harness `from_u32` ----
pub trait FromU32: Sized {
    spec fn spec_from_u32(src: u32) -> Self;
    fn from_u32(src: u32) -> (r: Self)
        ensures r == Self::spec_from_u32(src);
}
impl FromU32 for usize {
    open spec fn spec_from_u32(src: u32) -> usize { src as usize }
    #[verifier::external_body]
    fn from_u32(src: u32) -> (r: usize) { src as usize }
}
