// ---- invariants and streams of the char-wise iterator structs ----
spec fn h_rest<P: Iterator<Item = u8>>(h: CharWithEndOffsetIterator<P>) -> Seq<u8> { enum_rest(h.inner) }

spec fn h_count<P: Iterator<Item = u8>>(h: CharWithEndOffsetIterator<P>) -> nat { enum_count(h.inner) }

spec fn cw_nosuf_inv<P: Iterator<Item = u8>, V>(it: FindOverlappingNoSuffixIterator<'_, P, V>) -> bool {
    cw_pma_ok(it.pma, false) && dec_ok(it.haystack) && cw_live(it.pma.states@, false, it.state_id as int)
}

spec fn cw_nosuf_stream<P: Iterator<Item = u8>, V>(it: FindOverlappingNoSuffixIterator<'_, P, V>) -> Seq<Match<V>> {
    cw_nosuf_scan(it.pma.states@, it.pma.mapper.table@, it.pma.outputs@, it.state_id as int, h_rest(it.haystack), h_count(it.haystack))
}

spec fn cw_find_inv<P: Iterator<Item = u8>, V>(it: FindIterator<'_, P, V>) -> bool {
    cw_pma_ok(it.pma, false) && dec_ok(it.haystack)
}

spec fn cw_find_stream_of<P: Iterator<Item = u8>, V>(it: FindIterator<'_, P, V>) -> Seq<Match<V>> {
    cw_find_stream(it.pma.states@, it.pma.mapper.table@, it.pma.outputs@, h_rest(it.haystack), h_count(it.haystack))
}

spec fn cw_ovl_inv<P: Iterator<Item = u8>, V>(it: FindOverlappingIterator<'_, P, V>) -> bool {
    &&& cw_pma_ok(it.pma, false)
    &&& dec_ok(it.haystack)
    &&& cw_live(it.pma.states@, false, it.state_id as int)
    &&& (it.output_pos.is_some() ==> it.output_pos.unwrap()@ <= it.pma.outputs@.len() && it.pos == h_count(it.haystack))
}

spec fn cw_ovl_stream<P: Iterator<Item = u8>, V>(it: FindOverlappingIterator<'_, P, V>) -> Seq<Match<V>> {
    chain(it.pma.outputs@, opt_n(it.output_pos), it.pos as nat)
        + cw_ovl_scan(it.pma.states@, it.pma.mapper.table@, it.pma.outputs@, it.state_id as int, h_rest(it.haystack), h_count(it.haystack))
}
