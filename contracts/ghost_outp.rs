// ---- output records: parent link and optional position as numbers ----
spec fn out_parent<V>(o: Output<V>) -> nat { match o.parent { None => 0, Some(p) => p@ as nat } }
spec fn opt_n(o: Option<NonZeroU32>) -> nat { match o { None => 0, Some(p) => p@ as nat } }
