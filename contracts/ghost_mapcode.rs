spec fn map_code(table: Seq<u32>, c: u32) -> Option<u32> {
    if c < table.len() && table[c as int] != u32::MAX { Some(table[c as int]) } else { None }
}
