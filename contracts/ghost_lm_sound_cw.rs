//@include ghost_lm_nfa_cw.rs
// ---- char-wise leftmost kinds, soundness half of C03 / C04 / C06 / C08: every match of the NFA-level char-wise leftmost stream ends at
// the byte offset after some number k of characters of the scanned tail, and the record it reports is that of a registered pattern q that
// is a suffix of those k characters; so it starts |q| characters (byte_len(q) bytes) earlier, on a character boundary at or after the
// start of the scan ----
//@include_subst ghost_lm_sound_core.rs u8=char
// the width the iterator adds per character is the width `add` records per character
proof fn lemma_nb_len_utf8(c: char)
    ensures c.nb() == c.len_utf8(),
{
}
// candidate (output position, end byte offset) of a scan over the characters `all` that started at byte offset pos
spec fn cand_ok_cw<V>(n: NfaBuilder<char, V>, all: Seq<char>, pos: nat, cand: (nat, nat)) -> bool {
    let o = cand.0; let e = cand.1;
    &&& 1 <= o <= n.outputs@.len()
    &&& exists|k: int, q: Seq<char>| 0 < k <= all.len() && e == pos + byte_len(all.take(k)) && #[trigger] is_suffix(q, all.take(k)) && rec_of(n, q, n.outputs@[o - 1])
}
proof fn lemma_byte_len_push(cs: Seq<char>, c: char)
    ensures byte_len(cs.push(c)) == byte_len(cs) + c.nb(),
{
    assert(cs.push(c).drop_last() =~= cs);
}
proof fn lemma_cwl_scan_sound<V>(n: NfaBuilder<char, V>, s: int, last: Option<(nat, nat)>, all: Seq<char>, pos: nat, k: int, p: nat)
    requires lmctx(n), 0 <= s < n.states@.len(), s != 1, 0 <= k <= all.len(), p == pos + byte_len(all.take(k)),
        is_suffix(path(n, s), all.take(k)), last.is_some() ==> cand_ok_cw(n, all, pos, last.unwrap()),
    ensures nfa_cwl_scan(n, s, last, all.skip(k), p).is_some() ==> cand_ok_cw(n, all, pos, nfa_cwl_scan(n, s, last, all.skip(k), p).unwrap()),
    decreases all.len() - k,
{
    let rest = all.skip(k);
    if rest.len() > 0 {
        let c = rest[0];
        assert(c == all[k]);
        let p2 = (p + c.len_utf8()) as nat;
        let w = all.take(k);
        let w2 = all.take(k + 1);
        assert(w.push(c) =~= w2);
        assert(rest.skip(1) =~= all.skip(k + 1));
        lemma_nb_len_utf8(c);
        lemma_byte_len_push(w, c);
        assert(p2 == pos + byte_len(w2));
        lemma_nd_lm_suffix(n, s, c, w);
        w_lm_unfold(n, s, c);
        let t = nfa_nd_lm(n, s, c);
        if t == 0 {
            assert(path(n, 0).len() == 0);
            assert(is_suffix(path(n, 0), w2));
            if last.is_none() { lemma_cwl_scan_sound(n, 0, None, all, pos, k + 1, p2); }
        } else {
            let o = opt_n(n.states@[t].output_pos);
            if o != 0 {
                w_lm_opos(n, t);
                let q = choose|q: Seq<char>| is_suffix(q, path(n, t)) && #[trigger] rec_of(n, q, n.outputs@[o - 1]);
                lemma_suffix_trans(q, path(n, t), w2);
                assert(cand_ok_cw(n, all, pos, (o, p2))) by {
                    assert(0 < k + 1 <= all.len() && p2 == pos + byte_len(all.take(k + 1)) && is_suffix(q, all.take(k + 1)) && rec_of(n, q, n.outputs@[o - 1]));
                }
                lemma_cwl_scan_sound(n, t, Some((o, p2)), all, pos, k + 1, p2);
            } else {
                lemma_cwl_scan_sound(n, t, last, all, pos, k + 1, p2);
            }
        }
    }
}
// the reported matches: each ends after k characters of the tail scanned from `pos`, reports the value of a registered pattern q that is a
// suffix of those characters and the length byte_len(q); the next scan starts at its end
spec fn lm_tiled_cw<V>(n: NfaBuilder<char, V>, hs: &str, pos: nat, ms: Seq<Match<V>>) -> bool
    decreases ms.len()
{
    ms.len() == 0 || ({ let m = ms[0]; let all = tail_chars(hs, pos as int);
        &&& pos < m.end <= str_blen(hs)
        &&& exists|k: int, q: Seq<char>| 0 < k <= all.len() && m.end == pos + byte_len(all.take(k)) && #[trigger] is_suffix(q, all.take(k)) && is_registered(n, q)
                && m.length == byte_len(q) && m.value == reg_out(n, q).unwrap().0
        &&& lm_tiled_cw(n, hs, m.end as nat, ms.skip(1)) })
}
spec fn lens_ok_cw<V>(n: NfaBuilder<char, V>) -> bool {
    forall|q: Seq<char>| #[trigger] is_registered(n, q) ==> reg_out(n, q).unwrap().1@ == byte_len(q)
}
// THEOREM (char-wise leftmost kinds, soundness)
proof fn theorem_cwl_sound<V>(n: NfaBuilder<char, V>, hs: &str, pos: nat)
    requires lmctx(n), lens_ok_cw(n), str_blen(hs) <= usize::MAX,
    ensures lm_tiled_cw(n, hs, pos, nfa_cwl_stream(n, hs, pos)),
    decreases str_blen(hs) - pos,
{
    let all = tail_chars(hs, pos as int);
    assert(path(n, 0).len() == 0);
    assert(all.take(0).len() == 0);
    assert(byte_len(all.take(0)) == 0);
    assert(is_suffix(path(n, 0), all.take(0)));
    assert(n.states@.len() >= 2) by { reveal(lmctx); }
    assert(all.skip(0) =~= all);
    lemma_cwl_scan_sound(n, 0, None, all, pos, 0, pos);
    match nfa_cwl_scan(n, 0, None, all, pos) {
        None => { },
        Some(p) => {
            if p.1 <= pos || p.1 > str_blen(hs) || p.0 == 0 || p.0 > n.outputs@.len() { } else {
                let m = mk_match(n.outputs@[p.0 - 1], p.1);
                let ms = nfa_cwl_stream(n, hs, pos);
                assert(ms[0] == m);
                assert(ms.skip(1) =~= nfa_cwl_stream(n, hs, p.1));
                theorem_cwl_sound(n, hs, p.1);
                let (k, q) = choose|k: int, q: Seq<char>| 0 < k <= all.len() && p.1 == pos + byte_len(all.take(k)) && #[trigger] is_suffix(q, all.take(k)) && rec_of(n, q, n.outputs@[p.0 - 1]);
                assert(is_registered(n, q));
                assert(m.length == byte_len(q));
                assert(m.end == p.1);
            }
        },
    }
}
proof fn theorem_cwl_sound_post<V>(n: NfaBuilder<char, V>, hs: &str)
    requires nfa_tree(n), nfa_links(n, true), sound_facts(n), add_inv(n), str_blen(hs) <= usize::MAX,
    ensures lm_tiled_cw(n, hs, 0, nfa_cwl_stream(n, hs, 0)),
{
    assert(lmctx(n)) by { reveal(lmctx); reveal(sound_facts); }
    theorem_cwl_sound(n, hs, 0);
}
