// ---- trusted model of the two `str` operations the char-wise leftmost iterator performs ----
// str_boundary(s, p): p is a char boundary of s (0 <= p <= len, not inside a UTF-8 sequence);
// tail_chars(s, p): the characters of s from byte offset p on.  The three axioms are facts about well-formed UTF-8
// (every &str is well formed): offset 0 is a boundary; skipping the encoded width of the first character of a tail lands
// on the next boundary and drops exactly that character; boundaries lie inside the string.
pub uninterp spec fn str_boundary(s: &str, p: int) -> bool;
pub uninterp spec fn tail_chars(s: &str, p: int) -> Seq<char>;
pub uninterp spec fn str_blen(s: &str) -> nat;

#[verifier::external_body]
pub proof fn axiom_str_start(s: &str)
    ensures str_boundary(s, 0),
{
}
#[verifier::external_body]
pub proof fn axiom_str_step(s: &str, p: int)
    requires str_boundary(s, p), tail_chars(s, p).len() > 0,
    ensures str_boundary(s, p + tail_chars(s, p)[0].len_utf8()), tail_chars(s, p + tail_chars(s, p)[0].len_utf8()) == tail_chars(s, p).skip(1),
{
}
#[verifier::external_body]
pub proof fn axiom_str_bound(s: &str, p: int)
    requires str_boundary(s, p),
    ensures 0 <= p <= str_blen(s), str_blen(s) <= isize::MAX, (p == str_blen(s)) == (tail_chars(s, p).len() == 0),
{
}

// R24: `unsafe { H.get_unchecked(P..) }.chars()` is redirected to this wrapper (body = the original expression).
// The precondition is the safety condition of str::get_unchecked: P is a char boundary of H.
#[verifier::external_body]
pub fn verif_str_tail_chars<'a>(s: &'a str, p: usize) -> (r: core::str::Chars<'a>)
    requires str_boundary(s, p as int),
    ensures vstd::std_specs::iter::IteratorSpec::remaining(&r) == tail_chars(s, p as int),
        vstd::std_specs::iter::IteratorSpec::obeys_prophetic_iter_laws(&r),
        vstd::std_specs::iter::IteratorSpec::decrease(&r).is_some(),
{
    unsafe { s.get_unchecked(p..) }.chars()
}
